import BFL.Proofs.LifecycleHist
/-
C09 — liveness under fairness for every command placement, and the exact conditions under which
a step can still start after a teardown / reset request.

`reset_leads_to_init` (LifecycleLive) lets the thread run alone.  Here the controller keeps
issuing commands (`run`, `reset`, `wait`, spurious wake-ups) at every point; the only
assumptions are fairness (the thread gets 14 moves), that the run condition holds, and that
nobody asks for the opposite (no `teardown`, no `reboot`).
-/
namespace BFL.Life

/-- what the environment may do while a new epoch is awaited: thread moves (the run condition
holds), `run`, `reset`, `wait`, spurious wake-ups — no `teardown`, no `reboot` -/
def Benign : Act → Prop
  | .t b => b = true
  | .c .run => True
  | .c .reset => True
  | .c .wait => True
  | .spur => True
  | _ => False

instance : DecidablePred Benign := fun a => by
  cases a with
  | t b => exact inferInstanceAs (Decidable (b = true))
  | c x => cases x <;> simp only [Benign] <;> infer_instance
  | fin => simp only [Benign]; infer_instance
  | spur => simp only [Benign]; infer_instance

theorem step_hist_grows (cfg : Cfg) (s : St) (a : Act) : ∃ l, (step cfg s a).hist = l ++ s.hist := by
  rcases step_hist_cases cfg s a with h | ⟨e, h⟩
  · exact ⟨[], by simpa using h⟩
  · exact ⟨[e], by simpa using h⟩

theorem exec_hist_grows (cfg : Cfg) (as : List Act) : ∀ s : St, ∃ l, (exec cfg s as).hist = l ++ s.hist := by
  induction as with
  | nil => intro s; exact ⟨[], by simp [exec]⟩
  | cons a as ih =>
    intro s
    obtain ⟨l1, h1⟩ := step_hist_grows cfg s a
    obtain ⟨l2, h2⟩ := ih (step cfg s a)
    exact ⟨l2 ++ l1, by rw [exec_cons, h2, h1, List.append_assoc]⟩

/-- a benign action of the controller keeps the thread where it is and keeps it heading for the
initialisation -/
theorem resetting_benign (s : St) (a : Act) (h : Resetting s) (hb : Benign a) (hm : move a = 0) :
    Resetting (step Cfg.current s a) ∧ (step Cfg.current s a).pc = s.pc := by
  obtain ⟨pc, run, reset, td, stp, woken, mid, joined, hist⟩ := s
  simp only [Resetting, NoLost, Cfg.current] at h
  obtain ⟨hL, hr, ht, hmid, h1, h2, h3⟩ := h
  (try simp only at hr ht hmid h1 h2); subst hr; subst ht; subst hmid
  cases a with
  | c x =>
    cases x <;> simp only [Benign] at hb <;> simp only [step, ctl, Cfg.current] <;> (try split) <;>
      simp_all [Resetting, NoLost, Cfg.current] <;> (try grind)
  | fin => simp [Benign] at hb
  | spur => simp only [step]; split <;> simp_all [Resetting, NoLost, Cfg.current] <;> (try grind)
  | t b => simp [move] at hm

/-- the move out of `preInit` is the initialisation -/
theorem preInit_move (s : St) (c : Bool) (h : s.pc = .preInit) :
    (step Cfg.current s (.t c)).hist = Ev.init :: s.hist := by
  obtain ⟨pc, run, reset, td, stp, woken, mid, joined, hist⟩ := s
  simp only at h; subst h
  simp [step, thr]

theorem fair_init_from (as : List Act) : ∀ s : St, Resetting s → (∀ a ∈ as, Benign a) →
    vInit s.pc + 1 ≤ moves as → ∃ l, (exec Cfg.current s as).hist = l ++ s.hist ∧ Ev.init ∈ l := by
  induction as with
  | nil => intro s _ _ h; simp [moves] at h
  | cons a as ih =>
    intro s hR hb hv
    have hba := hb a (by simp)
    have hbs : ∀ x ∈ as, Benign x := fun x hx => hb x (by simp [hx])
    rw [exec_cons]
    cases a with
    | t b =>
      have hbt : b = true := hba
      subst hbt
      by_cases hp : s.pc = .preInit
      · obtain ⟨l, hl⟩ := exec_hist_grows Cfg.current as (step Cfg.current s (.t true))
        refine ⟨l ++ [Ev.init], ?_, by simp⟩
        rw [hl, preInit_move s true hp]; simp
      · obtain ⟨hR', hlt⟩ := resetting_step s hR hp
        obtain ⟨l1, h1⟩ := step_hist_grows Cfg.current s (.t true)
        have hv' : vInit (step Cfg.current s (.t true)).pc + 1 ≤ moves as := by
          simp only [moves, List.map_cons, List.sum_cons, move] at hv ⊢
          omega
        obtain ⟨l, hl, hi⟩ := ih _ hR' hbs hv'
        exact ⟨l ++ l1, by rw [hl, h1, List.append_assoc], by simp [hi]⟩
    | c x =>
      obtain ⟨hR', hpc⟩ := resetting_benign s (.c x) hR hba rfl
      obtain ⟨l1, h1⟩ := step_hist_grows Cfg.current s (.c x)
      have hv' : vInit (step Cfg.current s (.c x)).pc + 1 ≤ moves as := by
        rw [hpc]; simpa [moves, move] using hv
      obtain ⟨l, hl, hi⟩ := ih _ hR' hbs hv'
      exact ⟨l ++ l1, by rw [hl, h1, List.append_assoc], by simp [hi]⟩
    | fin => exact absurd hba (by simp [Benign])
    | spur =>
      obtain ⟨hR', hpc⟩ := resetting_benign s .spur hR hba rfl
      obtain ⟨l1, h1⟩ := step_hist_grows Cfg.current s .spur
      have hv' : vInit (step Cfg.current s .spur).pc + 1 ≤ moves as := by
        rw [hpc]; simpa [moves, move] using hv
      obtain ⟨l, hl, hi⟩ := ih _ hR' hbs hv'
      exact ⟨l ++ l1, by rw [hl, h1, List.append_assoc], by simp [hi]⟩

/-! ### when can a step still start after a request? -/

theorem countSteps_append (l1 l2 : List Ev) : countSteps (l1 ++ l2) = countSteps l1 + countSteps l2 := by
  simp [countSteps, List.filter_append]

/-- teardown is requested and the thread has not yet read `!teardown_` for a step it will make:
it is anywhere but between that read and the step -/
def TdOut (s : St) : Prop := s.teardown = true ∧ s.pc ≠ .inC ∧ s.pc ≠ .aboutStep

theorem tdout_step : ∀ (cfg : Cfg) (s : St) (a : Act), TdOut s →
    TdOut (step cfg s a) ∧ countSteps (step cfg s a).hist = countSteps s.hist := by
  intro cfg s a h
  obtain ⟨pc, run, reset, td, stp, woken, mid, joined, hist⟩ := s
  simp only [TdOut] at h
  obtain ⟨htd, h1, h2⟩ := h
  (try simp only at htd h1 h2); subst htd
  cases a with
  | c x => cases x <;> simp only [step, ctl] <;> (try split) <;> simp_all [TdOut, countSteps, isStep]
  | fin => simp only [step, fin]; split <;> simp_all [TdOut, countSteps, isStep]
  | spur => simp only [step]; split <;> simp_all [TdOut, countSteps, isStep]
  | t b =>
    cases pc <;> simp only [step, thr] <;> (repeat' split) <;>
      simp_all [Option.getD, TdOut, countSteps, isStep]

theorem tdout_exec (cfg : Cfg) (as : List Act) : ∀ s : St, TdOut s →
    countSteps (exec cfg s as).hist = countSteps s.hist := by
  induction as with
  | nil => intro s _; simp [exec]
  | cons a as ih =>
    intro s h
    obtain ⟨h', hc⟩ := tdout_step cfg s a h
    rw [exec_cons, ih _ h', hc]

/-- the thread is outside the stepping loop -/
def OutsideLoop : PC → Bool
  | .inInit | .inA | .inB | .inC | .aboutStep | .inStep | .incr => false
  | _ => true

/-- no step can start before the next initialisation: the thread has not committed to a step
(`aboutStep`) and either a reset is pending or the thread is outside the stepping loop -/
def RsOut (s : St) : Prop := s.pc ≠ .aboutStep ∧ (s.reset = true ∨ OutsideLoop s.pc = true)

theorem rsout_step : ∀ (cfg : Cfg) (s : St) (a : Act), RsOut s →
    (step cfg s a).hist = Ev.init :: s.hist ∨
    (RsOut (step cfg s a) ∧ (step cfg s a).hist = s.hist) ∨
    (RsOut (step cfg s a) ∧ ∃ e, (step cfg s a).hist = e :: s.hist ∧ isStep e = false ∧ e ≠ Ev.init) := by
  intro cfg s a h
  obtain ⟨pc, run, reset, td, stp, woken, mid, joined, hist⟩ := s
  simp only [RsOut] at h
  obtain ⟨h1, h2⟩ := h
  (try simp only at h1 h2)
  cases a with
  | c x =>
    cases x <;> simp only [step, ctl] <;> (try split) <;>
      simp_all [RsOut, OutsideLoop, isStep]
  | fin => simp only [step, fin]; split <;> simp_all [RsOut, OutsideLoop, isStep]
  | spur => simp only [step]; split <;> simp_all [RsOut, OutsideLoop, isStep]
  | t b =>
    cases pc <;> simp only [step, thr] <;> (repeat' split) <;> simp only [Option.getD] <;>
      simp_all [RsOut, OutsideLoop, isStep]

theorem rsout_exec (cfg : Cfg) (as : List Act) : ∀ s : St, RsOut s →
    ∃ l, (exec cfg s as).hist = l ++ s.hist ∧ (Ev.init ∉ l → countSteps l = 0) := by
  induction as with
  | nil => intro s _; exact ⟨[], by simp [exec], fun _ => by simp [countSteps]⟩
  | cons a as ih =>
    intro s h
    rw [exec_cons]
    rcases rsout_step cfg s a h with hi | ⟨h', hl1⟩ | ⟨h', e, hl1, he1, he2⟩
    · obtain ⟨l2, hl2⟩ := exec_hist_grows cfg as (step cfg s a)
      refine ⟨l2 ++ [Ev.init], by rw [hl2, hi]; simp, fun hn => absurd (by simp) hn⟩
    · obtain ⟨l2, hl2, hc2⟩ := ih _ h'
      exact ⟨l2, by rw [hl2, hl1], hc2⟩
    · obtain ⟨l2, hl2, hc2⟩ := ih _ h'
      refine ⟨l2 ++ [e], by rw [hl2, hl1]; simp, fun hn => ?_⟩
      have : Ev.init ∉ l2 := fun hx => hn (by simp [hx])
      rw [countSteps_append, hc2 this]
      simp [countSteps, he1]

/-! ### the mutex is exclusive; the thread's end clears `run_` -/

/-- the controller holds the mutex (between the two stores of `reboot()`) only while the thread does not -/
def Excl (s : St) : Prop := s.mid = true → s.pc ≠ .blocking

theorem excl_step : ∀ (cfg : Cfg) (s : St) (a : Act), Excl s → Excl (step cfg s a) := by
  life_bash Excl []

theorem excl_all (cfg : Cfg) (as : List Act) : Excl (runAll cfg as) :=
  inv_exec cfg (excl_step cfg) as _ (by simp [Excl, St.boot])

/-- once the thread has ended `run_` is false, as long as nobody calls `run()` -/
def EndOff (s : St) : Prop := s.pc = .done → s.run = false

theorem endoff_step (cfg : Cfg) (s : St) (a : Act) (ha : a ≠ .c .run) (h : EndOff s) : EndOff (step cfg s a) := by
  obtain ⟨pc, run, reset, td, stp, woken, mid, joined, hist⟩ := s
  simp only [EndOff] at h
  cases a with
  | c x =>
    cases x <;> simp only [step, ctl] <;> (try split) <;> simp_all [EndOff]
  | fin => simp only [step, fin]; split <;> simp_all [EndOff]
  | spur => simp only [step]; split <;> simp_all [EndOff]
  | t b =>
    cases pc <;> simp only [step, thr] <;> (repeat' split) <;> simp_all [Option.getD, EndOff]

theorem endoff_exec (cfg : Cfg) (as : List Act) : ∀ s : St, (∀ a ∈ as, a ≠ Act.c Cmd.run) → EndOff s →
    EndOff (exec cfg s as) := by
  induction as with
  | nil => intro s _ h; simpa [exec] using h
  | cons a as ih =>
    intro s hn h
    rw [exec_cons]
    exact ih _ (fun x hx => hn x (by simp [hx])) (endoff_step cfg s a (hn a (by simp)) h)

end BFL.Life
