import BFL.Core.Transc
/-
Model of systematic resampling and its prior-mixing variant.

  Resampling::resample, Resampling::neff        src/BayesFilters/src/Resampling.cpp
  ResamplingWithPrior::resample, sort_indices   src/BayesFilters/src/ResamplingWithPrior.cpp
  ParticleSet::operator+=                       src/BayesFilters/src/ParticleSet.cpp
  utils::log_sum_exp                            src/BayesFilters/include/BayesFilters/utils.h

Everything is polymorphic in the scalar `α`: read over `ℝ` (and any linearly ordered field) by the
theorems, over `Rat` for the exact execution of the selection on the very `exp(wᵢ)` values the C++
computed, over `Float` where `exp`/`log` occur.  No Mathlib here (linked into `bfl_driver`).

The single random draw `u₁` (`uniform_real_distribution(0, 1/N)` on a `std::mt19937_64`) is a
parameter of the model; the harness obtains the value actually drawn with a twin generator.
-/
namespace BFL.PF

variable {α π : Type}

/-! ### The selection loop of `Resampling::resample` -/

/-- Comb point `u_j = u₁ + j/N`   (`double u_j = u_1 + static_cast<double>(j)/num_particles`). -/
def comb [Add α] [Div α] [NatCast α] (N : Nat) (u1 : α) (j : Nat) : α :=
  u1 + (j : α) / (N : α)

/-- `while (u_j > csw(idx_csw) && idx_csw < (num_particles - 1)) idx_csw += 1;`
    The loop body runs at most `N - 1` times, so `fuel = N` iterations always reach the exit test. -/
def advance [LT α] [DecidableLT α] (c : Nat → α) (N : Nat) (u : α) : Nat → Nat → Nat
  | 0, idx => idx
  | fuel + 1, idx => if c idx < u ∧ idx < N - 1 then advance c N u fuel (idx + 1) else idx

/-- `for (j = 0; j < N; ++j) { u_j = …; while …; res_parents(j) = idx_csw; }` — the pointer
    `idx_csw` is carried from one `j` to the next (it is declared outside the `for`). -/
def selectLoop [Add α] [Div α] [NatCast α] [LT α] [DecidableLT α]
    (c : Nat → α) (N : Nat) (u1 : α) : Nat → Nat → Nat → List Nat
  | 0, _, _ => []
  | todo + 1, j, idx =>
    let idx' := advance c N (comb N u1 j) N idx
    idx' :: selectLoop c N u1 todo (j + 1) idx'

/-- Parents chosen for cumulative weights `c 0 … c (N-1)` and offset `u₁`. -/
def select [Add α] [Div α] [NatCast α] [LT α] [DecidableLT α]
    (c : Nat → α) (N : Nat) (u1 : α) : List Nat :=
  selectLoop c N u1 N 0 0

/-- running sums after the first element: `csw(i) = csw(i-1) + w(i)` -/
def cumFrom [Add α] : α → List α → List α
  | _, [] => []
  | acc, x :: xs => (acc + x) :: cumFrom (acc + x) xs

/-- `csw(0) = w(0); for i ≥ 1: csw(i) = csw(i-1) + w(i)` -/
def csw [Add α] : List α → List α
  | [] => []
  | x :: xs => x :: cumFrom x xs

/-- Parents selected for the (linear-domain) weights `ws` — the C++ passes `exp(weight(i))`. -/
def resampleIdx [Add α] [Div α] [NatCast α] [LT α] [DecidableLT α] [Inhabited α]
    (ws : List α) (u1 : α) : List Nat :=
  let c := (csw ws).toArray
  select (fun i => c.getD i default) ws.length u1

/-- `Resampling::neff` on linear-domain weights: `1 / Σ wᵢ²`. -/
def neff [Add α] [Mul α] [Div α] [Zero α] [One α] (ws : List α) : α :=
  1 / (ws.map (fun x => x * x)).sum

/-- `Resampling::neff(cor_weights)`: `1.0 / cor_weights.array().exp().square().sum()`. -/
def neffLog [Transc α] [Add α] [Mul α] [Div α] [Zero α] [One α] (logw : List α) : α :=
  neff (logw.map Transc.exp)

/-! ### `utils::log_sum_exp` -/

/-- `data.maxCoeff()` (first maximal entry; `default` for an empty vector, where Eigen asserts). -/
def maxCoeff [LT α] [DecidableLT α] [Inhabited α] : List α → α
  | [] => default
  | x :: xs => xs.foldl (fun m y => if m < y then y else m) x

/-- `max + log(Σ exp(xᵢ - max))`. -/
def logSumExp [Transc α] [Add α] [Sub α] [Zero α] [LT α] [DecidableLT α] [Inhabited α] (xs : List α) : α :=
  let m := maxCoeff xs
  m + Transc.log ((xs.map (fun x => Transc.exp (x - m))).sum)

/-- `weight().array() -= log_sum_exp(weight())`. -/
def normalizeLog [Transc α] [Add α] [Sub α] [Zero α] [LT α] [DecidableLT α] [Inhabited α] (xs : List α) : List α :=
  let l := logSumExp xs
  xs.map (fun x => x - l)

/-! ### Particle sets -/

/-- What the resampling code sees of a `bfl::ParticleSet`: the public bookkeeping fields, the
    columns (state, mean and covariance of one particle are one `π`) and the log-weights. -/
structure PSet (π α : Type) where
  /-- `components` -/
  n : Nat
  /-- `dim_linear` -/
  lin : Nat
  /-- `dim_circular` -/
  circ : Nat
  /-- `use_quaternion` (circular components stored as unit quaternions: 4 rows each) -/
  quat : Bool := false
  /-- columns of `state_`, `mean_`, `covariance_` -/
  parts : List π
  /-- `weight_` -/
  logw : List α

/-- `ParticleSet(n, lin, circ, use_quaternion = false)`: `n` columns of unspecified content
    (`default`), weights `1/n` (the `GaussianMixture` constructor stores *linear*
    `1.0 / components` there). -/
def PSet.fresh [Inhabited π] [Div α] [One α] [NatCast α] (n lin circ : Nat) (quat : Bool := false) : PSet π α :=
  { n := n, lin := lin, circ := circ, quat := quat, parts := List.replicate n default,
    logw := List.replicate n (1 / (n : α)) }

/-- `ParticleSet::operator+=` (through `operator+`): columns and weights are concatenated, the
    component count is the sum (commit 2c84227), the layout fields stay those of the left operand. -/
def PSet.append (a b : PSet π α) : PSet π α :=
  { n := a.n + b.n, lin := a.lin, circ := a.circ, quat := a.quat,
    parts := a.parts ++ b.parts, logw := a.logw ++ b.logw }

/-- `Resampling::resample(cor, res, parents)`: entries `j < N` of `res` (N = number of weights of
    `cor`) are overwritten by copies of the selected particles, their weights by `-log N`; the
    other fields of `res` are not touched.  (`res` with fewer than `N` columns is an Eigen assertion
    in the C++; the model is meant for `res.parts.length ≥ N`.) -/
def resample [Transc α] [Add α] [Div α] [Neg α] [NatCast α] [LT α] [DecidableLT α] [Inhabited α] [Inhabited π]
    (cor res : PSet π α) (u1 : α) : PSet π α × List Int :=
  let N := cor.logw.length
  let par := resampleIdx (cor.logw.map Transc.exp) u1
  let src := cor.parts.toArray
  ({ res with
       parts := par.map (fun p => src.getD p default) ++ res.parts.drop N
       logw := List.replicate N (-(Transc.log (N : α))) ++ res.logw.drop N },
   par.map Int.ofNat)

/-- Successive `resample()` calls on ONE `Resampling` object: the only state the object carries from
    call to call is its generator, i.e. the stream of draws — call `i` uses draw `i` (a value of
    `uniform(0, 1/Nᵢ)` for *its own* particle count `Nᵢ`; the distribution object is a local of
    `resample`).  Nothing else (no particle count, cumulative weights, output weight) survives a call. -/
def resampleSeq [Transc α] [Add α] [Div α] [Neg α] [NatCast α] [LT α] [DecidableLT α] [Inhabited α] [Inhabited π]
    (calls : List (PSet π α × PSet π α)) (us : List α) : List (PSet π α × List Int) :=
  List.zipWith (fun c u => resample c.1 c.2 u) calls us

/-- `num_prior_particles = static_cast<int>(std::floor(cor_particles.state().cols() * prior_ratio_))`;
    `fl` is `std::floor` followed by the conversion to `int`. -/
def numPrior [Mul α] [NatCast α] (fl : α → Nat) (ratio : α) (cor : PSet π α) : Nat :=
  fl ((cor.parts.length : α) * ratio)

/-- `tmp_particles` of `ResamplingWithPrior::resample` after its weights were normalised: the
    particles at sorted positions `k, k+1, …` (ascending weight), i.e. all but the `k` lowest.
    `sortIdx v` is `sort_indices(v)`: the indices `0 … N-1` ordered by ascending `v`.  `std::sort`
    is not stable, the order among equal weights is unspecified: `sortIdx` is a parameter with the
    contract "a permutation of `0 … N-1` along which `v` is non-decreasing". -/
def priorTmp [Transc α] [Add α] [Sub α] [Zero α] [LT α] [DecidableLT α] [Inhabited α] [Inhabited π]
    (sortIdx : List α → List Nat) (cor : PSet π α) (k : Nat) : PSet π α :=
  let order := sortIdx (cor.logw.map Transc.exp)
  let kept := order.drop k                         -- `if (j >= num_prior_particles)`
  let srcP := cor.parts.toArray
  let srcW := cor.logw.toArray
  { n := cor.parts.length - k, lin := cor.lin, circ := cor.circ, quat := cor.quat,
    parts := kept.map (fun i => srcP.getD i default),
    logw := normalizeLog (kept.map (fun i => srcW.getD i default)) }

/-- `ResamplingWithPrior::resample`; `init` is `init_model_->initialize(res_particles_left)`.
    The result replaces `res_particles` altogether (`res_particles = std::move(left + right)`),
    then all weights are set to `-log N`; the first `k` parents are `-1`, the others are the
    parents reported by `Resampling::resample` on `tmp_particles`, offset by `k` (they index the
    *sorted* temporary set). -/
def resampleWithPrior [Transc α] [Add α] [Sub α] [Mul α] [Div α] [Neg α] [Zero α] [One α] [NatCast α]
    [LT α] [DecidableLT α] [Inhabited α] [Inhabited π]
    (fl : α → Nat) (sortIdx : List α → List Nat) (init : PSet π α → PSet π α)
    (ratio : α) (cor : PSet π α) (u1 : α) : PSet π α × List Int :=
  let N := cor.parts.length                        -- cor_particles.state().cols()
  let k := numPrior fl ratio cor                   -- num_prior_particles
  let m := N - k                                   -- num_resample_particles
  let r := resample (priorTmp sortIdx cor k) (PSet.fresh m cor.lin cor.circ cor.quat) u1
  let merged := (init (PSet.fresh k cor.lin cor.circ cor.quat)).append r.1
  ({ merged with logw := merged.logw.map (fun _ => -(Transc.log (N : α))) },
   List.replicate k (-1) ++ r.2.map (fun p => p + (k : Int)))

/-! ### Configuration of a `ResamplingWithPrior` object under move construction / move assignment -/

/-- what a `ResamplingWithPrior` object is configured with: `prior_ratio_`, the generator (as the
    stream of its future draws) and whether it owns an initialisation model -/
structure RwpObj (α : Type) where
  ratio : α
  rng : List α
  hasInit : Bool

/-- `ResamplingWithPrior(ResamplingWithPrior&&)`: generator, initialisation model and `prior_ratio_`
    go to the new object; the moved-from object is left with ratio `0.5` and no model.
    Returns (new object, moved-from object). -/
def RwpObj.moveConstruct [OfScientific α] (src : RwpObj α) : RwpObj α × RwpObj α :=
  ({ ratio := src.ratio, rng := src.rng, hasInit := src.hasInit },
   { ratio := 0.5, rng := src.rng, hasInit := false })

/-- `ResamplingWithPrior::operator=(ResamplingWithPrior&&)`: the generator (`Resampling::operator=`),
    the initialisation model and `prior_ratio_` (commit f722f03) are those of the source; the
    moved-from object is left with ratio `0.5` and no model.  Returns (target, moved-from source). -/
def RwpObj.moveAssign [OfScientific α] (_tgt src : RwpObj α) : RwpObj α × RwpObj α :=
  ({ ratio := src.ratio, rng := src.rng, hasInit := src.hasInit },
   { ratio := 0.5, rng := src.rng, hasInit := false })

/-! ### Construction and hand-over of resampling objects

`Resampling` has a seeded and a default constructor, copy / move constructors and three assignment operators;
`ResamplingWithPrior` has three constructor overloads, a move constructor and a move assignment (it owns its
initialisation model through a `unique_ptr`: no copies).  What an object is configured with — and must keep
when it is handed on — is: which class it is, the prior ratio, the seed its generator was built from and how
many draws that generator has produced. -/

/-- configuration of a resampling object -/
structure RsCfg (α : Type) where
  /-- a `ResamplingWithPrior` (owning an initialisation model) rather than a plain `Resampling` -/
  prior : Bool
  /-- `prior_ratio_` (meaningless for a plain `Resampling`) -/
  ratio : α
  /-- seed of `generator_` -/
  seed : Nat
  /-- number of values `generator_` has produced since it was seeded -/
  drawn : Nat
  deriving DecidableEq

/-- the constructor overloads -/
inductive RsCtor (α : Type) where
  | rs (seed : Nat)                       -- `Resampling(unsigned int seed)`
  | rsDefault                             -- `Resampling()` = `Resampling(1)`
  | rwp3 (ratio : α) (seed : Nat)         -- `ResamplingWithPrior(init, prior_ratio, seed)`
  | rwp2 (ratio : α)                      -- `ResamplingWithPrior(init, prior_ratio)`: `Resampling(1)`
  | rwp1                                  -- `ResamplingWithPrior(init)`: `Resampling(1)`, `prior_ratio_ = 0.5`

def RsCtor.build [OfScientific α] : RsCtor α → RsCfg α
  | .rs seed => { prior := false, ratio := 0.0, seed := seed, drawn := 0 }
  | .rsDefault => { prior := false, ratio := 0.0, seed := 1, drawn := 0 }
  | .rwp3 ratio seed => { prior := true, ratio := ratio, seed := seed, drawn := 0 }
  | .rwp2 ratio => { prior := true, ratio := ratio, seed := 1, drawn := 0 }
  | .rwp1 => { prior := true, ratio := 0.5, seed := 1, drawn := 0 }

/-- what can happen to the object a filter (or a test) holds -/
inductive RsOp (α : Type) where
  | call                                  -- one `resample()`: one draw of the generator
  | copyConstruct                         -- `Resampling(const Resampling&)`: continue with the copy
  | moveConstruct                         -- `Resampling(Resampling&&)` / `ResamplingWithPrior(ResamplingWithPrior&&)`
  | copyAssign (target : RsCfg α)         -- `target = obj` (through a temporary copy and the move assignment)
  | moveAssign (target : RsCfg α)         -- `target = std::move(obj)`; with `prior_ratio_` since f722f03

/-- the object in use after the operation: a hand-over yields an object with the generator state (seed and
    number of draws), class and ratio of the source — whatever the assigned-to object was configured with -/
def RsCfg.apply (c : RsCfg α) : RsOp α → RsCfg α
  | .call => { c with drawn := c.drawn + 1 }
  | .copyConstruct => { prior := c.prior, ratio := c.ratio, seed := c.seed, drawn := c.drawn }
  | .moveConstruct => { prior := c.prior, ratio := c.ratio, seed := c.seed, drawn := c.drawn }
  | .copyAssign _ => { prior := c.prior, ratio := c.ratio, seed := c.seed, drawn := c.drawn }
  | .moveAssign _ => { prior := c.prior, ratio := c.ratio, seed := c.seed, drawn := c.drawn }

/-- a whole life of hand-overs and calls -/
def RsCfg.run (c : RsCfg α) (ops : List (RsOp α)) : RsCfg α := ops.foldl RsCfg.apply c

def RsOp.isCall : RsOp α → Bool
  | .call => true
  | _ => false

end BFL.PF
