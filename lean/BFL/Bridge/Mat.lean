import BFL.Core.Mat
import Mathlib.Data.Matrix.Mul
import Mathlib.Algebra.BigOperators.Fin
import Mathlib.Data.Real.Basic
/-
Bridge from the executable model vocabulary (`BFL.Mat`, `fsum`) to Mathlib's `Matrix`
and `Finset.sum`.  `toM` is the identity on the underlying function.
-/
namespace BFL
open Matrix

variable {α : Type} {r c k n : Nat}

def toM (A : Mat α r c) : Matrix (Fin r) (Fin c) α := Matrix.of A.get
def toV (v : Vec α n) : Fin n → α := v.get

@[simp] theorem toM_apply (A : Mat α r c) (i : Fin r) (j : Fin c) : toM A i j = A i j := rfl
@[simp] theorem toV_apply (v : Vec α n) (i : Fin n) : toV v i = v i := rfl

theorem fsum_eq_sum [AddCommMonoid α] : ∀ (k : Nat) (f : Fin k → α), fsum k f = ∑ l, f l
  | 0, f => by simp [fsum, Fin.foldl_zero]
  | k+1, f => by
    have ih := fsum_eq_sum k (fun l => f l.castSucc)
    unfold fsum at ih ⊢
    rw [Fin.foldl_succ_last, Fin.sum_univ_castSucc, ih]

section semiring
variable [NonUnitalNonAssocSemiring α]

@[simp] theorem toM_mul [Inhabited α] (A : Mat α r k) (B : Mat α k c) : toM (Mat.mul A B) = toM A * toM B := by
  ext i j; simp only [toM_apply, Mat.mul_apply, Matrix.mul_apply]; exact fsum_eq_sum k _

@[simp] theorem toV_mulVec [Inhabited α] (A : Mat α r c) (v : Vec α c) : toV (Mat.mulVec A v) = (toM A) *ᵥ (toV v) := by
  ext i; simp only [toV_apply, Mat.mulVec_apply, Matrix.mulVec, dotProduct, toM_apply]; exact fsum_eq_sum c _

@[simp] theorem toM_add (A B : Mat α r c) : toM (Mat.add A B) = toM A + toM B := by
  ext i j; simp [Mat.add]

@[simp] theorem toV_add (u v : Vec α n) : toV (Vec.add u v) = toV u + toV v := by
  ext i; simp [Vec.add]

@[simp] theorem toM_zero : toM (Mat.zero : Mat α r c) = 0 := by
  ext i j; simp [Mat.zero]

theorem dot_eq (u v : Vec α n) : Vec.dot u v = toV u ⬝ᵥ toV v := by
  simp only [Vec.dot, dotProduct, toV_apply]; exact fsum_eq_sum n _
end semiring

@[simp] theorem toM_transpose (A : Mat α r c) : toM (Mat.transpose A) = (toM A)ᵀ := by
  ext i j; simp [Mat.transpose]

section ring
variable [NonUnitalNonAssocRing α]
@[simp] theorem toM_sub (A B : Mat α r c) : toM (Mat.sub A B) = toM A - toM B := by
  ext i j; simp [Mat.sub]
@[simp] theorem toM_neg (A : Mat α r c) : toM (Mat.neg A) = - toM A := by
  ext i j; simp [Mat.neg]
@[simp] theorem toV_sub (u v : Vec α n) : toV (Vec.sub u v) = toV u - toV v := by
  ext i; simp [Vec.sub]
@[simp] theorem toV_neg (u : Vec α n) : toV (Vec.neg u) = - toV u := by
  ext i; simp [Vec.neg]
end ring

@[simp] theorem toM_one [Zero α] [One α] : toM (Mat.one : Mat α r r) = 1 := by
  ext i j; simp [Mat.one, Matrix.one_apply]

@[simp] theorem toM_smul [Mul α] (s : α) (A : Mat α r c) : toM (Mat.smul s A) = s • toM A := by
  ext i j; simp [Mat.smul]

@[simp] theorem toV_smul [Mul α] (s : α) (v : Vec α n) : toV (Vec.smul s v) = s • toV v := by
  ext i; simp [Vec.smul]

theorem toM_injective : Function.Injective (toM : Mat α r c → Matrix (Fin r) (Fin c) α) := by
  intro A B h
  ext i j
  exact congrFun (congrFun h i) j

@[simp] theorem toM_of (f : Fin r → Fin c → α) : toM (Mat.of f) = Matrix.of f := rfl
@[simp] theorem toV_of (f : Fin n → α) : toV (Vec.of f) = f := rfl

end BFL
