import BFL.Model.Bounds.Filters
/-
C14 (round 4) — hand-over of objects (every kind incl. the self move `x = std::move(x)` behind the guards
`if (this == &other) return *this;` and `Resampling::operator=(const Resampling&&)`), EstimatesExtraction move operations,
`Logger` file handling (file streams indexed by position), `ParticleFilter::skip` / `GaussianFilter::skip` in front of a
filtering step, and the default (throwing) virtuals of StateModel / MeasurementModel / GaussianCorrection when reached
through the shipped classes.
-/
namespace BFL.Bounds
open W

/-! ### hand-over kinds -/

inductive HandKind where
  | moveAssign          -- A = std::move(B)
  | moveConstruct       -- C(std::move(B))
  | copyAssign          -- A = B
  | copyConstruct       -- C(B)
  | selfMoveAssign      -- B = std::move(B) through a reference: `if (this == &other) return *this;`
  | constRvalueAssign   -- A = static_cast<const T&&>(B)   (Resampling::operator=(const Resampling&&))
deriving DecidableEq, Repr

def HandKind.ofNat? : Nat → Option HandKind
  | 0 => some .moveAssign | 1 => some .moveConstruct | 2 => some .copyAssign | 3 => some .copyConstruct
  | 4 => some .selfMoveAssign | 5 => some .constRvalueAssign | _ => none

/-- Objects as slots: `some cfg` = a usable object configured `cfg`, `none` = moved-from.  `handStep k a b` hands the
    source `b` over to the receiver `a` and returns (the object in use afterwards, the source afterwards).
    `guarded = false` is the self move WITHOUT the `this == &other` guard for a class whose members do not survive a self
    move (e.g. `window_ = other.window_; other.window_ = 0;` of HistoryBuffer). -/
def handStep {α : Type} (k : HandKind) (guarded : Bool) (_a b : Option α) : Option α × Option α :=
  match k with
  | .moveAssign => (b, none)
  | .moveConstruct => (b, none)
  | .copyAssign => (b, b)
  | .copyConstruct => (b, b)
  | .constRvalueAssign => (b, b)          -- a const rvalue cannot be moved from: its members are copied
  | .selfMoveAssign => if guarded then (b, b) else (none, none)

/-! ### EstimatesExtraction: move construction / move assignment / self move between extractions -/

inductive EEOp where
  | extract (m : EMethod) (full : Bool)       -- setMethod(m); extract(...) with particles of the CURRENT state size
  | setWindow (w : Nat)                       -- setMobileAverageWindowSize(w)
  | moveConstruct                             -- C(std::move(*this)); continue with C
  | moveSelf                                  -- *this = std::move(*this)
  | moveAssignFrom (ls2 cs2 w k : Nat) (m : EMethod)   -- *this = std::move(other); other = EstimatesExtraction(ls2, cs2), window w (0: default), after k extractions with method m
  | moveAssignInto (ls2 cs2 w k : Nat) (m : EMethod)   -- other = std::move(*this); continue with other
deriving Repr

/-- the arguments the harness passes: `N` particles with `linear + circular` rows, one weight / previous weight / likelihood
    per particle, an `N × N` transition table -/
def eeArgsFor (s : EEState) (N : Nat) : EEArgs := ⟨⟨s.ls + s.cs, N⟩, N, N, N, ⟨N, N⟩⟩

/-- `n` extractions (five-argument overload) with method `m`, returning the object's state -/
def eeRunState : EEState → EMethod → Nat → Nat → W EEState
  | s, _, _, 0 => pure s
  | s, m, N, n + 1 => do
    let (s', _, _) ← eeExtract s m true (eeArgsFor s N)
    eeRunState s' m N n

/-- another extractor, of sizes `(ls2, cs2)`, window `w`, used `k` times -/
def eeOther (ls2 cs2 w k : Nat) (m : EMethod) (N : Nat) : W EEState := do
  let s0 := EEState.new ls2 cs2
  let h ← (if w > 0 then histSetSize s0.hist w else pure s0.hist)
  eeRunState { s0 with hist := h } m N k

def eeHandStep (N : Nat) (s : EEState) : EEOp → W (EEState × String)
  | .extract m full => do
      let (s', av, sz) ← eeExtract s m full (eeArgsFor s N)
      pure (s', s!"{if av then 1 else 0}:{sz}")
  | .setWindow w =>
      if w > 0 then do let h ← histSetSize s.hist w; pure ({ s with hist := h }, "w1")
      else pure (s, "w0")
  -- the token carries the window `getInfo()` reports afterwards (the method in use is the one last set: checked by the harness)
  | .moveConstruct => pure (s, s!"m:{s.hist.window}")
  | .moveSelf => pure (s, s!"m:{s.hist.window}")
  -- move assignment hands over the method, the history buffer, the cached window weights AND linear_size_ / circular_size_ / state_size_
  | .moveAssignFrom ls2 cs2 w k m => do let o ← eeOther ls2 cs2 w k m N; pure (o, s!"m:{o.hist.window}")
  | .moveAssignInto ls2 cs2 w k m => do let _ ← eeOther ls2 cs2 w k m N; pure (s, s!"m:{s.hist.window}")

def eeHandRun (N : Nat) : EEState → List EEOp → W (List String)
  | _, [] => pure []
  | s, op :: ops => do
    let (s', t) ← eeHandStep N s op
    let rest ← eeHandRun N s' ops
    pure (t :: rest)

def eeHandCase (ls cs N : Nat) (ops : List EEOp) : Case := do
  let t ← eeHandRun N (EEState.new ls cs) ops
  pure (some t)

/-- a move assignment that hands over the history but keeps its OWN sizes (the sibling of seed C14-r3-2) -/
def eeMoveAssignKeepingSizes (dst src : EEState) : EEState := { src with ls := dst.ls, cs := dst.cs }

/-! ### Logger: `log_files_` is indexed by position -/

/-- what a class provides: the number of file names returned by `log_file_names()` and the number of data its `log()`
    hands to `logger(...)` -/
structure LogSpec where
  names : Nat
  data : Nat
deriving DecidableEq, Repr

structure LogSt where
  enabled : Bool
  files : Nat               -- log_files_.size()
  folder : Option Nat       -- folder_path_ (an identifier of the path), `none` = never set
deriving DecidableEq, Repr

def LogSt.init : LogSt := ⟨false, 0, none⟩

inductive LogOp where
  | enable (openable : Bool) (id : Nat)     -- enable_log(folder id, prefix); `openable` = the folder exists
  | disable
  | log                                     -- the class's `log()`
  | query                                   -- get_folder_path() / get_file_name_prefix()
deriving DecidableEq, Repr

def logStep (sp : LogSpec) (st : LogSt) : LogOp → W (LogSt × String)
  | .enable ok id =>
      if st.enabled then pure (st, "e0")
      else if sp.names = 0 then pure (st, "e0")                      -- "missing file names"
      else if ok then do
        -- for i < file_names.size(): log_files_.emplace_back(...); if (!log_files_[i].is_open()) ...
        forRange sp.names fun i => coeff "Logger::enable_log: log_files_[i]" (i + 1) i
        pure (⟨true, sp.names, some id⟩, "e1")
      else do
        coeff "Logger::enable_log: log_files_[i]" 1 0               -- the first file cannot be opened: clear, return false
        pure (⟨false, 0, some id⟩, "e0")
  | .disable => if st.enabled then pure (⟨false, 0, st.folder⟩, "d1") else pure (st, "d0")
  | .log => do
      -- logger(d_0, …, d_{k-1}): log_files_[pos] << d_pos for pos = 0 … k-1, only when the log is enabled
      let _ ← (if st.enabled then forRange sp.data fun pos => coeff "Logger::logger: log_files_[pos]" st.files pos else pure ())
      pure (st, "l")
  | .query => pure (st, match st.folder with | some i => s!"q{i}" | none => "q_")

def logRun (sp : LogSpec) : LogSt → List LogOp → W (List String)
  | _, [] => pure []
  | st, op :: ops => do
    let (st', t) ← logStep sp st op
    let rest ← logRun sp st' ops
    pure (t :: rest)

def logCase (sp : LogSpec) (ops : List LogOp) : Case := do
  let t ← logRun sp LogSt.init ops
  pure (some t)
/-- the contract of a Logger subclass: `log()` hands at most as many data to `logger` as `log_file_names()` names files -/
def logValid (sp : LogSpec) : Prop := sp.data ≤ sp.names
instance (sp : LogSpec) : Decidable (logValid sp) := by unfold logValid; infer_instance

/-- the shipped classes: 1 = SimulatedStateModel ("_target"; one datum), 2 = SimulatedLinearSensor / LinearModel
    ("_measurements"; one datum), 3 = SIS (four names; four data); 0 = the harness's own subclass with the given counts -/
def logSpecOf (cls n k : Nat) : LogSpec :=
  match cls with
  | 1 => ⟨1, 1⟩ | 2 => ⟨1, 1⟩ | 3 => ⟨4, 4⟩ | _ => ⟨n, k⟩

/-! ### `GaussianFilter::skip` / `ParticleFilter::skip` and the filtering step behind them -/

structure SkipSt where
  pred : Bool     -- GaussianPrediction::skip_ / PFPrediction::skip_
  state : Bool    -- StateModel::skip_
  exo : Bool      -- ExogenousModel::skip_
  corr : Bool     -- GaussianCorrection::skip_ / PFCorrection::skip_
deriving DecidableEq, Repr

def SkipSt.init : SkipSt := ⟨false, false, false, false⟩

inductive SkipWhat where | prediction | state | exogenous | correction | all | unknown
deriving DecidableEq, Repr

def SkipWhat.ofNat? : Nat → Option SkipWhat
  | 0 => some .prediction | 1 => some .state | 2 => some .exogenous | 3 => some .correction | 4 => some .all | 5 => some .unknown
  | _ => none

/-- `prediction_->skip(what, status)` (GaussianPrediction and PFPrediction have the same body); `none` = the call throws:
    "exogenous" without an attached model ends in `StateModel::exogenous_model()`, which throws before anything changes -/
def predSkip (hasExo : Bool) (st : SkipSt) (what : SkipWhat) (status : Bool) : Option (SkipSt × Bool) :=
  match what with
  | .prediction => some ({ st with pred := status, state := status, exo := if hasExo then status else st.exo }, true)
  | .state => some ({ st with state := status, pred := status && (!hasExo || st.exo) }, true)
  | .exogenous => if hasExo then some ({ st with exo := status, pred := st.state && status }, true) else none
  | _ => some (st, false)

/-- `GaussianFilter::skip` / `ParticleFilter::skip` (identical bodies) -/
def filterSkip (hasExo : Bool) (st : SkipSt) (what : SkipWhat) (status : Bool) : Option (SkipSt × Bool) :=
  match what with
  | .prediction => predSkip hasExo st .prediction status
  | .state => predSkip hasExo st .state status
  | .exogenous => predSkip hasExo st .exogenous status
  | .correction => some ({ st with corr := status }, true)
  | .all =>
    match predSkip hasExo st .prediction status with
    | some (st', r) => some ({ st' with corr := status }, r)
    | none => none
  | .unknown => some (st, false)

/-- the command history in front of the filtering steps: one token per command (`x` = threw), and the flags reached -/
def skipRun (hasExo : Bool) : SkipSt → List (SkipWhat × Bool) → SkipSt × List String
  | st, [] => (st, [])
  | st, (w, b) :: rest =>
    match filterSkip hasExo st w b with
    | some (st', r) =>
      let (fin, toks) := skipRun hasExo st' rest
      (fin, s!"{b01 r}:{b01 st'.pred}{b01 st'.state}{b01 (hasExo && st'.exo)}" :: toks)
    | none =>
      let (fin, toks) := skipRun hasExo st rest
      (fin, "x" :: toks)

/-- `KFPrediction::predict` under ANY flag state (`kfPredict` is the instance reached by a single command) -/
def kfPredictF (I : Layout) (K : Nat) (P : Layout) (pK fn : Nat) (st : SkipSt) (hasExo : Bool) : W (Layout × Nat) :=
  if st.pred then pure (I, K)                                 -- GaussianPrediction::predict: pred_state = prev_state
  else if st.state then pure (I, K)                           -- predictStep: getStateModel().is_skipping()
  else do
    let F : Shape := ⟨fn, fn⟩
    let _ ← linPropagateFull F (I.meanS K) (P.meanS pK) false hasExo st.exo
    forRange K fun i => do
      let d ← gmCov P pK i
      let pc ← gmCov I K i
      let a ← prod "KFPrediction: F * P" F pc
      let b ← prod "KFPrediction: F P * F^T" a F.t
      let c ← cwise "KFPrediction: F P F^T + Q" b F
      assignFixed "KFPrediction: pred_state.covariance(i).noalias() = ..." d c
    pure (P, pK)

/-- one filtering step of a GaussianFilter built from KFPrediction (`F : fn × fn`) and KFCorrection (`H : hm × fn`):
    `prediction_->predict(corr, pred); correction_->freeze_measurements(); correction_->correct(pred, corr)` -/
def gfStep (I : Layout) (K fn hm : Nat) (st : SkipSt) (hasExo : Bool) : W Unit := do
  let (L, k) ← kfPredictF I K I K fn st hasExo
  if st.corr then pure ()                                      -- GaussianCorrection::correct: corr_state = pred_state
  else do
    let _ ← kfCorrect L k L k hm fn hm true
    pure ()

def gfCase (hasExo : Bool) (fn K hm : Nat) (cmds : List (SkipWhat × Bool)) (steps : Nat) : Case := do
  if fn = 0 ∨ hm = 0 then pure none                            -- LTIStateModel / LTIMeasurementModel constructors throw
  else do
    let I : Layout := ⟨fn, 0, false, 0⟩
    let (st, toks) := skipRun hasExo SkipSt.init cmds
    forRange steps fun _ => gfStep I K fn hm st hasExo
    pure (some (toks ++ (storeOf K I).tokens))
def gfValid (fn K hm : Nat) : Prop := 1 ≤ fn ∧ 1 ≤ K ∧ 1 ≤ hm
instance (a b c : Nat) : Decidable (gfValid a b c) := by unfold gfValid; infer_instance

/-- `DrawParticles::predictStep` under any flag state of the state / exogenous model -/
def drawPredictF (d : Dim) (I : Layout) (N : Nat) (P : Layout) (pN : Nat) (hasExo : Bool) (st : SkipSt) : W Unit := do
  let m ← wnaCtor d
  let cur : Shape := ⟨I.dim, N⟩
  let mot : Shape := ⟨P.dim, pN⟩
  let _ ← linPropagateFull m.F cur mot st.state hasExo st.exo
  let ns ← wnaNoise m mot.c
  let _ ← cwise "AdditiveStateModel::motion: mot_states += getNoiseSample(cols)" mot ns
  assignFixed "DrawParticles: pred_particles.weight() = prev_particles.weight()" (vecS pN) (vecS N)

/-- `SIS::filtering_step` behind `ParticleFilter::skip` commands -/
def pfRun (N lin circ : Nat) (d : Dim) (nx ny hm steps : Nat) (hasExo : Bool) (st : SkipSt)
    (resampleAt : Nat → Bool) (gt : Nat → Nat → Bool) : W Unit := do
  let I : Layout := ⟨lin, circ, false, 0⟩
  let _ ← gridInit nx ny N I.dim
  let M : MMod := ⟨I, ⟨hm, 0, false, 0⟩, hm, 0, hm, hm, hm, true, true, true⟩
  forRange steps fun s => do
    -- PFPrediction::predict: skipped -> pred_particles = prev_particles
    let _ ← (if s ≠ 0 ∧ st.pred = false then drawPredictF d I N I N hasExo st else pure ())
    -- PFCorrection::correct: skipped -> cor_particles = pred_particles
    let _ ← (if st.corr then pure () else do
      let _ ← prod "LinearMeasurementModel::predictedMeasure: H * states" ⟨hm, I.dim⟩ ⟨I.dim, N⟩
      let _ ← bootstrapCorrect I N M
      pure ())
    nonEmpty "SIS: log_sum_exp(cor_particle_.weight()) -> maxCoeff" (vecS N)
    let _ ← (if resampleAt s then resample I N I N N gt else pure ())
    pure ()

def pfCase (hasExo : Bool) (N lin circ : Nat) (d : Dim) (nx ny hm : Nat) (cmds : List (SkipWhat × Bool)) (steps : Nat)
    (resampleAt : Nat → Bool) (gt : Nat → Nat → Bool) : Case := do
  if hm = 0 ∨ lin + circ = 0 then pure none
  else do
    let (st, toks) := skipRun hasExo SkipSt.init cmds
    pfRun N lin circ d nx ny hm steps hasExo st resampleAt gt
    let I : Layout := ⟨lin, circ, false, 0⟩
    pure (some (toks ++ [toString steps] ++ PSTokens I N ++ PSTokens I N))

/-! ### default (throwing) virtuals reached through the shipped classes -/

/-- 0: `DrawParticles(LTIStateModel F : fn × fn).predict` on `sr × N` particles — `LinearStateModel::propagate` runs, then
       `AdditiveStateModel::motion` asks `StateModel::getNoiseSample` (not overridden by LTIStateModel): throws
    1: `LTIStateModel::getTransitionProbability`, 2: `LTIStateModel::getNoiseSample`, 3: `WhiteNoiseAcceleration::getJacobian`,
    4: `MeasurementModel::getNoiseCovarianceMatrix` through `GaussianLikelihood::likelihood` on a model that does not provide it,
    5: `MeasurementModel::getInputDescription` / `getMeasurementDescription` (the latter through the measurement-model
       `unscented_transform`), 6: `GaussianCorrection::getLikelihood`, 7: `StateModel::getNoiseCovarianceMatrix` through
       `AdditiveStateModel::getInputDescription`; every one reports through `std::runtime_error` -/
def defaultsCase (which fn sr N : Nat) : Case := do
  match which with
  | 0 =>
    if fn = 0 then pure none
    else do
      linPropagate ⟨fn, fn⟩ ⟨sr, N⟩ ⟨sr, N⟩
      pure none
  | _ => pure none
def defaultsValid (which fn sr : Nat) : Prop := which = 0 → sr = fn
instance (a b c : Nat) : Decidable (defaultsValid a b c) := by unfold defaultsValid; infer_instance

/-! ### `getLikelihood()` queried after the (time-varying) measurement model changed its size

`SUKFCorrection::getLikelihood()` answers from `innovations_` / `propagated_sigma_points_` of the last successful
correction, but reads the noise covariance of the measurement model AT QUERY TIME (`getNoiseCovarianceMatrix(i)` for
`i < innovations_.rows() / sub`).  `UKFCorrection` / `KFCorrection` answer from their own members only. -/

/-- linear measurement of `m` rows on a state with layout `I`; noise covariance `m × m` (full) or `sub × sub` (reduced) -/
def likqMeas (I : Layout) (m sub : Nat) (reduced : Bool) : MMod :=
  let rr := if reduced then sub else m
  ⟨⟨I.dl, I.dc, I.quat, rr⟩, ⟨m, 0, false, 0⟩, m, 0, m, m, rr, true, true, true⟩

/-- what happens between the model's change of size and the query -/
inductive LikQHow where
  | queryOnly          -- getLikelihood() at once
  | skippedCorrect     -- skip(true); correct(): GaussianCorrection::correct copies the belief, the members stay
  | correct            -- correct() (not skipped): the members are renewed
deriving DecidableEq, Repr

def LikQHow.ofNat? : Nat → Option LikQHow
  | 0 => some .queryOnly | 1 => some .skippedCorrect | 2 => some .correct | _ => none

def likqState : Layout := ⟨3, 0, false, 0⟩

/-- SUKFCorrection: successful correction with `m1` rows, query, the model switches to `m2` rows, `how`, query -/
def sukfLikQuery (K sub m1 m2 : Nat) (reduced : Bool) (how : LikQHow) : W (List String) := do
  let I := likqState
  let M1 := likqMeas I m1 sub reduced
  let M2 := likqMeas I m2 sub reduced
  let (mem, _, _) ← sukfStep SUKFMem.init I K I K M1 sub reduced
  let (v1, n1) ← sukfLikelihood mem.inn mem.prop M1.rr sub reduced
  let mem' ← (match how with
    | .correct => do let (m', _, _) ← sukfStep mem I K I K M2 sub reduced; pure m'
    | _ => pure mem)
  let (v2, n2) ← sukfLikelihood mem'.inn mem'.prop M2.rr sub reduced       -- the CURRENT noise covariance
  pure [s!"{b01 v1}:{n1}", s!"{b01 v2}:{n2}"]

/-- UKFCorrection (both constructors): the query reads members only -/
def ukfLikQuery (additive : Bool) (K m1 m2 : Nat) (how : LikQHow) : W (List String) := do
  let I := likqState
  let (mem, _, _) ← ukfStep additive UKFMem.init I K I K (likqMeas I m1 0 false)
  let (v1, n1) ← ukfLik mem
  let mem' ← (match how with
    | .correct => do let (m', _, _) ← ukfStep additive mem I K I K (likqMeas I m2 0 false); pure m'
    | _ => pure mem)
  let (v2, n2) ← ukfLik mem'
  pure [s!"{b01 v1}:{n1}", s!"{b01 v2}:{n2}"]

/-- KFCorrection over a linear model `H : m × 3`: members `innovations_`, `meas_covariances_` only -/
def kfLikQuery (K m1 m2 : Nat) (how : LikQHow) : W (List String) := do
  let I := likqState
  let _ ← kfCorrect I K I K m1 I.dim m1 true
  let (v1, n1) ← gaussLikelihood "KFCorrection" ⟨m1, K⟩ ⟨m1, 0, false, 0⟩ K
  let m := (match how with | .correct => m2 | _ => m1)
  let _ ← (match how with
    | .correct => do let _ ← kfCorrect I K I K m2 I.dim m2 true; pure ()
    | _ => pure ())
  let (v2, n2) ← gaussLikelihood "KFCorrection" ⟨m, K⟩ ⟨m, 0, false, 0⟩ K
  pure [s!"{b01 v1}:{n1}", s!"{b01 v2}:{n2}"]

def likqCase (kind : Nat) (reduced : Bool) (sub m1 m2 : Nat) (how : LikQHow) (K : Nat) : Case := do
  let t ← (match kind with
    | 2 => sukfLikQuery K sub m1 m2 reduced how
    | 3 => kfLikQuery K m1 m2 how
    | k => ukfLikQuery (k == 1) K m1 m2 how)
  pure (some t)
/-- a time-varying measurement model (sizes `m1`, then `m2`, sub-size dividing both) and skipping a correction are legitimate uses -/
def likqValid (kind sub m1 m2 K : Nat) : Prop :=
  1 ≤ K ∧ 1 ≤ m1 ∧ 1 ≤ m2 ∧ (kind = 2 → 1 ≤ sub ∧ m1 % sub = 0 ∧ m2 % sub = 0)
instance (a b c d e : Nat) : Decidable (likqValid a b c d e) := by unfold likqValid; infer_instance
/-- the part on which the SUKF query is safe: the current noise covariance still covers the stored innovations -/
def likqCovered (reduced : Bool) (m1 m2 : Nat) (how : LikQHow) : Prop := reduced = true ∨ how = .correct ∨ m1 ≤ m2
instance (r : Bool) (a b : Nat) (h : LikQHow) : Decidable (likqCovered r a b h) := by unfold likqCovered; infer_instance

end BFL.Bounds
