/-
C10 — model of "the control interface may be used from another thread without data races".

Three layers (core Lean only, everything executable or decidable):

 1. the *table* the translator `tools/racetable.py` regenerates from the clang AST of the library
    (`BFL/Gen/RaceTable.lean`): data members with their declared kind, per function every member
    access with its syntactic lockset, call edges;
 2. the hand-written *role map* (which functions are entered by the controller thread and which by
    the filtering thread) and the decision procedure `fieldOKB` ("lockset discipline") evaluated on
    the table by `decide`;
 3. an abstract execution semantics: two threads issuing access / acquire / release events, mutex
    well-formedness, the adjacency form of a data race, and `Conforms` — "every access event of a
    thread is an instance of a table row of a function its role reaches, executed while the
    syntactic lockset of that row is held".

The theorems (`BFL/Proofs/Race.lean`, `BFL/Props/C10.lean`) connect 2 and 3.
-/
namespace BFL.Race

/-! ## 0. Names

Class / function / member names are carried as numbers (the bytes of the name read as a base-256
numeral) so that the kernel compares them natively; `name% "Class::member"` is the literal for a
name written in this file, `decodeName` prints it. -/

def encodeName (s : String) : Nat := s.toList.foldl (fun n c => n * 256 + c.toNat) 0

def decodeName (n : Nat) : String :=
  let rec go (fuel n : Nat) (acc : List Char) : List Char :=
    match fuel with
    | 0 => acc
    | fuel + 1 => if n = 0 then acc else go fuel (n / 256) (Char.ofNat (n % 256) :: acc)
  String.ofList (go 256 n [])

/-- `name% "abc"` elaborates to the numeral `encodeName "abc"` -/
macro "name%" s:str : term => return Lean.Syntax.mkNumLit (toString (encodeName s.getString))

/-! ## 1. The table -/

/-- declared kind of a data member -/
inductive FieldKind
  | atomic    -- std::atomic<…>, std::atomic_flag
  | plain     -- scalar (bool, integers, floating point, enum, pointer, reference)
  | mutex     -- std::mutex and relatives
  | condvar   -- std::condition_variable(_any)
  | thread    -- std::thread / std::jthread (a thread handle)
  | other     -- any class type (containers, Eigen objects, std::unique_ptr, std::thread, …)
  deriving DecidableEq, Repr

inductive AccKind
  | read | write | rmw
  deriving DecidableEq, Repr

inductive CallKind
  | direct   -- statically bound call
  | virt     -- possible target of a virtual call (an overrider in the class hierarchy)
  | ref      -- address taken / bound, not called on the spot (followed conservatively)
  | spawn    -- handed to a `std::thread` constructor: runs on the *new* thread
  deriving DecidableEq, Repr

structure Field where
  /-- `name% "Class"` -/
  cls  : Nat
  /-- `name% "member_"` -/
  name : Nat
  kind : FieldKind
  deriving Repr

structure Method where
  /-- `name% "Class::function"` (overloads share the name) -/
  name      : Nat
  /-- overload index among the functions of that name (display only; 0 = not overloaded) -/
  ovl       : Nat
  isVirtual : Bool
  hasBody   : Bool
  deriving Repr

structure Access where
  meth  : Nat          -- index into `Table.methods`
  field : Nat          -- index into `Table.fields`
  kind  : AccKind
  /-- the object expression is `this` (only then is `locks` meaningful) -/
  self  : Bool
  /-- mutex members (field ids) of `this` on which a lock_guard / unique_lock is in scope -/
  locks : List Nat
  line  : Nat
  deriving Repr

/-- what a function does to a thread-handle member -/
inductive ThreadOpKind
  | spawn      -- assigned / initialised with a thread constructed from a function of the library
  | join
  | joinable
  | detach
  | move       -- moved from, swapped, assigned another thread object, passed by reference
  | query      -- get_id, native_handle
  | other
  deriving DecidableEq, Repr

structure ThreadOp where
  meth  : Nat
  field : Nat
  kind  : ThreadOpKind
  line  : Nat
  deriving Repr

structure Call where
  caller : Nat
  callee : Nat
  kind   : CallKind
  deriving Repr

structure Table where
  fields   : List Field
  methods  : List Method
  accesses : List Access
  calls    : List Call
  /-- every operation on a `std::thread` member, per function -/
  threadOps : List ThreadOp := []

def FieldKind.isSync : FieldKind → Bool
  | .atomic | .mutex | .condvar => true
  | .plain | .other | .thread => false

def AccKind.isWrite : AccKind → Bool
  | .read => false
  | .write | .rmw => true

def CallKind.follows : CallKind → Bool
  | .direct | .virt | .ref => true
  | .spawn => false

/-- every access to an atomic / mutex / condition-variable member is a synchronisation operation -/
def Table.fieldSync (T : Table) (f : Nat) : Bool :=
  match T.fields[f]? with
  | some fd => fd.kind.isSync
  | none => false

def Table.fieldName (T : Table) (f : Nat) : String :=
  match T.fields[f]? with
  | some fd => decodeName fd.cls ++ "::" ++ decodeName fd.name
  | none => "?"

def Table.methodName (T : Table) (m : Nat) : String :=
  match T.methods[m]? with
  | some md => if md.ovl = 0 then decodeName md.name else decodeName md.name ++ "#" ++ toString md.ovl
  | none => "?"

/-! ## 2. Role map and decision procedure -/

/-- the two threads of the property's quantifier -/
inductive Role
  | controller   -- the thread that constructed the filter and issues the commands
  | filter       -- the thread created by `boot()`
  deriving DecidableEq, Repr

/-- Entry points of the controller thread while the filtering thread is alive: the control and
    query interface of `Filter`/`FilteringAlgorithm` and the skip commands of the two filter
    families.  `boot()` and `wait()` delimit the concurrent phase and are included (what they touch
    must not be touched by the filtering thread either). -/
def controllerRoots : List Nat :=
  [ name% "FilteringAlgorithm::boot", name% "FilteringAlgorithm::run", name% "FilteringAlgorithm::wait",
    name% "FilteringAlgorithm::reset", name% "FilteringAlgorithm::reboot", name% "FilteringAlgorithm::teardown",
    name% "FilteringAlgorithm::step_number", name% "FilteringAlgorithm::is_running",
    name% "GaussianFilter::skip", name% "ParticleFilter::skip" ]

/-- Entry points of the filtering thread: the function handed to `std::thread` by `boot()`.
    Its virtual calls `initialization_step` / `filtering_step` / `run_condition` are expanded by the
    translator to the overriders shipped in the library (`SIS`).  A Gaussian filter's step is
    user code (the library ships none); the second group is the interface such a step is written
    against (as in the library's own tests): `prediction().predict`, `correction().freeze_measurements`,
    `correction().correct`, `step_number()` in the run condition, and the logging hook `log()` with the
    `Logger::logger(...)` templates it forwards to (`Logger` is a base class of `FilteringAlgorithm`). -/
def filterRoots : List Nat :=
  [ name% "FilteringAlgorithm::filtering_recursion",
    name% "GaussianFilter::prediction", name% "GaussianFilter::correction",
    name% "GaussianPrediction::predict", name% "GaussianCorrection::correct", name% "GaussianCorrection::freeze_measurements",
    name% "ParticleFilter::initialization", name% "ParticleFilter::prediction", name% "ParticleFilter::correction",
    name% "ParticleFilter::resampling",
    name% "PFPrediction::predict", name% "PFCorrection::correct", name% "PFCorrection::freeze_measurements",
    name% "FilteringAlgorithm::step_number",
    name% "Logger::log", name% "Logger::logger", name% "Logger::logger_helper" ]

def rootNames : Role → List Nat
  | .controller => controllerRoots
  | .filter => filterRoots

/-- indices of the functions of the table carrying one of the names -/
def idsOf : List Method → Nat → List Nat → List Nat
  | [], _, _ => []
  | m :: ms, i, names => if names.contains m.name then i :: idsOf ms (i + 1) names else idsOf ms (i + 1) names

def Table.rootIds (T : Table) (r : Role) : List Nat := idsOf T.methods 0 (rootNames r)

/-- every root name denotes at least one function of the table (otherwise a role would silently be empty) -/
def Table.rootsPresent (T : Table) (r : Role) : Bool :=
  (rootNames r).all fun n => T.methods.any fun m => m.name == n

/-! Sets of function ids are bit sets in a `Nat` (the kernel evaluates `Nat` bit operations natively). -/

def bitsOf (l : List Nat) : Nat := l.foldl (fun s i => s ||| (1 <<< i)) 0

def addCall (S : Nat) (c : Call) : Nat :=
  if c.kind.follows && S.testBit c.caller then S ||| (1 <<< c.callee) else S

/-- one pass over all call edges -/
def Table.pass (T : Table) (S : Nat) : Nat := T.calls.foldl addCall S

/-- iterate to a fixed point (at most `fuel` passes) -/
def Table.closure (T : Table) : Nat → Nat → Nat
  | 0, S => S
  | fuel + 1, S => if T.pass S = S then S else T.closure fuel (T.pass S)

def closureFuel : Nat := 64

/-- functions reachable from the entry points of a role along direct / virtual / ref edges -/
def Table.reach (T : Table) (r : Role) : Nat := T.closure closureFuel (bitsOf (T.rootIds r))

/-- `S` is closed under the call edges that stay on the same thread -/
def Table.closedB (T : Table) (S : Nat) : Bool :=
  T.calls.all fun c => !(c.kind.follows && S.testBit c.caller) || S.testBit c.callee

def commonLock (l₁ l₂ : List Nat) : Bool := l₁.any fun m => l₂.contains m

/-- two accesses to the same member, one by each thread, cannot race: both reads, or the member is
    a synchronisation object (atomic …), or both hold a common mutex of the same object -/
def Table.pairOKB (T : Table) (a b : Access) : Bool :=
  (!a.kind.isWrite && !b.kind.isWrite) || T.fieldSync a.field || (a.self && b.self && commonLock a.locks b.locks)

/-- the accesses to member `f` performed by the functions in the set `S` -/
def Table.rowsOn (T : Table) (S : Nat) (f : Nat) : List Access :=
  T.accesses.filter fun a => a.field == f && S.testBit a.meth

/-- lockset discipline of member `f`, given the sets of functions each role may execute -/
def Table.fieldOKIn (T : Table) (SC SF : Nat) (f : Nat) : Bool :=
  (T.rowsOn SC f).all fun a => (T.rowsOn SF f).all fun b => T.pairOKB a b

/-- lockset discipline of one data member -/
def Table.fieldOKB (T : Table) (f : Nat) : Bool :=
  T.fieldOKIn (T.reach .controller) (T.reach .filter) f

/-- the accesses performed by the functions in the set `S` -/
def Table.rowsIn (T : Table) (S : Nat) : List Access := T.accesses.filter fun a => S.testBit a.meth

/-- the members violating the discipline (ascending ids) -/
def Table.undisciplinedIn (T : Table) (SC SF : Nat) : List Nat :=
  let rf := T.rowsIn SF
  let bad := ((T.rowsIn SC).filter fun a => rf.any fun b => b.field == a.field && !T.pairOKB a b).map (·.field)
  (List.range T.fields.length).filter fun f => bad.contains f

def Table.undisciplined (T : Table) : List Nat := T.undisciplinedIn (T.reach .controller) (T.reach .filter)

/-- the members touched by both roles (ascending ids) -/
def Table.sharedIn (T : Table) (SC SF : Nat) : List Nat :=
  let rf := T.rowsIn SF
  let sh := ((T.rowsIn SC).filter fun a => rf.any fun b => b.field == a.field).map (·.field)
  (List.range T.fields.length).filter fun f => sh.contains f

def Table.shared (T : Table) : List Nat := T.sharedIn (T.reach .controller) (T.reach .filter)

/-- a witness pair for an undisciplined member -/
def Table.witness (T : Table) (f : Nat) : Option (Access × Access) :=
  let rf := T.rowsOn (T.reach .filter) f
  (T.rowsOn (T.reach .controller) f).findSome? fun a => (rf.find? fun b => !T.pairOKB a b).map fun b => (a, b)

/-- ids of the members with the given (class, member) names -/
def Table.fieldIds (T : Table) (names : List (Nat × Nat)) : List Nat :=
  (List.range T.fields.length).filter fun i =>
    match T.fields[i]? with
    | some fd => names.any fun n => n.1 == fd.cls && n.2 == fd.name
    | none => false

def Table.fieldsOfClass (T : Table) (cls : Nat) : List Nat :=
  (List.range T.fields.length).filter fun i =>
    match T.fields[i]? with
    | some fd => fd.cls == cls
    | none => false

/-! ### thread confinement of the user's model objects

The translator turns every call of a pure virtual function of `MeasurementModel` (`freeze`, `measure`,
`predictedMeasure`, `innovation`), of `LikelihoodModel::likelihood` and of
`ParticleSetInitialization::initialize` into a write of a pseudo-member `user::<interface>_state` at the call
site: the models are user code whose state the filtering thread reads and writes in every step.  A member
is *controller-free* when no function the controller role can execute has a row for it. -/

def modelStateFields : List (Nat × Nat) :=
  [ (name% "user", name% "measurement_model_state"), (name% "user", name% "likelihood_model_state"),
    (name% "user", name% "initialization_state") ]

/-- no function in the set `SC` touches member `f` -/
def Table.controllerFreeIn (T : Table) (SC : Nat) (f : Nat) : Bool := (T.rowsOn SC f).isEmpty

/-- every model-state pseudo-member exists, is touched by the functions in `SF` and by none in `SC` -/
def Table.modelConfinedIn (T : Table) (SC SF : Nat) : Bool :=
  (T.fieldIds modelStateFields).length == modelStateFields.length &&
  (T.fieldIds modelStateFields).all fun f => T.controllerFreeIn SC f && !(T.rowsOn SF f).isEmpty

def Table.modelConfinedB (T : Table) : Bool := T.modelConfinedIn (T.reach .controller) (T.reach .filter)

/-- the pseudo-member standing for the state of the user's filter touched by its hooks (`initialization_step`,
    `filtering_step`, `run_condition` and their overriders in `SIS`, `Logger::log`) -/
def hookStateFields : List (Nat × Nat) := [ (name% "user", name% "hook_state") ]

/-- the members named exist, are touched by the functions in `SF` and by none in `SC` -/
def Table.confinedIn (T : Table) (names : List (Nat × Nat)) (SC SF : Nat) : Bool :=
  (T.fieldIds names).length == names.length &&
  (T.fieldIds names).all fun f => T.controllerFreeIn SC f && !(T.rowsOn SF f).isEmpty

def Table.hooksConfinedB (T : Table) : Bool := T.confinedIn hookStateFields (T.reach .controller) (T.reach .filter)

/-- (function creating a thread, function handed to `std::thread`) for every such place in the library -/
def Table.spawns (T : Table) : List (Nat × Nat) :=
  (T.calls.filter fun c => c.kind == .spawn).map fun c =>
    ((T.methods[c.caller]?.map (·.name)).getD 0, (T.methods[c.callee]?.map (·.name)).getD 0)

/-- the class owning the lifecycle state (run_, reset_, teardown_, filtering_step_, mutex, condition variable) -/
def lifecycleClass : Nat := name% "FilteringAlgorithm"

/-- the only thread creation of the library: `boot()` hands `filtering_recursion` to `std::thread` -/
def spawnSite : Nat × Nat := (name% "FilteringAlgorithm::boot", name% "FilteringAlgorithm::filtering_recursion")

/-- the function that joins the filtering thread -/
def joinSite : Nat := name% "FilteringAlgorithm::wait"

def Table.methNameIs (T : Table) (m : Nat) (n : Nat) : Bool :=
  match T.methods[m]? with
  | some md => md.name == n
  | none => false

def Table.fieldIsThread (T : Table) (f : Nat) : Bool :=
  match T.fields[f]? with
  | some fd => fd.kind == .thread
  | none => false

/-- **The join is certified.**  Given the sets of functions the two roles may execute:
    (a) the filtering thread never touches a thread handle;
    (b) the controller only spawns (in `boot()`), joins (in `wait()`), asks `joinable()` / queries — it
        never detaches, moves, swaps or reassigns a handle;
    (c) `wait()` does contain a `join()`;
    (d) every access row of a reachable function to a thread handle lies in `boot()` or `wait()`.
    Hence between `boot()` and `wait()` the handle stays joinable and `wait()` returns only after the
    filtering thread has finished (`BFL/Proofs/RaceJoin.lean`): the accesses after `wait()` are ordered. -/
def Table.joinCertifiedIn (T : Table) (SC SF : Nat) : Bool :=
  (T.threadOps.all fun o => !SF.testBit o.meth) &&
  (T.accesses.all fun a => !(T.fieldIsThread a.field && SF.testBit a.meth)) &&
  (T.threadOps.all fun o => !SC.testBit o.meth ||
    (match o.kind with
     | .spawn => T.methNameIs o.meth spawnSite.1
     | .join => T.methNameIs o.meth joinSite
     | .joinable | .query => true
     | .detach | .move | .other => false)) &&
  (T.threadOps.any fun o => o.kind == .join && T.methNameIs o.meth joinSite && SC.testBit o.meth) &&
  (T.accesses.all fun a => !(T.fieldIsThread a.field && SC.testBit a.meth) ||
    T.methNameIs a.meth spawnSite.1 || T.methNameIs a.meth joinSite)

def Table.joinCertifiedB (T : Table) : Bool := T.joinCertifiedIn (T.reach .controller) (T.reach .filter)

/-- What the translator certifies syntactically about locksets: a row carries a lockset only when its
    object expression is `this`, and every entry of a lockset is a mutex member.  (The translator records a
    lock only when the mutex expression is `this->m` in the same function as the access `this->f`, or in a
    caller that reaches it through calls on `this`: lock and member belong to the same object.) -/
def Table.locksCertifiedB (T : Table) : Bool :=
  T.accesses.all fun a => a.locks.isEmpty || (a.self && a.locks.all fun m =>
    match T.fields[m]? with
    | some fd => fd.kind == .mutex
    | none => false)

/-- ids used by the rows and edges exist -/
def Table.wfB (T : Table) : Bool :=
  (T.accesses.all fun a => decide (a.field < T.fields.length) && decide (a.meth < T.methods.length)) &&
  (T.calls.all fun c => decide (c.caller < T.methods.length) && decide (c.callee < T.methods.length))

/-! ## 3. Execution semantics -/

abbrev Tid := Role
/-- object identity (which instance of the class) -/
abbrev Obj := Nat
/-- a memory location: data member `field` of object `obj` -/
abbrev Loc := Obj × Nat
/-- a mutex: mutex member `field` of object `obj` -/
abbrev Mx := Obj × Nat

inductive Ev
  | acc (t : Tid) (l : Loc) (write sync : Bool)
  | lock (t : Tid) (m : Mx)
  | unlock (t : Tid) (m : Mx)
  deriving DecidableEq, Repr

/-- who holds each mutex after a trace (semantic) -/
def applyEv (h : Mx → Option Tid) : Ev → (Mx → Option Tid)
  | .lock t m   => fun m' => if m' = m then some t else h m'
  | .unlock _ m => fun m' => if m' = m then none else h m'
  | .acc ..     => h

def holders (tr : List Ev) : Mx → Option Tid := tr.foldl applyEv (fun _ => none)

/-- is thread `t` inside a lock scope on `m` after its own events in the trace (syntactic) -/
def applyHeld (t : Tid) (m : Mx) (b : Bool) : Ev → Bool
  | .lock t' m'   => if t' = t ∧ m' = m then true else b
  | .unlock t' m' => if t' = t ∧ m' = m then false else b
  | .acc ..       => b

def held (tr : List Ev) (t : Tid) (m : Mx) : Bool := tr.foldl (applyHeld t m) false

/-- mutex semantics: acquire only when free, release only by the holder -/
def okEv (h : Mx → Option Tid) : Ev → Prop
  | .lock _ m   => h m = none
  | .unlock t m => h m = some t
  | .acc ..     => True

/-- well-formed interleavings (sequentially consistent, mutexes respected) -/
inductive WF : List Ev → Prop
  | nil : WF []
  | snoc {tr e} : WF tr → okEv (holders tr) e → WF (tr ++ [e])

/-- two conflicting accesses of different threads: same location, at least one write, not both
    synchronisation operations -/
def conflict : Ev → Ev → Prop
  | .acc t₁ l₁ w₁ s₁, .acc t₂ l₂ w₂ s₂ => t₁ ≠ t₂ ∧ l₁ = l₂ ∧ (w₁ = true ∨ w₂ = true) ∧ ¬ (s₁ = true ∧ s₂ = true)
  | _, _ => False

def Ev.loc? : Ev → Option Loc
  | .acc _ l _ _ => some l
  | _ => none

/-- data race on location `l`, adjacency form: the two accesses are adjacent in the interleaving -/
def RaceOn (l : Loc) (tr : List Ev) : Prop :=
  ∃ pre a b post, tr = pre ++ a :: b :: post ∧ conflict a b ∧ a.loc? = some l

/-- data race on member `f` of some object -/
def RaceOnField (f : Nat) (tr : List Ev) : Prop := ∃ o, RaceOn (o, f) tr

def Race (tr : List Ev) : Prop := ∃ pre a b post, tr = pre ++ a :: b :: post ∧ conflict a b

/-- call-graph reachability on one thread -/
inductive Reach (T : Table) (roots : List Nat) : Nat → Prop
  | root {m} : m ∈ roots → Reach T roots m
  | call {c : Call} : c ∈ T.calls → c.kind.follows = true → Reach T roots c.caller → Reach T roots c.callee

/-- the access event is an instance of a table row of a function reached by the thread's role,
    performed on some object `o` while the row's syntactic lockset (mutexes of the same `o`) is held -/
def Justified (T : Table) (pre : List Ev) : Ev → Prop
  | .acc t (o, f) w s =>
      ∃ r ∈ T.accesses, Reach T (T.rootIds t) r.meth ∧ r.field = f ∧ r.kind.isWrite = w ∧ T.fieldSync f = s ∧
        (r.self = true → ∀ m ∈ r.locks, held pre t (o, m) = true)
  | _ => True

/-- The *same-object* reading is part of `Justified`: the row's locks are held on the object `o` whose
    member is accessed.  `JustifiedAny` drops it (locks held on some object `o'`); `same_object_necessary`
    (BFL/Proofs/RaceObject.lean) shows that the lockset theorem is false under this weaker reading, i.e. the
    class-level abstraction "lockset and member belong to the same object" is a necessary hypothesis. -/
def JustifiedAny (T : Table) (pre : List Ev) : Ev → Prop
  | .acc t (_, f) w s =>
      ∃ r ∈ T.accesses, Reach T (T.rootIds t) r.meth ∧ r.field = f ∧ r.kind.isWrite = w ∧ T.fieldSync f = s ∧
        (r.self = true → ∃ o' : Obj, ∀ m ∈ r.locks, held pre t (o', m) = true)
  | _ => True

def ConformsAny (T : Table) (tr : List Ev) : Prop :=
  ∀ pre e post, tr = pre ++ e :: post → JustifiedAny T pre e

/-- every event of the interleaving is justified by the table -/
def Conforms (T : Table) (tr : List Ev) : Prop :=
  ∀ pre e post, tr = pre ++ e :: post → Justified T pre e

/-- the discipline as a proposition over call-graph reachability (what `fieldOKB` decides) -/
def PairSafe (T : Table) (a b : Access) : Prop :=
  (a.kind.isWrite = false ∧ b.kind.isWrite = false) ∨ T.fieldSync a.field = true ∨
    (a.self = true ∧ b.self = true ∧ ∃ m, m ∈ a.locks ∧ m ∈ b.locks)

def FieldOK (T : Table) (f : Nat) : Prop :=
  ∀ a ∈ T.accesses, ∀ b ∈ T.accesses,
    Reach T (T.rootIds .controller) a.meth → Reach T (T.rootIds .filter) b.meth →
    a.field = f → b.field = f → PairSafe T a b

/-- full-strength statement of the property for a table: no conforming well-formed interleaving
    of the controller thread and the filtering thread contains a data race -/
def RaceFree (T : Table) : Prop := ∀ tr, WF tr → Conforms T tr → ¬ Race tr

/-- no function the controller role can reach has an access row for member `f` -/
def ControllerFree (T : Table) (f : Nat) : Prop :=
  ∀ r ∈ T.accesses, Reach T (T.rootIds .controller) r.meth → r.field ≠ f

end BFL.Race
