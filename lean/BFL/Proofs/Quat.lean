import BFL.Model.Quat
import BFL.Bridge.Mat
import BFL.Bridge.Transc
import Mathlib.Analysis.SpecialFunctions.Trigonometric.Inverse
import Mathlib.Analysis.SpecialFunctions.Trigonometric.Bounds
import Mathlib.Analysis.SpecialFunctions.Sqrt
import Mathlib.Analysis.Real.Pi.Bounds
/-
Helper lemmas for C18 (quaternion exponential / logarithm / sum / difference) over ℝ.
-/
namespace BFL.Quat
open Real

/-! ### vocabulary over ℝ -/

def Q.normSq (q : Q ℝ) : ℝ := q.w ^ 2 + q.x ^ 2 + q.y ^ 2 + q.z ^ 2
def V3.sub (a b : V3 ℝ) : V3 ℝ := ⟨a.x - b.x, a.y - b.y, a.z - b.z⟩
def Q.one : Q ℝ := ⟨1, 0, 0, 0⟩

@[ext] theorem Q.ext' {a b : Q ℝ} (hw : a.w = b.w) (hx : a.x = b.x) (hy : a.y = b.y) (hz : a.z = b.z) : a = b := by
  cases a; cases b; simp_all

@[ext] theorem V3.ext' {a b : V3 ℝ} (hx : a.x = b.x) (hy : a.y = b.y) (hz : a.z = b.z) : a = b := by
  cases a; cases b; simp_all

theorem cutoff_val : (cutoff : ℝ) = 1 / 10000 := by
  unfold cutoff; norm_num

theorem V3.norm_def (r : V3 ℝ) : r.norm = Real.sqrt (r.x ^ 2 + r.y ^ 2 + r.z ^ 2) := by
  simp only [V3.norm, transc_sqrt]; congr 1; ring

theorem V3.norm_nonneg (r : V3 ℝ) : 0 ≤ r.norm := by
  rw [V3.norm_def]; exact Real.sqrt_nonneg _

theorem V3.norm_sq (r : V3 ℝ) : r.norm ^ 2 = r.x ^ 2 + r.y ^ 2 + r.z ^ 2 := by
  rw [V3.norm_def, Real.sq_sqrt]; positivity

theorem V3.norm_zero : (⟨0, 0, 0⟩ : V3 ℝ).norm = 0 := by
  rw [V3.norm_def]; simp

/-- norm of `(c x / n, c y / n, c z / n)` for `n = ‖(x, y, z)‖ > 0` -/
theorem norm_scaled (c : ℝ) (v : V3 ℝ) (hn : 0 < v.norm) :
    (⟨c * v.x / v.norm, c * v.y / v.norm, c * v.z / v.norm⟩ : V3 ℝ).norm = |c| := by
  rw [V3.norm_def]
  have h : (c * v.x / v.norm) ^ 2 + (c * v.y / v.norm) ^ 2 + (c * v.z / v.norm) ^ 2 = c ^ 2 := by
    have hsq := V3.norm_sq v
    field_simp
    rw [hsq]
  rw [h, Real.sqrt_sq_eq_abs]

theorem Q.vec_norm_sq (q : Q ℝ) : q.vec.norm ^ 2 = q.x ^ 2 + q.y ^ 2 + q.z ^ 2 := V3.norm_sq _

theorem Q.normSq_eq (q : Q ℝ) : q.normSq = q.w ^ 2 + q.vec.norm ^ 2 := by
  rw [Q.vec_norm_sq]; unfold Q.normSq; ring

/-! ### Hamilton product -/

theorem normSq_mul (a b : Q ℝ) : (a.mul b).normSq = a.normSq * b.normSq := by
  simp only [Q.normSq, Q.mul]; ring

theorem mul_assoc' (a b c : Q ℝ) : (a.mul b).mul c = a.mul (b.mul c) := by
  ext <;> simp only [Q.mul] <;> ring

theorem mul_conj_self (q : Q ℝ) : q.mul q.conj = ⟨q.normSq, 0, 0, 0⟩ := by
  ext <;> simp only [Q.mul, Q.conj, Q.normSq] <;> ring

theorem conj_mul_self (q : Q ℝ) : q.conj.mul q = ⟨q.normSq, 0, 0, 0⟩ := by
  ext <;> simp only [Q.mul, Q.conj, Q.normSq] <;> ring

theorem mul_one' (q : Q ℝ) : q.mul ⟨1, 0, 0, 0⟩ = q := by
  ext <;> simp only [Q.mul] <;> ring

theorem one_mul' (q : Q ℝ) : (⟨1, 0, 0, 0⟩ : Q ℝ).mul q = q := by
  ext <;> simp only [Q.mul] <;> ring

theorem conj_mul (a b : Q ℝ) : (a.mul b).conj = b.conj.mul a.conj := by
  ext <;> simp only [Q.mul, Q.conj] <;> ring

theorem neg_mul' (a b : Q ℝ) : a.neg.mul b = (a.mul b).neg := by
  ext <;> simp only [Q.mul, Q.neg] <;> ring

theorem mul_neg' (a b : Q ℝ) : a.mul b.neg = (a.mul b).neg := by
  ext <;> simp only [Q.mul, Q.neg] <;> ring

theorem conj_neg (a : Q ℝ) : a.neg.conj = a.conj.neg := by
  ext <;> simp only [Q.conj, Q.neg]

theorem normSq_conj (q : Q ℝ) : q.conj.normSq = q.normSq := by
  simp only [Q.normSq, Q.conj]; ring

theorem normSq_neg (q : Q ℝ) : q.neg.normSq = q.normSq := by
  simp only [Q.normSq, Q.neg]; ring

/-! ### exponential -/

theorem quatExp_regular (r : V3 ℝ) (h : cutoff < r.norm) :
    quatExp r = ⟨Real.cos (r.norm / 2), Real.sin (r.norm / 2) * r.x / r.norm,
      Real.sin (r.norm / 2) * r.y / r.norm, Real.sin (r.norm / 2) * r.z / r.norm⟩ := by
  unfold quatExp
  simp only [gt_iff_lt, h, if_true, transc_sin, transc_cos]

theorem quatExp_cut (r : V3 ℝ) (h : r.norm ≤ cutoff) : quatExp r = ⟨1, 0, 0, 0⟩ := by
  unfold quatExp
  simp only [gt_iff_lt, not_lt.mpr h, if_false]

theorem quatExp_normSq (r : V3 ℝ) : (quatExp r).normSq = 1 := by
  by_cases h : cutoff < r.norm
  · rw [quatExp_regular r h]
    have hn : 0 < r.norm := lt_trans (by rw [cutoff_val]; norm_num) h
    have hsq := V3.norm_sq r
    unfold Q.normSq
    simp only
    have : (Real.sin (r.norm / 2) * r.x / r.norm) ^ 2 + (Real.sin (r.norm / 2) * r.y / r.norm) ^ 2
        + (Real.sin (r.norm / 2) * r.z / r.norm) ^ 2 = Real.sin (r.norm / 2) ^ 2 := by
      field_simp
      rw [← hsq]; ring
    nlinarith [Real.sin_sq_add_cos_sq (r.norm / 2)]
  · rw [quatExp_cut r (not_lt.mp h)]; simp [Q.normSq]

/-- vector part of the exponential: norm `sin(‖r‖/2)` -/
theorem quatExp_vec_norm (r : V3 ℝ) (h : cutoff < r.norm) (hπ : r.norm < 2 * π) :
    (quatExp r).vec.norm = Real.sin (r.norm / 2) := by
  have hn : 0 < r.norm := lt_trans (by rw [cutoff_val]; norm_num) h
  rw [quatExp_regular r h]
  have := norm_scaled (Real.sin (r.norm / 2)) r hn
  simp only [Q.vec]
  rw [this, abs_of_nonneg]
  exact Real.sin_nonneg_of_nonneg_of_le_pi (by linarith) (by linarith)

/-! ### logarithm -/

theorem quatLog_cut (q : Q ℝ) (h : q.vec.norm ≤ cutoff) : quatLog q = ⟨0, 0, 0⟩ := by
  unfold quatLog
  simp only [gt_iff_lt, not_lt.mpr h, if_false]

theorem quatLog_pos (q : Q ℝ) (h : cutoff < q.vec.norm) (hw : 0 ≤ q.w) :
    quatLog q = ⟨2 * Real.arccos q.w * q.x / q.vec.norm, 2 * Real.arccos q.w * q.y / q.vec.norm,
      2 * Real.arccos q.w * q.z / q.vec.norm⟩ := by
  unfold quatLog
  simp only [gt_iff_lt, h, if_true, not_lt.mpr hw, if_false, transc_acos]

theorem quatLog_neg (q : Q ℝ) (h : cutoff < q.vec.norm) (hw : q.w < 0) :
    quatLog q = ⟨-2 * Real.arccos (-q.w) * q.x / q.vec.norm, -2 * Real.arccos (-q.w) * q.y / q.vec.norm,
      -2 * Real.arccos (-q.w) * q.z / q.vec.norm⟩ := by
  unfold quatLog
  simp only [gt_iff_lt, h, if_true, hw, transc_acos]

theorem cutoff_pos : (0 : ℝ) < cutoff := by rw [cutoff_val]; norm_num

theorem vec_neg_norm (q : Q ℝ) : q.neg.vec.norm = q.vec.norm := by
  rw [V3.norm_def, V3.norm_def]; simp [Q.neg, Q.vec]

/-- `q` and `-q` give the same rotation vector (away from the exact half turn `w = 0`). -/
theorem quatLog_neg_eq (q : Q ℝ) (hw : q.w ≠ 0) : quatLog q.neg = quatLog q := by
  by_cases h : cutoff < q.vec.norm
  · have h' : cutoff < q.neg.vec.norm := by rw [vec_neg_norm]; exact h
    rcases lt_or_gt_of_ne hw with hneg | hpos
    · have hw' : 0 ≤ q.neg.w := by simp only [Q.neg]; linarith
      rw [quatLog_pos _ h' hw', quatLog_neg _ h hneg, vec_neg_norm]
      ext <;> simp only [Q.neg] <;> ring
    · have hw' : q.neg.w < 0 := by simp only [Q.neg]; linarith
      rw [quatLog_neg _ h' hw', quatLog_pos _ h hpos.le, vec_neg_norm]
      ext <;> simp only [Q.neg, neg_neg] <;> ring
  · have h' : q.neg.vec.norm ≤ cutoff := by rw [vec_neg_norm]; exact not_lt.mp h
    rw [quatLog_cut _ h', quatLog_cut _ (not_lt.mp h)]

/-- norm of the logarithm in the regular branch: `2 acos |w|` -/
theorem quatLog_norm (q : Q ℝ) (h : cutoff < q.vec.norm) :
    (quatLog q).norm = 2 * Real.arccos |q.w| := by
  have hn : 0 < q.vec.norm := lt_trans cutoff_pos h
  by_cases hw : q.w < 0
  · rw [quatLog_neg q h hw]
    have := norm_scaled (-2 * Real.arccos (-q.w)) q.vec hn
    simp only [Q.vec] at this ⊢
    rw [this, abs_of_neg hw, abs_of_nonpos]
    · ring
    · nlinarith [Real.arccos_nonneg (-q.w)]
  · rw [quatLog_pos q h (not_lt.mp hw)]
    have := norm_scaled (2 * Real.arccos q.w) q.vec hn
    simp only [Q.vec] at this ⊢
    rw [this, abs_of_nonneg (not_lt.mp hw), abs_of_nonneg]
    nlinarith [Real.arccos_nonneg q.w]

/-- differences never exceed `π` in norm (no hypothesis on `q`) -/
theorem quatLog_norm_le_pi (q : Q ℝ) : (quatLog q).norm ≤ π := by
  by_cases h : cutoff < q.vec.norm
  · rw [quatLog_norm q h]
    have : Real.arccos |q.w| ≤ π / 2 := Real.arccos_le_pi_div_two.mpr (abs_nonneg _)
    linarith
  · rw [quatLog_cut q (not_lt.mp h), V3.norm_zero]; exact Real.pi_pos.le

/-! ### log ∘ exp -/

/-- exact inverse when both cut-offs are cleared -/
theorem quatLog_quatExp (r : V3 ℝ) (h1 : cutoff < r.norm) (h2 : r.norm < π)
    (h3 : cutoff < Real.sin (r.norm / 2)) : quatLog (quatExp r) = r := by
  have hn : 0 < r.norm := lt_trans cutoff_pos h1
  have hvn := quatExp_vec_norm r h1 (by linarith [Real.pi_pos])
  have hs : 0 < Real.sin (r.norm / 2) := lt_trans cutoff_pos h3
  have hc : 0 < Real.cos (r.norm / 2) :=
    Real.cos_pos_of_mem_Ioo ⟨by linarith [Real.pi_pos], by linarith⟩
  have hw : (quatExp r).w = Real.cos (r.norm / 2) := by rw [quatExp_regular r h1]
  rw [quatLog_pos _ (by rw [hvn]; exact h3) (by rw [hw]; exact hc.le), hvn, hw,
    Real.arccos_cos (by linarith) (by linarith [Real.pi_pos])]
  rw [quatExp_regular r h1]
  ext <;> simp only <;> field_simp

/-- in every other case (‖r‖ < π) the round trip returns the zero vector and `sin(‖r‖/2) ≤ 1e-4` -/
theorem quatLog_quatExp_small (r : V3 ℝ) (h2 : r.norm < π)
    (h : ¬ (cutoff < r.norm ∧ cutoff < Real.sin (r.norm / 2))) :
    quatLog (quatExp r) = ⟨0, 0, 0⟩ ∧ Real.sin (r.norm / 2) ≤ cutoff := by
  by_cases h1 : cutoff < r.norm
  · have h3 : Real.sin (r.norm / 2) ≤ cutoff := by
      by_contra hc; exact h ⟨h1, not_le.mp hc⟩
    refine ⟨?_, h3⟩
    apply quatLog_cut
    rw [quatExp_vec_norm r h1 (by linarith [Real.pi_pos])]; exact h3
  · have hle := not_lt.mp h1
    constructor
    · rw [quatExp_cut r hle]
      apply quatLog_cut
      simp only [Q.vec]; rw [V3.norm_zero]; exact cutoff_pos.le
    · have h0 := V3.norm_nonneg r
      have : Real.sin (r.norm / 2) ≤ r.norm / 2 := Real.sin_le (by linarith)
      linarith

/-- `sin(n/2) ≤ 1e-4` with `0 ≤ n < π` forces `n ≤ 2 arcsin(1e-4)` -/
theorem small_of_sin_le {n : ℝ} (h0 : 0 ≤ n) (hπ : n < π) (hs : Real.sin (n / 2) ≤ cutoff) :
    n ≤ 2 * Real.arcsin cutoff := by
  have : Real.arcsin (Real.sin (n / 2)) = n / 2 :=
    Real.arcsin_sin (by linarith [Real.pi_pos]) (by linarith)
  have hm := Real.monotone_arcsin hs
  rw [this] at hm
  linarith

/-- numerically: `2 arcsin(1e-4) < 2.00000001e-4` -/
theorem two_arcsin_cutoff_lt : 2 * Real.arcsin cutoff < 2.00000001e-4 := by
  have ht : (1.000000005e-4 : ℝ) ∈ Set.Icc (-(π / 2)) (π / 2) :=
    ⟨by linarith [Real.pi_pos, show (0 : ℝ) < 1.000000005e-4 by norm_num],
     by linarith [Real.pi_gt_three, show (1.000000005e-4 : ℝ) < 1 by norm_num]⟩
  have hsin : cutoff < Real.sin 1.000000005e-4 := by
    have h := Real.sin_gt_sub_cube (x := 1.000000005e-4) (by norm_num)
    refine lt_trans ?_ h
    rw [cutoff_val]; norm_num
  have : Real.arcsin cutoff < 1.000000005e-4 := by
    rw [Real.arcsin_lt_iff_lt_sin' ?_]
    · exact hsin
    · exact ⟨by linarith [Real.pi_pos], by linarith [Real.pi_gt_three]⟩
  linarith

/-- and `2e-4 < 2 arcsin(1e-4)`: the honest bound exceeds the nominal one -/
theorem two_cutoff_lt_two_arcsin : 2 * cutoff < 2 * Real.arcsin cutoff := by
  have h1 : cutoff ∈ Set.Ioc (0 : ℝ) 1 := ⟨cutoff_pos, by rw [cutoff_val]; norm_num⟩
  have hpos : 0 < Real.arcsin cutoff := Real.arcsin_pos.mpr cutoff_pos
  have hle : Real.arcsin cutoff ≤ π / 2 := Real.arcsin_le_pi_div_two _
  have hs : Real.sin (Real.arcsin cutoff) = cutoff :=
    Real.sin_arcsin (by linarith [cutoff_pos]) h1.2
  have : Real.sin (Real.arcsin cutoff) < Real.arcsin cutoff := Real.sin_lt hpos
  linarith

theorem V3.sub_self_norm (r : V3 ℝ) : (r.sub r).norm = 0 := by
  rw [V3.norm_def]; simp [V3.sub]

theorem V3.zero_sub_norm (r : V3 ℝ) : ((⟨0, 0, 0⟩ : V3 ℝ).sub r).norm = r.norm := by
  rw [V3.norm_def, V3.norm_def]; simp [V3.sub]

/-! ### exp ∘ log -/

theorem abs_w_le_one (q : Q ℝ) (hq : q.normSq = 1) : -1 ≤ q.w ∧ q.w ≤ 1 := by
  unfold Q.normSq at hq
  constructor <;> nlinarith [sq_nonneg q.x, sq_nonneg q.y, sq_nonneg q.z, sq_nonneg (q.w - 1), sq_nonneg (q.w + 1)]

theorem vec_norm_of_unit (q : Q ℝ) (hq : q.normSq = 1) : q.vec.norm = Real.sqrt (1 - q.w ^ 2) := by
  rw [V3.norm_def]; congr 1; unfold Q.normSq at hq; simp only [Q.vec]; linarith

/-- exact inverse on unit quaternions with `w ≥ 0` outside the cut-off -/
theorem quatExp_quatLog (q : Q ℝ) (hq : q.normSq = 1) (hw : 0 ≤ q.w) (h : cutoff < q.vec.norm) :
    quatExp (quatLog q) = q := by
  have hn : 0 < q.vec.norm := lt_trans cutoff_pos h
  obtain ⟨hw1, hw2⟩ := abs_w_le_one q hq
  have hvn := vec_norm_of_unit q hq
  have hsin : Real.sin (Real.arccos q.w) = q.vec.norm := by rw [Real.sin_arccos, hvn]
  have hacos : q.vec.norm ≤ Real.arccos q.w := by
    rw [← hsin]; exact Real.sin_le (Real.arccos_nonneg _)
  have hln : (quatLog q).norm = 2 * Real.arccos q.w := by
    rw [quatLog_norm q h, abs_of_nonneg hw]
  have hc : cutoff < (quatLog q).norm := by rw [hln]; linarith
  have ha : 0 < Real.arccos q.w := lt_of_lt_of_le hn hacos
  rw [quatExp_regular _ hc, hln, quatLog_pos q h hw]
  have h2 : 2 * Real.arccos q.w / 2 = Real.arccos q.w := by ring
  rw [h2, Real.cos_arccos hw1 hw2, hsin]
  ext <;> simp only <;> field_simp

/-! ### sum and difference -/

/-- sum then difference: the unit base quaternion cancels exactly -/
theorem quatDiff_quatSum (q : Q ℝ) (hq : q.normSq = 1) (r : V3 ℝ) :
    quatDiff (quatSum q r) q = quatLog (quatExp r) := by
  unfold quatDiff quatSum
  rw [mul_assoc', mul_conj_self, hq, mul_one']

/-- difference then sum: `exp(log(p q*)) ⊗ q` -/
theorem quatSum_quatDiff (p q : Q ℝ) :
    quatSum q (quatDiff p q) = (quatExp (quatLog (p.mul q.conj))).mul q := rfl

theorem mul_conj_mul_cancel (p q : Q ℝ) (hq : q.normSq = 1) : (p.mul q.conj).mul q = p := by
  rw [mul_assoc', conj_mul_self, hq, mul_one']

/-! ### the witness of the cut-off sliver: `r = (2.000000001e-4, 0, 0)` -/

def rSliver : V3 ℝ := ⟨2.000000001e-4, 0, 0⟩

theorem rSliver_norm : rSliver.norm = 2.000000001e-4 := by
  rw [V3.norm_def]
  simp only [rSliver]
  rw [show (2.000000001e-4 : ℝ) ^ 2 + 0 ^ 2 + 0 ^ 2 = (2.000000001e-4 : ℝ) ^ 2 by ring]
  exact Real.sqrt_sq (by norm_num)

theorem rSliver_sin : Real.sin (rSliver.norm / 2) ≤ cutoff := by
  rw [rSliver_norm, cutoff_val]
  have hb := Real.sin_bound (x := 2.000000001e-4 / 2) (by rw [abs_of_pos] <;> norm_num)
  have h1 := (abs_le.mp hb).2
  rw [abs_of_pos (by norm_num : (0 : ℝ) < 2.000000001e-4 / 2)] at h1
  have h2 : (2.000000001e-4 / 2 : ℝ) - (2.000000001e-4 / 2) ^ 3 / 6 + (2.000000001e-4 / 2) ^ 5 / 100 ≤ 1 / 10000 := by
    norm_num
  linarith

end BFL.Quat
