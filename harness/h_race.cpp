// C10 stress harness (ThreadSanitizer build): the main thread is the *controller* — it issues
// run / reset / reboot / step_number / is_running / skip(every name) / teardown against a filter
// whose filtering thread is running steps — exactly the situation the property quantifies over.
//
//   stdin, one case per line:   race <kind> <seed> <rounds> <pause_us> [<log directory> | -]
//       with a log directory the filter's Logger is enabled before boot() (files <dir>/race_*.txt), so the
//       filtering thread writes its log files in every step while the controller issues commands
//       kind  kf   GaussianFilter( KFPrediction(LTI + exogenous), KFCorrection(LTI) )
//             ukf  GaussianFilter( UKFPrediction(additive LTI + exogenous), UKFCorrection(additive LTI) )
//             sis  SIS( DrawParticles(LTI + exogenous), BootstrapCorrection(LTI, likelihood) )
//             gpf  SIS( GPFPrediction(KFPrediction), GPFCorrection(likelihood, KFCorrection, transition) )
//                               afterwait <kind> <seed> neverrun|rebooted read|destroy
//       the owner's view after wait(): boot() [run(), steps, reboot()] teardown() wait(), then the owner
//       reads the filter's results (plain state written by initialization_step / the steps) or destroys
//       the filter at once.  wait() joins the filtering thread, so this is ordered — unless the join is lost.
//                               initfail <kind> <seed>
//       the filter's initialization_step() fails twice, slowly; run(), reset() and teardown() arrive meanwhile
//   stdout:  ok kind=<kind> steps=<filter steps run> cmds=<commands issued> <command>=<count>… skip:<name>=<accepted>/<rejected>…
//
// The harness adds no synchronisation of its own between the two threads apart from counters that
// are std::atomic with relaxed ordering (no happens-before edge for ThreadSanitizer); every model
// object is used by the filtering thread only.  Run with TSAN_OPTIONS=halt_on_error=0 and read the
// reports on stderr (checks/c10.py).
#include <BayesFilters/GaussianFilter.h>
#include <BayesFilters/SIS.h>
#include <BayesFilters/KFPrediction.h>
#include <BayesFilters/KFCorrection.h>
#include <BayesFilters/UKFPrediction.h>
#include <BayesFilters/UKFCorrection.h>
#include <BayesFilters/DrawParticles.h>
#include <BayesFilters/BootstrapCorrection.h>
#include <BayesFilters/GPFPrediction.h>
#include <BayesFilters/GPFCorrection.h>
#include <BayesFilters/LTIStateModel.h>
#include <BayesFilters/LTIMeasurementModel.h>
#include <BayesFilters/ExogenousModel.h>
#include <BayesFilters/LikelihoodModel.h>
#include <BayesFilters/ParticleSetInitialization.h>
#include <BayesFilters/Resampling.h>
#include <BayesFilters/Gaussian.h>
#include <BayesFilters/utils.h>

#include <atomic>
#include <cmath>
#include <cstdint>
#include <iostream>
#include <memory>
#include <random>
#include <sstream>
#include <string>
#include <unistd.h>
#include <pthread.h>

using namespace bfl;
using namespace Eigen;

static std::atomic<long> g_steps{0};      // relaxed counters: no synchronisation for TSan
// the harness's model objects (user code from the library's point of view) belong to the filtering thread once the
// filter is booted: a call of one of their virtual functions made by the controller (= main) thread is counted
static std::atomic<long> g_foreign_model_calls{0};
static const pthread_t g_main_thread = pthread_self();
static std::atomic<bool> g_booted{false};
static std::atomic<long> g_foreign_hook_calls{0};
// the same for the hooks of the harness's filters (initialization_step / filtering_step / run_condition / log)
static inline void hook_call() {
    if (g_booted.load(std::memory_order_relaxed) && pthread_equal(pthread_self(), g_main_thread))
        g_foreign_hook_calls.fetch_add(1, std::memory_order_relaxed);
}
static inline void model_call() {
    if (g_booted.load(std::memory_order_relaxed) && pthread_equal(pthread_self(), g_main_thread))
        g_foreign_model_calls.fetch_add(1, std::memory_order_relaxed);
}
static const int N = 2;                   // state size
static const int M = 1;                   // measurement size
static const int NP = 12;                 // particles

static MatrixXd matF() { MatrixXd F(N, N); F << 0.9, 0.1, 0.0, 0.8; return F; }
static MatrixXd matQ() { MatrixXd Q(N, N); Q << 0.05, 0.0, 0.0, 0.04; return Q; }
static MatrixXd matH() { MatrixXd H(M, N); H << 1.0, 0.5; return H; }
static MatrixXd matR() { MatrixXd R(M, M); R << 0.2; return R; }

struct HExo : public ExogenousModel {
    void propagate(const Ref<const MatrixXd>& cur, Ref<MatrixXd> prop) override { model_call(); prop = MatrixXd::Constant(cur.rows(), cur.cols(), 0.01); }
    bool setProperty(const std::string&) override { return false; }
    VectorDescription getStateDescription() const override { return VectorDescription(N); }
};

struct HState : public LTIStateModel {
    explicit HState(unsigned seed) : LTIStateModel(matF(), matQ()), gen_(seed), dist_(0.0, 1.0) {
        add_exogenous_model(std::unique_ptr<ExogenousModel>(new HExo()));
    }
    VectorDescription getStateDescription() override { return VectorDescription(N); }
    MatrixXd getNoiseSample(const std::size_t num) override {
        model_call();
        MatrixXd s(N, num);
        for (long j = 0; j < s.cols(); ++j) for (long i = 0; i < N; ++i) s(i, j) = 0.2 * dist_(gen_);
        return s;
    }
    VectorXd getTransitionProbability(const Ref<const MatrixXd>& prev, const Ref<const MatrixXd>& cur) override {
        VectorXd t(cur.cols());
        MatrixXd F = matF();
        for (long i = 0; i < cur.cols(); ++i) t(i) = std::exp(-0.5 * (cur.col(i) - F * prev.col(i)).squaredNorm());
        return t;
    }
    std::mt19937_64 gen_; std::normal_distribution<double> dist_;
};

struct HMeas : public LTIMeasurementModel {
    HMeas() : LTIMeasurementModel(matH(), matR()) {}
    bool freeze(const Data&) override { model_call(); ++k_; return true; }
    std::pair<bool, Data> measure(const Data&) const override { model_call(); MatrixXd y(M, 1); y << 1.0 + 0.1 * std::sin(0.01 * k_); return std::make_pair(true, Data(y)); }
    VectorDescription getInputDescription() const override { return VectorDescription(N, 0, M); }
    VectorDescription getMeasurementDescription() const override { return VectorDescription(M); }
    long k_ = 0;
};

struct HLik : public LikelihoodModel {
    std::pair<bool, VectorXd> likelihood(const MeasurementModel& mm, const Ref<const MatrixXd>& states) override {
        model_call();
        bool ok; Data y; std::tie(ok, y) = mm.measure();
        MatrixXd yy = any::any_cast<MatrixXd>(y);
        MatrixXd H = matH();
        VectorXd l(states.cols());
        for (long i = 0; i < states.cols(); ++i) l(i) = std::exp(-0.5 * (H * states.col(i) - yy.col(0)).squaredNorm() / 0.5) + 1e-12;
        return std::make_pair(true, l);
    }
};

struct HInit : public ParticleSetInitialization {
    bool initialize(ParticleSet& p) override {
        model_call();
        for (long i = 0; i < p.state().cols(); ++i) {
            p.state(i) << 0.1 * (i % 5), -0.1 * (i % 3);
            p.mean(i) = p.state(i);
            p.covariance(i) = 0.1 * MatrixXd::Identity(N, N);
        }
        p.weight().setConstant(-std::log(static_cast<double>(p.state().cols())));
        return true;
    }
};

// A Gaussian filter written the way the library's own tests write one.
class HGauss : public GaussianFilter {
public:
    HGauss(std::unique_ptr<GaussianPrediction> p, std::unique_ptr<GaussianCorrection> c)
        : GaussianFilter(std::move(p), std::move(c)), pred_(N), corr_(N) { }
protected:
    // the run condition reads plain state that filtering_step() mutates (both hooks belong to the filtering thread)
    bool run_condition() override { hook_call(); return budget_ > 0 && total_left_ > 0 && step_number() < 2000000000u; }
    bool initialization_step() override {
        hook_call();
        corr_.mean() << 0.5, -0.5;
        corr_.covariance() = 0.3 * MatrixXd::Identity(N, N);
        budget_ = 2000000000L;
        if (fail_inits_ > 0) { --fail_inits_; usleep(init_delay_us_); return false; }   // an initialisation that fails, slowly
        return true;
    }
    void filtering_step() override {
        hook_call();
        prediction().predict(corr_, pred_);
        correction().freeze_measurements();
        correction().correct(pred_, corr_);
        if (!(corr_.covariance().allFinite() && corr_.mean().allFinite() && corr_.covariance().trace() < 1e6)) initialization_step();
        log();
        --budget_;
        --total_left_;
        g_steps.fetch_add(1, std::memory_order_relaxed);
    }
    std::vector<std::string> log_file_names(const std::string& folder_path, const std::string& file_name_prefix) override {
        return { folder_path + "/" + file_name_prefix + "_pred_mean", folder_path + "/" + file_name_prefix + "_cor_mean" };
    }
    void log() override { hook_call(); logger(pred_.mean().transpose(), corr_.mean().transpose()); }
public:
    double result() const { return corr_.mean()(0) + corr_.covariance()(0, 0) + pred_.mean()(0); }   // owner reads the estimate
    void fail_initialisation(int times, long delay_us) { fail_inits_ = times; init_delay_us_ = delay_us; }   // before boot()
    void limit_steps(long n) { total_left_ = n; }                                                        // before boot()
private:
    long budget_ = 2000000000L;
    long total_left_ = 2000000000L;          // plain state of the filtering thread; not refilled by the initialisation
    int fail_inits_ = 0;
    long init_delay_us_ = 0;
private:
    Gaussian pred_, corr_;
};

class HSis : public SIS {
public:
    using SIS::SIS;
protected:
    void filtering_step() override { hook_call(); SIS::filtering_step(); --left_; --total_left_; g_steps.fetch_add(1, std::memory_order_relaxed); }
    bool run_condition() override { hook_call(); return left_ > 0 && total_left_ > 0; }       // plain state mutated by the step
    bool initialization_step() override {
        hook_call();
        left_ = 2000000000L;
        bool ok = SIS::initialization_step();
        if (fail_inits_ > 0) { --fail_inits_; usleep(init_delay_us_); return false; }
        return ok;
    }
    long left_ = 2000000000L;
    long total_left_ = 2000000000L;          // not refilled by the initialisation
    int fail_inits_ = 0;
    long init_delay_us_ = 0;
public:
    void fail_initialisation(int times, long delay_us) { fail_inits_ = times; init_delay_us_ = delay_us; }
    void limit_steps(long n) { total_left_ = n; }
public:
    double result() const { return pred_particle_.state(0, 0) + pred_particle_.weight(0) + cor_particle_.weight(0); }   // owner reads the particles
};

static std::unique_ptr<FilteringAlgorithm> make(const std::string& kind, unsigned seed) {
    if (kind == "kf")
        return std::unique_ptr<FilteringAlgorithm>(new HGauss(
            std::unique_ptr<GaussianPrediction>(new KFPrediction(std::unique_ptr<LinearStateModel>(new HState(seed)))),
            std::unique_ptr<GaussianCorrection>(new KFCorrection(std::unique_ptr<LinearMeasurementModel>(new HMeas())))));
    if (kind == "ukf")
        return std::unique_ptr<FilteringAlgorithm>(new HGauss(
            std::unique_ptr<GaussianPrediction>(new UKFPrediction(std::unique_ptr<AdditiveStateModel>(new HState(seed)), 1.0, 2.0, 0.0)),
            std::unique_ptr<GaussianCorrection>(new UKFCorrection(std::unique_ptr<AdditiveMeasurementModel>(new HMeas()), 1.0, 2.0, 0.0))));
    if (kind == "sis")
        return std::unique_ptr<FilteringAlgorithm>(new HSis(NP, N,
            std::unique_ptr<ParticleSetInitialization>(new HInit()),
            std::unique_ptr<PFPrediction>(new DrawParticles(std::unique_ptr<StateModel>(new HState(seed)))),
            std::unique_ptr<PFCorrection>(new BootstrapCorrection(std::unique_ptr<MeasurementModel>(new HMeas()), std::unique_ptr<LikelihoodModel>(new HLik()))),
            std::unique_ptr<Resampling>(new Resampling(seed + 1))));
    if (kind == "gpf")
        return std::unique_ptr<FilteringAlgorithm>(new HSis(NP, N,
            std::unique_ptr<ParticleSetInitialization>(new HInit()),
            std::unique_ptr<PFPrediction>(new GPFPrediction(std::unique_ptr<GaussianPrediction>(new KFPrediction(std::unique_ptr<LinearStateModel>(new HState(seed)))))),
            std::unique_ptr<PFCorrection>(new GPFCorrection(std::unique_ptr<LikelihoodModel>(new HLik()),
                std::unique_ptr<GaussianCorrection>(new KFCorrection(std::unique_ptr<LinearMeasurementModel>(new HMeas()))),
                std::unique_ptr<StateModel>(new HState(seed + 7)), seed + 3)),
            std::unique_ptr<Resampling>(new Resampling(seed + 1))));
    return nullptr;
}

static const char* const kNames[6] = {"prediction", "state", "exogenous", "correction", "all", "nonsense"};

// the controller: every command is counted (controller thread only) and forwarded to the filter
struct Ctl {
    FilteringAlgorithm& f;
    long n_run = 0, n_reset = 0, n_reboot = 0, n_teardown = 0, n_wait = 0, n_step_number = 0, n_is_running = 0;
    long skip_ok[6] = {0, 0, 0, 0, 0, 0}, skip_rej[6] = {0, 0, 0, 0, 0, 0};
    explicit Ctl(FilteringAlgorithm& fa) : f(fa) { }
    void run() { ++n_run; f.run(); }
    void reset() { ++n_reset; f.reset(); }
    void reboot() { ++n_reboot; f.reboot(); }
    void teardown() { ++n_teardown; f.teardown(); }
    void wait() { ++n_wait; f.wait(); }
    void step_number() { ++n_step_number; (void) f.step_number(); }
    void is_running() { ++n_is_running; (void) f.is_running(); }
    long n_log_query = 0;
    void log_query() { ++n_log_query; (void) f.get_folder_path().size(); (void) f.get_file_name_prefix().size(); }
    void skip(int n, bool on) {
        bool ok = false;
        try { ok = f.skip(kNames[n], on); } catch (const std::exception&) { }
        ++(ok ? skip_ok : skip_rej)[n];
    }
    long total() const {
        long t = n_run + n_reset + n_reboot + n_teardown + n_wait + n_step_number + n_is_running;
        for (int i = 0; i < 6; ++i) t += skip_ok[i] + skip_rej[i];
        return t;
    }
};

static void pause_us(std::mt19937& r, long max_us) { if (max_us > 0) usleep(static_cast<useconds_t>(r() % (max_us + 1))); }

// wait (without synchronising with the filtering thread) until it has run a few more steps
static void let_it_step(long more) {
    long target = g_steps.load(std::memory_order_relaxed) + more;
    for (int i = 0; i < 20000 && g_steps.load(std::memory_order_relaxed) < target; ++i) usleep(50);
}

static std::string run_case(const std::string& kind, unsigned seed, long rounds, long pause, const std::string& logdir) {
    std::unique_ptr<FilteringAlgorithm> f = make(kind, seed);
    if (!f) return "bad-kind";
    bool logging = false;
    if (!logdir.empty() && logdir != "-") logging = f->enable_log(logdir, "race_" + kind);
    std::mt19937 r(seed * 7919u + 13u);
    Ctl c(*f);
    g_steps.store(0, std::memory_order_relaxed);
    g_booted.store(true, std::memory_order_relaxed);
    if (!f->boot()) return "boot-failed";
    c.is_running(); c.step_number();                 // queries before the first run()
    c.run();
    let_it_step(3);
    for (long k = 0; k < rounds; ++k) {
        // every skip name, on and off, while the filter is stepping
        for (int n = 0; n < 6; ++n) {
            bool on = ((r() >> 3) & 1u) != 0;
            c.skip(n, on); let_it_step(2); pause_us(r, pause);
            c.skip(n, !on); let_it_step(2); pause_us(r, pause);
        }
        // stop and re-initialise request back to back while a step is still in flight
        c.reboot(); c.reset(); pause_us(r, pause); c.is_running();
        c.run(); let_it_step(2);
        // every query and lifecycle command at least once per round, in every phase of the recursion
        c.is_running(); pause_us(r, pause); c.step_number(); c.log_query();
        c.reset(); let_it_step(2);
        c.reboot(); c.is_running(); pause_us(r, pause); c.step_number();   // on its way to / parked in the wait
        c.run(); let_it_step(2);
        // queries and lifecycle commands in a seeded order
        for (int j = 0; j < 8; ++j) {
            switch (r() % 8) {
                case 0: c.step_number(); break;
                case 1: c.is_running(); break;
                case 2: c.reset(); let_it_step(2); break;
                case 3: c.reboot(); c.is_running(); c.step_number(); pause_us(r, pause); c.is_running(); c.step_number(); c.run(); let_it_step(2); break;
                case 4: c.run(); break;
                case 5: c.skip(static_cast<int>(r() % 5), (r() & 1u) != 0); break;
                case 6: c.step_number(); c.is_running(); break;
                default: c.reset(); break;
            }
            pause_us(r, pause);
        }
    }
    for (int n = 0; n < 5; ++n) c.skip(n, false);
    let_it_step(2);
    c.teardown();
    // queries between teardown and join, while the filtering thread winds down and exits
    for (int i = 0; i < 40; ++i) { c.is_running(); usleep(25); c.step_number(); usleep(25); }
    c.wait();
    (void) f->is_running(); (void) f->step_number(); // after the join: ordered, never a race
    std::ostringstream os;
    os << "ok kind=" << kind << " logging=" << (logging ? 1 : 0) << " steps=" << g_steps.load(std::memory_order_relaxed) << " cmds=" << c.total()
       << " run=" << c.n_run << " reset=" << c.n_reset << " reboot=" << c.n_reboot << " teardown=" << c.n_teardown << " wait=" << c.n_wait
       << " step_number=" << c.n_step_number << " is_running=" << c.n_is_running << " log_query=" << c.n_log_query;
    for (int n = 0; n < 6; ++n) os << " skip:" << kNames[n] << "=" << c.skip_ok[n] << "/" << c.skip_rej[n];
    return os.str();
}

// advisory (not a command of the property): the owner reconfigures logging while the filter is stepping
static std::string run_extlog(const std::string& kind, unsigned seed, const std::string& logdir) {
    std::unique_ptr<FilteringAlgorithm> f = make(kind, seed);
    if (!f) return "bad-kind";
    g_steps.store(0, std::memory_order_relaxed);
    f->enable_log(logdir, "ext_" + kind);
    g_booted.store(true, std::memory_order_relaxed);
    if (!f->boot()) return "boot-failed";
    f->run(); let_it_step(3);
    for (int i = 0; i < 6; ++i) { f->disable_log(); let_it_step(2); f->enable_log(logdir, "ext_" + kind); let_it_step(2); }
    f->teardown(); f->wait();
    std::ostringstream os;
    os << "ok extlog kind=" << kind << " steps=" << g_steps.load(std::memory_order_relaxed);
    return os.str();
}

// an initialisation that fails (slowly) while the controller already issues teardown()
static std::string run_initfail(const std::string& kind, unsigned seed) {
    std::unique_ptr<FilteringAlgorithm> f = make(kind, seed);
    if (!f) return "bad-kind";
    if (HGauss* g = dynamic_cast<HGauss*>(f.get())) g->fail_initialisation(2, 1500);
    if (HSis* s = dynamic_cast<HSis*>(f.get())) s->fail_initialisation(2, 1500);
    g_steps.store(0, std::memory_order_relaxed);
    g_booted.store(true, std::memory_order_relaxed);
    if (!f->boot()) return "boot-failed";
    f->run();
    usleep(300 + seed % 900);             // the first initialisation is in progress
    (void) f->is_running(); (void) f->step_number();
    f->reset();
    usleep(200 + seed % 700);
    f->teardown();
    f->wait();
    std::ostringstream os;
    os << "ok initfail kind=" << kind << " steps=" << g_steps.load(std::memory_order_relaxed);
    return os.str();
}

// every command while the filtering thread leaves its recursion for good and after it has ended, before the
// join: the thread's last accesses (its exit path) against run / reset / reboot / teardown / queries / skip.
//   mode teardown: the controller asks for the end;  mode expire: the run condition turns false by itself
//   (total step budget, not refilled by the initialisations the resets / reboots cause)
static std::string run_exit(const std::string& kind, unsigned seed, const std::string& mode) {
    std::unique_ptr<FilteringAlgorithm> f = make(kind, seed);
    if (!f) return "bad-kind";
    const long budget = 30 + static_cast<long>(seed % 40);
    if (mode == "expire") {
        if (HGauss* g = dynamic_cast<HGauss*>(f.get())) g->limit_steps(budget);
        if (HSis* s = dynamic_cast<HSis*>(f.get())) s->limit_steps(budget);
    }
    std::mt19937 r(seed * 104729u + 7u);
    Ctl c(*f);
    g_steps.store(0, std::memory_order_relaxed);
    g_booted.store(true, std::memory_order_relaxed);
    if (!f->boot()) return "boot-failed";
    c.run();
    let_it_step(3);
    if (mode == "teardown") c.teardown();
    long after_end = 0;
    for (int i = 0; i < 4000 && after_end < 12; ++i) {
        switch (r() % 7) {
            case 0: c.reboot(); c.is_running(); c.run(); break;
            case 1: c.reboot(); c.step_number(); c.run(); break;
            case 2: c.reset(); break;
            case 3: c.skip(static_cast<int>(r() % 5), (r() & 1u) != 0); break;
            case 4: c.is_running(); c.step_number(); break;
            case 5: c.run(); break;
            default: c.reboot(); c.run(); break;
        }
        usleep(static_cast<useconds_t>(r() % 60));
        // (relaxed counter: no synchronisation) the thread has used up its budget / was asked to end
        if (mode == "teardown" || g_steps.load(std::memory_order_relaxed) >= budget) ++after_end;
    }
    c.reboot(); c.run(); c.reset();           // once more, certainly after the thread's exit path has begun
    usleep(2000);
    c.reboot(); c.is_running(); c.step_number();
    if (mode != "teardown") c.teardown();     // (a filter parked by the last reboot() must be let go)
    c.wait();
    (void) f->is_running(); (void) f->step_number();
    std::ostringstream os;
    os << "ok exit kind=" << kind << " mode=" << mode << " steps=" << g_steps.load(std::memory_order_relaxed) << " cmds=" << c.total();
    return os.str();
}

static std::string fin(const std::string& o) { return o + " foreign_model_calls=" + std::to_string(g_foreign_model_calls.load(std::memory_order_relaxed)) + " foreign_hook_calls=" + std::to_string(g_foreign_hook_calls.load(std::memory_order_relaxed)); }

static double read_result(FilteringAlgorithm* f) {
    if (HGauss* g = dynamic_cast<HGauss*>(f)) return g->result();
    if (HSis* s = dynamic_cast<HSis*>(f)) return s->result();
    return 0.0;
}

static std::string run_afterwait(const std::string& kind, unsigned seed, const std::string& phase, const std::string& action) {
    std::unique_ptr<FilteringAlgorithm> f = make(kind, seed);
    if (!f) return "bad-kind";
    g_steps.store(0, std::memory_order_relaxed);
    g_booted.store(true, std::memory_order_relaxed);
    if (!f->boot()) return "boot-failed";
    if (phase == "rebooted") { f->run(); let_it_step(3); f->reboot(); usleep(200 + seed % 300); }
    else if (phase != "neverrun") return "bad-phase";
    f->teardown();
    f->wait();
    double r = 0.0;
    if (action == "read") {
        for (int i = 0; i < 20; ++i) { r += read_result(f.get()); r += f->step_number(); usleep(100); }
        usleep(20000);
    } else if (action == "destroy") {
        f.reset();
        usleep(20000);
    } else return "bad-action";
    std::ostringstream os;
    os << "ok afterwait kind=" << kind << " phase=" << phase << " action=" << action << " steps=" << g_steps.load(std::memory_order_relaxed) << " r=" << (r == r ? 1 : 0);
    return os.str();
}

int main() {
    std::ios::sync_with_stdio(false);
    std::string line;
    while (std::getline(std::cin, line)) {
        std::istringstream is(line);
        std::string op, kind, logdir; unsigned seed = 0; long rounds = 1, pause = 100;
        is >> op >> kind >> seed >> rounds >> pause >> logdir;
        if (op == "afterwait") {
            // afterwait <kind> <seed> <phase> <action>: the remaining tokens were read into rounds/pause as text
            std::istringstream is2(line);
            std::string o2, k2, phase, action; unsigned s2 = 0;
            is2 >> o2 >> k2 >> s2 >> phase >> action;
            std::string out2;
            try { out2 = run_afterwait(k2, s2, phase, action); }
            catch (const std::exception& e) { out2 = std::string("throw:") + e.what(); }
            std::cout << fin(out2) << "\n" << std::flush;
            continue;
        }
        if (op == "exit") {
            // exit <kind> <seed> teardown|expire
            std::istringstream is5(line);
            std::string o5, k5, m5; unsigned s5 = 0;
            is5 >> o5 >> k5 >> s5 >> m5;
            std::string out5;
            try { out5 = run_exit(k5, s5, m5); } catch (const std::exception& e) { out5 = std::string("throw:") + e.what(); }
            std::cout << fin(out5) << std::endl;
            continue;
        }
        if (op == "initfail") {
            std::istringstream is4(line);
            std::string o4, k4; unsigned s4 = 0;
            is4 >> o4 >> k4 >> s4;
            std::string out4;
            try { out4 = run_initfail(k4, s4); } catch (const std::exception& e) { out4 = std::string("throw:") + e.what(); }
            std::cout << fin(out4) << "\n" << std::flush;
            continue;
        }
        if (op == "extlog") {
            std::istringstream is3(line);
            std::string o3, k3, d3; unsigned s3 = 0;
            is3 >> o3 >> k3 >> s3 >> d3;
            std::string out3;
            try { out3 = run_extlog(k3, s3, d3); } catch (const std::exception& e) { out3 = std::string("throw:") + e.what(); }
            std::cout << fin(out3) << "\n" << std::flush;
            continue;
        }
        if (op != "race") { std::cout << "bad-op\n"; continue; }
        std::string out;
        try { out = run_case(kind, seed, rounds, pause, logdir); }
        catch (const std::exception& e) { out = std::string("throw:") + e.what(); }
        std::cout << fin(out) << "\n" << std::flush;
    }
    return 0;
}
