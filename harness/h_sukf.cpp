// Correspondence harness for C05: the real SUKFCorrection against the real (additive) UKFCorrection
// on the same inputs, with a harness-defined additive measurement model y = h(x) + v.
#include "common.hpp"
#include <BayesFilters/SUKFCorrection.h>
#include <BayesFilters/UKFCorrection.h>
#include <BayesFilters/AdditiveMeasurementModel.h>
#include <BayesFilters/GaussianMixture.h>
#include <BayesFilters/sigma_point.h>
#include <cmath>
#include <memory>

using namespace bfl;
using namespace Eigen;
using vh::Toks; using vh::Out;

// y = h(x) + v,  h(x) = f(H x + h0) with f componentwise / coupled:
//   0 affine      f(z) = z
//   1 sine        f(z)_i = sin(z_i) + z_i / 2
//   2 quadratic   f(z)_i = z_i + z_i^2 / 4
//   3 coupled     f(z)_i = z_i * cos(z_{i+1 mod m}) + z_i
struct HModel : public AdditiveMeasurementModel {
    HModel(int kind, long nc, const MatrixXd& H, const VectorXd& h0, const VectorXd& y, const MatrixXd& R, bool failM, bool failP, bool failI)
        : kind_(kind), nc_(nc), H_(H), h0_(h0), y_(y), R_(R), failM_(failM), failP_(failP), failI_(failI) {}
    bool freeze(const Data&) override { return true; }
    std::pair<bool, Data> measure(const Data&) const override { MatrixXd y = y_; return std::make_pair(!failM_, Data(y)); }
    std::pair<bool, Data> predictedMeasure(const Ref<const MatrixXd>& x) const override {
        X_ = x;
        MatrixXd z = (H_ * x).colwise() + h0_;
        MatrixXd out(z.rows(), z.cols());
        const long m = z.rows();
        for (long j = 0; j < z.cols(); ++j)
            for (long i = 0; i < m; ++i) {
                double v = z(i, j);
                switch (kind_) {
                    case 0: out(i, j) = v; break;
                    case 1: out(i, j) = std::sin(v) + 0.5 * v; break;
                    case 2: out(i, j) = v + 0.25 * v * v; break;
                    default: out(i, j) = v * std::cos(z((i + 1) % m, j)) + v; break;
                }
            }
        Y_ = out;
        return std::make_pair(!failP_, Data(out));
    }
    // zmode_ 1: the measurement is *exactly* the predicted measurement of component zcomp_ (null innovation);
    // zmode_ 2: only its first zrows_ entries are (null innovation in the first sub-measurement).  The effective
    // measurement is recorded in yeff_.
    std::pair<bool, Data> innovation(const Data& pred, const Data& meas) const override {
        MatrixXd p = any::any_cast<MatrixXd>(pred);
        VectorXd y = any::any_cast<MatrixXd>(meas).col(0);
        if (zmode_ != 0 && zcomp_ < p.cols()) {
            long rows = (zmode_ == 1) ? p.rows() : std::min<long>(zrows_, p.rows());
            y.head(rows) = p.col(zcomp_).head(rows);
        }
        yeff_ = y;
        MatrixXd inn = -(p.colwise() - y);
        return std::make_pair(!failI_, Data(inn));
    }
    std::pair<bool, MatrixXd> getNoiseCovarianceMatrix() const override { return std::make_pair(true, R_); }
    VectorDescription getInputDescription() const override { return VectorDescription(H_.cols() - nc_, nc_, y_.size()); }
    VectorDescription getMeasurementDescription() const override { return VectorDescription(y_.size()); }
    int kind_; long nc_; MatrixXd H_; VectorXd h0_, y_; MatrixXd R_; bool failM_, failP_, failI_;
    mutable MatrixXd X_, Y_;     // what the correction asked for and what it was told
    int zmode_ = 0; long zcomp_ = 0, zrows_ = 0; mutable VectorXd yeff_;
};

static void outLik(Out& o, std::pair<bool, VectorXd> l) {
    o.s(l.first ? "lik" : "nolik"); o.n(l.first ? l.second.size() : 0); if (l.first) o.m(l.second);
}

// One correction object of each kind, driven through one or several successive correct() + getLikelihood()
// calls.  From call to call vary: component count, belief, measurement, failing model answers, the measurement
// size (the first msz rows of H, h0 and the leading msz x msz corner of a full R are in force), the measurement
// function (kind), the scale of the reported noise covariance (time-varying collaborators), a skip(true);
// skip(false) toggle that nets to nothing.  The state has n rows, the last nc of them circular (Euler angles).
//   sukf  n nc msz bs red k alpha beta kappa hkind failM failP failI H h0 y R means covs outw
//   sukfs n nc mszmax bs red alpha beta kappa mv H h0 R ncalls
//         { k msz kind failM failP failI rscale toggle qlik zmode zcomp y(msz) means covs outw }*
//   zmode: 0 = the measurement y as given; 1 = y replaced by the predicted measurement of component zcomp (exactly null
//          innovation); 2 = only its first sub-measurement
//   mv: 0 = the object as constructed, 1 = a move-constructed copy from the start, 2 = moved after the first call
//   qlik: query the serial likelihood after this call (0 only where stale members of mismatching size would be read)
struct Call { long k, msz; int kind; bool failM, failP, failI; double rscale; bool toggle, qlik; int zmode; long zcomp; VectorXd y; MatrixXd means, covs; VectorXd outw; };

static bool sameLik(const std::pair<bool, VectorXd>& a, const std::pair<bool, VectorXd>& b) {
    if (a.first != b.first) return false;
    if (!a.first) return true;
    return vh::same_bits(MatrixXd(a.second), MatrixXd(b.second));
}

static std::string runCalls(long n, long nc, long bs, bool red, double alpha, double beta, double kappa, int mv,
                            const MatrixXd& H, const VectorXd& h0, const MatrixXd& R, const std::vector<Call>& calls) {
    const long mszmax = H.rows();
    HModel* ms = new HModel(0, nc, H, h0, VectorXd::Zero(mszmax), R, false, false, false);
    std::unique_ptr<SUKFCorrection> sukfc(new SUKFCorrection(std::unique_ptr<AdditiveMeasurementModel>(ms), alpha, beta, kappa, (std::size_t)bs, red));
    if (mv == 1) sukfc.reset(new SUKFCorrection(std::move(*sukfc)));
    // the standard additive correction (the oracle) is given the full covariance the encoding stands for
    HModel* mu = new HModel(0, nc, H, h0, VectorXd::Zero(mszmax), R, false, false, false);
    UKFCorrection ukfc(std::unique_ptr<AdditiveMeasurementModel>(mu), alpha, beta, kappa);
    sigma_point::UTWeight w((std::size_t)n, alpha, beta, kappa);
    Out o; o.s("ok");
    bool firstCall = true;
    for (const Call& c : calls) {
        if (!firstCall) o.s("|");
        if (!firstCall && mv == 2) { sukfc.reset(new SUKFCorrection(std::move(*sukfc))); mv = 0; }
        const long msz = c.msz;
        const bool divides = (msz % bs) == 0;
        const bool faulty = c.failM || c.failP || c.failI;
        GaussianMixture pred(c.k, n - nc, nc), corrS(c.k, n - nc, nc), corrU(c.k, n - nc, nc);
        pred.mean() = c.means; pred.covariance() = c.covs;
        for (GaussianMixture* g : { &corrS, &corrU }) { g->mean().setConstant(12345.0); g->covariance().setConstant(-54321.0); g->weight() = c.outw; }
        MatrixXd m0 = pred.mean(), c0 = pred.covariance(), w0 = pred.weight();
        // what the measurement models answer in this call
        MatrixXd Rs = red ? MatrixXd(c.rscale * R) : MatrixXd(c.rscale * R.topLeftCorner(msz, msz));
        MatrixXd Rfull = Rs;
        if (red && divides) { Rfull = MatrixXd::Zero(msz, msz); for (long i = 0; i < msz / bs; ++i) Rfull.block(bs * i, bs * i, bs, bs) = Rs; }
        ms->R_ = Rs; mu->R_ = Rfull;
        for (HModel* m : { ms, mu }) {
            m->kind_ = c.kind; m->H_ = H.topRows(msz); m->h0_ = h0.head(msz); m->y_ = c.y;
            m->failM_ = c.failM; m->failP_ = c.failP; m->failI_ = c.failI; m->X_.resize(0, 0); m->Y_.resize(0, 0);
            m->zmode_ = c.zmode; m->zcomp_ = c.zcomp; m->zrows_ = bs; m->yeff_ = c.y;
        }
        std::pair<bool, VectorXd> likS0 = firstCall ? sukfc->getLikelihood() : std::make_pair(false, VectorXd());
        if (c.toggle) { sukfc->skip(true); sukfc->skip(false); ukfc.skip(true); ukfc.skip(false); }
        sukfc->correct(pred, corrS);
        std::pair<bool, VectorXd> likS = c.qlik ? sukfc->getLikelihood() : std::make_pair(false, VectorXd());
        // the query must be repeatable: asked three times, the answers agree bit for bit
        bool rep = true;
        if (c.qlik) { rep = sameLik(likS, sukfc->getLikelihood()); rep = sameLik(likS, sukfc->getLikelihood()) && rep; }
        o.s("S"); o.m(corrS.mean()); o.m(corrS.covariance()); o.m(corrS.weight()); outLik(o, likS);
        o.s(likS0.first ? "prelik" : "noprelik");
        // The standard correction is the oracle for successful steps only: it is not driven through calls
        // with a failing model answer (what it does then is C12's subject, not C05's).
        if (divides && !faulty) {
            ukfc.correct(pred, corrU);
            o.s("U"); o.m(corrU.mean()); o.m(corrU.covariance()); outLik(o, ukfc.getLikelihood());
        } else {
            o.s("Unone");
        }
        bool same = vh::same_bits(m0, pred.mean()) && vh::same_bits(c0, pred.covariance()) && vh::same_bits(w0, pred.weight());
        o.s("W"); o.n(w.mean.size()); o.m(w.mean); o.m(w.covariance); o.d(w.c);
        o.s("X"); o.n(ms->X_.cols()); o.m(ms->X_);
        o.s("Y"); o.n(ms->Y_.cols()); o.m(ms->Y_);
        o.s(same ? "in-same" : "in-modified");
        o.s(rep ? "likrep-same" : "likrep-diff");
        o.s("YE"); o.n(ms->yeff_.size()); o.m(ms->yeff_);      // the measurement the serial correction's innovation was formed with
        firstCall = false;
    }
    return o.str();
}

static std::string sukf(Toks& t) {
    long n = t.nat(), nc = t.nat(), msz = t.nat(), bs = t.nat(); bool red = t.flag(); long k = t.nat();
    double alpha = t.dbl(), beta = t.dbl(), kappa = t.dbl();
    int kind = (int)t.nat(); bool failM = t.flag(), failP = t.flag(), failI = t.flag();
    MatrixXd H = t.mat(msz, n); VectorXd h0 = t.vec(msz), y = t.vec(msz);
    MatrixXd R = red ? t.mat(bs, bs) : t.mat(msz, msz);
    Call c; c.k = k; c.msz = msz; c.kind = kind; c.failM = failM; c.failP = failP; c.failI = failI; c.rscale = 1.0;
    c.toggle = false; c.qlik = true; c.zmode = 0; c.zcomp = 0; c.y = y;
    c.means = t.mat(n, k); c.covs = t.mat(n, n * k); c.outw = t.vec(k);
    t.done();
    return runCalls(n, nc, bs, red, alpha, beta, kappa, 0, H, h0, R, { c });
}

static std::string sukfs(Toks& t) {
    long n = t.nat(), nc = t.nat(), mszmax = t.nat(), bs = t.nat(); bool red = t.flag();
    double alpha = t.dbl(), beta = t.dbl(), kappa = t.dbl();
    int mv = (int)t.nat();
    MatrixXd H = t.mat(mszmax, n); VectorXd h0 = t.vec(mszmax);
    MatrixXd R = red ? t.mat(bs, bs) : t.mat(mszmax, mszmax);
    long ncalls = t.nat();
    std::vector<Call> calls;
    for (long i = 0; i < ncalls; ++i) {
        Call c; c.k = t.nat(); c.msz = t.nat(); c.kind = (int)t.nat();
        c.failM = t.flag(); c.failP = t.flag(); c.failI = t.flag(); c.rscale = t.dbl(); c.toggle = t.flag(); c.qlik = t.flag(); c.zmode = (int)t.nat(); c.zcomp = t.nat();
        if (c.msz < 1 || c.msz > mszmax) throw vh::BadArgs("msz");
        c.y = t.vec(c.msz); c.means = t.mat(n, c.k); c.covs = t.mat(n, n * c.k); c.outw = t.vec(c.k);
        calls.push_back(c);
    }
    t.done();
    return runCalls(n, nc, bs, red, alpha, beta, kappa, mv, H, h0, R, calls);
}

// A whole history on one object of each kind (round 4): corrections (any size, failing model answers), skip(b) that
// stays in force, move construction, likelihood queries at any moment — also before the first correction, right after
// a move, after a skipped correction, and with the measurement model reporting a different noise covariance than at
// the correction.  The standard correction object is driven through the same operations (not through corrections
// whose size is not a multiple of the block size).
//   sukfh n nc mszmax bs red alpha beta kappa H h0 R nops { op }*
//     op: C k msz kind failM failP failI rscale y(msz) means covs outw | S b | M | Q rscale msz
//   -> ok W s wm wc { C S mean cov U mean cov|Unone X cols .. Y cols .. YE n .. | Q lik|nolik .. U lik|nolik .. }*
static std::string sukfh(Toks& t) {
    long n = t.nat(), nc = t.nat(), mszmax = t.nat(), bs = t.nat(); bool red = t.flag();
    double alpha = t.dbl(), beta = t.dbl(), kappa = t.dbl();
    MatrixXd H = t.mat(mszmax, n); VectorXd h0 = t.vec(mszmax);
    MatrixXd R = red ? t.mat(bs, bs) : t.mat(mszmax, mszmax);
    long nops = t.nat();
    struct Op { char kind; Call c; bool b; double rs; long mq; };
    std::vector<Op> ops;
    for (long i = 0; i < nops; ++i) {
        Op op = Op(); std::string k = t.tok(); op.kind = k.empty() ? '?' : k[0]; op.b = false; op.rs = 1.0;
        if (op.kind == 'C') {
            Call& c = op.c; c.k = t.nat(); c.msz = t.nat(); c.kind = (int)t.nat();
            c.failM = t.flag(); c.failP = t.flag(); c.failI = t.flag(); c.rscale = t.dbl(); c.toggle = false; c.qlik = false; c.zmode = 0; c.zcomp = 0;
            if (c.msz < 1 || c.msz > mszmax) throw vh::BadArgs("msz");
            c.y = t.vec(c.msz); c.means = t.mat(n, c.k); c.covs = t.mat(n, n * c.k); c.outw = t.vec(c.k);
        } else if (op.kind == 'S') { op.b = t.flag(); }
        else if (op.kind == 'M') { }
        else if (op.kind == 'Q') { op.rs = t.dbl(); op.mq = t.nat(); if (op.mq < 1 || op.mq > mszmax) throw vh::BadArgs("mq"); }
        else throw vh::BadArgs("op");
        ops.push_back(op);
    }
    t.done();
    HModel* ms = new HModel(0, nc, H, h0, VectorXd::Zero(mszmax), R, false, false, false);
    std::unique_ptr<SUKFCorrection> sukfc(new SUKFCorrection(std::unique_ptr<AdditiveMeasurementModel>(ms), alpha, beta, kappa, (std::size_t)bs, red));
    HModel* mu = new HModel(0, nc, H, h0, VectorXd::Zero(mszmax), R, false, false, false);
    std::unique_ptr<UKFCorrection> ukfc(new UKFCorrection(std::unique_ptr<AdditiveMeasurementModel>(mu), alpha, beta, kappa));
    sigma_point::UTWeight w((std::size_t)n, alpha, beta, kappa);
    Out o; o.s("ok"); o.s("W"); o.n(w.mean.size()); o.m(w.mean); o.m(w.covariance);
    long msz = mszmax;       // the measurement size in force (that of the last correction)
    auto setNoise = [&](double rs, long msz) {
        MatrixXd Rs = red ? MatrixXd(rs * R) : MatrixXd(rs * R.topLeftCorner(msz, msz));
        MatrixXd Rfull = Rs;
        if (red && msz % bs == 0) { Rfull = MatrixXd::Zero(msz, msz); for (long i = 0; i < msz / bs; ++i) Rfull.block(bs * i, bs * i, bs, bs) = Rs; }
        ms->R_ = Rs; mu->R_ = Rfull;
    };
    for (const Op& op : ops) {
        if (op.kind == 'S') { sukfc->skip(op.b); ukfc->skip(op.b); continue; }
        if (op.kind == 'M') { sukfc.reset(new SUKFCorrection(std::move(*sukfc))); ukfc.reset(new UKFCorrection(std::move(*ukfc))); continue; }
        if (op.kind == 'Q') {
            setNoise(op.rs, op.mq);      // the noise covariance the model reports now, for a measurement of the stored size
            o.s("Q"); outLik(o, sukfc->getLikelihood()); o.s("U"); outLik(o, ukfc->getLikelihood());
            continue;
        }
        const Call& c = op.c;
        msz = c.msz;
        const bool divides = (msz % bs) == 0;
        GaussianMixture pred(c.k, n - nc, nc), corrS(c.k, n - nc, nc), corrU(c.k, n - nc, nc);
        pred.mean() = c.means; pred.covariance() = c.covs;
        for (GaussianMixture* g : { &corrS, &corrU }) { g->mean().setConstant(12345.0); g->covariance().setConstant(-54321.0); g->weight() = c.outw; }
        setNoise(c.rscale, msz);
        for (HModel* m : { ms, mu }) {
            m->kind_ = c.kind; m->H_ = H.topRows(msz); m->h0_ = h0.head(msz); m->y_ = c.y;
            m->failM_ = c.failM; m->failP_ = c.failP; m->failI_ = c.failI; m->X_.resize(0, 0); m->Y_.resize(0, 0);
            m->zmode_ = 0; m->zcomp_ = 0; m->zrows_ = bs; m->yeff_ = c.y;
        }
        sukfc->correct(pred, corrS);
        o.s("C"); o.s("S"); o.m(corrS.mean()); o.m(corrS.covariance());
        if (divides) { ukfc->correct(pred, corrU); o.s("U"); o.m(corrU.mean()); o.m(corrU.covariance()); }
        else o.s("Unone");
        o.s("X"); o.n(ms->X_.cols()); o.m(ms->X_);
        o.s("Y"); o.n(ms->Y_.cols()); o.m(ms->Y_);
    }
    return o.str();
}

int main() {
    return vh::run([](const std::string& op, Toks& t, std::string& out) {
        if (op == "sukf") { out = sukf(t); return true; }
        if (op == "sukfs") { out = sukfs(t); return true; }
        if (op == "sukfh") { out = sukfh(t); return true; }
        return false;
    });
}
