import BFL.Props.C10
/-
C10 — confinement facts of the *current* table.  NOT obligations and not in the deciding build path: the check
builds this module separately; when it fails while the lockset discipline (`table_disciplined`) still holds, the
check records `confinement_lost` in the evidence and raises no alarm (a command may call into a model object
under a mutex the filtering thread also takes — race-free, hence allowed by the property).
-/
namespace BFL.C10Confine
open BFL.Race BFL.RaceTable
set_option maxRecDepth 100000

/-- on the current tree: the pseudo-members standing for the user's measurement model, likelihood model and
    particle initialisation exist, the filtering role writes each, no controller-reachable function has a row -/
theorem table_model_confined : table.modelConfinedIn (reachClaim .controller) (reachClaim .filter) = true := by
  decide +kernel

/-- on the current tree: no controller-reachable function invokes a hook of the user's filter -/
theorem table_hooks_confined :
    table.confinedIn hookStateFields (reachClaim .controller) (reachClaim .filter) = true := by
  decide +kernel

/-- hence, on the current tree, no control command makes the controller thread call into the model objects … -/
theorem model_confined_now (f : Nat) (hf : f ∈ table.fieldIds modelStateFields) {tr : List Ev}
    (hc : Conforms table tr) (pre post : List Ev) (o : Obj) (w s : Bool) :
    tr ≠ pre ++ Ev.acc .controller (o, f) w s :: post :=
  BFL.C10.model_confined table _ _ cert_controller table_model_confined f hf hc pre post o w s

/-- … nor run a hook of the filter -/
theorem hooks_confined_now (f : Nat) (hf : f ∈ table.fieldIds hookStateFields) {tr : List Ev}
    (hc : Conforms table tr) (pre post : List Ev) (o : Obj) (w s : Bool) :
    tr ≠ pre ++ Ev.acc .controller (o, f) w s :: post :=
  BFL.C10.hooks_confined table _ _ cert_controller table_hooks_confined f hf hc pre post o w s

end BFL.C10Confine
