"""C04 — The unscented Kalman steps coincide with the Kalman filter on linear-Gaussian models.

The real UKFPrediction / UKFCorrection (additive constructors over LTIStateModel / LTIMeasurementModel
subclasses; generic constructors over harness-defined models x' = F x + G w + u, y = H x + D v that read the noise
rows of the augmented sigma points) are run next to the real KFPrediction / KFCorrection on the same inputs.
Predicates (the property literally): same mean, same covariance, same likelihood — UKF vs KF of the
implementation, and UKF vs the exact Kalman answer computed by the Lean model in Q (driver ops kfp / kfc).
Correspondence: the Lean model of the UKF steps (ukfPredict*, ukfCorrect*) run in Q on the factor recovered from
the C++'s own sigma points vs the implementation.  Weights of the output mixture, untouched inputs and the
behaviour on failing model calls are counted in the evidence only (the property does not speak of them)."""
import math
from fractions import Fraction

import vlib
from vlib import hexd, frac, frac_of_hex, unhex
from checks import c03 as U

EPS = U.EPS
F0 = Fraction(0)
C_KF = 64.0      # Kalman algebra after the transform (inverse, products), scaled by cond(S)


def rnd_F(g, n, style):
    if style == "zero":
        return [[0.0] * n for _ in range(n)]
    if style == "identity":
        return [[1.0 if i == j else 0.0 for j in range(n)] for i in range(n)]
    if style == "triangular":
        return [[(g.full(-2, 2) if j >= i else 0.0) for j in range(n)] for i in range(n)]
    if style == "dyadic":
        return [[g.dyadic(-2, 2, 3) for _ in range(n)] for _ in range(n)]
    return g.mat(n, n)


def near_duplicates(g, means, Ps):
    """now and then make a component an exact or nearly exact copy of its predecessor (catches 'reuse the previous
    component's result when the input looks the same' shortcuts)"""
    r = g.r
    if len(means) < 2 or r.random() > 0.3:
        return "none"
    i = r.randrange(1, len(means))
    kind = r.choice(["equal", "equal-cov", "tiny-diff", "equal-mean", "equal-mean", "approx-equal-mean"])
    if kind == "equal-mean":            # same mean, different covariance
        means[i] = list(means[i - 1])
        return kind
    if kind == "approx-equal-mean":
        means[i] = [v * (1 + 2.0 ** -30) for v in means[i - 1]]
        return kind
    Ps[i] = [list(row) for row in Ps[i - 1]]
    if kind == "equal":
        means[i] = list(means[i - 1])
    elif kind == "tiny-diff":
        means[i] = [v * (1 + 2.0 ** -30) for v in means[i - 1]]
        Ps[i] = [[v * (1 + 2.0 ** -28) for v in row] for row in Ps[i]]
    return kind


def round_mat(M):
    """exact rational matrix -> nearest doubles (as floats)"""
    return [[float(x) for x in row] for row in M]


def ukfp_case(g, tier):
    r = g.r
    big = 5 if tier == "quick" else 6
    variant = r.choice([0, 1])
    n = r.randint(1, big)
    nz = r.randint(1, 3) if variant == 1 else 0
    k = r.choice([1, 1, 2, 3, 4])
    alpha, beta, kappa = U.rnd_params(g, n + nz)
    skip = r.random() < 0.06
    exo = r.random() < 0.5
    F = rnd_F(g, n, r.choice(["general", "general", "general", "triangular", "dyadic", "zero", "identity"]))
    pstyle = r.choice(U.PSD_STYLES)
    skind, d = U.rnd_scales(g, n)
    Ps = [U.scale_cov(U.rnd_psd(g, n, pstyle), d) for _ in range(k)]
    means = [[v * d[i] for i, v in enumerate(g.vec(n))] for _ in range(k)]
    u = [v * d[i] for i, v in enumerate(g.vec(n))] if exo else [0.0] * n
    # belief far from the origin relative to its spread (|m| / sigma ~ 1e5 .. 3e7: a target in map coordinates with
    # decimetre uncertainty): E[yy'] - mm' style moment formulas lose eps |m|^2
    far = r.random() < 0.2
    if far:
        sh = 10 ** r.uniform(5, 7.5)
        means = [[v + d[i] * sh * r.choice([-1.0, 1.0, 0.5]) for i, v in enumerate(mm_)] for mm_ in means]
    dup = near_duplicates(g, means, Ps)
    outw = [r.uniform(0.01, 1.0) for _ in range(k)]
    if variant == 0:
        Q = U.scale_cov(U.rnd_psd(g, n, r.choice(["full", "full", "dyadic", "singular", "zero"])), d)
        G, Qeff = None, Q
    else:
        _, dz = U.rnd_scales(g, nz)
        Q = U.scale_cov(U.rnd_psd(g, nz, r.choice(["full", "full", "dyadic", "singular", "diag"])), dz)
        G = g.mat(n, nz) if r.random() < 0.8 else [[g.dyadic(-2, 2, 2) for _ in range(nz)] for _ in range(n)]
        Gf, Qf = U.fmat(G), U.fmat(Q)
        Qeff = round_mat(vlib.mmul(vlib.mmul(Gf, Qf), vlib.mT(Gf)))
    meta = {"op": "ukfp", "variant": variant, "n": n, "nz": nz, "k": k, "alpha": alpha, "beta": beta, "kappa": kappa, "skip": skip, "exo": exo,
            "F": F, "G": G, "Q": Q, "Qeff": Qeff, "u": u, "means": means, "Ps": Ps, "outw": outw, "pstyle": pstyle, "scale": skind + ("+farmean" if far else ""), "dup": dup}
    return meta


def ukfp_lines(meta, Bs=None):
    """(harness line, kfp driver line, uukfp driver line or None)"""
    n, nz, k, v = meta["n"], meta["nz"], meta["k"], meta["variant"]
    par = [hexd(meta["alpha"]), hexd(meta["beta"]), hexd(meta["kappa"])]
    bel = [hexd(meta["means"][i][j]) for i in range(k) for j in range(n)]
    bel += [hexd(meta["Ps"][i][a][b]) for i in range(k) for b in range(n) for a in range(n)]
    outw = [hexd(w) for w in meta["outw"]]
    h = ["ukfp", str(v), str(n), str(nz), str(k)] + par + ["1" if meta["skip"] else "0", "1" if meta["exo"] else "0"] + U.cm_tokens(meta["F"])
    if v == 1:
        h += U.cm_tokens(meta["G"]) + U.cm_tokens(meta["Q"]) + U.cm_tokens(meta["Qeff"])
    else:
        h += U.cm_tokens(meta["Q"])
    h += [hexd(x) for x in meta["u"]] + bel + outw
    kf = ["kfp", str(n), str(k), "1" if meta["exo"] else "0"] + U.cm_tokens(meta["F"]) + U.cm_tokens(meta["Qeff"])
    if meta["exo"]:
        kf += U.cm_tokens([[0.0] * n for _ in range(n)]) + [hexd(x) for x in meta["u"]]
    kf += bel + outw
    mu = None
    if Bs is not None:
        mu = ["uukfp", str(v), str(n), str(nz), str(k)] + par + ["1" if meta["skip"] else "0"] + U.cm_tokens(meta["F"])
        if v == 1:
            mu += U.cm_tokens(meta["G"])
        mu += U.cm_tokens(meta["Q"]) + [hexd(x) for x in meta["u"]] + bel
        for B in Bs:
            mu += U.cm_tokens(B, U.fstr)
        mu = " ".join(mu)
    return " ".join(h), " ".join(kf), mu


def ukfc_case(g, tier):
    r = g.r
    big = 5 if tier == "quick" else 6
    variant = r.choice([0, 1])
    n = r.randint(1, big)
    m = 1 if r.random() < 0.2 else r.randint(1, big)     # scalar measurements: the likelihood's m = 1 path
    k = r.choice([1, 1, 2, 3, 4])
    fail = r.choice([0] * 12 + [1, 2, 3, 4])   # 4: predictedMeasure fails but hands back a non-empty matrix
    online = variant == 1 and r.random() < 0.4
    pstyle = r.choice(["full", "full", "full", "dyadic", "singular", "diag"])
    # one overall scale (the property bounds the conditioning of S, not its magnitude)
    skind = r.choice(["unit"] * 6 + ["tiny", "small", "large", "huge"])
    sc = 2.0 ** {"unit": 0, "tiny": -27, "small": -13, "large": 10, "huge": 23}[skind]
    Ps = [U.scale_cov(U.rnd_psd(g, n, pstyle), [sc] * n) for _ in range(k)]
    means = [[v * sc for v in g.vec(n)] for _ in range(k)]
    dup = near_duplicates(g, means, Ps)
    hstyle = r.choice(["general", "general", "general", "dyadic", "zerorow", "rank1", "zero"])
    if hstyle == "dyadic":
        H = [[g.dyadic(-2, 2, 3) for _ in range(n)] for _ in range(m)]
    elif hstyle == "rank1":
        a, b = g.vec(m, -1, 1), g.vec(n, -1, 1)
        H = [[a[i] * b[j] for j in range(n)] for i in range(m)]
    elif hstyle == "zero":
        H = [[0.0] * n for _ in range(m)]
    else:
        H = g.mat(m, n)
        if hstyle == "zerorow":
            H[r.randrange(m)] = [0.0] * n
    y = [v * sc for v in g.vec(m)]
    far = r.random() < 0.2
    if far:
        sh = 10 ** r.uniform(5, 7.5)
        off = [sc * sh * r.choice([-1.0, 1.0, 0.5]) for _ in range(n)]
        means = [[v + off[i] for i, v in enumerate(mm_)] for mm_ in means]
        y = [sum(H[a][j] * means[0][j] for j in range(n)) + y[a] for a in range(m)]     # a measurement near the predicted one
    outw = [r.uniform(0.01, 1.0) for _ in range(k)]
    cond = 10 ** r.uniform(0, 3)
    if variant == 0:
        nz = 0
        R = U.scale_cov(g.spd_dyadic(m) if r.random() < 0.3 else g.spd(m, cond=cond), [sc] * m)
        D, Reff = None, R
    else:
        nz = m + r.choice([0, 0, 1])
        R = U.scale_cov(g.spd_dyadic(nz) if r.random() < 0.3 else g.spd(nz, cond=cond), [sc] * nz)
        # D = [d I | extra] + perturbation: full row rank, so that D R D^T is positive definite
        d = r.choice([1.0, 0.5, 2.0])
        D = [[(d if i == j else 0.0) + (g.dyadic(-1, 1, 3) * 0.25 if r.random() < 0.5 else 0.0) for j in range(nz)] for i in range(m)]
        Df, Rf = U.fmat(D), U.fmat(R)
        Reff = round_mat(vlib.mmul(vlib.mmul(Df, Rf), vlib.mT(Df)))
    # measurement channels in different units within one measurement vector (rad next to mm): rows of H (and of the
    # noise input D) and the entries of y scaled by powers of two spanning up to 2^40 ~ 1e12; S stays as well
    # conditioned as before once equilibrated
    dchan = [1.0] * m
    if r.random() < 0.3:
        dchan = [2.0 ** r.randint(-20, 20) for _ in range(m)]
        H = [[v * dchan[a] for v in H[a]] for a in range(m)]
        y = [v * dchan[a] for a, v in enumerate(y)]
        if variant == 0:
            R = U.scale_cov(R, dchan)
            Reff = R
        else:
            D = [[v * dchan[a] for v in D[a]] for a in range(m)]
            Df, Rf = U.fmat(D), U.fmat(R)
            Reff = round_mat(vlib.mmul(vlib.mmul(Df, Rf), vlib.mT(Df)))
    alpha, beta, kappa = U.rnd_params(g, n + nz)
    meta = {"op": "ukfc", "variant": variant, "n": n, "nz": nz, "m": m, "k": k, "alpha": alpha, "beta": beta, "kappa": kappa, "fail": fail, "online": online,
            "H": H, "D": D, "R": R, "Reff": Reff, "y": y, "means": means, "Ps": Ps, "outw": outw, "pstyle": pstyle, "hstyle": hstyle, "scale": skind + ("+farmean" if far else ""), "dup": dup, "dchan": dchan}
    return meta


def ukfc_lines(meta, Bs=None):
    n, nz, m, k, v = meta["n"], meta["nz"], meta["m"], meta["k"], meta["variant"]
    par = [hexd(meta["alpha"]), hexd(meta["beta"]), hexd(meta["kappa"])]
    bel = [hexd(meta["means"][i][j]) for i in range(k) for j in range(n)]
    bel += [hexd(meta["Ps"][i][a][b]) for i in range(k) for b in range(n) for a in range(n)]
    outw = [hexd(w) for w in meta["outw"]]
    yv = [hexd(x) for x in meta["y"]]
    h = ["ukfc", str(v), str(n), str(nz), str(m), str(k)] + par + [str(meta["fail"]), "1" if meta["online"] else "0"] + U.cm_tokens(meta["H"])
    if v == 1:
        h += U.cm_tokens(meta["D"]) + U.cm_tokens(meta["R"]) + U.cm_tokens(meta["Reff"])
    else:
        h += U.cm_tokens(meta["R"])
    h += yv + bel + outw
    kf = ["kfc", str(n), str(m), str(k)] + U.cm_tokens(meta["H"]) + U.cm_tokens(meta["Reff"]) + yv + bel + outw
    mu = None
    if Bs is not None:
        mu = ["uukfc", str(v), str(n), str(nz), str(m), str(k)] + par + [str(2 if meta["fail"] == 4 else meta["fail"])] + U.cm_tokens(meta["H"])
        if v == 1:
            mu += U.cm_tokens(meta["D"])
        mu += U.cm_tokens(meta["R"]) + yv + bel + outw
        for B in Bs:
            mu += U.cm_tokens(B, U.fstr)
        mu = " ".join(mu)
    return " ".join(h), " ".join(kf), mu


# ------------------------------------------------------------------------------------------------ several steps on the same objects

SCALE_EXP = {"unit": 0, "tiny": -27, "small": -13, "large": 10, "huge": 23}


def derive_step(meta, g):
    """a further step on the same UKF / KF objects: same models and parameters; new belief, component count,
    measurement, output weights, skip / failure flags"""
    r = g.r
    st = dict(meta)
    n, k = meta["n"], r.choice([1, 2, 3, 4])
    st["k"] = k
    st["outw"] = [r.uniform(0.01, 1.0) for _ in range(k)]
    st["alias"] = r.random() < 0.2          # the same mixture passed as input and output
    st["cskip"] = 0
    if meta["op"] == "ukfc" and r.random() < 0.25:
        st["cskip"] = 2 if meta.get("cskipping") else 1     # GaussianCorrection::skip on / off again
    st["cskipping"] = (st["cskip"] == 1) or (bool(meta.get("cskipping")) and st["cskip"] != 2)
    if meta["op"] == "ukfp":
        _, d = U.rnd_scales(g, n)
        st["Ps"] = [U.scale_cov(U.rnd_psd(g, n, r.choice(U.PSD_STYLES)), d) for _ in range(k)]
        st["means"] = [[v * d[i] for i, v in enumerate(g.vec(n))] for _ in range(k)]
        st["skip"] = r.random() < 0.15
        st["mchg"] = False
        if r.random() < 0.6:
            # time-varying model: new content of the same sizes from this step on (any subset of F, noise input, Q, u)
            st["mchg"] = True
            if r.random() < 0.6:
                st["F"] = rnd_F(g, n, r.choice(["general", "general", "triangular", "dyadic", "identity"]))
            if meta["variant"] == 0:
                if r.random() < 0.8:
                    st["Q"] = U.scale_cov(U.rnd_psd(g, n, r.choice(["full", "full", "dyadic", "singular", "zero"])), d)
                st["Qeff"] = st["Q"]
            else:
                nz = meta["nz"]
                if r.random() < 0.8:
                    _, dz = U.rnd_scales(g, nz)
                    st["Q"] = U.scale_cov(U.rnd_psd(g, nz, r.choice(["full", "full", "dyadic", "singular", "diag"])), dz)
                if r.random() < 0.4:
                    st["G"] = g.mat(n, nz)
                Gf, Qf = U.fmat(st["G"]), U.fmat(st["Q"])
                st["Qeff"] = round_mat(vlib.mmul(vlib.mmul(Gf, Qf), vlib.mT(Gf)))
            if meta["exo"] and r.random() < 0.5:
                st["u"] = [v * d[i] for i, v in enumerate(g.vec(n))]
    else:
        sc = 2.0 ** SCALE_EXP.get(meta["scale"].split("+")[0], 0)
        st["Ps"] = [U.scale_cov(U.rnd_psd(g, n, r.choice(["full", "full", "dyadic", "singular", "diag"])), [sc] * n) for _ in range(k)]
        st["means"] = [[v * sc for v in g.vec(n)] for _ in range(k)]
        dchan = meta.get("dchan") or [1.0] * meta["m"]
        st["y"] = [v * sc * dchan[a] for a, v in enumerate(g.vec(meta["m"]))]
        st["fail"] = r.choice([0] * 8 + [1, 2, 3, 4])
        st["chg"] = 0
        if r.random() < 0.5:
            # time-varying model: new content of the same sizes (any subset of H, D, R)
            st["chg"] = 2
            m_ = meta["m"]
            if r.random() < 0.6:
                st["H"] = [[v * dchan[a] for v in row] for a, row in enumerate(g.mat(m_, n))]
            if meta["variant"] == 0:
                if r.random() < 0.8:
                    st["R"] = U.scale_cov(g.spd(m_, cond=10 ** r.uniform(0, 3)), [sc * dchan[a] for a in range(m_)])
                st["Reff"] = st["R"]
            else:
                nz = meta["nz"]
                if r.random() < 0.8:
                    st["R"] = U.scale_cov(g.spd(nz, cond=10 ** r.uniform(0, 3)), [sc] * nz)
                if r.random() < 0.4:
                    d_ = r.choice([1.0, 0.5, 2.0])
                    st["D"] = [[((d_ if i == j else 0.0) + (g.dyadic(-1, 1, 3) * 0.25 if r.random() < 0.5 else 0.0)) * dchan[i] for j in range(nz)] for i in range(m_)]
                Df, Rf = U.fmat(st["D"]), U.fmat(st["R"])
                st["Reff"] = round_mat(vlib.mmul(vlib.mmul(Df, Rf), vlib.mT(Df)))
        elif meta["variant"] == 1 and meta["online"] and r.random() < 0.6:
            # the noise input changes size from this step on (what update_weights_online exists for)
            m_ = meta["m"]
            nz = m_ + r.choice([0, 1, 2])
            R = U.scale_cov(g.spd(nz, cond=10 ** r.uniform(0, 3)), [sc] * nz)
            d = r.choice([1.0, 0.5, 2.0])
            D = [[((d if i == j else 0.0) + (g.dyadic(-1, 1, 3) * 0.25 if r.random() < 0.5 else 0.0)) * dchan[i] for j in range(nz)] for i in range(m_)]
            Df, Rf = U.fmat(D), U.fmat(R)
            st.update({"chg": 1, "nz": nz, "R": R, "D": D, "Reff": round_mat(vlib.mmul(vlib.mmul(Df, Rf), vlib.mT(Df)))})
    return st


def seq_line(steps):
    """harness line for 2+ steps on the same objects (ukfps / ukfcs)"""
    m0 = steps[0]
    n, nz, v = m0["n"], m0["nz"], m0["variant"]
    par = [hexd(m0["alpha"]), hexd(m0["beta"]), hexd(m0["kappa"])]

    def bel(st):
        k = st["k"]
        b = [hexd(st["means"][i][j]) for i in range(k) for j in range(n)]
        b += [hexd(st["Ps"][i][a][c]) for i in range(k) for c in range(n) for a in range(n)]
        return b + [hexd(w) for w in st["outw"]]

    if m0["op"] == "ukfp":
        h = ["ukfps", str(v), str(n), str(nz)] + par + ["1" if m0["exo"] else "0"] + U.cm_tokens(m0["F"])
        if v == 1:
            h += U.cm_tokens(m0["G"]) + U.cm_tokens(m0["Q"]) + U.cm_tokens(m0["Qeff"])
        else:
            h += U.cm_tokens(m0["Q"])
        h += [hexd(x) for x in m0["u"]] + [str(len(steps)), str(m0.get("hand", 0))]
        for st in steps:
            h += ["1" if st["skip"] else "0", str(st["k"]), "1" if st.get("alias") else "0"]
            if st.get("mchg"):
                h += ["1"] + U.cm_tokens(st["F"])
                if v == 1:
                    h += U.cm_tokens(st["G"]) + U.cm_tokens(st["Q"]) + U.cm_tokens(st["Qeff"])
                else:
                    h += U.cm_tokens(st["Q"])
                h += [hexd(x) for x in st["u"]]
            else:
                h += ["0"]
            h += bel(st)
    else:
        h = ["ukfcs", str(v), str(n), str(nz), str(m0["m"])] + par + ["1" if m0["online"] else "0"] + U.cm_tokens(m0["H"])
        if v == 1:
            h += U.cm_tokens(m0["D"]) + U.cm_tokens(m0["R"]) + U.cm_tokens(m0["Reff"])
        else:
            h += U.cm_tokens(m0["R"])
        h += [str(len(steps)), str(m0.get("hand", 0))]
        for st in steps:
            h += [str(st["fail"]), str(st["k"]), "1" if st.get("alias") else "0", str(st.get("cskip", 0))]
            if st.get("chg"):
                h += [str(int(st["chg"]))] + U.cm_tokens(st["H"])
                if v == 1:
                    h += [str(st["nz"])] + U.cm_tokens(st["D"]) + U.cm_tokens(st["R"]) + U.cm_tokens(st["Reff"])
                else:
                    h += U.cm_tokens(st["R"])
            else:
                h += ["0"]
            h += [hexd(x) for x in st["y"]] + bel(st)
    return " ".join(h)


def split_seq(h, nsteps):
    """per-step outputs of a sequence line in the single-step format"""
    if not h.startswith("ok"):
        return [h] * nsteps
    parts = h[2:].split(";;")
    if len(parts) != nsteps:
        return ["bad-seq-output"] * nsteps
    return ["ok " + p.strip() for p in parts]


# ------------------------------------------------------------------------------------------------ parsing

def finite_frac(tok):
    """exact value of a hex double, None for NaN / inf"""
    if (int(tok, 16) >> 52) & 0x7ff == 0x7ff:
        return None
    return frac_of_hex(tok)


def has_nonfinite(means, covs):
    return any(v is None for m in means for v in m) or any(v is None for P in covs for row in P for v in row)


def read_gm(t, p, n, k, conv):
    """a mixture printed with its shape in front; returns (means, covs, weights, p) — means / covs are None when the
    shape is not that of k components of dimension n"""
    comps, mr, mc, cr, cc, wn = [int(x) for x in t[p:p + 6]]; p += 6
    mean_t = t[p:p + mr * mc]; p += mr * mc
    cov_t = t[p:p + cr * cc]; p += cr * cc
    w = t[p:p + wn]; p += wn
    if (comps, mr, mc, cr, cc) != (k, n, k, n, n * k):
        return None, None, w, p
    mean = vlib.mat_from_cm(mean_t, n, k, conv)
    cov = vlib.mat_from_cm(cov_t, n, n * k, conv)
    means = [[mean[r][i] for r in range(n)] for i in range(k)]
    covs = [[[cov[a][n * i + b] for b in range(n)] for a in range(n)] for i in range(k)]
    return means, covs, w, p


def read_gm_driver(t, p, n, k):
    """driver GM output: means component-major, then covariances (column-major per component), weights"""
    means = [[frac(t[p + i * n + r]) for r in range(n)] for i in range(k)]; p += n * k
    covs = [vlib.mat_from_cm(t[p + i * n * n:p + (i + 1) * n * n], n, n, frac) for i in range(k)]; p += n * n * k
    w = t[p:p + k]; p += k
    return means, covs, w, p


def read_lik(t, p):
    if t[p] == "nolik":
        return None, p + 1
    cnt = int(t[p + 1])
    return [unhex(x) for x in t[p + 2:p + 2 + cnt]], p + 2 + cnt


def aug_beliefs(meta, noise):
    """exact (augmented) means and covariances the transform of this step starts from"""
    k, nz = meta["k"], meta["nz"]
    means = [[Fraction(v) for v in meta["means"][i]] + [F0] * nz for i in range(k)]
    covs = [U.blockdiag(meta["Ps"][i], noise if nz else []) for i in range(k)]
    return means, covs


# ------------------------------------------------------------------------------------------------ prediction

def check_ukfp(meta, h, stats, notes):
    """first pass on the harness output: returns (problems, parsed, factors)"""
    n, nz, k = meta["n"], meta["nz"], meta["k"]
    N = n + nz
    if not h.startswith("ok"):
        return [("prop", "ukf-predict-crash", "UKFPrediction/KFPrediction failed on a valid linear-Gaussian input: %s" % h[:80])], None, None
    t = h.split()
    xr, xc = int(t[1]), int(t[2])
    p = 3
    um, uc, uw, p = read_gm(t, p, n, k, finite_frac)
    km, kc, kw, p = read_gm(t, p, n, k, finite_frac)
    if um is not None and km is not None and (has_nonfinite(um, uc) or has_nonfinite(km, kc)):
        if has_nonfinite(km, kc):
            notes["kalman_side_not_finite"] = notes.get("kalman_side_not_finite", 0) + 1
            return [], None, None
        return [("prop", "ukf-output-not-finite", "UKFPrediction returned NaN / inf entries for a finite belief and model; KFPrediction returned finite values")], None, None
    if um is None or km is None:
        return [("prop", "predict-shape-differs", "UKFPrediction returned a mixture of another shape than %d components of dimension %d (KFPrediction: %s)" % (k, n, "same problem" if km is None else "expected shape"))], None, None
    X = vlib.mat_from_cm(t[p:p + xr * xc], xr, xc, finite_frac); p += xr * xc
    if any(v is None for row in X for v in row):
        # the step's own result is finite (checked above) although sigma_point() on the same input is not: C03's subject
        notes["sigma_points_not_finite(C03)"] = notes.get("sigma_points_not_finite(C03)", 0) + 1
        X = None
    if t[p] != "in-same":
        notes["input_modified"] = notes.get("input_modified", 0) + 1
    if uw != kw:
        notes["predict_weights_differ_ukf_vs_kf"] = notes.get("predict_weights_differ_ukf_vs_kf", 0) + 1
    o = {"um": um, "uc": uc, "km": km, "kc": kc, "X": X}
    probs = []
    if X is None:
        return [("corr", "ukf-points-not-finite", "sigma_point() on the step's input returns NaN / inf although the step's result is finite (no rounding bound can be derived)")], o, None
    if (xr, xc) != (N, (2 * N + 1) * k):
        probs.append(("corr", "ukf-points-shape", "sigma points of the step's input are %dx%d, model: %dx%d (no rounding bound can be derived)" % (xr, xc, N, (2 * N + 1) * k)))
        return probs, o, None
    means, covs = aug_beliefs(meta, meta["Q"])
    _, _, c = U.weights_frac(N, meta["alpha"], meta["beta"], meta["kappa"])
    pp, Bs = U.check_points_linear(X, means, covs, c, N, k, stats, "ukfp", U.weight_tols(N, meta["alpha"], meta["beta"], meta["kappa"])[2])
    if pp:  # sigma-point predicates belong to C03; here they are counted only
        notes["sigma_point_predicates_failed(C03)"] = notes.get("sigma_point_predicates_failed(C03)", 0) + len(pp)
        o["points_ok"] = False
    return probs, o, Bs


def compare_ukfp(meta, o, kfd, mud, stats):
    """UKF vs KF (both C++), UKF vs exact Kalman answer, UKF vs Lean UKF model."""
    probs = []
    n, nz, k = meta["n"], meta["nz"], meta["k"]
    N = n + nz
    ekm, ekc, _, _ = read_gm_driver(kfd.split(), 1, n, k)
    mum = muc = None
    if mud is not None:
        mum, muc, _, _ = read_gm_driver(mud.split(), 1, n, k)
    if meta["skip"]:
        # both steps return the previous belief
        for i in range(k):
            if o["um"][i] != o["km"][i] or o["uc"][i] != o["kc"][i]:
                probs.append(("prop", "skip-differs", "state model skipping: UKFPrediction and KFPrediction return different beliefs (component %d)" % i))
                break
            if mum is not None and (mum[i] != o["um"][i] or muc[i] != o["uc"][i]):
                probs.append(("corr", "skip-vs-model", "state model skipping: implementation differs from the model (component %d)" % i))
                break
        return probs
    A = U.fmat(meta["F"]) if nz == 0 else [U.fmat(meta["F"])[r] + U.fmat(meta["G"])[r] for r in range(n)]
    b = [Fraction(v) for v in meta["u"]]
    Nadd = meta["Q"] if nz == 0 else None
    N1 = 2 * N + 1
    nF = vlib.fnorm(meta["F"]) * n
    for i in range(k):
        Xi = [row[N1 * i:N1 * (i + 1)] for row in o["X"]]
        mi = [Fraction(v) for v in meta["means"][i]] + [F0] * nz
        tol_mean, tol_cov, _, rowsum = U.ut_tolerances(N, n, n, meta["alpha"], meta["beta"], meta["kappa"], A, b, Xi, mi, Nadd)
        P = U.blockdiag(meta["Ps"][i], meta["Q"] if nz else [])
        tsq = U.C_SQRT * N * EPS * N * U.maxabs(P)
        nP = vlib.fnorm(meta["Ps"][i]) * n
        tkf_cov = 32 * EPS * (nF * nF * nP + vlib.fnorm(meta["Qeff"]) + 1e-300) * n
        nx_ = max([abs(float(v)) for v in meta["means"][i]] + [0.0])
        tkf_mean = 32 * EPS * (nF * nx_ + max(abs(float(v)) for v in meta["u"]) + 1e-300) * n
        for r in range(n):
            e_kf = float(abs(o["um"][i][r] - o["km"][i][r]))
            e_ex = float(abs(o["um"][i][r] - ekm[i][r]))
            stats["p_mean_vs_kf"] = max(stats.get("p_mean_vs_kf", 0.0), e_kf / (tol_mean[r] + tkf_mean))
            stats["p_mean_vs_exact"] = max(stats.get("p_mean_vs_exact", 0.0), e_ex / tol_mean[r])
            if e_ex > tol_mean[r] and e_kf <= tol_mean[r] + tkf_mean:
                stats.setdefault("_notes", {})["ukf_and_kf_agree_but_both_differ_from_exact_kalman(C01/C02)"] = stats.setdefault("_notes", {}).get("ukf_and_kf_agree_but_both_differ_from_exact_kalman(C01/C02)", 0) + 1
            if e_kf > tol_mean[r] + tkf_mean:
                probs.append(("prop", "predict-mean-differs", "component %d: UKF predicted mean[%d] = %.17g, KF = %.17g, exact Kalman = %.17g (tol %.3g)" % (i, r, float(o["um"][i][r]), float(o["km"][i][r]), float(ekm[i][r]), tol_mean[r])))
                break
            if mum is not None:
                e_m = float(abs(o["um"][i][r] - mum[i][r]))
                stats["p_mean_vs_model"] = max(stats.get("p_mean_vs_model", 0.0), e_m / tol_mean[r])
                if e_m > tol_mean[r]:
                    probs.append(("corr", "predict-mean-vs-model", "component %d: predicted mean differs from the Lean UKF model by %.3g" % (i, e_m)))
                    break
        bad = False
        for a in range(n):
            for c in range(n):
                tp = tol_cov[a][c] + tsq * rowsum[a] * rowsum[c] + 2 * EPS * abs(float(meta["Qeff"][a][c]))
                e_kf = float(abs(o["uc"][i][a][c] - o["kc"][i][a][c]))
                e_ex = float(abs(o["uc"][i][a][c] - ekc[i][a][c]))
                stats["p_cov_vs_kf"] = max(stats.get("p_cov_vs_kf", 0.0), e_kf / (tp + tkf_cov))
                stats["p_cov_vs_exact"] = max(stats.get("p_cov_vs_exact", 0.0), e_ex / tp)
                if e_ex > tp and e_kf <= tp + tkf_cov:
                    stats.setdefault("_notes", {})["ukf_and_kf_agree_but_both_differ_from_exact_kalman(C01/C02)"] = stats.setdefault("_notes", {}).get("ukf_and_kf_agree_but_both_differ_from_exact_kalman(C01/C02)", 0) + 1
                if e_kf > tp + tkf_cov and not bad:
                    probs.append(("prop", "predict-cov-differs", "component %d: UKF predicted covariance[%d][%d] = %.17g, KF = %.17g, exact Kalman = %.17g (tol %.3g)" % (i, a, c, float(o["uc"][i][a][c]), float(o["kc"][i][a][c]), float(ekc[i][a][c]), tp)))
                    bad = True
                if muc is not None:
                    e_m = float(abs(o["uc"][i][a][c] - muc[i][a][c]))
                    stats["p_cov_vs_model"] = max(stats.get("p_cov_vs_model", 0.0), e_m / tol_cov[a][c])
                    if e_m > tol_cov[a][c] and not bad:
                        probs.append(("corr", "predict-cov-vs-model", "component %d: predicted covariance differs from the Lean UKF model by %.3g (tol %.3g)" % (i, e_m, tol_cov[a][c])))
                        bad = True
    return probs


# ------------------------------------------------------------------------------------------------ correction

def det_frac(A):
    n = len(A)
    M = [[Fraction(x) for x in row] for row in A]
    d = Fraction(1)
    for c in range(n):
        p = next((r for r in range(c, n) if M[r][c] != 0), None)
        if p is None:
            return Fraction(0)
        if p != c:
            M[c], M[p] = M[p], M[c]
            d = -d
        d *= M[c][c]
        for r in range(c + 1, n):
            f = M[r][c] / M[c][c]
            if f:
                M[r] = [a - f * b for a, b in zip(M[r], M[c])]
    return d


def check_ukfc(meta, h, stats, notes):
    n, nz, m, k = meta["n"], meta["nz"], meta["m"], meta["k"]
    N = n + nz
    if not h.startswith("ok"):
        if meta["fail"]:
            notes["crash_on_failing_model_call"] = notes.get("crash_on_failing_model_call", 0) + 1
            return [], None, None
        return [("prop", "ukf-correct-crash", "UKFCorrection/KFCorrection failed on a valid linear-Gaussian input: %s" % h[:80])], None, None
    t = h.split()
    xr, xc = int(t[1]), int(t[2])
    p = 3
    um, uc, uw, p = read_gm(t, p, n, k, finite_frac)
    ulik, p = read_lik(t, p)
    km, kc, kw, p = read_gm(t, p, n, k, finite_frac)
    klik, p = read_lik(t, p)
    if not meta["fail"] and um is not None and km is not None:
        u_bad = has_nonfinite(um, uc) or (ulik is not None and not all(math.isfinite(v) for v in ulik))
        k_bad = has_nonfinite(km, kc) or (klik is not None and not all(math.isfinite(v) for v in klik))
        if k_bad:
            notes["kalman_side_not_finite"] = notes.get("kalman_side_not_finite", 0) + 1
            return [], None, None
        if u_bad:
            return [("prop", "ukf-output-not-finite", "UKFCorrection returned NaN / inf entries (mean, covariance or likelihood) for a finite belief, model and measurement; KFCorrection returned finite values")], None, None
    elif meta["fail"] and um is not None and has_nonfinite(um, uc):
        return [], None, None
    if um is None or km is None:
        if meta["fail"]:
            return [], None, None
        return [("prop", "correct-shape-differs", "UKFCorrection returned a mixture of another shape than %d components of dimension %d (KFCorrection: %s)" % (k, n, "same problem" if km is None else "expected shape"))], None, None
    X = vlib.mat_from_cm(t[p:p + xr * xc], xr, xc, finite_frac); p += xr * xc
    if any(v is None for row in X for v in row):
        notes["sigma_points_not_finite(C03)"] = notes.get("sigma_points_not_finite(C03)", 0) + 1
        X = None
    if t[p] != "in-same":
        notes["input_modified"] = notes.get("input_modified", 0) + 1
    if "lik2-differs" in t[p:]:
        return [("prop", "likelihood-query-not-idempotent", "UKFCorrection::getLikelihood() asked twice after the same correction gives two different answers")], None, None
    if uw != kw:
        notes["correct_weights_differ_ukf_vs_kf"] = notes.get("correct_weights_differ_ukf_vs_kf", 0) + 1
    o = {"um": um, "uc": uc, "km": km, "kc": kc, "ulik": ulik, "klik": klik, "X": X}
    if meta.get("cskipping"):
        # both corrections are being skipped (GaussianCorrection::skip, a flag a moved object keeps): both hand the
        # predicted belief over, hence coincide exactly
        if um != km or uc != kc:
            return [("prop", "skipped-correction-differs", "correction skipped on both filters (skip(true)%s): UKFCorrection and KFCorrection return different beliefs" % (", UKF object handed over by move construction" if meta.get("hand_obj") else ""))], None, None
        return [], None, None
    if meta["fail"]:
        # not part of the property: counted only
        pm = [[Fraction(v) for v in meta["means"][i]] for i in range(k)]
        pc = [U.fmat(meta["Ps"][i]) for i in range(k)]
        if um != pm or uc != pc:
            notes["failing_call_belief_not_kept"] = notes.get("failing_call_belief_not_kept", 0) + 1
        if ulik is not None:
            notes["failing_call_likelihood_reported"] = notes.get("failing_call_likelihood_reported", 0) + 1
        elif meta.get("step", 0) == 0:
            notes["getLikelihood_without_innovations_returns_false"] = notes.get("getLikelihood_without_innovations_returns_false", 0) + 1
        return [], o, None
    probs = []
    if X is None:
        return [("corr", "ukf-points-not-finite", "sigma_point() on the step's input returns NaN / inf although the step's result is finite (no rounding bound can be derived)")], o, None
    if (xr, xc) != (N, (2 * N + 1) * k):
        probs.append(("corr", "ukf-points-shape", "sigma points of the step's input are %dx%d, model: %dx%d (no rounding bound can be derived)" % (xr, xc, N, (2 * N + 1) * k)))
        return probs, o, None
    means, covs = aug_beliefs(meta, meta["R"])
    _, _, c = U.weights_frac(N, meta["alpha"], meta["beta"], meta["kappa"])
    pp, Bs = U.check_points_linear(X, means, covs, c, N, k, stats, "ukfc", U.weight_tols(N, meta["alpha"], meta["beta"], meta["kappa"])[2])
    if pp:  # sigma-point predicates belong to C03; here they are counted only
        notes["sigma_point_predicates_failed(C03)"] = notes.get("sigma_point_predicates_failed(C03)", 0) + len(pp)
        o["points_ok"] = False
    return probs, o, Bs


def compare_ukfc(meta, o, kfd, mud, stats):
    probs = []
    n, nz, m, k = meta["n"], meta["nz"], meta["m"], meta["k"]
    N = n + nz
    if not kfd.startswith("ok"):
        return [("corr", "kf-model-undefined", "exact Kalman correction undefined: %s" % kfd[:40])]
    kt = kfd.split()
    ekm, ekc, _, q = read_gm_driver(kt, 1, n, k)
    eS = [vlib.mat_from_cm(kt[q + i * m * m:q + (i + 1) * m * m], m, m, frac) for i in range(k)]; q += m * m * k
    enu = [[frac(kt[q + i * m + r]) for r in range(m)] for i in range(k)]
    mum = muc = None
    if mud is not None:
        if not mud.startswith("ok"):
            probs.append(("corr", "ukf-model-undefined", "Lean UKF model undefined: %s" % mud[:40]))
        else:
            mt = mud.split()
            mum, muc, _, q2 = read_gm_driver(mt, 1, n, k)
            if mt[q2] != "lik":
                probs.append(("corr", "ukf-model-nolik", "Lean UKF model reports no likelihood after a successful correction"))
    if o["ulik"] is None or len(o["ulik"]) != k:
        probs.append(("prop", "ukf-likelihood-missing", "UKFCorrection reports no likelihood after a successful correction (KFCorrection: %s)" % ("reported" if o["klik"] else "none")))
    H = U.fmat(meta["H"])
    A = H if nz == 0 else [H[r] + U.fmat(meta["D"])[r] for r in range(m)]
    b = [F0] * m
    Nadd = meta["R"] if nz == 0 else None
    N1 = 2 * N + 1
    nH = vlib.fnorm(meta["H"]) * max(n, m)
    for i in range(k):
        Xi = [row[N1 * i:N1 * (i + 1)] for row in o["X"]]
        mi = [Fraction(v) for v in meta["means"][i]] + [F0] * nz
        t_y, t_S, t_C, rowsum = U.ut_tolerances(N, n, m, meta["alpha"], meta["beta"], meta["kappa"], A, b, Xi, mi, Nadd)
        Paug = U.blockdiag(meta["Ps"][i], meta["R"] if nz else [])
        tsq = U.C_SQRT * N * EPS * N * U.maxabs(Paug)
        S = eS[i]
        Si = vlib.minv_frac(S)
        if Si is None:
            probs.append(("corr", "S-singular", "innovation covariance singular in exact arithmetic"))
            continue
        # The correction is invariant under a rescaling of the measurement channels (y_a -> y_a / d_a, rows of H and
        # D likewise): all bounds are evaluated in the equilibrated coordinates d_a = sqrt(S_aa), so that channels in
        # very different units (rad next to mm) are judged by the conditioning of the equilibrated S, not by the
        # ratio of the units.  Every rounding-error bound below is entrywise and is rescaled entry by entry.
        dch = [math.sqrt(float(S[a][a])) if S[a][a] > 0 else 1.0 for a in range(m)]
        dY = max(t_y[a] / dch[a] for a in range(m))
        dS = max((t_S[a][c] + tsq * rowsum[a] * rowsum[c] + 2 * EPS * abs(float(meta["Reff"][a][c]))) / (dch[a] * dch[c]) for a in range(m) for c in range(m))
        dC = max((t_C[a][c] + tsq * rowsum[c]) / dch[c] for a in range(n) for c in range(m))
        Sp = [[float(S[a][c]) / (dch[a] * dch[c]) for c in range(m)] for a in range(m)]
        Sip = [[float(Si[a][c]) * dch[a] * dch[c] for c in range(m)] for a in range(m)]
        nS, nSi = vlib.fnorm(Sp) * m, vlib.fnorm(Sip) * m
        kS = max(1.0, nS * nSi)
        P = U.fmat(meta["Ps"][i])
        K = vlib.mmul(vlib.mmul(P, vlib.mT(H)), Si)
        nK = max([abs(float(K[r_][c])) * dch[c] for r_ in range(n) for c in range(m)] + [0.0]) * m
        nP = vlib.fnorm(P) * n
        nnu = max([abs(float(enu[i][a])) / dch[a] for a in range(m)] + [0.0])
        nx_ = max([abs(float(v)) for v in meta["means"][i]] + [0.0])
        nH = max([abs(float(H[a][c])) / dch[a] for a in range(m) for c in range(n)] + [0.0]) * max(n, m)
        stats["max_channel_scale_ratio"] = max(stats.get("max_channel_scale_ratio", 0.0), max(dch) / min(dch))
        dK = (dC + nK * dS) * nSi + C_KF * EPS * kS * nK * max(n, m)
        tol_mean = m * dK * (nnu + dY) + nK * dY + C_KF * EPS * kS * (nK * nnu + nx_ + 1e-300) * max(n, m)
        tol_cov = 2 * nK * nS * dK * m + nK * nK * dS + C_KF * EPS * kS * (nK * nK * nS + nP) * max(n, m) + 1e-300
        Kn = nP * nH * nSi
        tkf_cov = 64 * EPS * kS * (Kn * Kn * nS + nP) * max(n, m)
        tkf_mean = 64 * EPS * kS * (Kn * nnu + nx_ + 1e-300) * max(n, m)
        stats["max_kS"] = max(stats.get("max_kS", 0.0), kS)
        for r in range(n):
            e_kf = float(abs(o["um"][i][r] - o["km"][i][r]))
            e_ex = float(abs(o["um"][i][r] - ekm[i][r]))
            stats["c_mean_vs_kf"] = max(stats.get("c_mean_vs_kf", 0.0), e_kf / (tol_mean + tkf_mean))
            stats["c_mean_vs_exact"] = max(stats.get("c_mean_vs_exact", 0.0), e_ex / tol_mean)
            if e_ex > tol_mean and e_kf <= tol_mean + tkf_mean:
                stats.setdefault("_notes", {})["ukf_and_kf_agree_but_both_differ_from_exact_kalman(C01/C02)"] = stats.setdefault("_notes", {}).get("ukf_and_kf_agree_but_both_differ_from_exact_kalman(C01/C02)", 0) + 1
            if e_kf > tol_mean + tkf_mean:
                probs.append(("prop", "correct-mean-differs", "component %d: UKF corrected mean[%d] = %.17g, KF = %.17g, exact Kalman = %.17g (tol %.3g)" % (i, r, float(o["um"][i][r]), float(o["km"][i][r]), float(ekm[i][r]), tol_mean)))
                break
            if mum is not None:
                e_m = float(abs(o["um"][i][r] - mum[i][r]))
                stats["c_mean_vs_model"] = max(stats.get("c_mean_vs_model", 0.0), e_m / tol_mean)
                if e_m > tol_mean:
                    probs.append(("corr", "correct-mean-vs-model", "component %d: corrected mean differs from the Lean UKF model by %.3g (tol %.3g)" % (i, e_m, tol_mean)))
                    break
        bad = False
        for a in range(n):
            for c in range(n):
                e_kf = float(abs(o["uc"][i][a][c] - o["kc"][i][a][c]))
                e_ex = float(abs(o["uc"][i][a][c] - ekc[i][a][c]))
                stats["c_cov_vs_kf"] = max(stats.get("c_cov_vs_kf", 0.0), e_kf / (tol_cov + tkf_cov))
                stats["c_cov_vs_exact"] = max(stats.get("c_cov_vs_exact", 0.0), e_ex / tol_cov)
                if e_ex > tol_cov and e_kf <= tol_cov + tkf_cov:
                    stats.setdefault("_notes", {})["ukf_and_kf_agree_but_both_differ_from_exact_kalman(C01/C02)"] = stats.setdefault("_notes", {}).get("ukf_and_kf_agree_but_both_differ_from_exact_kalman(C01/C02)", 0) + 1
                if e_kf > tol_cov + tkf_cov and not bad:
                    probs.append(("prop", "correct-cov-differs", "component %d: UKF corrected covariance[%d][%d] = %.17g, KF = %.17g, exact Kalman = %.17g (tol %.3g)" % (i, a, c, float(o["uc"][i][a][c]), float(o["kc"][i][a][c]), float(ekc[i][a][c]), tol_cov)))
                    bad = True
                if muc is not None:
                    e_m = float(abs(o["uc"][i][a][c] - muc[i][a][c]))
                    stats["c_cov_vs_model"] = max(stats.get("c_cov_vs_model", 0.0), e_m / tol_cov)
                    if e_m > tol_cov and not bad:
                        probs.append(("corr", "correct-cov-vs-model", "component %d: corrected covariance differs from the Lean UKF model by %.3g (tol %.3g)" % (i, e_m, tol_cov)))
                        bad = True
        # likelihood N(nu; 0, S): against the exact value and against KFCorrection's
        if o["ulik"] is not None and len(o["ulik"]) == k:
            d = det_frac(S)
            qf = sum(enu[i][a] * Si[a][c] * enu[i][c] for a in range(m) for c in range(m))
            logl = -0.5 * (m * math.log(2 * math.pi) + (math.log(d.numerator) - math.log(d.denominator)) + float(qf))
            if logl > 700:
                continue   # density beyond the double range: nothing to compare
            want = math.exp(logl) if logl > -745 else 0.0
            dlog = 0.5 * m * nSi * dS + nSi * (nnu + dY) * dY * m + 0.5 * nSi * nSi * (nnu + dY) ** 2 * dS
            rel = dlog + 64 * EPS * kS * (abs(float(qf)) + m + 1) * m + 1e-13
            e_ex = abs(o["ulik"][i] - want)
            t_ex = rel * max(want, 1e-300) + 1e-320
            stats["c_lik_vs_exact"] = max(stats.get("c_lik_vs_exact", 0.0), e_ex / t_ex)
            okk = e_ex <= t_ex   # no Kalman likelihood to compare with: fall back on the exact value
            if o["klik"] is not None and len(o["klik"]) == k:
                e_kf = abs(o["ulik"][i] - o["klik"][i])
                stats["c_lik_vs_kf"] = max(stats.get("c_lik_vs_kf", 0.0), e_kf / (2 * t_ex))
                okk = e_kf <= 2 * t_ex
            if e_ex > t_ex and okk:
                stats.setdefault("_notes", {})["ukf_and_kf_likelihoods_agree_but_differ_from_N(nu;0,S)(C15)"] = stats.setdefault("_notes", {}).get("ukf_and_kf_likelihoods_agree_but_differ_from_N(nu;0,S)(C15)", 0) + 1
            if not okk:
                probs.append(("prop", "likelihood-differs", "component %d: UKF likelihood %.17g, KF likelihood %s, N(y; H m, S) = %.17g" % (i, o["ulik"][i], ("%.17g" % o["klik"][i]) if o["klik"] else "none", want)))
    return probs


# ------------------------------------------------------------------------------------------------ run

def gen_ukf_history(g, idx):
    """a linear-Gaussian history for two whole filters (UKF pair, KF pair), well conditioned by construction"""
    r = g.r
    variant = idx % 2
    n, m, k = r.randint(1, 4), r.randint(1, 3), r.choice([1, 1, 2])
    nz, nzm = (r.randint(1, 2), m) if variant == 1 else (0, 0)
    steps = r.randint(2, 6)
    alpha = r.choice([1.0, 0.5, 1.3, 1.0])
    beta = r.choice([2.0, 0.0])
    kappa = r.choice([0.0, 0.5, 1.0])
    exo = r.random() < 0.5
    sc = 10 ** r.uniform(-3, 3) if r.random() < 0.3 else 1.0
    far = (10 ** r.uniform(4, 6.5)) if r.random() < 0.25 else 0.0
    off = [far * r.choice([-1.0, 1.0]) for _ in range(n)]          # all components far from the origin, near each other
    means = [[sc * (v + off[i]) for i, v in enumerate(g.vec(n))] for _ in range(k)]
    Ps = [g.spd(n, cond=10 ** r.uniform(0, 2), scale=sc * sc * 10 ** r.uniform(-1, 1)) for _ in range(k)]
    t = ["ukfh", str(variant), str(n), str(nz), str(m), str(nzm), str(k), hexd(alpha), hexd(beta), hexd(kappa), "1" if exo else "0"]
    t += [hexd(means[c][i]) for c in range(k) for i in range(n)]
    t += [hexd(Ps[c][i][j]) for c in range(k) for j in range(n) for i in range(n)]
    t += [str(steps)]
    flags = []
    F = g.mat(n, n, -1.0, 1.0)
    track = list(means[0])
    for s_ in range(steps):
        skipP, skipS, skipC = r.random() < 0.1, r.random() < 0.1, r.random() < 0.12
        hasmeas = r.random() < 0.8
        flags.append((skipP, skipS, skipC, hasmeas))
        if r.random() < 0.5:
            F = g.mat(n, n, -1.0, 1.0)
        t += ["1" if x else "0" for x in (skipP, skipS, skipC, hasmeas)] + U.cm_tokens(F)
        if variant == 1:
            t += U.cm_tokens(g.mat(n, nz, -1.0, 1.0)) + U.cm_tokens(g.spd(nz, cond=10 ** r.uniform(0, 2), scale=sc * sc * 10 ** r.uniform(-1, 0)))
        else:
            t += U.cm_tokens(g.spd(n, cond=10 ** r.uniform(0, 2), scale=sc * sc * 10 ** r.uniform(-2, 0)))
        uvec = [(sc * v if exo else 0.0) for v in g.vec(n)]
        t += [hexd(v) for v in uvec]
        if not (skipP or skipS):
            track = [sum(F[i][j] * track[j] for j in range(n)) + uvec[i] for i in range(n)]      # where the belief roughly is
        H = g.mat(m, n)
        t += U.cm_tokens(H)
        if variant == 1:
            D = [[(1.0 if i == j else 0.0) + 0.25 * g.dyadic(-1, 1, 3) for j in range(nzm)] for i in range(m)]
            t += U.cm_tokens(D) + U.cm_tokens(g.spd(nzm, cond=10 ** r.uniform(0, 2), scale=sc * sc * 10 ** r.uniform(-1, 1)))
        else:
            t += U.cm_tokens(g.spd(m, cond=10 ** r.uniform(0, 2), scale=sc * sc * 10 ** r.uniform(-1, 1)))
        # a measurement in the vicinity of what the belief predicts (keeps the likelihood away from underflow)
        t += [hexd(sum(H[a][j] * track[j] for j in range(n)) + sc * v) for a, v in enumerate(g.vec(m))]
    return " ".join(t), {"variant": variant, "n": n, "m": m, "k": k, "steps": steps, "flags": flags, "far": far != 0.0}


def history_stage(ctx, binary, lines=None):
    """Theorem ukf_history_eq_kf on the implementation: two whole filters (UKFPrediction + UKFCorrection, additive or
    generic constructors; KFPrediction + KFCorrection) composed as GaussianFilter::filtering_step composes them, each on
    its own trajectory through the same generated history; after every step the predicted and the corrected beliefs and
    the likelihoods must agree.  The histories are well conditioned by construction (cond <= 1e2 per matrix, alpha >= 0.5,
    <= 6 steps): agreement is required, per step taken, to 1e-7 relative to the spread (d_i d_j, d = sqrt diag P) plus
    4096 eps |m_i| d_j for beliefs far from the origin (the offsets of the sigma points are differences of numbers of
    size |m|) - see max_dev_over_tol in the evidence for the margin on the clean tree; a wrong or stale step moves the
    result by O(1) of the spread."""
    g = ctx.gen("ukfh")
    cases = [(ln, None) for ln in lines] if lines else [gen_ukf_history(g, i) for i in range(ctx.n(24, 150))]
    hout, logs = vlib.run_harness(binary, [c[0] for c in cases])
    bad, stats = [], {"histories": len(cases), "steps": 0, "augmented": 0, "far_mean": 0, "skipped_or_unmeasured_steps": 0, "likelihoods_compared": 0, "max_dev_over_tol": 0.0, "sanitizer_crashes": len(logs)}
    REL, FAR = 1e-7, 4096 * EPS
    for (line, meta), h in zip(cases, hout):
        tk = line.split()
        n, k, steps = int(tk[2]), int(tk[6]), None
        if meta:
            stats["augmented"] += meta["variant"]
            stats["far_mean"] += 1 if meta["far"] else 0
        if not h.startswith("ok"):
            bad.append(("history-failed", "filter history: the implementation failed on a valid history: %s" % h[:100], line, h))
            continue
        try:
            t = h.split()
            p = 1
            si = 0
            movedmax = 0.0
            while p < len(t):
                if t[p] != "step":
                    raise ValueError("format")
                p += 1
                si += 1
                stats["steps"] += 1
                got = {}
                for name in ("predU", "corrU"):
                    mm_, cc_, _, p = read_gm(t, p, n, k, unhex)
                    got[name] = (mm_, cc_)
                likU, p = read_lik(t, p)
                for name in ("predK", "corrK"):
                    mm_, cc_, _, p = read_gm(t, p, n, k, unhex)
                    got[name] = (mm_, cc_)
                likK, p = read_lik(t, p)
                if any(v[0] is None for v in got.values()):
                    bad.append(("history-shape", "filter history, step %d: a belief of unexpected shape" % si, line, h)); break
                worst, where = 0.0, ""
                for a, b in (("predU", "predK"), ("corrU", "corrK")):
                    for c in range(k):
                        mu, Pu = got[a][0][c], got[a][1][c]
                        mk, Pk = got[b][0][c], got[b][1][c]
                        vals = mu + [x for row in Pu for x in row]
                        if any(x != x or abs(x) == float("inf") for x in vals):
                            worst, where = float("inf"), "%s component %d not finite" % (a, c); break
                        d = [max(Pk[i][i], 0.0) ** 0.5 for i in range(n)]
                        for i in range(n):
                            movedmax = max([movedmax] + [abs(got["corrK"][0][c2][i2] - got["predK"][0][c2][i2]) for c2 in range(k) for i2 in range(n)])
                            moved = movedmax
                            e = abs(mu[i] - mk[i]) / ((si + 1) * (REL * (d[i] + moved) + FAR * abs(mk[i])) + 1e-300)
                            if e > worst:
                                worst, where = e, "%s mean[%d] of component %d: UKF %.17g, KF %.17g" % (a[:4], i, c, mu[i], mk[i])
                            for j in range(n):
                                e = abs(Pu[i][j] - Pk[i][j]) / ((si + 1) * (REL * d[i] * d[j] + FAR * (abs(mk[i]) * d[j] + abs(mk[j]) * d[i])) + 1e-300)
                                if e > worst:
                                    worst, where = e, "%s covariance[%d][%d] of component %d: UKF %.17g, KF %.17g" % (a[:4], i, j, c, Pu[i][j], Pk[i][j])
                stats["max_dev_over_tol"] = max(stats["max_dev_over_tol"], worst if worst != float("inf") else 1e300)
                if worst > 1.0:
                    bad.append(("history-beliefs-differ", "filter history, step %d: %s" % (si, where), line, h)); break
                if (likU is None) != (likK is None):
                    bad.append(("history-likelihood-availability", "filter history, step %d: likelihood available from one filter only" % si, line, h)); break
                if likU is not None:
                    stats["likelihoods_compared"] += 1
                    for c, (lu, lk) in enumerate(zip(likU, likK)):
                        lu, lk = float(lu), float(lk)
                        if lk > 1e-290 and lu > 0:
                            if abs(math.log(lu) - math.log(lk)) > 1e-5 * (si + 1) * (1 + abs(math.log(lk))):
                                bad.append(("history-likelihood-differs", "filter history, step %d, component %d: likelihood UKF %.17g, KF %.17g" % (si, c, lu, lk), line, h)); break
                        elif lk > 1e-290 and not lu > 0:
                            bad.append(("history-likelihood-differs", "filter history, step %d, component %d: likelihood UKF %r, KF %.17g" % (si, c, lu, lk), line, h)); break
                else:
                    stats["skipped_or_unmeasured_steps"] += 1
        except Exception as ex:
            bad.append(("history-unreadable", "filter history: output cannot be evaluated (%s: %s): %s" % (type(ex).__name__, ex, h[:100]), line, h))
    return bad, stats


def run(ctx):
    ctx.proof_stage()
    binary = vlib.build_harness("h_ut")
    stats, hist, notes = {}, {}, {}
    g = ctx.gen("ukf")
    NP, NC = ctx.n(70, 600), ctx.n(90, 800)
    objects = []
    for mk in [ukfp_case] * NP + [ukfc_case] * NC:
        st = [mk(g, ctx.tier)]
        if g.r.random() < (0.85 if st[0].get("online") else 0.5):
            for _ in range(g.r.choice([1, 2, 3])):
                st.append(derive_step(st[-1], g))
        if len(st) > 1 or g.r.random() < 0.3:
            # object hand-over (move construction before / after the first step; move assignment for predictions)
            st[0]["hand"] = g.r.choice([0, 1, 1, 2, 2] + ([3] if st[0]["op"] == "ukfp" else []))
            st[0]["alias"] = g.r.random() < 0.2
            if st[0]["op"] == "ukfc" and g.r.random() < 0.15:
                st[0]["cskip"] = 1
                st[0]["cskipping"] = True
                for i_ in range(1, len(st)):      # the derived steps were drawn before: recompute the skip state
                    prev_ = st[i_ - 1]
                    if st[i_].get("cskip") == 1 and prev_.get("cskipping"):
                        st[i_]["cskip"] = 2
                    st[i_]["cskipping"] = (st[i_].get("cskip") == 1) or (bool(prev_.get("cskipping")) and st[i_].get("cskip") != 2)
        objects.append(st)
    import json
    ncorpus = 0
    for f in sorted((vlib.VERIF / "corpus" / "C04").glob("*.json")):
        cr = json.load(open(f))
        cr = cr.get("replay", cr)
        if "meta" in cr and "steps" in cr["meta"]:
            objects.insert(0, U.unsnap(cr["meta"])["steps"])
            ncorpus += 1
    hist["corpus-objects"] = ncorpus
    hist_lines = None
    if ctx.replay and str(json.load(open(ctx.replay))["replay"].get("input_line", "")).startswith("ukfh") and "meta" not in json.load(open(ctx.replay))["replay"]:
        hist_lines = [json.load(open(ctx.replay))["replay"]["input_line"]]
        hb, hstats = history_stage(ctx, vlib.build_harness("h_ut"), hist_lines)
        for key2, what, line, h in hb[:5]:
            ctx.violation(key2, "UKF vs KF: " + what, {"harness": "h_ut", "input_line": line, "observed": h[:3000]})
        ctx.coverage.update({"evaluations": hstats["steps"], "distinct_nontrivial": hstats["steps"], "rule": "replay of one filter history", "samples": hist_lines, "traces_validated_against_impl": hstats["steps"]})
        return
    if ctx.replay:
        rm = U.unsnap(json.load(open(ctx.replay))["replay"]["meta"])
        objects = [rm["steps"] if isinstance(rm, dict) and "steps" in rm else [rm]]
    ohl = []
    for st in objects:
        plain = len(st) == 1 and not st[0].get("hand") and not st[0].get("alias") and not st[0].get("cskip")
        if plain:
            ohl.append((ukfp_lines(st[0]) if st[0]["op"] == "ukfp" else ukfc_lines(st[0]))[0])
        else:
            ohl.append(seq_line(st))
    ohout, logs = vlib.run_harness(binary, ohl)
    # flatten to single steps
    metas, hl, hout, snaps = [], [], [], []
    for st, line, h in zip(objects, ohl, ohout):
        outs = split_seq(h, len(st)) if line.startswith("ukfps") or line.startswith("ukfcs") else [h]
        sn = U.snap({"steps": st})
        for si, (m_, ho) in enumerate(zip(st, outs)):
            m_ = dict(m_)
            m_["step"] = si
            m_["hand_obj"] = st[0].get("hand", 0)
            metas.append(m_)
            hl.append(line)
            hout.append(ho)
            snaps.append(sn)
        hist["steps-per-object=%d" % len(st)] = hist.get("steps-per-object=%d" % len(st), 0) + 1
        if st[0].get("hand"):
            kk = "hand-over:%s:%s" % ("prediction" if st[0]["op"] == "ukfp" else "correction", {1: "move-constructed before first step", 2: "move-constructed between steps", 3: "move-assigned between steps"}[st[0]["hand"]])
            hist[kk] = hist.get(kk, 0) + 1
        for m_ in st:
            if m_.get("alias"):
                kk = "aliasing:%s(b, b)" % ("predict" if m_["op"] == "ukfp" else "correct")
                hist[kk] = hist.get(kk, 0) + 1
            if m_.get("cskipping"):
                hist["correction-skip-flag-set"] = hist.get("correction-skip-flag-set", 0) + 1
        nchg = sum(1 for m_ in st if m_.get("chg") == 1)
        if nchg:
            hist["online-weights:noise-dimension-changed-between-steps"] = hist.get("online-weights:noise-dimension-changed-between-steps", 0) + nchg
        for m_ in st:
            if m_.get("mchg") or m_.get("chg") == 2:
                kk = "time-varying-model:%s-%s" % ("prediction" if m_["op"] == "ukfp" else "correction", "augmented" if m_["variant"] else "additive")
                hist[kk] = hist.get(kk, 0) + 1
    first, dl, dmap = [], [], {}
    for ci, (meta, h) in enumerate(zip(metas, hout)):
        if meta["op"] == "ukfp":
            key = "predict:%s%s%s" % ("augmented" if meta["variant"] else "additive", "+skip" if meta["skip"] else "", "+exo" if meta["exo"] else "")
            try:
                probs, o, Bs = check_ukfp(meta, h, stats, notes)
            except (IndexError, ValueError, ArithmeticError) as e:
                probs, o, Bs = [("prop", "predict-output-malformed", "UKFPrediction/KFPrediction output is not of the expected form (%s): %s" % (type(e).__name__, h[:80]))], None, None
        else:
            key = "correct:%s%s%s" % ("augmented" if meta["variant"] else "additive", "+fail%d" % meta["fail"] if meta["fail"] else "", "+online" if meta["online"] else "")
            try:
                probs, o, Bs = check_ukfc(meta, h, stats, notes)
            except (IndexError, ValueError, ArithmeticError) as e:
                probs, o, Bs = ([] if meta["fail"] else [("prop", "correct-output-malformed", "UKFCorrection/KFCorrection output is not of the expected form (%s): %s" % (type(e).__name__, h[:80]))]), None, None
        hist[key] = hist.get(key, 0) + 1
        hist["components=%d" % meta["k"]] = hist.get("components=%d" % meta["k"], 0) + 1
        hist["P=" + meta["pstyle"]] = hist.get("P=" + meta["pstyle"], 0) + 1
        hist["scale=" + meta.get("scale", "?")] = hist.get("scale=" + meta.get("scale", "?"), 0) + 1
        if meta["op"] == "ukfc" and meta.get("dchan") and max(meta["dchan"]) != min(meta["dchan"]):
            hist["measurement channels in mixed units"] = hist.get("measurement channels in mixed units", 0) + 1
        if meta.get("dup", "none") != "none" and meta.get("step", 0) == 0:
            hist["near-duplicate components:" + meta["dup"]] = hist.get("near-duplicate components:" + meta["dup"], 0) + 1
        first.append((probs, o, Bs))
        if o is not None and Bs is not None:
            lines = ukfp_lines(meta, Bs) if meta["op"] == "ukfp" else ukfc_lines(meta, Bs)
            dmap[ci] = (len(dl), len(dl) + 1)
            dl += [lines[1], lines[2]]
    douts = vlib.run_driver(dl)
    prop_bad, corr_bad = [], []
    for ci, (meta, h) in enumerate(zip(metas, hout)):
        probs, o, Bs = first[ci]
        if ci in dmap:
            kfd, mud = douts[dmap[ci][0]], douts[dmap[ci][1]]
            if meta["op"] == "ukfp":
                if not kfd.startswith("ok") or not mud.startswith("ok"):
                    probs.append(("corr", "model-undefined", "model undefined: %s / %s" % (kfd[:30], mud[:30])))
                else:
                    probs += compare_ukfp(meta, o, kfd, mud, stats)
            else:
                probs += compare_ukfc(meta, o, kfd, mud, stats)
        for kind, key2, what in probs:
            if kind == "corr" and o is not None and o.get("points_ok") is False:
                # the sigma points of this step do not meet C03's predicates for the requested (alpha, beta, kappa): the
                # Lean UKF model (which takes its weights from those parameters) is then not comparable; whether the
                # step still coincides with the Kalman filter is decided by the predicate above, the rest is C03's
                notes["model_not_comparable(sigma points fail C03 predicates)"] = notes.get("model_not_comparable(sigma points fail C03 predicates)", 0) + 1
                continue
            (prop_bad if kind == "prop" else corr_bad).append((key2, what, ci, h))

    def rdata(ci, h, extra=None):
        d = {"harness": "h_ut", "input_line": hl[ci], "meta": snaps[ci], "observed": h[:3000],
             "how": "python3 check.py C04 --replay <this file> re-runs exactly this case against the current tree"}
        d.update(extra or {})
        return d

    seen = set()
    for key2, what, ci, h in prop_bad:
        if key2 in seen:
            continue
        seen.add(key2)
        ctx.violation(key2, "UKF vs KF: " + what, rdata(ci, h))
    if corr_bad and not prop_bad:
        key2, what, ci, h = corr_bad[0]
        ctx.violation("correspondence:" + key2, "model and implementation disagree (%d cases), no property predicate failed: %s" % (len(corr_bad), what),
                      rdata(ci, h, {"correspondence": "BFL.ukfPredict*/ukfCorrect* vs UKFPrediction/UKFCorrection"}), no_input=True)
    hstats = {}
    if not ctx.replay:
        hb, hstats = history_stage(ctx, binary)
        seenh = set()
        for key2, what, line, h in hb:
            if key2 in seenh:
                continue
            seenh.add(key2)
            prop_bad.append((key2, what, -1, h))
            ctx.violation(key2, "UKF vs KF: " + what, {"harness": "h_ut", "input_line": line, "observed": h[:3000],
                                                        "how": "python3 check.py C04 --replay <this file> re-runs exactly this history against the current tree"})
    for k_, v_ in stats.pop("_notes", {}).items():
        notes[k_] = notes.get(k_, 0) + v_
    nontrivial = set((hl[ci], meta["step"]) for ci, meta in enumerate(metas) if meta["n"] + meta["nz"] > 1 or meta["k"] > 1)
    ctx.coverage.update({
        "evaluations": len(metas), "objects": len(objects), "distinct_nontrivial": len(nontrivial),
        "rule": "random linear-Gaussian models: prediction x' = F x (+ u) + w (additive) and x' = F x + G w (+ u) (augmented), correction "
                "y = H x + v (additive) and y = H x + D v (augmented); n, m in 1..%d, noise rows 1..3 / m..m+1, 1..4 distinct components, PSD P incl. "
                "singular, F/H incl. zero / rank-deficient / triangular, alpha in [0.1, 2], beta, kappa >= 0; skipping state model; failing model "
                "calls (counted only); 40 %% of the objects are driven through 2..4 successive steps with new component counts (non-monotone), beliefs, measurements, skip / failure flags; non-trivial = more than one input dimension or more than one component; distinct = distinct input lines" % (5 if ctx.quick() else 6),
        "samples": [hl[0][:400], hl[-1][:400]],
        "branch_histogram": hist,
        "code_branches_hit": {
            "UKFPrediction::predictStep:is_skipping": sum(v for k_, v in hist.items() if k_.startswith("predict:") and "+skip" in k_),
            "UKFPrediction::predictStep:Generic (augmented)": sum(v for k_, v in hist.items() if k_.startswith("predict:augmented") and "+skip" not in k_),
            "UKFPrediction::predictStep:Additive": sum(v for k_, v in hist.items() if k_.startswith("predict:additive") and "+skip" not in k_),
            "UKFCorrection::correctStep:!valid_measurement": sum(v for k_, v in hist.items() if "+fail1" in k_),
            "UKFCorrection::correctStep:Generic (augmented)": sum(v for k_, v in hist.items() if k_.startswith("correct:augmented") and "+fail1" not in k_),
            "UKFCorrection::correctStep:Generic:update_weights_online": sum(v for k_, v in hist.items() if k_.startswith("correct:augmented") and "+online" in k_ and "+fail1" not in k_),
            "UKFCorrection::correctStep:Additive": sum(v for k_, v in hist.items() if k_.startswith("correct:additive") and "+fail1" not in k_),
            "UKFCorrection::correctStep:!valid (transform failed)": sum(v for k_, v in hist.items() if "+fail2" in k_ or "+fail4" in k_),
            "UKFCorrection::correctStep:!valid_innovation": sum(v for k_, v in hist.items() if "+fail3" in k_),
            "UKFCorrection::correctStep:update loop": sum(v for k_, v in hist.items() if k_.startswith("correct:") and "+fail" not in k_),
            "UKFCorrection::getLikelihood:no innovations (false)": notes.get("getLikelihood_without_innovations_returns_false", 0),
            "UKFCorrection::getLikelihood:density per component": sum(v for k_, v in hist.items() if k_.startswith("correct:") and "+fail" not in k_),
        },
        "numeric_max_error_over_tolerance": stats, "notes_not_alarmed": notes, "filter_histories": hstats,
        "traces_validated_against_impl": len(metas),
        "model_vs_impl_disagreements": len(corr_bad), "property_failures_on_impl": len(prop_bad),
        "sanitizer_crashes": len(logs),
    })
    ctx.assumptions += [
        "square-root routine: contract B B^T = c P checked numerically on the sigma points of every step observed",
        "inverse routine: certified exactly on every call of the Q execution (kfc, uukfc)",
        "floating point: UKF vs KF / exact Kalman answer within bounds computed from the actual sigma points and cond(S)",
        "augmented variants: the Kalman filter is given the effective noise G Q G^T / D R D^T rounded to doubles",
    ]
