import BFL.Model.UTStore
import BFL.Bridge.Mat
import BFL.Proofs.UT
import Mathlib.Tactic.Ring
import Mathlib.Tactic.Linarith
/-
Helper lemmas for the storage-level model of `GaussianMixture::augmentWithNoise`
(`BFL/Model/UTStore.lean`): loop invariant of the in-place block relocation, histories of
augmentations, translation of the propagated points, the expanded covariance formula.
-/
namespace BFL
namespace UTStoreProofs

set_option linter.unusedSectionVars false
set_option linter.unusedVariables false

variable {α : Type}

/-- Loop invariant of the relocation, at "block `m`, columns `j … d-1` of it already moved":
    (a) every column left of the current source position still holds what it held at the start,
    (b) every block `i' > m` (up to `K`) and the moved columns of block `m` are at their new offset,
    (c) rows from `d` on are untouched. -/
def Inv (d D K : Nat) (s0 s : Store α) (m j : Nat) : Prop :=
  (∀ r c, c < m * d + j → s r c = s0 r c) ∧
  (∀ r i' j', r < d → j' < d → i' ≤ K → (m < i' ∨ (i' = m ∧ j ≤ j')) →
      s r (i' * D + j') = s0 r (i' * d + j')) ∧
  (∀ r c, d ≤ r → s r c = s0 r c)

theorem moveCols_inv (d D K : Nat) (hdD : d ≤ D) (s0 : Store α) (m : Nat) :
    ∀ (j : Nat) (s : Store α), j ≤ d → Inv d D K s0 s m j → Inv d D K s0 (Store.moveCols d D m j s) m 0 := by
  intro j
  induction j with
  | zero => intro s _ h; exact h
  | succ j ih =>
    intro s hj ⟨ha, hb, hc⟩
    have hmd : m * d ≤ m * D := Nat.mul_le_mul_left m hdD
    apply ih _ (by omega)
    refine ⟨?_, ?_, ?_⟩
    · intro r c hcl
      unfold Store.swapTop
      by_cases hr : r < d
      · have h1 : c ≠ m * D + j := by omega
        have h2 : c ≠ m * d + j := by omega
        simp only [hr, if_true, h1, h2, if_false]
        exact ha r c (by omega)
      · simp only [hr, if_false]
        exact ha r c (by omega)
    · intro r i' j' hr hj' hi' hcase
      unfold Store.swapTop
      simp only [hr, if_true]
      by_cases hhit : i' = m ∧ j' = j
      · obtain ⟨rfl, rfl⟩ := hhit
        simp only [if_true]
        exact ha r _ (by omega)
      · have hcase' : m < i' ∨ (i' = m ∧ j + 1 ≤ j') := by
          rcases hcase with h | ⟨h1, h2⟩
          · exact Or.inl h
          · refine Or.inr ⟨h1, ?_⟩
            by_contra hlt
            exact hhit ⟨h1, by omega⟩
        have hgt : m * D + j < i' * D + j' := by
          rcases hcase' with h | ⟨h1, h2⟩
          · have h3 : (m + 1) * D ≤ i' * D := Nat.mul_le_mul_right D h
            rw [Nat.succ_mul] at h3
            omega
          · subst h1; omega
        have h1 : i' * D + j' ≠ m * D + j := by omega
        have h2 : i' * D + j' ≠ m * d + j := by omega
        simp only [h1, h2, if_false]
        exact hb r i' j' hr hj' hi' hcase'
    · intro r c hr
      unfold Store.swapTop
      have : ¬ r < d := by omega
      simp only [this, if_false]
      exact hc r c hr

theorem moveBlocks_inv (d D K : Nat) (hdD : d ≤ D) (s0 : Store α) :
    ∀ (ii : Nat) (s : Store α), ii ≤ K → Inv d D K s0 s ii d → Inv d D K s0 (Store.moveBlocks d D ii s) 0 d := by
  intro ii
  induction ii with
  | zero => intro s _ h; exact h
  | succ ii ih =>
    intro s hK h
    unfold Store.moveBlocks
    apply ih _ (by omega)
    obtain ⟨ha, hb, hc⟩ := moveCols_inv d D K hdD s0 (ii + 1) d s (le_refl d) h
    refine ⟨?_, ?_, hc⟩
    · intro r c hcl
      apply ha
      rw [Nat.succ_mul]; omega
    · intro r i' j' hr hj' hi' hcase
      apply hb r i' j' hr hj' hi'
      rcases hcase with h1 | ⟨h1, h2⟩
      · by_cases h3 : i' = ii + 1
        · exact Or.inr ⟨h3, Nat.zero_le _⟩
        · exact Or.inl (by omega)
      · omega

/-- The relocation loop moves every block to its new offset and leaves everything else of the rows it
    does not own alone. -/
theorem moveBlocks_spec (d D K : Nat) (hdD : d ≤ D) (s0 : Store α) :
    (∀ r i' j', r < d → j' < d → i' ≤ K →
        Store.moveBlocks d D K s0 r (i' * D + j') = s0 r (i' * d + j')) ∧
    (∀ r c, d ≤ r → Store.moveBlocks d D K s0 r c = s0 r c) := by
  have h0 : Inv d D K s0 s0 K d :=
    ⟨fun _ _ _ => rfl, fun r i' j' _ _ hi' hcase => by omega, fun _ _ _ => rfl⟩
  obtain ⟨ha, hb, hc⟩ := moveBlocks_inv d D K hdD s0 K s0 (le_refl K) h0
  refine ⟨?_, hc⟩
  intro r i' j' hr hj' hi'
  by_cases h : i' = 0
  · subst h
    simp only [Nat.zero_mul, Nat.zero_add]
    exact ha r j' (by omega)
  · exact hb r i' j' hr hj' hi' (Or.inl (by omega))

theorem div_block (D i cc : Nat) (hc : cc < D) : (i * D + cc) / D = i ∧ (i * D + cc) % D = cc := by
  have hD : 0 < D := by omega
  constructor
  · rw [Nat.mul_comm, Nat.mul_add_div hD, Nat.div_eq_of_lt hc, Nat.add_zero]
  · rw [Nat.mul_comm, Nat.mul_add_mod, Nat.mod_eq_of_lt hc]

section spec
variable [Zero α] [Inhabited α]

/-- **Entry-level specification of the in-place augmentation.** -/
theorem augmentStore_spec (d z k : Nat) (Q : Mat α z z) (s : Store α) (i cc r : Nat)
    (hi : i < k) (hr : r < d + z) (hc : cc < d + z) :
    augmentStore d z k Q s r (i * (d + z) + cc) =
      if r < d then (if cc < d then s r (i * d + cc) else 0)
      else (if cc < d then 0 else Q.getZ (r - d) (cc - d)) := by
  obtain ⟨hdiv, hmod⟩ := div_block (d + z) i cc hc
  obtain ⟨hmove, hrest⟩ := moveBlocks_spec d (d + z) (k - 1) (Nat.le_add_right d z) (Store.resize d k s)
  unfold augmentStore Store.fillNoise
  simp only [hdiv, hmod, hi, true_and]
  by_cases hcd : cc < d
  · have : ¬ d ≤ cc := by omega
    simp only [this, if_false, hcd, if_true]
    by_cases hrd : r < d
    · simp only [hrd, if_true]
      rw [hmove r i cc hrd hcd (by omega)]
      unfold Store.resize
      have : i * d + cc < d * k := by
        have h1 : (i + 1) * d ≤ k * d := Nat.mul_le_mul_right d hi
        rw [Nat.succ_mul] at h1
        rw [Nat.mul_comm d k]; omega
      simp only [hrd, this, and_self, if_true]
    · simp only [hrd, if_false]
      rw [hrest r _ (by omega)]
      unfold Store.resize
      simp only [hrd, false_and, if_false]
  · have h1 : d ≤ cc := by omega
    simp only [h1, if_true, hcd, if_false]
    by_cases hrd : r < d
    · simp only [hrd, if_true]
    · simp only [hrd, if_false, hr, if_true]

theorem getZ_lt {r c : Nat} (A : Mat α r c) (i j : Nat) (hi : i < r) (hj : j < c) :
    A.getZ i j = A ⟨i, hi⟩ ⟨j, hj⟩ := by
  unfold Mat.getZ
  simp only [hi, hj, and_self, dite_true]

theorem storeOf_block {d k : Nat} (b : GM α d k) (i : Fin k) (r cc : Nat) (hr : r < d) (hc : cc < d) :
    storeOf b r (i.val * d + cc) = b.cov i ⟨r, hr⟩ ⟨cc, hc⟩ := by
  obtain ⟨hdiv, hmod⟩ := div_block d i.val cc hc
  unfold storeOf
  simp only [hdiv, hmod, i.isLt, dite_true]
  exact getZ_lt _ r cc hr hc

end spec

/-! ### Histories of augmentations -/

section history
variable [Zero α] [Inhabited α] [Add α] [Sub α] [Mul α] [Div α] [NatCast α] {k : Nat}

theorem augment_meanZ (s : AnyGM α k) (q : AnySq α) (i : Fin k) (r : Nat) :
    (s.augment q).meanZ i r = if r < s.n then s.meanZ i r else 0 := by
  unfold AnyGM.meanZ AnyGM.augment
  simp only [GM.evalAll_eq]
  by_cases h1 : r < s.n
  · have h2 : r < s.n + q.z := by omega
    simp only [h1, h2, dite_true, if_true, augmentWithNoise, Vec.eval_eq, Vec.of_apply]
  · by_cases h2 : r < s.n + q.z
    · simp only [h1, h2, dite_true, if_false, augmentWithNoise, Vec.eval_eq, Vec.of_apply, dite_false]
    · simp only [h1, h2, dite_false, if_false]

theorem augment_covZ (s : AnyGM α k) (q : AnySq α) (i : Fin k) (r c : Nat) :
    (s.augment q).covZ i r c =
      if r < s.n then (if c < s.n then s.covZ i r c else 0)
      else (if c < s.n then 0 else q.Q.getZ (r - s.n) (c - s.n)) := by
  unfold AnyGM.covZ AnyGM.augment Mat.getZ
  simp only [GM.evalAll_eq]
  by_cases hr : r < s.n + q.z
  · by_cases hc : c < s.n + q.z
    · simp only [hr, hc, and_self, dite_true, augmentWithNoise, Mat.eval_eq, Mat.of_apply]
      by_cases h1 : r < s.n
      · by_cases h2 : c < s.n
        · simp only [h1, h2, dite_true, if_true, and_self]
        · simp only [h1, h2, dite_true, dite_false, if_true, if_false]
      · by_cases h2 : c < s.n
        · simp only [h1, h2, dite_true, dite_false, if_true, if_false]
        · have h3 : r - s.n < q.z := by omega
          have h4 : c - s.n < q.z := by omega
          simp only [h1, h2, dite_false, if_false, h3, h4, and_self, dite_true]
    · have h2 : ¬ c < s.n := by omega
      have h4 : ¬ c - s.n < q.z := by omega
      simp only [hr, hc, and_false, dite_false, h2, h4, ite_self]
  · have h1 : ¬ r < s.n := by omega
    have h3 : ¬ r - s.n < q.z := by omega
    simp only [hr, false_and, dite_false, h1, h3, ite_self]

theorem covZ_out (s : AnyGM α k) (i : Fin k) (r c : Nat) (h : s.n ≤ r ∨ s.n ≤ c) : s.covZ i r c = 0 := by
  unfold AnyGM.covZ Mat.getZ
  have : ¬ (r < s.n ∧ c < s.n) := by omega
  simp only [this, dite_false]

theorem meanZ_out (s : AnyGM α k) (i : Fin k) (r : Nat) (h : s.n ≤ r) : s.meanZ i r = 0 := by
  unfold AnyGM.meanZ
  have : ¬ r < s.n := by omega
  simp only [this, dite_false]

/-- what a whole history of augmentations keeps of the object it started from -/
theorem augmentAll_keeps (qs : List (AnySq α)) : ∀ (s : AnyGM α k),
    (s.augmentAll qs).n = s.n + (qs.map (·.z)).sum ∧
    (∀ i r, r < s.n → (s.augmentAll qs).meanZ i r = s.meanZ i r) ∧
    (∀ i r, s.n ≤ r → (s.augmentAll qs).meanZ i r = 0) ∧
    (∀ i r c, r < s.n → c < s.n → (s.augmentAll qs).covZ i r c = s.covZ i r c) ∧
    (∀ i r c, (r < s.n ∧ s.n ≤ c) ∨ (s.n ≤ r ∧ c < s.n) → (s.augmentAll qs).covZ i r c = 0) ∧
    (s.augmentAll qs).g.weight = s.g.weight := by
  induction qs with
  | nil =>
    intro s
    refine ⟨by simp [AnyGM.augmentAll], fun _ _ _ => rfl, fun i r h => meanZ_out s i r h, fun _ _ _ _ _ => rfl,
      fun i r c h => covZ_out s i r c (by omega), rfl⟩
  | cons q rest ih =>
    intro s
    obtain ⟨h1, h2, h3, h4, h5, h6⟩ := ih (s.augment q)
    have hn : (s.augment q).n = s.n + q.z := rfl
    have hall : s.augmentAll (q :: rest) = (s.augment q).augmentAll rest := rfl
    rw [hall]
    refine ⟨?_, ?_, ?_, ?_, ?_, ?_⟩
    · rw [h1, hn]; simp only [List.map_cons, List.sum_cons]; omega
    · intro i r hr
      rw [h2 i r (by omega), augment_meanZ]; simp only [hr, if_true]
    · intro i r hr
      by_cases hr2 : r < (s.augment q).n
      · rw [h2 i r hr2, augment_meanZ]
        have : ¬ r < s.n := by omega
        simp only [this, if_false]
      · exact h3 i r (by omega)
    · intro i r c hr hc
      rw [h4 i r c (by omega) (by omega), augment_covZ]; simp only [hr, hc, if_true]
    · intro i r c h
      by_cases hin : r < (s.augment q).n ∧ c < (s.augment q).n
      · rw [h4 i r c hin.1 hin.2, augment_covZ]
        rcases h with ⟨ha, hb⟩ | ⟨ha, hb⟩
        · have : ¬ c < s.n := by omega
          simp only [ha, this, if_true, if_false]
        · have : ¬ r < s.n := by omega
          simp only [hb, this, if_true, if_false]
      · rcases h with ⟨ha, hb⟩ | ⟨ha, hb⟩
        · exact h5 i r c (Or.inl ⟨by omega, by omega⟩)
        · exact h5 i r c (Or.inr ⟨by omega, by omega⟩)
    · rw [h6]; simp only [AnyGM.augment, GM.evalAll_eq]; rfl

theorem addNoiseAll_spec (zs : List Nat) : ∀ (ly : Layout),
    (ly.addNoiseAll zs).noise = ly.noise + zs.sum ∧
    (ly.addNoiseAll zs).lin = ly.lin ∧ (ly.addNoiseAll zs).circ = ly.circ ∧ (ly.addNoiseAll zs).quat = ly.quat := by
  induction zs with
  | nil => intro ly; simp [Layout.addNoiseAll]
  | cons z rest ih =>
    intro ly
    obtain ⟨h1, h2, h3, h4⟩ := ih (ly.addNoise z)
    have : ly.addNoiseAll (z :: rest) = (ly.addNoise z).addNoiseAll rest := rfl
    rw [this]
    refine ⟨?_, h2, h3, h4⟩
    rw [h1]; simp only [Layout.addNoise, List.sum_cons]; omega

end history

/-! ### Translation of the propagated points; the expanded covariance formula -/

section translation
open Matrix UTProofs
variable [CommRing α] [Inhabited α] {ny N r nx nz : ℕ}

theorem toM_translateCols (Y : Mat α ny N) (t : Vec α ny) :
    toM (translateCols Y t) = toM Y + rep (toV t) := by
  ext i j; simp [translateCols, rep]

/-- the weighted mean of translated points is the translated weighted mean, when the weights sum to one -/
theorem translate_mean (Y : Mat α ny N) (t : Vec α ny) (w : Vec α N) (hw : ∑ j, w j = 1) (i : Fin ny) :
    (translateCols Y t).mulVec w i = Y.mulVec w i + t i := by
  have h : toV ((translateCols Y t).mulVec w) = toV (Y.mulVec w) + toV t := by
    rw [toV_mulVec, toV_mulVec, toM_translateCols, Matrix.add_mulVec, rep_mulVec]
    have : ∑ j, toV w j = 1 := hw
    rw [this, one_smul]
  exact congrFun h i

/-- offsets do not see a common translation of points and centre -/
theorem translate_offsets (Y : Mat α ny N) (t m m' : Vec α ny) (h : ∀ i, m' i = m i + t i) :
    utOffsets (translateCols Y t) m' = utOffsets Y m := by
  apply Mat.ext; intro i j
  simp only [utOffsets, translateCols, Mat.of_apply, h i]
  ring

theorem utCovNaive_apply (wc : Vec α N) (Y : Mat α ny N) (m : Vec α ny) (a c : Fin ny) :
    utCovNaive wc Y m a c = (∑ j, Y a j * wc j * Y c j) - (∑ j, Y a j * wc j) * m c
      - m a * (∑ j, Y c j * wc j) + (∑ j, wc j) * (m a * m c) := by
  simp only [utCovNaive, Mat.of_apply, Mat.mul_apply, Mat.eval_eq, Vec.eval_eq, Vec.of_apply, scaleCols,
    Mat.transpose_apply, fsum_eq_sum]

theorem utCov_offsets_apply (wc : Vec α N) (Y : Mat α ny N) (m : Vec α ny) (a c : Fin ny) :
    utCov wc (utOffsets Y m) (utOffsets Y m) a c = ∑ j, (Y a j - m a) * wc j * (Y c j - m c) := by
  simp only [utCov, Mat.mul_apply, Mat.eval_eq, scaleCols, utOffsets, Mat.of_apply, Mat.transpose_apply,
    fsum_eq_sum]

theorem naive_eq_offsets (wc : Vec α N) (Y : Mat α ny N) (m : Vec α ny) :
    utCovNaive wc Y m = utCov wc (utOffsets Y m) (utOffsets Y m) := by
  apply Mat.ext; intro a c
  rw [utCovNaive_apply, utCov_offsets_apply, Finset.sum_mul, Finset.mul_sum, Finset.sum_mul,
    ← Finset.sum_sub_distrib, ← Finset.sum_sub_distrib, ← Finset.sum_add_distrib]
  apply Finset.sum_congr rfl; intro j _; ring

theorem utCrossNaive_apply (wc : Vec α N) (Din : Mat α r N) (Y : Mat α ny N) (m : Vec α ny) (a : Fin r) (c : Fin ny) :
    utCrossNaive wc Din Y m a c = (∑ j, Din a j * wc j * Y c j) - (∑ j, Din a j * wc j) * m c := by
  simp only [utCrossNaive, Mat.of_apply, Mat.mul_apply, Mat.eval_eq, Vec.eval_eq, Vec.of_apply, scaleCols,
    Mat.transpose_apply, fsum_eq_sum]

theorem crossNaive_eq_offsets (wc : Vec α N) (Din : Mat α r N) (Y : Mat α ny N) (m : Vec α ny) :
    utCrossNaive wc Din Y m = utCov wc Din (utOffsets Y m) := by
  apply Mat.ext; intro a c
  rw [utCrossNaive_apply]
  simp only [utCov, Mat.mul_apply, Mat.eval_eq, scaleCols, utOffsets, Mat.of_apply, Mat.transpose_apply,
    fsum_eq_sum]
  rw [Finset.sum_mul, ← Finset.sum_sub_distrib]
  apply Finset.sum_congr rfl; intro j _; ring

end translation

end UTStoreProofs
end BFL
