import BFL.Gen.RaceTable
import BFL.Proofs.RaceComplete
import BFL.Proofs.RaceJoin
/-
C10 — the obligations that are re-checked against what the code says *now*: every statement
here is evaluated by the kernel (`decide +kernel`, no axioms) on the table regenerated from the
source by tools/racetable.py.  The translator's own claims (`rootsClaim`, `reachClaim`,
`sharedClaim`, `claimedUndisciplined`) are only candidates; the theorems below certify them
against the definitions of BFL/Model/Race.lean.
-/
namespace BFL.RaceTable
open BFL.Race
set_option maxRecDepth 100000

/-- ids in rows and edges are in range -/
theorem wf : table.wfB = true := by decide +kernel

/-- every entry point named in the role map exists in the table (no role is silently empty) -/
theorem roots_present : table.rootsPresent .controller = true ∧ table.rootsPresent .filter = true := by
  decide +kernel

/-- the only place where the library creates a thread is `boot()`, and the function it hands to
    `std::thread` is the root of the filtering role -/
theorem spawn_root :
    table.spawns = [spawnSite] := by
  decide +kernel

theorem roots_controller : table.rootIds .controller = rootsClaim .controller := by decide +kernel
theorem roots_filter : table.rootIds .filter = rootsClaim .filter := by decide +kernel

theorem cert_controller : ReachCert table .controller (reachClaim .controller) :=
  ⟨by decide +kernel, by decide +kernel, by decide +kernel⟩

theorem cert_filter : ReachCert table .filter (reachClaim .filter) :=
  ⟨by decide +kernel, by decide +kernel, by decide +kernel⟩

/-- the members touched by both threads -/
theorem shared_exact : table.sharedIn (reachClaim .controller) (reachClaim .filter) = sharedClaim := by
  decide +kernel

/-- the members violating the discipline are exactly the claimed ones -/
theorem undisciplined_exact :
    table.undisciplinedIn (reachClaim .controller) (reachClaim .filter) = claimedUndisciplined := by
  decide +kernel

/-- **must hold**: no member violates the discipline -/
theorem claimed_empty : claimedUndisciplined = [] := by decide +kernel

/-- no member of `FilteringAlgorithm` is undisciplined -/
theorem claimed_not_lifecycle :
    ∀ f ∈ claimedUndisciplined, f ∉ table.fieldsOfClass lifecycleClass := by
  decide +kernel

/-- the lifecycle members exist and are shared: the lifecycle statement is not vacuous -/
theorem lifecycle_shared :
    ∀ f ∈ table.fieldIds [(name% "FilteringAlgorithm", name% "run_"), (name% "FilteringAlgorithm", name% "reset_"),
        (name% "FilteringAlgorithm", name% "teardown_"), (name% "FilteringAlgorithm", name% "filtering_step_")],
      f ∈ sharedClaim := by
  decide +kernel

theorem lifecycle_four :
    (table.fieldIds [(name% "FilteringAlgorithm", name% "run_"), (name% "FilteringAlgorithm", name% "reset_"),
        (name% "FilteringAlgorithm", name% "teardown_"), (name% "FilteringAlgorithm", name% "filtering_step_")]).length = 4 := by
  decide +kernel

/-- **must hold**: `wait()` joins the filtering thread, and no function of either role detaches, moves
    or reassigns the handle (`boot()` being the only assignment) -/
theorem join_certified : table.joinCertifiedIn (reachClaim .controller) (reachClaim .filter) = true := by
  decide +kernel

/-- locksets only on rows whose object is `this`, and made of mutex members only -/
theorem locks_certified : table.locksCertifiedB = true := by decide +kernel

/-! ### consequences (no evaluation) -/

theorem fieldOK_iff (f : Nat) :
    table.fieldOKIn (reachClaim .controller) (reachClaim .filter) f = true ↔ FieldOK table f :=
  fieldOK_iff_of_cert cert_controller cert_filter f

theorem fieldOK_of_ge {f : Nat} (h : table.fields.length ≤ f) : FieldOK table f := by
  intro a ha _ _ _ _ fa _
  have := (List.all_eq_true.1 (by have := wf; unfold Table.wfB at this; simp only [Bool.and_eq_true] at this; exact this.1)) a ha
  simp only [Bool.and_eq_true, decide_eq_true_eq] at this
  omega

/-- `¬ FieldOK` is exactly membership in the certified list -/
theorem not_fieldOK_iff (f : Nat) : ¬ FieldOK table f ↔ f ∈ claimedUndisciplined := by
  rw [← undisciplined_exact, mem_undisciplinedIn, ← fieldOK_iff]
  constructor
  · intro h
    refine ⟨?_, by simpa using h⟩
    apply Classical.byContradiction
    intro hge
    exact h ((fieldOK_iff f).2 (fieldOK_of_ge (Nat.le_of_not_lt hge)))
  · rintro ⟨_, h⟩; simp [h]

end BFL.RaceTable
