import BFL.Model.UT
import BFL.Model.KF
import BFL.Model.KFHist
import BFL.Model.UKFHist
import BFL.Bridge.Mat
import BFL.Proofs.UT
import BFL.Proofs.UTKF
import BFL.Props.C03
/-
C04 — The unscented Kalman steps coincide with the Kalman filter on linear-Gaussian models.

Theorems relating the model of `UKFPrediction::predictStep` / `UKFCorrection::correctStep`
(`ukfPredictAdditive`, `ukfPredictAugmented`, `ukfCorrectAdditive`, `ukfCorrectAugmented` in
`BFL/Model/UT.lean`) to the model of the Kalman steps (`kfPredict`, `kfCorrect`,
`BFL/Model/KF.lean`), as equalities of model values, over every field of characteristic zero,
for all dimensions, component counts, `(α, β, κ)` with `n + λ ≠ 0`, every square-root routine
meeting the contract `FacOn` on the covariances it is applied to, and *every* inverse routine
(both filters apply it to the same matrix).

  additive variants :  x' = F x (+ u) + w,  w ~ N(0, Q);   y = H x + v,  v ~ N(0, R)
  augmented variants:  x' = F x + G w (+ u), w ~ N(0, Q);   y = H x + D v, v ~ N(0, R)
                       — the Kalman filter sees the effective noise G Q Gᵀ, resp. D R Dᵀ.

The weights of the predicted mixture differ by design (the unscented prediction assigns the
whole freshly built mixture, weights `1/k` included; the Kalman prediction writes means and
covariances only); the property speaks of mean, covariance and likelihood.
-/
namespace BFL
open Matrix

set_option linter.unusedSectionVars false

variable {α : Type} [Field α] [CharZero α] [Inhabited α] {n nz m k : ℕ}

/-! ### Prediction -/

/-- Additive unscented prediction = Kalman prediction (`F m + u`, `F P Fᵀ + Q`), with a constant
    exogenous input `u` … -/
theorem ukf_predict_eq_kf (fac : α → Mat α n n → Mat α n n) (alpha beta kappa : α)
    (hc : (n : α) + utLambda n alpha kappa ≠ 0)
    (F Q : Mat α n n) (u : Vec α n) (prev out : GM α n k)
    (hfac : ∀ i, FacOn fac (utWeights n alpha beta kappa).c (prev.cov i)) (i : Fin k) :
    (ukfPredictAdditive fac alpha beta kappa false (affineMap F u) Q prev).mean i
      = (kfPredict F Q (some (fun _ => u)) prev out).mean i ∧
    (ukfPredictAdditive fac alpha beta kappa false (affineMap F u) Q prev).cov i
      = (kfPredict F Q (some (fun _ => u)) prev out).cov i := by
  obtain ⟨h1, h2, -⟩ := ut_additive_state_affine fac alpha beta kappa hc prev hfac F u Q i
  constructor
  · apply Vec.ext; intro r
    have : toV ((ukfPredictAdditive fac alpha beta kappa false (affineMap F u) Q prev).mean i)
        = toV ((kfPredict F Q (some (fun _ => u)) prev out).mean i) := by
      simp only [ukfPredictAdditive, UTOut.toGM, Bool.false_eq_true, if_false, kfPredict, propagateMean,
        toV_add, toV_mulVec]
      exact h1
    exact congrFun this r
  · apply toM_injective
    simp only [ukfPredictAdditive, UTOut.toGM, Bool.false_eq_true, if_false, kfPredict, kfPredictCov,
      toM_add, toM_mul, toM_transpose]
    exact h2

/-- … and without exogenous input. -/
theorem ukf_predict_eq_kf_plain (fac : α → Mat α n n → Mat α n n) (alpha beta kappa : α)
    (hc : (n : α) + utLambda n alpha kappa ≠ 0)
    (F Q : Mat α n n) (prev out : GM α n k)
    (hfac : ∀ i, FacOn fac (utWeights n alpha beta kappa).c (prev.cov i)) (i : Fin k) :
    (ukfPredictAdditive fac alpha beta kappa false (affineMap F Vec.zero) Q prev).mean i
      = (kfPredict F Q none prev out).mean i ∧
    (ukfPredictAdditive fac alpha beta kappa false (affineMap F Vec.zero) Q prev).cov i
      = (kfPredict F Q none prev out).cov i := by
  obtain ⟨h1, h2, -⟩ := ut_additive_state_affine fac alpha beta kappa hc prev hfac F Vec.zero Q i
  constructor
  · apply Vec.ext; intro r
    have : toV ((ukfPredictAdditive fac alpha beta kappa false (affineMap F Vec.zero) Q prev).mean i)
        = toV ((kfPredict F Q none prev out).mean i) := by
      simp only [ukfPredictAdditive, UTOut.toGM, Bool.false_eq_true, if_false, kfPredict, propagateMean,
        toV_mulVec]
      rw [h1]; ext r; simp [Vec.zero]
    exact congrFun this r
  · apply toM_injective
    simp only [ukfPredictAdditive, UTOut.toGM, Bool.false_eq_true, if_false, kfPredict, kfPredictCov,
      toM_add, toM_mul, toM_transpose]
    exact h2

/-- Augmented unscented prediction through `x, w ↦ F x + G w + u` = Kalman prediction with the
    effective process noise `G Q Gᵀ`. -/
theorem ukf_predict_augmented_eq_kf (fac : α → Mat α (n + nz) (n + nz) → Mat α (n + nz) (n + nz))
    (alpha beta kappa : α) (hc : ((n + nz : ℕ) : α) + utLambda (n + nz) alpha kappa ≠ 0)
    (F : Mat α n n) (G : Mat α n nz) (Q : Mat α nz nz) (u : Vec α n) (prev out : GM α n k)
    (hfac : ∀ i, FacOn fac (utWeights (n + nz) alpha beta kappa).c ((augmentWithNoise prev Q).cov i))
    (i : Fin k) :
    (ukfPredictAugmented fac alpha beta kappa false (affineMap (hcat F G) u) Q prev).mean i
      = (kfPredict F ((G.mul Q).mul G.transpose) (some (fun _ => u)) prev out).mean i ∧
    (ukfPredictAugmented fac alpha beta kappa false (affineMap (hcat F G) u) Q prev).cov i
      = (kfPredict F ((G.mul Q).mul G.transpose) (some (fun _ => u)) prev out).cov i := by
  obtain ⟨h1, h2, -⟩ := ut_state_model_affine fac alpha beta kappa hc prev Q hfac F G u i
  constructor
  · apply Vec.ext; intro r
    have : toV ((ukfPredictAugmented fac alpha beta kappa false (affineMap (hcat F G) u) Q prev).mean i)
        = toV ((kfPredict F ((G.mul Q).mul G.transpose) (some (fun _ => u)) prev out).mean i) := by
      simp only [ukfPredictAugmented, UTOut.toGM, Bool.false_eq_true, if_false, kfPredict, propagateMean,
        toV_add, toV_mulVec]
      exact h1
    exact congrFun this r
  · apply toM_injective
    simp only [ukfPredictAugmented, UTOut.toGM, Bool.false_eq_true, if_false, kfPredict, kfPredictCov,
      toM_add, toM_mul, toM_transpose]
    exact h2

/-- A skipping state model: the previous belief is returned unchanged (both variants). -/
theorem ukf_predict_skip (fac : α → Mat α n n → Mat α n n) (fac' : α → Mat α (n + nz) (n + nz) → Mat α (n + nz) (n + nz))
    (alpha beta kappa : α)
    (prop : (Fin k → Mat α n (2 * n + 1)) → (Fin k → Mat α n (2 * n + 1)))
    (motion : (Fin k → Mat α (n + nz) (2 * (n + nz) + 1)) → (Fin k → Mat α n (2 * (n + nz) + 1)))
    (Q : Mat α n n) (Q' : Mat α nz nz) (prev : GM α n k) :
    ukfPredictAdditive fac alpha beta kappa true prop Q prev = prev ∧
    ukfPredictAugmented fac' alpha beta kappa true motion Q' prev = prev := by
  simp [ukfPredictAdditive, ukfPredictAugmented]

/-! ### Correction -/

/-- unfolding of the additive correction once the transform has succeeded -/
theorem ukfCorrectAdditive_of_some {fac : α → Mat α n n → Mat α n n} {inv : Mat α m m → Mat α m m}
    {alpha beta kappa : α} {y : Vec α m} {predicted : FunEval α n m k} {R : Mat α m m}
    {innovation : (Fin k → Vec α m) → Vec α m → Option (Fin k → Vec α m)} {pred out : GM α n k}
    {o : UTOut α n m k}
    (h : utAdditiveMeasurementModel (nx := n) (nz := 0) fac (utWeights n alpha beta kappa) pred predicted R = some o) :
    ukfCorrectAdditive fac inv alpha beta kappa (some y) predicted R innovation pred out
      = ukfUpdate inv innovation y o o.cross pred out := by
  simp only [ukfCorrectAdditive, h]

/-- unfolding of the augmented correction once the transform has succeeded -/
theorem ukfCorrectAugmented_of_some {fac : α → Mat α (n + nz) (n + nz) → Mat α (n + nz) (n + nz)}
    {inv : Mat α m m → Mat α m m}
    {alpha beta kappa : α} {y : Vec α m} {predicted : FunEval α (n + nz) m k} {R : Mat α nz nz}
    {innovation : (Fin k → Vec α m) → Vec α m → Option (Fin k → Vec α m)} {pred out : GM α n k}
    {o : UTOut α n m k}
    (h : utMeasurementModel (nx := n) (nz := nz) fac (utWeights (n + nz) alpha beta kappa)
          (augmentWithNoise pred R) predicted = some o) :
    ukfCorrectAugmented fac inv alpha beta kappa (some y) predicted R innovation pred out
      = ukfUpdate inv innovation y o o.cross pred out := by
  simp only [ukfCorrectAugmented, h]

/-- Additive unscented correction = Kalman correction: mean, covariance, untouched weights, and
    the arguments `(ν_i, S_i)` of the likelihood `N(ν_i; 0, S_i)`. -/
theorem ukf_correct_eq_kf (fac : α → Mat α n n → Mat α n n) (inv : Mat α m m → Mat α m m)
    (alpha beta kappa : α) (hc : (n : α) + utLambda n alpha kappa ≠ 0)
    (H : Mat α m n) (R : Mat α m m) (y : Vec α m) (pred out : GM α n k)
    (hfac : ∀ i, FacOn fac (utWeights n alpha beta kappa).c (pred.cov i)) :
    let r := ukfCorrectAdditive fac inv alpha beta kappa (some y)
              (fun X => some (affineMap H Vec.zero X)) R linearInnovation pred out
    (∀ i, r.belief.mean i = (kfCorrect inv H R y pred out).mean i) ∧
    (∀ i, r.belief.cov i = (kfCorrect inv H R y pred out).cov i) ∧
    r.belief.weight = (kfCorrect inv H R y pred out).weight ∧
    r.lik = some (fun i => kfInnovation H y (pred.mean i), fun i => kfS H (pred.cov i) R) := by
  obtain ⟨o, ho, h⟩ := ut_additive_meas_affine fac alpha beta kappa hc pred hfac H Vec.zero R
  have hz : toV (Vec.zero : Vec α m) = 0 := by ext r; simp [Vec.zero]
  have := ukfUpdate_eq_kf inv H R y o o.cross pred out
    (fun i => by rw [(h i).1, hz, add_zero]) (fun i => (h i).2.1) (fun i => (h i).2.2)
  intro r
  have key : r = ukfUpdate inv linearInnovation y o o.cross pred out := ukfCorrectAdditive_of_some ho
  rw [key]
  exact this

/-- Augmented unscented correction through `x, v ↦ H x + D v` = Kalman correction with the
    effective measurement noise `D R Dᵀ`. -/
theorem ukf_correct_augmented_eq_kf (fac : α → Mat α (n + nz) (n + nz) → Mat α (n + nz) (n + nz))
    (inv : Mat α m m → Mat α m m)
    (alpha beta kappa : α) (hc : ((n + nz : ℕ) : α) + utLambda (n + nz) alpha kappa ≠ 0)
    (H : Mat α m n) (D : Mat α m nz) (R : Mat α nz nz) (y : Vec α m) (pred out : GM α n k)
    (hfac : ∀ i, FacOn fac (utWeights (n + nz) alpha beta kappa).c ((augmentWithNoise pred R).cov i)) :
    let Reff := (D.mul R).mul D.transpose
    let r := ukfCorrectAugmented fac inv alpha beta kappa (some y)
              (fun X => some (affineMap (hcat H D) Vec.zero X)) R linearInnovation pred out
    (∀ i, r.belief.mean i = (kfCorrect inv H Reff y pred out).mean i) ∧
    (∀ i, r.belief.cov i = (kfCorrect inv H Reff y pred out).cov i) ∧
    r.belief.weight = (kfCorrect inv H Reff y pred out).weight ∧
    r.lik = some (fun i => kfInnovation H y (pred.mean i), fun i => kfS H (pred.cov i) Reff) := by
  obtain ⟨o, ho, h⟩ := ut_meas_model_affine fac alpha beta kappa hc pred R hfac H D Vec.zero
  have hz : toV (Vec.zero : Vec α m) = 0 := by ext r; simp [Vec.zero]
  have := ukfUpdate_eq_kf inv H ((D.mul R).mul D.transpose) y o o.cross pred out
    (fun i => by rw [(h i).1, hz, add_zero])
    (fun i => by rw [(h i).2.1]; simp) (fun i => (h i).2.2)
  intro Reff r
  have key : r = ukfUpdate inv linearInnovation y o o.cross pred out := ukfCorrectAugmented_of_some ho
  rw [key]
  exact this

/-- Same innovation and same innovation covariance, hence the same likelihood
    `N(ν_i; 0, S_i)` for whatever density routine both classes call (additive variant). -/
theorem ukf_likelihood_eq_kf (fac : α → Mat α n n → Mat α n n) (inv : Mat α m m → Mat α m m)
    (alpha beta kappa : α) (hc : (n : α) + utLambda n alpha kappa ≠ 0)
    (H : Mat α m n) (R : Mat α m m) (y : Vec α m) (pred out : GM α n k)
    (hfac : ∀ i, FacOn fac (utWeights n alpha beta kappa).c (pred.cov i))
    {β : Type} (density : Vec α m → Mat α m m → β) :
    ((ukfCorrectAdditive fac inv alpha beta kappa (some y)
        (fun X => some (affineMap H Vec.zero X)) R linearInnovation pred out).lik.map
      (fun p => fun i => density (p.1 i) (p.2 i)))
      = some (fun i => density (kfInnovation H y (pred.mean i)) (kfS H (pred.cov i) R)) := by
  have := (ukf_correct_eq_kf fac inv alpha beta kappa hc H R y pred out hfac).2.2.2
  rw [this]; rfl

/-- Every failing model call (no measurement, failed prediction, failed innovation) leaves the
    corrected belief equal to the predicted one and reports no likelihood (fresh object). -/
theorem ukf_correct_invalid_keeps_belief (fac : α → Mat α n n → Mat α n n) (inv : Mat α m m → Mat α m m)
    (alpha beta kappa : α) (R : Mat α m m) (y : Vec α m) (pred out : GM α n k)
    (predicted : FunEval α n m k)
    (innovation : (Fin k → Vec α m) → Vec α m → Option (Fin k → Vec α m)) :
    (ukfCorrectAdditive fac inv alpha beta kappa none predicted R innovation pred out).belief = pred ∧
    (ukfCorrectAdditive fac inv alpha beta kappa (some y) (fun _ => none) R innovation pred out).belief = pred ∧
    (ukfCorrectAdditive fac inv alpha beta kappa (some y) predicted R (fun _ _ => none) pred out).belief = pred := by
  refine ⟨rfl, rfl, ?_⟩
  simp only [ukfCorrectAdditive]
  cases utAdditiveMeasurementModel (nx := n) (nz := 0) fac (utWeights n alpha beta kappa) pred predicted R with
  | none => rfl
  | some o => simp [ukfUpdate]

/-- Skipped steps (`GaussianCorrection::correct` / `GaussianPrediction::predict` with the skip flag set —
    a flag that an object handed over by move construction keeps): both filters return the belief they
    were given, hence coincide; an unskipped step is the step itself. -/
theorem ukf_skipped_steps_coincide (pred : GM α n k) (ustep kstep : UKFCorrOut α n m k) (up kp : GM α n k) :
    gaussianCorrect true pred ustep = gaussianCorrect true pred kstep ∧
    gaussianCorrect false pred ustep = ustep.belief ∧
    gaussianPredict true pred up = gaussianPredict true pred kp ∧
    gaussianPredict false pred up = up := by
  simp [gaussianCorrect, gaussianPredict]

/-- Non-vacuity: a concrete instance over ℚ of all hypotheses of the correction theorem
    (`n = m = 1`, `α = 1`, `β = 2`, `κ = 0`, `P = 4`, factor `2`). -/
example : ∃ (fac : ℚ → Mat ℚ 1 1 → Mat ℚ 1 1) (pred : GM ℚ 1 1),
    ((1 : ℕ) : ℚ) + utLambda 1 (1 : ℚ) 0 ≠ 0 ∧
    ∀ i, FacOn fac (utWeights 1 (1 : ℚ) 2 0).c (pred.cov i) := by
  refine ⟨fun _ _ => Mat.of (fun _ _ => 2),
    { mean := fun _ => Vec.of (fun _ => 1), cov := fun _ => Mat.of (fun _ _ => 4), weight := Vec.of (fun _ => 1) },
    by norm_num [utLambda], fun i => ?_⟩
  unfold FacOn
  ext a b
  simp [utWeights, utLambda, Matrix.mul_apply, toM]
  norm_num


/-! ## Histories: the unscented filter and the Kalman filter through the same linear-Gaussian history -/

set_option linter.unusedSectionVars false

/-- Guards of one step, read off the belief the Kalman filter holds before it: the unscented
    parameters are admissible for the dimension the step's transform works in (`n`, or `n + nz` in the
    augmented variants) and the square-root routine factorises the covariances it is applied to. -/
def LGStep.Guard (fac : (d : Nat) → α → Mat α d d → Mat α d d) (alpha beta kappa : α)
    (s : LGStep α n) (prev pred : GM α n k) : Prop :=
  (s.skipPred = false → s.skipState = false →
    match s.noise with
    | .additive _ => (n : α) + utLambda n alpha kappa ≠ 0 ∧ ∀ i, FacOn (fac n) (utWeights n alpha beta kappa).c (prev.cov i)
    | .augmented nz _ Q => ((n + nz : ℕ) : α) + utLambda (n + nz) alpha kappa ≠ 0 ∧
        ∀ i, FacOn (fac (n + nz)) (utWeights (n + nz) alpha beta kappa).c ((augmentWithNoise prev Q).cov i)) ∧
  (s.skipCorr = false → ∀ z, s.meas = some z →
    match z.noise with
    | .additive _ => (n : α) + utLambda n alpha kappa ≠ 0 ∧ ∀ i, FacOn (fac n) (utWeights n alpha beta kappa).c (pred.cov i)
    | .augmented nz _ R => ((n + nz : ℕ) : α) + utLambda (n + nz) alpha kappa ≠ 0 ∧
        ∀ i, FacOn (fac (n + nz)) (utWeights (n + nz) alpha beta kappa).c ((augmentWithNoise pred R).cov i))

/-- the guards along a whole history (on the Kalman trajectory) -/
def GuardAlong (fac : (d : Nat) → α → Mat α d d → Mat α d d) (inv : (m : Nat) → Mat α m m → Mat α m m)
    (alpha beta kappa : α) : KFFilter α n k → List (LGStep α n) → Prop
  | _, [] => True
  | st, s :: rest =>
    s.Guard fac alpha beta kappa st.corr (kfFilterStep inv st s.toKF).pred ∧
    GuardAlong fac inv alpha beta kappa (kfFilterStep inv st s.toKF) rest

/-- two beliefs with the same means and covariances (weights may differ) -/
def GM.SameStats (a b : GM α n k) : Prop := a.mean = b.mean ∧ a.cov = b.cov

theorem GM.SameStats.trans' {a b c : GM α n k} (h1 : a.SameStats b) (h2 : b.SameStats c) : a.SameStats c :=
  ⟨h1.1.trans h2.1, h1.2.trans h2.2⟩

theorem GM.SameStats.symm' {a b : GM α n k} (h : a.SameStats b) : b.SameStats a := ⟨h.1.symm, h.2.symm⟩

theorem augmentWithNoise_cov_congr {nz : ℕ} (a b : GM α n k) (Q : Mat α nz nz) (h : a.cov = b.cov) (i : Fin k) :
    (augmentWithNoise a Q).cov i = (augmentWithNoise b Q).cov i := by
  simp [augmentWithNoise, h]

theorem kfPredict_sameStats (F Q : Mat α n n) (e : Option (Vec α n → Vec α n)) (a b out out' : GM α n k)
    (h : a.SameStats b) : (kfPredict F Q e a out).SameStats (kfPredict F Q e b out') := by
  obtain ⟨hm, hc⟩ := h
  constructor <;> funext i <;> simp [kfPredict, hm, hc]

theorem kfCorrect_sameStats {m : ℕ} (inv : Mat α m m → Mat α m m) (H : Mat α m n) (R : Mat α m m) (y : Vec α m)
    (a b out out' : GM α n k) (h : a.SameStats b) :
    (kfCorrect inv H R y a out).SameStats (kfCorrect inv H R y b out') := by
  obtain ⟨hm, hc⟩ := h
  constructor <;> funext i <;> simp [kfCorrect, hm, hc]

theorem ukf_hist_predict (fac : (d : Nat) → α → Mat α d d → Mat α d d) (alpha beta kappa : α)
    (s : LGStep α n) (uprev kprev kout : GM α n k) (hs : uprev.SameStats kprev)
    (hg : s.skipPred = false → s.skipState = false →
      match s.noise with
      | .additive _ => (n : α) + utLambda n alpha kappa ≠ 0 ∧ ∀ i, FacOn (fac n) (utWeights n alpha beta kappa).c (kprev.cov i)
      | .augmented nz _ Q => ((n + nz : ℕ) : α) + utLambda (n + nz) alpha kappa ≠ 0 ∧
          ∀ i, FacOn (fac (n + nz)) (utWeights (n + nz) alpha beta kappa).c ((augmentWithNoise kprev Q).cov i)) :
    (gaussianPredict s.skipPred uprev (ukfHistPredictStep fac alpha beta kappa s uprev)).SameStats
      (kfGaussPredict s.toKF kprev kout) := by
  unfold gaussianPredict kfGaussPredict
  by_cases h1 : s.skipPred
  · simp only [h1, LGStep.toKF, if_true]; exact hs
  · by_cases h2 : s.skipState
    · simp only [h1, h2, LGStep.toKF, Bool.false_eq_true, if_false, if_true]
      unfold ukfHistPredictStep
      cases hn : s.noise <;> simp [ukfPredictAdditive, ukfPredictAugmented, h2] <;> exact hs
    · have h1' : s.skipPred = false := by simpa using h1
      have h2' : s.skipState = false := by simpa using h2
      have hg' := hg h1' h2'
      simp only [h1', h2', LGStep.toKF, Bool.false_eq_true, if_false]
      unfold ukfHistPredictStep KFHStep.effExo
      simp only [Bool.false_eq_true, if_false]
      refine (?_ : GM.SameStats _ (kfPredict s.F s.noise.eff (s.u.map fun u _ => u) uprev kout)).trans' (kfPredict_sameStats _ _ _ _ _ _ _ hs)
      cases hn : s.noise with
      | additive Q =>
        rw [hn] at hg'
        have hf : ∀ i, FacOn (fac n) (utWeights n alpha beta kappa).c (uprev.cov i) := by
          intro i; rw [hs.2]; exact hg'.2 i
        simp only [LGNoise.eff, h2']
        cases hu' : s.u with
        | none =>
          simp only [LGStep.offset, hu', Option.getD_none, Option.map_none]
          constructor <;> funext i
          · exact (ukf_predict_eq_kf_plain (fac n) alpha beta kappa hg'.1 s.F Q uprev kout hf i).1
          · exact (ukf_predict_eq_kf_plain (fac n) alpha beta kappa hg'.1 s.F Q uprev kout hf i).2
        | some u =>
          simp only [LGStep.offset, hu', Option.getD_some, Option.map_some]
          constructor <;> funext i
          · exact (ukf_predict_eq_kf (fac n) alpha beta kappa hg'.1 s.F Q u uprev kout hf i).1
          · exact (ukf_predict_eq_kf (fac n) alpha beta kappa hg'.1 s.F Q u uprev kout hf i).2
      | augmented nz G Q =>
        rw [hn] at hg'
        have hf : ∀ i, FacOn (fac (n + nz)) (utWeights (n + nz) alpha beta kappa).c ((augmentWithNoise uprev Q).cov i) := by
          intro i; rw [augmentWithNoise_cov_congr uprev kprev Q hs.2 i]; exact hg'.2 i
        simp only [LGNoise.eff, h2']
        cases hu' : s.u with
        | none =>
          simp only [LGStep.offset, hu', Option.getD_none, Option.map_none]
          have e : ∀ out : GM α n k, (kfPredict s.F ((G.mul Q).mul G.transpose) none uprev out).SameStats
              (kfPredict s.F ((G.mul Q).mul G.transpose) (some fun _ => Vec.zero) uprev out) := by
            intro out
            constructor <;> funext i
            · apply Vec.ext; intro r; simp [kfPredict, propagateMean, Vec.zero]
            · rfl
          refine GM.SameStats.trans' ?_ (e kout).symm'
          constructor <;> funext i
          · exact (ukf_predict_augmented_eq_kf (fac (n + nz)) alpha beta kappa hg'.1 s.F G Q Vec.zero uprev kout hf i).1
          · exact (ukf_predict_augmented_eq_kf (fac (n + nz)) alpha beta kappa hg'.1 s.F G Q Vec.zero uprev kout hf i).2
        | some u =>
          simp only [LGStep.offset, hu', Option.getD_some, Option.map_some]
          constructor <;> funext i
          · exact (ukf_predict_augmented_eq_kf (fac (n + nz)) alpha beta kappa hg'.1 s.F G Q u uprev kout hf i).1
          · exact (ukf_predict_augmented_eq_kf (fac (n + nz)) alpha beta kappa hg'.1 s.F G Q u uprev kout hf i).2

theorem ukf_hist_correct (fac : (d : Nat) → α → Mat α d d → Mat α d d) (inv : (m : Nat) → Mat α m m → Mat α m m)
    (alpha beta kappa : α) (s : LGStep α n) (upred uout kpred kout : GM α n k) (hs : upred.SameStats kpred)
    (hg : s.skipCorr = false → ∀ z, s.meas = some z →
      match z.noise with
      | .additive _ => (n : α) + utLambda n alpha kappa ≠ 0 ∧ ∀ i, FacOn (fac n) (utWeights n alpha beta kappa).c (kpred.cov i)
      | .augmented nz _ R => ((n + nz : ℕ) : α) + utLambda (n + nz) alpha kappa ≠ 0 ∧
          ∀ i, FacOn (fac (n + nz)) (utWeights (n + nz) alpha beta kappa).c ((augmentWithNoise kpred R).cov i)) :
    (if s.skipCorr then upred else ukfHistCorrectStep fac inv alpha beta kappa s upred uout).SameStats
      (kfGaussCorrect inv s.toKF kpred kout) := by
  unfold kfGaussCorrect
  by_cases h1 : s.skipCorr
  · simp only [h1, LGStep.toKF, if_true]; exact hs
  · have h1' : s.skipCorr = false := by simpa using h1
    simp only [h1', LGStep.toKF, Bool.false_eq_true, if_false]
    unfold ukfHistCorrectStep
    cases hz : s.meas with
    | none => simpa using hs
    | some z =>
      have hg' := hg h1' z hz
      simp only [Option.map_some, LGMeas.toKF]
      refine (?_ : GM.SameStats _ (kfCorrect (inv z.m) z.H z.noise.eff z.y upred uout)).trans' (kfCorrect_sameStats _ _ _ _ _ _ _ _ hs)
      cases hn : z.noise with
      | additive R =>
        rw [hn] at hg'
        have hf : ∀ i, FacOn (fac n) (utWeights n alpha beta kappa).c (upred.cov i) := by
          intro i; rw [hs.2]; exact hg'.2 i
        have := ukf_correct_eq_kf (fac n) (inv z.m) alpha beta kappa hg'.1 z.H R z.y upred uout hf
        simp only [LGNoise.eff]
        exact ⟨funext this.1, funext this.2.1⟩
      | augmented nz D R =>
        rw [hn] at hg'
        have hf : ∀ i, FacOn (fac (n + nz)) (utWeights (n + nz) alpha beta kappa).c ((augmentWithNoise upred R).cov i) := by
          intro i; rw [augmentWithNoise_cov_congr upred kpred R hs.2 i]; exact hg'.2 i
        have := ukf_correct_augmented_eq_kf (fac (n + nz)) (inv z.m) alpha beta kappa hg'.1 z.H D R z.y upred uout hf
        simp only [LGNoise.eff]
        exact ⟨funext this.1, funext this.2.1⟩

/-- **UKF = KF over whole histories.**  A `GaussianFilter` built from `UKFPrediction` +
    `UKFCorrection` and one built from `KFPrediction` + `KFCorrection`, started from beliefs with the
    same means and covariances and driven through the same linear-Gaussian history — any length, time-varying
    `F`, noises, exogenous inputs and measurement models of any dimension, every step in the additive or in
    the augmented variant (mixed freely), any skip flags, steps with and without measurement — hold, after
    every history, predicted and corrected beliefs with the same means and covariances, for every parameter
    triple and square-root routine meeting the guards along the (Kalman) trajectory and **every** inverse
    routine.  By induction over the history from the single-step theorems. -/
theorem ukf_history_eq_kf (fac : (d : Nat) → α → Mat α d d → Mat α d d) (inv : (m : Nat) → Mat α m m → Mat α m m)
    (alpha beta kappa : α) (steps : List (LGStep α n)) (ust : UKFFilter α n k) (kst : KFFilter α n k)
    (h0 : ust.corr.SameStats kst.corr) (hg : GuardAlong fac inv alpha beta kappa kst steps) :
    (ukfFilterRun fac inv alpha beta kappa ust steps).corr.SameStats (kfFilterRun inv kst (steps.map LGStep.toKF)).corr ∧
    (steps ≠ [] →
      (ukfFilterRun fac inv alpha beta kappa ust steps).pred.SameStats (kfFilterRun inv kst (steps.map LGStep.toKF)).pred) := by
  induction steps generalizing ust kst with
  | nil => exact ⟨h0, fun h => absurd rfl h⟩
  | cons s rest ih =>
    obtain ⟨g1, g2⟩ := hg
    have hp : (ukfFilterStep fac inv alpha beta kappa ust s).pred.SameStats (kfFilterStep inv kst s.toKF).pred :=
      ukf_hist_predict fac alpha beta kappa s ust.corr kst.corr kst.pred h0 g1.1
    have hc : (ukfFilterStep fac inv alpha beta kappa ust s).corr.SameStats (kfFilterStep inv kst s.toKF).corr :=
      ukf_hist_correct fac inv alpha beta kappa s _ ust.corr _ kst.corr hp g1.2
    obtain ⟨i1, i2⟩ := ih (ukfFilterStep fac inv alpha beta kappa ust s) (kfFilterStep inv kst s.toKF) hc g2
    simp only [ukfFilterRun, kfFilterRun, List.map_cons, List.foldl_cons] at i1 i2 ⊢
    refine ⟨i1, fun _ => ?_⟩
    cases rest with
    | nil => simpa using hp
    | cons a l => exact i2 (by simp)

/-- The likelihood both filters report after a history that ends with a completed correction is the
    same: it is computed from the innovations and innovation covariances of the last step, which coincide
    (`ukf_correct_eq_kf` / `ukf_correct_augmented_eq_kf`, last component) because the predicted beliefs do. -/
theorem ukf_history_likelihood_args (fac : (d : Nat) → α → Mat α d d → Mat α d d) (inv : (m : Nat) → Mat α m m → Mat α m m)
    (alpha beta kappa : α) (steps : List (LGStep α n)) (s : LGStep α n) (ust : UKFFilter α n k) (kst : KFFilter α n k)
    (h0 : ust.corr.SameStats kst.corr) (hg : GuardAlong fac inv alpha beta kappa kst (steps ++ [s]))
    (z : LGMeas α n) (_hz : s.meas = some z) (i : Fin k) :
    kfInnovation z.H z.y ((ukfFilterRun fac inv alpha beta kappa ust (steps ++ [s])).pred.mean i)
      = kfInnovation z.H z.y ((kfFilterRun inv kst ((steps ++ [s]).map LGStep.toKF)).pred.mean i) ∧
    kfS z.H ((ukfFilterRun fac inv alpha beta kappa ust (steps ++ [s])).pred.cov i) z.noise.eff
      = kfS z.H ((kfFilterRun inv kst ((steps ++ [s]).map LGStep.toKF)).pred.cov i) z.noise.eff := by
  have h := (ukf_history_eq_kf fac inv alpha beta kappa (steps ++ [s]) ust kst h0 hg).2 (by simp)
  rw [h.1, h.2]; exact ⟨rfl, rfl⟩

/-- Non-vacuity of the history theorem: a one-step additive history over ℚ (`n = m = 1`, `α = 1`, `β = 2`,
    `κ = 0`, `F = H = 1`, `Q = 3`, `R = 1`, `P₀ = 1`, hence `P⁻ = 4`; the factor routine returns the exact
    square roots `1`, `2` of the two covariances it meets) satisfies all guards. -/
example : ∃ (fac : (d : Nat) → ℚ → Mat ℚ d d → Mat ℚ d d) (inv : (m : Nat) → Mat ℚ m m → Mat ℚ m m)
    (kst : KFFilter ℚ 1 1) (s : LGStep ℚ 1),
    s.skipPred = false ∧ s.skipCorr = false ∧ s.meas.isSome ∧ GuardAlong fac inv 1 2 0 kst [s] := by
  let one11 : Mat ℚ 1 1 := Mat.of (fun _ _ => 1)
  let g1 : GM ℚ 1 1 := { mean := fun _ => Vec.of (fun _ => 1), cov := fun _ => one11, weight := Vec.of (fun _ => 1) }
  refine ⟨fun d _ P => Mat.of (fun i j => if P i j = 4 then 2 else 1), fun _ S => S,
    { pred := g1, corr := g1, last := none },
    { F := one11, u := none, noise := .additive (Mat.of (fun _ _ => 3)), skipPred := false, skipState := false,
      meas := some { m := 1, H := one11, y := Vec.of (fun _ => 2), noise := .additive one11 }, skipCorr := false },
    rfl, rfl, rfl, ?_⟩
  refine ⟨⟨fun _ _ => ⟨by norm_num [utLambda], fun i => ?_⟩, fun _ z hz => ?_⟩, trivial⟩
  · unfold FacOn
    ext a b
    simp [utWeights, utLambda, Matrix.mul_apply, toM, g1, one11]
  · cases hz
    refine ⟨by norm_num [utLambda], fun i => ?_⟩
    unfold FacOn
    ext a b
    simp [utWeights, utLambda, Matrix.mul_apply, toM, g1, one11, kfFilterStep, kfGaussPredict, LGStep.toKF, kfPredict,
      kfPredictCov, LGNoise.eff, Mat.mul_apply, fsum, Fin.foldl_succ, Fin.foldl_zero]
    norm_num

end BFL
