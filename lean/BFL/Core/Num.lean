/-
Exact number I/O for the line protocol.  Doubles travel as 16 hex digits (IEEE-754
bit pattern).  Every finite double is a dyadic rational, so `ratOfBits` is exact.
-/
namespace BFL

def hexDigit? (c : Char) : Option Nat :=
  if '0' ≤ c ∧ c ≤ '9' then some (c.toNat - '0'.toNat)
  else if 'a' ≤ c ∧ c ≤ 'f' then some (c.toNat - 'a'.toNat + 10)
  else if 'A' ≤ c ∧ c ≤ 'F' then some (c.toNat - 'A'.toNat + 10)
  else none

def parseHexNat? (s : String) : Option Nat :=
  if s.isEmpty then none else
  s.toList.foldl (fun acc ch => do
    let a ← acc
    let d ← hexDigit? ch
    pure (a * 16 + d)) (some 0)

/-- Exact value of the finite double with bit pattern `b`; `none` for inf/nan. -/
def ratOfBits (b : Nat) : Option Rat :=
  let sign := b / 2^63 % 2
  let ex := b / 2^52 % 2048
  let man := b % 2^52
  if ex = 2047 then none else
  let sig : Nat := man + 2^52
  let mag : Rat :=
    if ex = 0 then mkRat (Int.ofNat man) (2^1074)
    else if ex ≥ 1075 then ((Int.ofNat (sig * 2^(ex - 1075)) : Int) : Rat)
    else mkRat (Int.ofNat sig) (2^(1075 - ex))
  some (if sign = 1 then -mag else mag)

def parseRatHex? (s : String) : Option Rat := do
  let b ← parseHexNat? s
  ratOfBits b

def parseFloatHex? (s : String) : Option Float := do
  let b ← parseHexNat? s
  pure (Float.ofBits (UInt64.ofNat b))

def ratStr (q : Rat) : String := s!"{q.num}/{q.den}"

def hexChar (d : Nat) : Char :=
  if d < 10 then Char.ofNat ('0'.toNat + d) else Char.ofNat ('a'.toNat + d - 10)

def hex16 (n : Nat) : String :=
  String.ofList ((List.range 16).reverse.map fun k => hexChar (n / 16^k % 16))

def floatStr (x : Float) : String := hex16 x.toBits.toNat

/-- Nearest-double conversion of a rational through `Float` division of scaled integers.
    Only used for reporting; comparisons are made by the orchestrator on exact strings. -/
def ratToFloatApprox (q : Rat) : Float :=
  Float.ofInt q.num / Float.ofNat q.den

end BFL
