import BFL.Core.Mat
/-
Exact matrix inverse and determinant by Gauss–Jordan elimination over any field with
decidable equality (executed over `Rat`).  Execution only: no theorem refers to this
algorithm.  The theorems take `inv` as a parameter constrained by `S * inv S = 1`
(resp. `inv S * S = 1`), and the driver *certifies that equation exactly on every call*
(`certInv`), printing `inv-cert-fail` otherwise.
-/
namespace BFL

variable {α : Type} [Add α] [Sub α] [Mul α] [Div α] [Zero α] [One α] [Neg α] [DecidableEq α] [Inhabited α]

/-- Returns the inverse and the determinant, or `none` if a zero pivot column is met. -/
def gaussJordan (n : Nat) (A : Mat α n n) : Option (Mat α n n × α) := Id.run do
  let mut M : Array (Array α) := Array.ofFn fun i : Fin n =>
    Array.ofFn (fun j : Fin (2*n) =>
      if h : j.val < n then A i ⟨j.val, h⟩ else (if j.val - n = i.val then (1:α) else 0))
  let mut det : α := 1
  for col in [0:n] do
    -- find pivot
    let mut piv : Option Nat := none
    for r in [col:n] do
      if piv.isNone && (M[r]!)[col]! ≠ 0 then piv := some r
    match piv with
    | none => return none
    | some p =>
      if p ≠ col then
        let rp := M[p]!
        let rc := M[col]!
        M := (M.set! p rc).set! col rp
        det := - det
      let pv := (M[col]!)[col]!
      det := det * pv
      let prow := (M[col]!).map (fun x => x / pv)
      M := M.set! col prow
      for r in [0:n] do
        if r ≠ col then
          let f := (M[r]!)[col]!
          if f ≠ 0 then
            let rr := M[r]!
            let newr := Array.ofFn (fun j : Fin (2*n) => rr[j.val]! - f * prow[j.val]!)
            M := M.set! r newr
  let R := M
  return some (Mat.of (fun i j => (R[i.val]!)[n + j.val]!), det)

def matInv? (n : Nat) (A : Mat α n n) : Option (Mat α n n) := (gaussJordan n A).map (·.1)
def matDet (n : Nat) (A : Mat α n n) : α :=
  match gaussJordan n A with
  | some (_, d) => d
  | none => 0

/-- Exact certificate `A * X = 1 ∧ X * A = 1`. -/
def certInv (n : Nat) (A X : Mat α n n) : Bool :=
  (List.finRange n).all fun i => (List.finRange n).all fun j =>
    (Mat.mul A X i j == (if i = j then (1:α) else 0)) && (Mat.mul X A i j == (if i = j then (1:α) else 0))

end BFL
