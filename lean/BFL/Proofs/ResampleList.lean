import BFL.Proofs.Resample
import Mathlib.Algebra.BigOperators.Fin
import Mathlib.Algebra.Order.Chebyshev
/-
Helper lemmas for C07, part 4: from the list-based executable model (`csw`, `resampleIdx`,
`neff`) to the pointer theory of `BFL/Proofs/Resample.lean`.
-/
namespace BFL.PF
set_option linter.unusedSectionVars false

section lists
variable {α : Type} [Field α] [LinearOrder α] [IsStrictOrderedRing α]

/-- cumulative weight up to and including particle `i`:  `w₀ + … + wᵢ` -/
def cum (ws : List α) (i : Nat) : α := (ws.take (i + 1)).sum

/-- cumulative weight before particle `i`:  `w₀ + … + w_{i-1}` -/
def cumBefore (ws : List α) (i : Nat) : α := (ws.take i).sum

theorem cumFrom_getElem? (acc : α) (xs : List α) (i : Nat) (h : i < xs.length) :
    (cumFrom acc xs)[i]? = some (acc + (xs.take (i + 1)).sum) := by
  induction xs generalizing acc i with
  | nil => simp at h
  | cons x xs ih =>
    cases i with
    | zero => simp [cumFrom]
    | succ i =>
      simp only [cumFrom, List.getElem?_cons_succ, List.take_succ_cons, List.sum_cons]
      rw [ih (acc + x) i (by simpa using h), add_assoc]

theorem csw_getElem? (ws : List α) (i : Nat) (h : i < ws.length) :
    (csw ws)[i]? = some (cum ws i) := by
  cases ws with
  | nil => simp at h
  | cons x xs =>
    cases i with
    | zero => simp [csw, cum]
    | succ i =>
      simp only [csw, List.getElem?_cons_succ, cum, List.take_succ_cons, List.sum_cons]
      exact cumFrom_getElem? x xs i (by simpa using h)

theorem csw_getD [Inhabited α] (ws : List α) (i : Nat) (h : i < ws.length) :
    (csw ws).toArray.getD i default = cum ws i := by
  simp [csw_getElem? ws i h]

/-- the executable selection is the pointer sequence over the exact cumulative sums -/
theorem resampleIdx_eq [Inhabited α] (ws : List α) (u1 : α) :
    resampleIdx ws u1 = (List.range ws.length).map (ptr (cum ws) ws.length u1) := by
  unfold resampleIdx
  simp only
  rw [select_eq]
  apply List.map_congr_left
  intro j _
  exact ptr_congr _ _ _ _ (fun i hi => csw_getD ws i (by omega)) j

theorem resampleIdx_length [Inhabited α] (ws : List α) (u1 : α) : (resampleIdx ws u1).length = ws.length := by
  simp [resampleIdx_eq]

theorem resampleIdx_getElem [Inhabited α] (ws : List α) (u1 : α) (j : Nat) (h : j < (resampleIdx ws u1).length) :
    (resampleIdx ws u1)[j] = ptr (cum ws) ws.length u1 j := by
  simp [resampleIdx_eq]

theorem cum_eq (ws : List α) (i : Nat) (h : i < ws.length) : cum ws i = cumBefore ws i + ws[i] :=
  List.sum_take_succ ws i h

theorem cumBefore_succ (ws : List α) (i : Nat) : cumBefore ws (i + 1) = cum ws i := rfl

theorem cumBefore_zero (ws : List α) : cumBefore ws 0 = 0 := by simp [cumBefore]

theorem cumBefore_mono (ws : List α) (hw : ∀ x ∈ ws, 0 ≤ x) {a b : Nat} (h : a ≤ b) :
    cumBefore ws a ≤ cumBefore ws b :=
  List.Sublist.sum_le_sum (List.take_sublist_take_left h)
    (fun x hx => hw x (List.mem_of_mem_take hx))

theorem cumBefore_nonneg (ws : List α) (hw : ∀ x ∈ ws, 0 ≤ x) (a : Nat) : 0 ≤ cumBefore ws a :=
  List.sum_nonneg (fun x hx => hw x (List.mem_of_mem_take hx))

theorem cumBefore_le_sum (ws : List α) (hw : ∀ x ∈ ws, 0 ≤ x) (a : Nat) : cumBefore ws a ≤ ws.sum :=
  List.Sublist.sum_le_sum (List.take_sublist a ws) hw

theorem cum_last (ws : List α) (h : 0 < ws.length) : cum ws (ws.length - 1) = ws.sum := by
  unfold cum
  rw [show ws.length - 1 + 1 = ws.length by omega, List.take_length]

/-- parent `j` is `i`  iff  the comb point `u_j` lies in `(w₀+…+w_{i-1}, w₀+…+wᵢ]` -/
theorem parent_eq_iff (ws : List α) (u1 : α) (hw : ∀ x ∈ ws, 0 ≤ x) (hs : ws.sum = 1)
    (hu0 : 0 < u1) (hu1 : u1 < 1 / (ws.length : α)) (j i : Nat) (hj : j < ws.length) (hi : i < ws.length) :
    ptr (cum ws) ws.length u1 j = i ↔
      cumBefore ws i < comb ws.length u1 j ∧ comb ws.length u1 j ≤ cum ws i := by
  apply ptr_eq_iff (cum ws) ws.length u1 j i (cumBefore ws i)
  · intro a b hab _
    exact cumBefore_mono ws hw (Nat.succ_le_succ hab)
  · rw [cum_last ws (by omega), hs]
    exact (comb_lt_one _ u1 j hj hu1).le
  · omega
  · rintro rfl
    rw [cumBefore_zero]
    exact lt_of_lt_of_le hu0 (comb_ge _ u1 j)
  · rintro i' rfl
    rfl

variable [FloorRing α]

theorem count_eq_cnt [Inhabited α] (ws : List α) (u1 : α) (hw : ∀ x ∈ ws, 0 ≤ x) (hs : ws.sum = 1)
    (hu0 : 0 < u1) (hu1 : u1 < 1 / (ws.length : α)) (i : Nat) (hi : i < ws.length) :
    (resampleIdx ws u1).count i = cnt ws.length u1 (cumBefore ws i) (cum ws i) := by
  rw [resampleIdx_eq, List.count_eq_countP, List.countP_map]
  have h1 : (List.range ws.length).countP ((fun x => x == i) ∘ ptr (cum ws) ws.length u1)
      = (List.range ws.length).countP (fun j => decide (ptr (cum ws) ws.length u1 j = i)) := by
    apply List.countP_congr
    intro j _
    simp
  rw [h1, countP_range_eq_card]
  unfold cnt
  congr 1
  apply Finset.filter_congr
  intro j hj
  exact parent_eq_iff ws u1 hw hs hu0 hu1 j i (Finset.mem_range.1 hj) hi

/-- `|#{j | parent j = i} − N wᵢ| < 1` -/
theorem count_bound [Inhabited α] (ws : List α) (u1 : α) (hw : ∀ x ∈ ws, 0 ≤ x) (hs : ws.sum = 1)
    (hu0 : 0 < u1) (hu1 : u1 < 1 / (ws.length : α)) (i : Nat) (hi : i < ws.length) :
    |((resampleIdx ws u1).count i : α) - (ws.length : α) * ws[i]| < 1 := by
  rw [count_eq_cnt ws u1 hw hs hu0 hu1 i hi]
  have hb := cnt_bound ws.length (by omega) u1 (cumBefore ws i) (cum ws i) hu0 hu1
    (cumBefore_nonneg ws hw i) (cumBefore_mono ws hw (Nat.le_succ i))
    (by rw [← cumBefore_succ, ← hs]; exact cumBefore_le_sum ws hw _)
  have e : cum ws i - cumBefore ws i = ws[i] := by rw [cum_eq ws i hi]; ring
  rwa [e] at hb

end lists

/-! ### effective sample size -/
section neff
variable {α : Type} [Field α] [LinearOrder α] [IsStrictOrderedRing α]

theorem sumsq_le_one (ws : List α) (hw : ∀ x ∈ ws, 0 ≤ x) (hs : ws.sum = 1) :
    (ws.map (fun x => x * x)).sum ≤ 1 := by
  have h : (ws.map (fun x => x * x)).sum ≤ (ws.map (fun x => x)).sum := by
    apply List.sum_le_sum
    intro x hx
    have h0 := hw x hx
    have h1 : x ≤ 1 := by rw [← hs]; exact List.single_le_sum hw x hx
    nlinarith
  simpa [hs] using h

theorem one_le_card_mul_sumsq (ws : List α) (hs : ws.sum = 1) :
    1 ≤ (ws.length : α) * (ws.map (fun x => x * x)).sum := by
  have h := sq_sum_le_card_mul_sum_sq (s := (Finset.univ : Finset (Fin ws.length))) (f := fun i => ws[i.1])
  rw [Fin.sum_univ_getElem, hs] at h
  have h2 : ∑ i : Fin ws.length, ws[i.1] ^ 2 = (ws.map (fun x => x * x)).sum := by
    rw [← Fin.sum_univ_fun_getElem ws (fun x => x * x)]
    apply Finset.sum_congr rfl
    intro i _
    ring
  rw [h2] at h
  simpa using h

/-- `1 ≤ neff ≤ N`, with the division defined (`0 < Σ wᵢ²`) -/
theorem neff_bounds' (ws : List α) (hw : ∀ x ∈ ws, 0 ≤ x) (hs : ws.sum = 1) :
    0 < (ws.map (fun x => x * x)).sum ∧ 1 ≤ neff ws ∧ neff ws ≤ (ws.length : α) := by
  have h1 := sumsq_le_one ws hw hs
  have h2 := one_le_card_mul_sumsq ws hs
  have hN : (0 : α) ≤ (ws.length : α) := Nat.cast_nonneg _
  have hpos : 0 < (ws.map (fun x => x * x)).sum := by
    by_contra hcon
    have : (ws.length : α) * (ws.map (fun x => x * x)).sum ≤ 0 :=
      mul_nonpos_of_nonneg_of_nonpos hN (not_lt.1 hcon)
    linarith
  refine ⟨hpos, ?_, ?_⟩
  · unfold neff
    rw [le_div_iff₀ hpos]; linarith
  · unfold neff
    rw [div_le_iff₀ hpos]; linarith

end neff

end BFL.PF
