import BFL.Proofs.ResamplePrior
import Mathlib.Data.List.Sort
/-
C07, prior-mixing variant: the result does not depend on how `std::sort` (unstable) orders equal weights.

Two admissible sorts (`SortPerm ∧ SortAsc`) yield the same list of kept weights — an ascending list is
determined by its multiset — hence the same normalised temporary weights, the same parents and the same
replication count for every sorted position; the particles can differ only between positions of equal weight.
-/
namespace BFL.PF
set_option linter.unusedSectionVars false

variable {π : Type} [Inhabited π]

/-- the weights read along the order a sort returns -/
noncomputable def sortedW (sortIdx : List ℝ → List Nat) (w : List ℝ) : List ℝ :=
  (sortIdx (w.map Real.exp)).map (fun i => w.toArray.getD i default)

theorem map_getD_range (w : List ℝ) : (List.range w.length).map (fun i => w.toArray.getD i default) = w := by
  apply List.ext_getElem (by simp)
  intro n h1 h2
  simp at h1
  simp [h1]

theorem sortedW_perm (sortIdx : List ℝ → List Nat) (hp : SortPerm sortIdx) (w : List ℝ) :
    (sortedW sortIdx w).Perm w := by
  have h := (hp (w.map Real.exp)).map (fun i => w.toArray.getD i default)
  rw [List.length_map, map_getD_range] at h
  exact h

theorem sortedW_pairwise (sortIdx : List ℝ → List Nat) (hp : SortPerm sortIdx) (ha : SortAsc sortIdx) (w : List ℝ) :
    (sortedW sortIdx w).Pairwise (· ≤ ·) := by
  rw [List.pairwise_iff_getElem]
  intro a b hA hB hab
  have hlen : (sortIdx (w.map Real.exp)).length = w.length := by rw [hp.len]; simp
  simp only [sortedW, List.length_map] at hA hB
  have hmem : ∀ c (hc : c < (sortIdx (w.map Real.exp)).length), (sortIdx (w.map Real.exp))[c] < w.length := by
    intro c hc
    have := (hp _).mem_iff.1 (List.getElem_mem hc)
    simpa using this
  have h := ha (w.map Real.exp) a b hab.le hB
  have ia := hmem a hA
  have ib := hmem b hB
  simp only [sortedW, List.getElem_map]
  have eA : (sortIdx (w.map Real.exp)).getD a 0 = (sortIdx (w.map Real.exp))[a] := by
    simp [List.getD_eq_getElem?_getD, hA]
  have eB : (sortIdx (w.map Real.exp)).getD b 0 = (sortIdx (w.map Real.exp))[b] := by
    simp [List.getD_eq_getElem?_getD, hB]
  have ev : ∀ i (hi : i < w.length), (w.map Real.exp).getD i 0 = Real.exp w[i] := by
    intro i hi; simp [List.getD_eq_getElem?_getD, hi]
  rw [eA, eB, ev _ ia, ev _ ib] at h
  have h' := Real.exp_le_exp.1 h
  simpa [ia, ib] using h'

/-- an ascending arrangement of the weights is unique: every admissible sort reads the same weight list -/
theorem sortedW_unique (s1 s2 : List ℝ → List Nat) (hp1 : SortPerm s1) (ha1 : SortAsc s1)
    (hp2 : SortPerm s2) (ha2 : SortAsc s2) (w : List ℝ) : sortedW s1 w = sortedW s2 w :=
  List.Perm.eq_of_pairwise' (sortedW_pairwise s1 hp1 ha1 w) (sortedW_pairwise s2 hp2 ha2 w)
    ((sortedW_perm s1 hp1 w).trans (sortedW_perm s2 hp2 w).symm)

theorem priorTmp_logw_eq (sortIdx : List ℝ → List Nat) (cor : PSet π ℝ) (k : Nat) :
    (priorTmp sortIdx cor k).logw = normalizeLog ((sortedW sortIdx cor.logw).drop k) := by
  have e : (Transc.exp : ℝ → ℝ) = Real.exp := rfl
  simp only [priorTmp, sortedW, e, List.map_drop]

/-- the normalised weights of the temporary set are the same for every admissible sort -/
theorem priorTmp_logw_sort_indep (s1 s2 : List ℝ → List Nat) (hp1 : SortPerm s1) (ha1 : SortAsc s1)
    (hp2 : SortPerm s2) (ha2 : SortAsc s2) (cor : PSet π ℝ) (k : Nat) :
    (priorTmp s1 cor k).logw = (priorTmp s2 cor k).logw := by
  rw [priorTmp_logw_eq, priorTmp_logw_eq, sortedW_unique s1 s2 hp1 ha1 hp2 ha2]

/-- … hence so are the parents the variant reports and its output weights -/
theorem rwp_sort_indep (fl : ℝ → Nat) (s1 s2 : List ℝ → List Nat) (hp1 : SortPerm s1) (ha1 : SortAsc s1)
    (hp2 : SortPerm s2) (ha2 : SortAsc s2) (init : PSet π ℝ → PSet π ℝ) (ratio : ℝ) (cor : PSet π ℝ) (u1 : ℝ)
    (hi : InitKeepsShape init) (hc : cor.logw.length = cor.parts.length) (hk : numPrior fl ratio cor ≤ cor.parts.length) :
    (resampleWithPrior fl s1 init ratio cor u1).2 = (resampleWithPrior fl s2 init ratio cor u1).2 ∧
    (resampleWithPrior fl s1 init ratio cor u1).1.logw = (resampleWithPrior fl s2 init ratio cor u1).1.logw := by
  constructor
  · rw [rwp_parents, rwp_parents, resample_parents, resample_parents,
      priorTmp_logw_sort_indep s1 s2 hp1 ha1 hp2 ha2]
  · rw [(rwp_shape fl s1 init ratio cor u1 hp1.len hi hc hk).2.2.2.2.2,
      (rwp_shape fl s2 init ratio cor u1 hp2.len hi hc hk).2.2.2.2.2]

/-- the particle an output copies may depend on the sort only among particles of equal weight: the weight of
    the particle at sorted position `p` is the same for every admissible sort -/
theorem sorted_position_weight_indep (s1 s2 : List ℝ → List Nat) (hp1 : SortPerm s1) (ha1 : SortAsc s1)
    (hp2 : SortPerm s2) (ha2 : SortAsc s2) (w : List ℝ) (p : Nat) :
    ((s1 (w.map Real.exp))[p]?.map fun i => w.toArray.getD i default) =
    ((s2 (w.map Real.exp))[p]?.map fun i => w.toArray.getD i default) := by
  have h := congrArg (fun l : List ℝ => l[p]?) (sortedW_unique s1 s2 hp1 ha1 hp2 ha2 w)
  simpa [sortedW, List.getElem?_map] using h

/-! #### refinement: "sort the weights, drop the `k` lowest, normalise, resample, prepend `k` fresh draws" -/

/-- specification of the parent vector of the prior variant, written on weight *values* only (no indices, no
    particles, no tie-breaking): sort the log-weights, drop the `k` lowest, normalise, select systematically,
    offset by `k`, prepend `k` times `-1` -/
noncomputable def rwpSpecParents (fl : ℝ → Nat) (ratio : ℝ) (w : List ℝ) (u1 : ℝ) : List Int :=
  let k := fl ((w.length : ℝ) * ratio)
  let kept := (w.mergeSort (fun a b => decide (a ≤ b))).drop k
  List.replicate k (-1) ++
    (resampleIdx ((normalizeLog kept).map Real.exp) u1).map (fun (p : Nat) => (p : Int) + (k : Int))

theorem sortedW_eq_mergeSort (sortIdx : List ℝ → List Nat) (hp : SortPerm sortIdx) (ha : SortAsc sortIdx) (w : List ℝ) :
    sortedW sortIdx w = w.mergeSort (fun a b => decide (a ≤ b)) := by
  apply List.Perm.eq_of_pairwise' (r := (· ≤ ·)) (sortedW_pairwise sortIdx hp ha w)
  · have := List.pairwise_mergeSort (le := fun (a b : ℝ) => decide (a ≤ b))
      (fun x y z h1 h2 => by simp only [decide_eq_true_eq] at h1 h2 ⊢; exact le_trans h1 h2)
      (fun x y => by simp only [Bool.or_eq_true, decide_eq_true_eq]; exact le_total _ _) w
    exact this.imp (fun h => by simpa using h)
  · exact (sortedW_perm sortIdx hp w).trans (List.mergeSort_perm _ _).symm

/-- the model of `ResamplingWithPrior::resample` refines the specification, for every admissible sort -/
theorem rwp_refines_spec (fl : ℝ → Nat) (sortIdx : List ℝ → List Nat) (hp : SortPerm sortIdx) (ha : SortAsc sortIdx)
    (init : PSet π ℝ → PSet π ℝ) (ratio : ℝ) (cor : PSet π ℝ) (u1 : ℝ) (hc : cor.logw.length = cor.parts.length) :
    (resampleWithPrior fl sortIdx init ratio cor u1).2 = rwpSpecParents fl ratio cor.logw u1 := by
  have hk : numPrior fl ratio cor = fl ((cor.logw.length : ℝ) * ratio) := by simp [numPrior, hc]
  rw [rwp_parents, resample_parents, priorTmp_logw_eq, sortedW_eq_mergeSort sortIdx hp ha, hk]
  simp only [rwpSpecParents, List.map_map]
  rfl

/-! #### the contracts are satisfiable: a (stable) merge sort of the indices by weight is admissible -/

/-- `sort_indices` as a merge sort of `0 … N-1` by ascending value -/
noncomputable def mergeSortIdx (v : List ℝ) : List Nat :=
  (List.range v.length).mergeSort (fun a b => decide (v.getD a 0 ≤ v.getD b 0))

theorem mergeSortIdx_perm : SortPerm mergeSortIdx := fun _ => List.mergeSort_perm _ _

theorem mergeSortIdx_asc : SortAsc mergeSortIdx := by
  intro v a b hab hb
  have hpw : (mergeSortIdx v).Pairwise (fun x y => decide (v.getD x 0 ≤ v.getD y 0) = true) :=
    List.pairwise_mergeSort (le := fun a b => decide (v.getD a 0 ≤ v.getD b 0))
      (fun x y z h1 h2 => by
        simp only [decide_eq_true_eq] at h1 h2 ⊢; exact le_trans h1 h2)
      (fun x y => by
        simp only [Bool.or_eq_true, decide_eq_true_eq]; exact le_total _ _) _
  rcases Nat.lt_or_ge a b with hlt | hge
  · have ha : a < (mergeSortIdx v).length := by omega
    have := (List.pairwise_iff_getElem.1 hpw) a b ha hb hlt
    simp only [decide_eq_true_eq] at this
    simpa [List.getD_eq_getElem?_getD, ha, hb] using this
  · have : a = b := by omega
    subst this; exact le_refl _

end BFL.PF
