#!/usr/bin/env python3
"""Regenerates MANIFEST.json from the table below and validates it against the schema."""
import json, os, sys
V = os.path.dirname(os.path.dirname(os.path.abspath(__file__)))

TB = ("Trusted: Lean 4.33 kernel + Mathlib v4.33; axioms propext/Classical.choice/Quot.sound only (audited per theorem on every run, no sorry/"
      "native_decide/bv_decide); the statements in lean/BFL/Props (fingerprinted in statements.lock); the correspondence harness, generators and "
      "tolerances (differential testing: exhaustive where stated, sampled elsewhere); g++/Eigen/libstdc++/libm/sanitizers; Lean compiler executing the model. ")

CHECKS = {
 "C01": dict(
   text="Machine-checked theorems about the executable model kfCorrect (information-form covariance and mean with all inverses defined, symmetry, PSD via Joseph form, P - P+ PSD, component independence) for all n, m, k, PD P_i, PD R, any H, y; tied to KFCorrection by running model (exact rationals) and implementation on the same generated inputs and comparing within a conditioning-scaled tolerance, plus the property's own predicates (posterior in information form computed independently, symmetry, exact-LDL PSD tests, prior unmodified, likelihood = N(y;Hm,S)) evaluated on the implementation's output.",
   note=TB + "Modelled not verified: floating point (real/rational semantics); Eigen's inverse (contract InvOn certified exactly per call in the rational run); likelihood density compared numerically.",
   technique="Lean 4 theorems over Mathlib Matrix (Woodbury, Joseph form) + exact-rational model/implementation correspondence", ref="8/C01"),
 "C02": dict(
   text="Machine-checked theorems about the executable model kfPredict (mean F m (+u), covariance F P F^T + Q, symmetry, PSD for PSD P,Q incl. singular, component independence, additivity of the exogenous contribution) for all dimensions and component counts; tied to KFPrediction/LinearStateModel::propagate by exact-rational correspondence on generated inputs with and without an exogenous model, and by the property's predicates on the implementation output.",
   note=TB + "Modelled not verified: floating point. Skip-flag combinations belong to C13.",
   technique="Lean 4 theorems over Mathlib Matrix + exact-rational model/implementation correspondence", ref="8/C02"),
}

PENDING_REASON = "no check registered yet in this revision: model/theorems/harness for this property are still being built (DESIGN.md section 8); nothing is claimed for it"

def main():
    props = [json.loads(l)["id"] for l in open(os.path.join(V, "properties.jsonl"))]
    checks = []
    for pid in props:
        if pid not in CHECKS:
            continue
        c = CHECKS[pid]
        checks.append({
            "property_id": pid,
            "quick_cmd": "python3 check.py %s --tier quick" % pid,
            "thorough_cmd": "python3 check.py %s --tier thorough" % pid,
            "evidence_file": "/verif/evidence/%s.json" % pid,
            "replay_cmd_template": "python3 check.py %s --replay {path}" % pid,
            "engine": "lean4-proof+correspondence",
            "level_claimed": {"category": c.get("category", "proof"), "text": c["text"], "design_ref": "DESIGN.md section " + c["ref"]},
            "level_note": c["note"],
            "technique": c["technique"],
        })
    na = [{"property_id": p, "reason": CHECKS_NA.get(p, PENDING_REASON)} for p in props if p not in CHECKS]
    man = {
        "version": 1,
        "setup_cmd": "sh tools/setup.sh",
        "hooks": {"guard": "BFL_VERIF", "enable": "-DBFL_VERIF in CMAKE_CXX_FLAGS of the out-of-tree builds under /verif/build/{dbg,tsan} (vlib.build_lib)",
                  "baseline_off_cmd": "sh tools/baseline_off.sh", "source_commits": HOOK_COMMITS, "add_only": True},
        "engines": [{"name": "lean4-proof+correspondence", "path": "/verif/check.py", "serves_properties": [c["property_id"] for c in checks],
                     "kind_free_text": "Lean 4 theorems about an executable model (lean/BFL), audited on every run; model tied to /repo by a C++ harness vs Lean driver correspondence over a line protocol (vlib.py, harness/, lean/Main.lean)"}],
        "checks": checks,
        "not_applicable": na,
        "notes": "All checks: python3 check.py <id> --tier quick|thorough; VERIF_SEED honoured. See DESIGN.md.",
    }
    open(os.path.join(V, "MANIFEST.json"), "w").write(json.dumps(man, indent=1) + "\n")
    try:
        import jsonschema
        jsonschema.validate(man, json.load(open("/root/.vp/MANIFEST.schema.json")))
        print("MANIFEST.json valid (%d checks, %d not_applicable)" % (len(checks), len(na)))
    except ImportError:
        print("MANIFEST.json written (jsonschema not importable here; validate with python3-vt)")

CHECKS_NA = {}
HOOK_COMMITS = ["2863da9"]

if __name__ == "__main__":
    main()
