"""C01 — Kalman correction returns the exact linear-Gaussian Bayes posterior."""
import math
from fractions import Fraction

import vlib
from vlib import hexd, frac, frac_of_hex, unhex

EPS = 2.0 ** -52


STYLES = ["dyadic", "full", "tinyscale", "illcond", "rankdef", "scalar", "tall", "identityH", "diagonal", "zeroinnov", "symH", "hugescale", "mixedscale", "neardup", "full", "selector", "blockdup", "microscale", "bigdim", "zerorowcorr", "mixedunits"]


def scale_of(r, style, which):
    """overall magnitude of a covariance: the property constrains conditioning, not scale"""
    if style == "tinyscale":
        return 10 ** r.uniform(-10, -4)
    if style == "microscale":
        # every entry of P and R far below 1e-12 (Eigen's isZero / isMuchSmallerThan defaults), det R far below
        # DBL_EPSILON, everything perfectly conditioned: the property bounds conditioning, not magnitude
        return 10 ** r.uniform(-24, -13)
    if style == "hugescale":
        return 10 ** r.uniform(4, 10)
    if style == "mixedscale":
        return 10 ** (r.uniform(-9, -4) if (which == "P") == (r.random() < 0.5) else r.uniform(3, 8))
    return None


def gen_model(g, tier, idx):
    """dimensions + first measurement model (H, R) of one sequence"""
    r = g.r
    big = 6 if tier == "quick" else 7
    style = STYLES[idx % len(STYLES)] if idx < 3 * len(STYLES) else r.choice(STYLES)
    g.big = False
    if style == "bigdim":
        # Eigen switches product / inverse kernels with the size (lazy coefficient products below
        # rows+cols+depth = 20, closed-form inverses up to 4x4): in-place / aliasing rewrites show from 7-8 on
        n, m = r.choice([7, 8, 9, 12]), r.choice([5, 7, 8, 12])
        if idx < len(STYLES):
            n, m = 12, 12
        style = "dyadic"                              # short mantissas: the exact rational side stays cheap
        g.big = True
        g.bigsel = r.choice([0, 0, 1, 2])             # dense H / scaled signed selector / some all-zero rows
    elif idx < 36:
        n, m = idx // 6 + 1, idx % 6 + 1          # the whole (n, m) grid 1..6 x 1..6 first
        if style in ("identityH", "symH"):
            m = n
        if style == "scalar":
            style = "full"
    elif style == "scalar":
        n, m = 1, 1
    elif style == "tall":
        n = r.randint(1, 3)
        m = r.randint(n + 1, min(big, n + 3))
    elif style in ("identityH", "symH"):
        n = m = r.randint(1, big)
    elif style == "blockdup":
        n, m = r.randint(2, big), r.randint(2, big)
    else:
        n, m = r.randint(1, big), r.randint(1, big)
    g.blk = (max(1, n // 2), 10 ** r.uniform(-20, -13))
    H, R = gen_HR(g, style, n, m)
    return style, n, m, H, R


def gen_HR(g, style, n, m):
    """a measurement model of the given shape (the model of an object may vary in time)"""
    r = g.r
    if style == "dyadic":
        R = g.spd_dyadic(m)
        H = [[g.dyadic(-2, 2, 3) for _ in range(n)] for _ in range(m)]
    else:
        cond = 10 ** r.uniform(4, 6) if style == "illcond" else None
        sc = scale_of(r, style, "R")
        if style == "neardup":
            sc = 10 ** r.uniform(-6, -3)           # a precise sensor: the weak directions of P matter
        R = g.spd(m, cond=cond, scale=sc)
        H = g.mat(m, n)
    if getattr(g, "big", False) and getattr(g, "bigsel", 0) == 1:
        H = [[0.0] * n for _ in range(m)]
        for i in range(m):
            H[i][r.randrange(n)] = r.choice([-1.0, 2.5, -0.5, 3.0, -4.0])
    if getattr(g, "big", False) and getattr(g, "bigsel", 0) == 2:
        for i in r.sample(range(m), max(1, m // 3)):
            H[i] = [0.0] * n
    if style == "identityH":
        H = [[1.0 if i == j else 0.0 for j in range(n)] for i in range(m)]
    if style == "symH":
        H = [[H[min(i, j)][max(i, j)] for j in range(n)] for i in range(m)]
    if style == "diagonal":
        H = [[(H[i][j] if i == j else 0.0) for j in range(n)] for i in range(m)]
        R = [[(R[i][j] if i == j else 0.0) for j in range(m)] for i in range(m)]
    if style == "selector":
        # every row has exactly one non-zero entry, not equal to 1: a state component in other units / along an
        # inverted axis (scaled, signed selectors; columns may repeat or stay unobserved)
        H = [[0.0] * n for _ in range(m)]
        for i in range(m):
            H[i][r.randrange(n)] = r.choice([-1.0, 2.5, -0.5, 1e3, -1e-3, 3.0, r.uniform(-4, 4) or 2.0])
    if style == "zerorowcorr":
        # measurement channels that do not see the state (all-zero rows of H) whose noise is correlated with the
        # noise of the other channels: they are informative through R
        for i in r.sample(range(m), r.randint(1, max(1, m - 1)) if m > 1 else 1):
            H[i] = [0.0] * n
        R = g.spd(m, cond=10 ** r.uniform(0.5, 2))
    if style == "mixedunits":
        # measurement channels in very different units within one vector: y -> D y, H -> D H, R -> D R D with channel
        # factors spread over 1e-5 .. 1e5.  The posterior does not depend on D; S = H P H^T + R is badly scaled
        # (pivot spread up to 1e20) but perfectly conditioned once every channel is expressed in its own unit.
        R = g.spd(m, cond=10 ** r.uniform(0, 1.5), scale=10 ** r.uniform(-1, 1))
        du = [10 ** r.uniform(-5, 5) for _ in range(m)]
        if m > 1:
            du[0], du[-1] = 10 ** r.uniform(2, 5), 10 ** r.uniform(-5, -2)
        H = [[H[i][j] * du[i] for j in range(n)] for i in range(m)]
        R = [[R[min(i, j)][max(i, j)] * du[min(i, j)] * du[max(i, j)] for j in range(m)] for i in range(m)]      # bitwise symmetric
    if style == "blockdup":
        # trailing block of the state at a scale ts (1e-13 .. 1e-20) observed in fine units (H ~ ts^-1/2): S = O(1)
        n1, ts = g.blk
        m1 = max(1, m // 2)
        R = g.spd(m, cond=10 ** r.uniform(0, 1), scale=10 ** r.uniform(-1, 0))     # S well conditioned: sharp bounds
        H = [[(H[i][j] if (i < m1) == (j < n1) else 0.0) * (ts ** -0.5 if j >= n1 else 1.0) for j in range(n)] for i in range(m)]
    if style == "rankdef" or (style == "tall" and r.random() < 0.5):
        mode = r.choice(["zero", "zerorow", "duprow", "rank1"])
        if mode == "zero":
            H = [[0.0] * n for _ in range(m)]
        elif mode == "zerorow":
            H[r.randrange(m)] = [0.0] * n
        elif mode == "duprow" and m > 1:
            H[m - 1] = list(H[0])
        elif mode == "rank1":
            u, v = g.vec(m, -1, 1), g.vec(n, -1, 1)
            H = [[u[i] * v[j] for j in range(n)] for i in range(m)]
    return H, R


def gen_call(g, style, n, m, H):
    r = g.r
    k = r.choice([1, 1, 2, 3, 4, 6])
    if getattr(g, "big", False):
        k = r.choice([1, 2])
    if style == "dyadic":
        Ps = [g.spd_dyadic(n) for _ in range(k)]
        means = [[g.dyadic(-4, 4, 3) for _ in range(n)] for _ in range(k)]
        y = [g.dyadic(-4, 4, 3) for _ in range(m)]
    else:
        cond = 10 ** r.uniform(4, 6) if style == "illcond" else None
        Ps = [g.spd(n, cond=cond, scale=scale_of(r, style, "P")) for _ in range(k)]
        means = [g.vec(n) for _ in range(k)]
        y = g.vec(m)
    if style == "neardup":
        # consecutive components whose covariances are (nearly) equal in norm but differ along the
        # weakest eigen-direction; some exactly equal (different means only)
        k = r.choice([2, 3, 4])
        U, lam = g.spd_parts(n, 10 ** r.uniform(3, 6), 10 ** r.uniform(-1, 1))
        Ps = []
        for c in range(k):
            t = 0.0 if c == 0 else r.choice([0.0, 0.5, 1.0, 3.0, 1e-3])
            l2 = list(lam)
            l2[-1] = lam[-1] * (1.0 + t)
            Ps.append(g.assemble(U, l2))
        means = [g.vec(n) for _ in range(k)]
    if style == "blockdup":
        # consecutive components with the same leading block (scale 1) and trailing blocks (scale ts) that differ
        # by O(1) relative to their own scale: equal for Eigen's isApprox (1e-12 relative to the whole matrix)
        k = r.choice([2, 3, 4])
        n1, ts = g.blk
        A = g.spd(n1, cond=10 ** r.uniform(0, 3), scale=10 ** r.uniform(-1, 1))
        Ps = []
        for c in range(k):
            B = g.spd(n - n1, cond=10 ** r.uniform(0, 2), scale=ts * r.choice([1.0, 2.0, 0.5, 3.0]))
            Ps.append([[(A[i][j] if i < n1 and j < n1 else (B[i - n1][j - n1] if i >= n1 and j >= n1 else 0.0)) for j in range(n)] for i in range(n)])
        means = [g.vec(n) for _ in range(k)]
        means = [list(mm_[:n1]) + [ts ** 0.5 * v for v in mm_[n1:]] for mm_ in means]
        y = g.vec(m)
    if style == "diagonal":
        Ps = [[[(P[i][j] if i == j else 0.0) for j in range(n)] for i in range(n)] for P in Ps]
    if style == "zeroinnov":
        # the measurement predicted by component 0 (rounded): innovation of component 0 is ~0
        y = [float(sum(H[i][j] * means[0][j] for j in range(n))) for i in range(m)]
    outw = [r.uniform(0.01, 1.0) for _ in range(k)]
    toks = [hexd(v) for v in y]
    toks += [hexd(means[c][i]) for c in range(k) for i in range(n)]
    toks += [hexd(Ps[c][i][j]) for c in range(k) for j in range(n) for i in range(n)]
    toks += [hexd(w) for w in outw]
    return k, toks


def gen_case(g, tier, idx):
    """one KFCorrection object over a (possibly time-varying) measurement model, 1..3 correct() calls,
    the likelihood queried 1..3 times after each -> (harness line, [single-call kfc lines], meta)"""
    r = g.r
    style, n, m, H, R = gen_model(g, tier, idx)
    ncalls = r.choice([1, 1, 2, 3]) if not g.big else 1
    seq = ["kfcv", str(n), str(m), str(ncalls)]
    singles = []
    varied = handed = 0
    wmodes = {}
    for c in range(ncalls):
        if c > 0 and r.random() < 0.6:
            H2, R2 = gen_HR(g, style, n, m)        # same shape, new content
            which = r.choice(["H", "R", "both"])
            if which in ("H", "both"):
                H = H2
            if which in ("R", "both"):
                R = R2
            varied += 1
        k, toks = gen_call(g, style, n, m, H)
        nlik = r.choice([1, 1, 2, 3])
        head = vlib.fmt_mat_cm(H) + vlib.fmt_mat_cm(R)
        hand = r.choice([0, 0, 0, 1])              # object move-constructed into a new one before the call
        handed += hand
        hist = ([str(r.choice([0, 1])) for _ in range(r.randint(0, 3))] + ["0"]) if r.random() < 0.4 else []
        # weights of the belief passed in: default / exact zeros / un-normalised / tiny / negative (the
        # update of a component may not depend on its weight)
        wmode = r.choice([0, 0, 1, 2, 3, 4, 5, 6, 7]) if k > 1 else r.choice([0, 0, 3, 4])
        wmodes[wmode] = wmodes.get(wmode, 0) + 1
        seq += [str(hand), str(len(hist))] + hist + head + toks[:m] + [str(nlik), str(wmode), str(k)] + toks[m:]
        singles.append(" ".join(["kfc", str(n), str(m), str(k)] + head + toks))
    return " ".join(seq), singles, {"style": style + ("@bigdim" if g.big else ""), "n": n, "m": m, "calls": ncalls, "model_changes": varied, "hand_overs": handed, "wmodes": wmodes}


def split_seq_output(hout, ncalls):
    """harness output of a kfcs line -> (prelik flag, [single-call style outputs])"""
    if not hout.startswith("ok"):
        return None, [hout] * ncalls
    t = hout.split()
    pre = t[1]
    outs, cur = [], None
    for x in t[2:]:
        if x == "call":
            if cur is not None:
                outs.append("ok " + " ".join(cur))
            cur = []
        else:
            cur.append(x)
    if cur is not None:
        outs.append("ok " + " ".join(cur))
    return pre, outs


def parse_case(line):
    t = line.split()
    n, m, k = int(t[1]), int(t[2]), int(t[3])
    p = 4
    H = vlib.mat_from_cm(t[p:p + m * n], m, n, frac_of_hex); p += m * n
    R = vlib.mat_from_cm(t[p:p + m * m], m, m, frac_of_hex); p += m * m
    y = [frac_of_hex(x) for x in t[p:p + m]]; p += m
    means = [[frac_of_hex(t[p + c * n + i]) for i in range(n)] for c in range(k)]; p += n * k
    Ps = [vlib.mat_from_cm(t[p + c * n * n:p + (c + 1) * n * n], n, n, frac_of_hex) for c in range(k)]; p += n * n * k
    outw = t[p:p + k]
    return n, m, k, H, R, y, means, Ps, outw


def det_frac(A):
    n = len(A)
    M = [[Fraction(x) for x in row] for row in A]
    d = Fraction(1)
    for c in range(n):
        p = next((r for r in range(c, n) if M[r][c] != 0), None)
        if p is None:
            return Fraction(0)
        if p != c:
            M[c], M[p] = M[p], M[c]
            d = -d
        d *= M[c][c]
        for r in range(c + 1, n):
            f = M[r][c] / M[c][c]
            if f:
                M[r] = [a - f * b for a, b in zip(M[r], M[c])]
    return d


def check_case(ctx, line, meta, hout, dout, iout, stats, lout=None, exact_info=True):
    """returns list of (key, what) problems; the first element says 'corr' (model/impl disagree)
    or 'prop' (implementation violates the property's own predicates)"""
    probs = []
    n, m, k, H, R, y, means, Ps, outw = parse_case(line)
    if hout.startswith("crash") or not hout.startswith("ok"):
        probs.append(("prop", "impl-crash", "implementation failed on a valid input: %s" % hout[:80]))
        return probs
    if not dout.startswith("ok") or not iout.startswith("ok"):
        probs.append(("corr", "model-undefined", "model/oracle not defined on a valid input: %s / %s" % (dout[:40], iout[:40])))
        return probs
    ht, dt, it = hout.split(), dout.split(), iout.split()
    p = 1
    cm = [[unhex(ht[p + c * n + i]) for i in range(n)] for c in range(k)]; p += n * k
    cP = [vlib.mat_from_cm(ht[p + c * n * n:p + (c + 1) * n * n], n, n, unhex) for c in range(k)]; p += n * n * k
    cw = ht[p:p + k]; p += k
    same = ht[p]; p += 1
    likflag = ht[p]; p += 1
    liks = []
    if likflag == "lik":
        cnt = int(ht[p]); p += 1
        liks = [unhex(x) for x in ht[p:p + cnt]]
    q = 1
    mm = [[frac(dt[q + c * n + i]) for i in range(n)] for c in range(k)]; q += n * k
    mP = [vlib.mat_from_cm(dt[q + c * n * n:q + (c + 1) * n * n], n, n, frac) for c in range(k)]; q += n * n * k
    mw = dt[q:q + k]; q += k
    mS = [vlib.mat_from_cm(dt[q + c * m * m:q + (c + 1) * m * m], m, m, frac) for c in range(k)]; q += m * m * k
    mnu = [[frac(dt[q + c * m + i]) for i in range(m)] for c in range(k)]
    # oracle (information form), independent of the code's algorithm
    o = 1
    per = n + n * n
    om = [[frac(it[o + c * per + i]) for i in range(n)] for c in range(k)]
    oP = [vlib.mat_from_cm(it[o + c * per + n:o + (c + 1) * per], n, n, frac) for c in range(k)]

    if same != "in-same":
        probs.append(("prop", "prior-modified", "the prior passed in was modified"))
    if [x for x in cw] != [x for x in outw]:
        # not part of C01 (the property does not speak about the weights of the output mixture):
        # recorded, never an alarm
        stats["note_weights_written"] = stats.get("note_weights_written", 0) + 1
    if likflag != "lik" or len(liks) != k:
        probs.append(("prop", "likelihood-missing", "likelihood not reported after a successful correction"))
    for c in range(k):
        S = mS[c]
        Si = vlib.minv_frac(S)
        nS, nSi = vlib.fnorm(S) * m, vlib.fnorm(Si) * m
        kS = max(1.0, nS * nSi)
        P = Ps[c]
        nP = vlib.fnorm(P) * n
        nH = vlib.fnorm(H) * max(n, m)
        Kn = nP * nH * nSi
        tolP = 64 * EPS * kS * (Kn * Kn * nS + nP) * max(n, m)
        nnu = max([abs(float(v)) for v in mnu[c]] + [0.0]) * m
        nx = max([abs(float(v)) for v in means[c]] + [0.0])
        tolm = 64 * EPS * kS * (Kn * nnu + nx + 1e-300) * max(n, m)
        stats["max_kS"] = max(stats.get("max_kS", 0.0), kS)
        # the same bounds in equilibrated state coordinates x_i / d_i, d_i = sqrt(P_ii) (the correction is covariant
        # under a diagonal rescaling of the state, and so is its rounding: row i of P H^T, of K and of K S K^T scales
        # with d_i): entry (i, j) of the covariance is held to d_i d_j times the bound of the scaled problem, which
        # keeps the check sensitive at the scale of a small block - a bound relative to the whole matrix hides O(1)
        # errors there
        dS = [max(float(P[i][i]), 0.0) ** 0.5 for i in range(n)]
        nPs = (sum((float(P[i][j]) / (dS[i] * dS[j])) ** 2 for i in range(n) for j in range(n) if dS[i] and dS[j]) ** 0.5) * n
        nHs = (sum((float(H[a][j]) * dS[j]) ** 2 for a in range(m) for j in range(n)) ** 0.5) * max(n, m)
        Ks = nPs * nHs * nSi
        tolPs = 64 * EPS * kS * (Ks * Ks * nS + nPs) * max(n, m)
        tolms = 64 * EPS * kS * Ks * nnu * max(n, m)
        # Channels in different units: the correction is invariant under y -> E^-1 y (H -> E^-1 H, S -> E^-1 S E^-1), so the
        # result is also held to the bound of the problem with every channel in its own unit e_a = sqrt(S_aa), with a
        # further margin MU for factorizations whose rounding is not invariant under that scaling.  Only used when the
        # channel units differ by more than 1e3 (otherwise the bounds above are the sharper ones).
        eS = [max(float(S[a][a]), 0.0) ** 0.5 for a in range(m)]
        units_spread = (max(eS) / min(eS)) if (eS and min(eS) > 0) else 1.0
        tolPu = tolmu = None
        if units_spread > 1e3:
            MU = 64.0
            Se = [[float(S[a][b]) / (eS[a] * eS[b]) for b in range(m)] for a in range(m)]
            Sei = [[float(Si[a][b]) * (eS[a] * eS[b]) for b in range(m)] for a in range(m)]
            nSe = (sum(v * v for row in Se for v in row) ** 0.5) * m
            nSie = (sum(v * v for row in Sei for v in row) ** 0.5) * m
            kSe = max(1.0, nSe * nSie)
            nHe = (sum((float(H[a][j]) * dS[j] / eS[a]) ** 2 for a in range(m) for j in range(n)) ** 0.5) * max(n, m)
            Ke = nPs * nHe * nSie
            nnue = max([abs(float(mnu[c][a])) / eS[a] for a in range(m)] + [0.0]) * m
            tolPu = MU * 64 * EPS * kSe * (Ke * Ke * nSe + nPs) * max(n, m)
            tolmu = MU * 64 * EPS * kSe * Ke * nnue * max(n, m)
            stats["max_kS_own_units"] = max(stats.get("max_kS_own_units", 0.0), kSe)
            stats["cases_channels_in_different_units"] = stats.get("cases_channels_in_different_units", 0) + 1
        # theorem instance on the executed ℚ model: gain form == information form, exactly
        # (prior exactly symmetric: the theorem's hypothesis; beliefs a filter reaches are symmetric up to rounding only)
        if exact_info and (mP[c] != oP[c] or mm[c] != om[c]):
            probs.append(("corr", "model-vs-information-form", "exact model output differs from (P^-1+H^T R^-1 H)^-1 form: theorem instance fails on Q"))
        # correspondence: implementation vs model
        errP = max(abs(Fraction(cP[c][i][j]) - mP[c][i][j]) for i in range(n) for j in range(n))
        errm = max(abs(Fraction(cm[c][i]) - mm[c][i]) for i in range(n))
        stats["max_relerr_cov"] = max(stats.get("max_relerr_cov", 0.0), float(errP) / tolP)
        stats["max_relerr_mean"] = max(stats.get("max_relerr_mean", 0.0), float(errm) / tolm)
        bad_cov = errP > tolP
        bad_mean = errm > tolm
        if bad_cov:
            probs.append(("corr", "cov-mismatch", "component %d: corrected covariance differs from model by %.3g (tol %.3g)" % (c, float(errP), tolP)))
        if bad_mean:
            probs.append(("corr", "mean-mismatch", "component %d: corrected mean differs from model by %.3g (tol %.3g)" % (c, float(errm), tolm)))
        # property predicates on the implementation's own output
        errPo = max(abs(Fraction(cP[c][i][j]) - oP[c][i][j]) for i in range(n) for j in range(n))
        errmo = max(abs(Fraction(cm[c][i]) - om[c][i]) for i in range(n))
        relE = max(float(abs(Fraction(cP[c][i][j]) - oP[c][i][j])) / (dS[i] * dS[j] * tolPs + 1e-300) for i in range(n) for j in range(n))
        relmE = max(float(abs(Fraction(cm[c][i]) - om[c][i])) / (dS[i] * tolms + 64 * EPS * kS * max(n, m) * abs(float(means[c][i])) + 1e-300) for i in range(n))
        stats["max_relerr_cov_scaled"] = max(stats.get("max_relerr_cov_scaled", 0.0), relE)
        stats["max_relerr_mean_scaled"] = max(stats.get("max_relerr_mean_scaled", 0.0), relmE)
        if tolPu is not None:
            relU = max(float(abs(Fraction(cP[c][i][j]) - oP[c][i][j])) / (dS[i] * dS[j] * tolPu + 1e-300) for i in range(n) for j in range(n))
            relmU = max(float(abs(Fraction(cm[c][i]) - om[c][i])) / (dS[i] * tolmu + MU * 64 * EPS * kSe * max(n, m) * abs(float(means[c][i])) + 1e-300) for i in range(n))
            stats["max_relerr_cov_own_units"] = max(stats.get("max_relerr_cov_own_units", 0.0), relU)
            stats["max_relerr_mean_own_units"] = max(stats.get("max_relerr_mean_own_units", 0.0), relmU)
            if relU > 1.0:
                probs.append(("prop", "cov-not-posterior", "component %d: covariance is not (P^-1+H^T R^-1 H)^-1 by %.3g of the bound of the problem with every measurement channel in its own unit (channel units spread over %.3g, cond of S in own units %.3g)" % (c, relU, units_spread, kSe)))
            if relmU > 1.0:
                probs.append(("prop", "mean-not-posterior", "component %d: mean is not the posterior mean by %.3g of the bound of the problem with every measurement channel in its own unit (channel units spread over %.3g)" % (c, relmU, units_spread)))
        if errPo > tolP or relE > 1.0:
            probs.append(("prop", "cov-not-posterior", "component %d: covariance is not (P^-1+H^T R^-1 H)^-1: err %.3g tol %.3g (in equilibrated state coordinates: %.3g of the bound)" % (c, float(errPo), tolP, relE)))
        if errmo > tolm or relmE > 1.0:
            probs.append(("prop", "mean-not-posterior", "component %d: mean is not the posterior mean: err %.3g tol %.3g (in equilibrated state coordinates: %.3g of the bound)" % (c, float(errmo), tolm, relmE)))
        asym = max(abs(cP[c][i][j] - cP[c][j][i]) for i in range(n) for j in range(n))
        if asym > 2 * tolP:
            probs.append(("prop", "cov-asymmetric", "component %d: corrected covariance asymmetric by %.3g" % (c, asym)))
        slack = Fraction(2 * tolP * n)
        cPf = [[Fraction(x) for x in row] for row in cP[c]]
        if not vlib.is_psd_frac(cPf, slack):
            probs.append(("prop", "cov-not-psd", "component %d: corrected covariance not PSD (slack %.3g)" % (c, float(slack))))
        if not vlib.is_psd_frac(vlib.msub(P, cPf), slack):
            probs.append(("prop", "cov-larger-than-prior", "component %d: P - P+ not PSD" % c))
        # likelihood = N(y; H m, S)
        if likflag == "lik" and len(liks) == k:
            d = det_frac(S)
            qf = sum(mnu[c][i] * Si[i][j] * mnu[c][j] for i in range(m) for j in range(m))
            logl = -0.5 * (m * math.log(2 * math.pi) + math.log(d) + float(qf))
            want = math.exp(logl) if logl > -745 else 0.0
            rel = 64 * EPS * kS * (abs(float(qf)) + m + 1) * m + 1e-13
            if abs(liks[c] - want) > rel * max(want, 1e-300) + 1e-320:
                probs.append(("prop", "likelihood-wrong", "component %d: likelihood %.17g, N(y;Hm,S)=%.17g" % (c, liks[c], want)))
            # correspondence: the model's kfLikelihood (theorem kf_likelihood_eq is about this function)
            if lout is not None and lout.startswith("ok"):
                ml = float(frac(lout.split()[1 + c]))
                stats["lik_model_compared"] = stats.get("lik_model_compared", 0) + 1
                if abs(ml - want) > rel * max(want, 1e-300) + 1e-320:
                    probs.append(("corr", "model-likelihood-vs-definition", "component %d: model kfLikelihood %.17g, N(y;Hm,S)=%.17g" % (c, ml, want)))
                if abs(liks[c] - ml) > 2 * rel * max(want, 1e-300) + 1e-320:
                    probs.append(("corr", "likelihood-mismatch", "component %d: likelihood %.17g, model %.17g" % (c, liks[c], ml)))
            elif lout is not None:
                probs.append(("corr", "model-likelihood-undefined", "model kfLikelihood not defined: %s" % lout[:40]))
    return probs


def plumbing(ctx, binary):
    """LinearMeasurementModel::predictedMeasure / innovation on batches (model linPredictedMeasure /
    linInnovation, theorem lin_innovation_col) and the LTIMeasurementModel constructor checks (model
    ltiMeasCtor, theorem lti_ctor_ok_iff; all shape quadruples 0..3 enumerated)."""
    g = ctx.gen("lmm")
    r = g.r
    prop_bad, corr_bad = [], []
    lines = []
    for i in range(ctx.n(24, 120)):
        n, m, k, c = r.randint(1, 6), r.randint(1, 6), r.choice([1, 2, 3, 5]), r.choice([0, 0, 1, 3])
        if i % 6 == 5:
            n, m = r.choice([8, 12]), r.choice([7, 12])
        H, X, Y = g.mat(m, n), g.mat(n, k), g.mat(m, c + 1)
        if i % 4 == 1:
            sc = 10 ** r.uniform(-12, 9)
            X = [[sc * v for v in row] for row in X]
            Y = [[sc * v for v in row] for row in Y]
        lines.append(" ".join(["lmm", str(n), str(m), str(k)] + vlib.fmt_mat_cm(H) + vlib.fmt_mat_cm(X) + [str(c)] + vlib.fmt_mat_cm(Y)))
    ct = ["ltictor %d %d %d %d" % (a, b, c, d) for a in range(4) for b in range(4) for c in range(4) for d in range(4)]
    hout, logs = vlib.run_harness(binary, lines + ct)
    dout = vlib.run_driver(lines + ct)
    for ln, ho, do in zip(lines, hout, dout):
        t = ln.split()
        n, m, k = int(t[1]), int(t[2]), int(t[3])
        if not ho.startswith("ok") or not do.startswith("ok"):
            prop_bad.append(("plumbing-failed", "LinearMeasurementModel::predictedMeasure/innovation failed on a valid batch: %s / %s" % (ho[:60], do[:40]), ln, ho))
            continue
        try:
            hv = [unhex(x) for x in ho.split()[1:]]
            dv = [frac(x) for x in do.split()[1:]]
            if len(hv) != 2 * m * k or len(dv) != 2 * m * k:
                raise ValueError("shape")
            H = vlib.mat_from_cm(t[4:4 + m * n], m, n, frac_of_hex)
            X = vlib.mat_from_cm(t[4 + m * n:4 + m * n + n * k], n, k, frac_of_hex)
            c = int(t[4 + m * n + n * k])
            Y = vlib.mat_from_cm(t[5 + m * n + n * k:], m, c + 1, frac_of_hex)
            for j in range(k):
                for i in range(m):
                    mag = sum(abs(H[i][l] * X[l][j]) for l in range(n))
                    tol = 8 * EPS * n * float(mag) + 1e-300
                    pe, ie = dv[j * m + i], dv[m * k + j * m + i]
                    if abs(Fraction(hv[j * m + i]) - pe) > tol:
                        prop_bad.append(("predicted-measure-wrong", "predictedMeasure(%d,%d) is not (H X)(%d,%d)" % (i, j, i, j), ln, ho)); raise StopIteration
                    if abs(Fraction(hv[m * k + j * m + i]) - ie) > tol + 2 * EPS * abs(float(Y[i][0])):
                        prop_bad.append(("innovation-wrong", "innovation(%d,%d) is not y_%d - (H x_%d)_%d" % (i, j, i, j, i), ln, ho)); raise StopIteration
                    # the innovation is exactly the rounded difference of the model's own predicted measure
                    if hv[m * k + j * m + i] != -(hv[j * m + i] - float(Y[i][0])):
                        prop_bad.append(("innovation-not-difference", "innovation(%d,%d) is not measurement - predicted measurement" % (i, j), ln, ho)); raise StopIteration
        except StopIteration:
            pass
        except Exception as ex:
            prop_bad.append(("unreadable-result", "plumbing output cannot be evaluated (%s): %s" % (ex, ho[:80]), ln, ho))
    bad_ct = 0
    for ln, ho, do in zip(ct, hout[len(lines):], dout[len(lines):]):
        if ho != do:
            bad_ct += 1
            prop_bad.append(("lti-ctor-check", "LTIMeasurementModel constructor with shapes H %sx%s, R %sx%s: %s, model %s" % (tuple(ln.split()[1:]) + (ho, do)), ln, ho))
    return prop_bad, corr_bad, {"batches": len(lines), "ctor_shapes_enumerated": len(ct), "ctor_mismatches": bad_ct, "exhaustive": "all (rows(H), cols(H), rows(R), cols(R)) in 0..3"}


def replay_case(path):
    """re-run the input recorded in a replay file (a kfcv / kfcs sequence line or a single kfc line)"""
    import json
    line = json.load(open(path))["replay"]["input_line"]
    t = line.split()
    if t[0] == "kfc":
        return (line, [line], {"style": "replay", "calls": 1})
    n, m = int(t[1]), int(t[2])
    singles = []
    if t[0] == "kfcv":
        ncalls = int(t[3]); p = 4
        for _ in range(ncalls):
            p += 1                                   # hand-over flag
            ns = int(t[p]); p += 1 + ns              # skip history
            head = t[p:p + m * n + m * m]; p += m * n + m * m
            y = t[p:p + m]; p += m
            p += 2                                   # nlik, weight mode of the belief passed in
            k = int(t[p]); p += 1
            ln = n * k + n * n * k + k
            singles.append(" ".join(["kfc", str(n), str(m), str(k)] + head + y + t[p:p + ln])); p += ln
        return (line, singles, {"style": "replay", "n": n, "m": m, "calls": ncalls})
    p = 3
    head = t[p:p + m * n + m * m]; p += m * n + m * m
    ncalls = int(t[p]); p += 1
    for _ in range(ncalls):
        k = int(t[p]); p += 1
        ln = m + n * k + n * n * k + k
        singles.append(" ".join(["kfc", str(n), str(m), str(k)] + head + t[p:p + ln])); p += ln
    return (line, singles, {"style": "replay", "n": n, "m": m, "calls": ncalls})


def run(ctx):
    ctx.proof_stage()
    binary = vlib.build_harness("h_kf")
    g = ctx.gen("kfc")
    N = ctx.n(72, 320)
    cases = []   # (harness line, [kfc single lines], meta)
    corpus = vlib.VERIF / "corpus" / "C01" / "cases.txt"
    if corpus.exists():
        for ln in corpus.read_text().split("\n"):
            if ln.strip():
                cases.append((ln.strip(), [ln.strip()], {"style": "corpus", "calls": 1}))
    import os
    stages = set((os.environ.get("KF_STAGES") or "main,hist,plumb").split(","))   # mutation trials may run one stage only
    if "main" not in stages:
        cases, N = [], 0
    for i in range(N):
        cases.append(gen_case(g, ctx.tier, i))
    hist_replay = None
    if ctx.replay:
        import json
        rl = json.load(open(ctx.replay))["replay"]["input_line"]
        if rl.split()[0] in ("kfh", "kfht"):
            from checks import kfhist
            hist_replay = kfhist.parse_line(rl)
            cases = []
        elif rl.split()[0] in ("lmm", "ltictor"):
            cases = []
        else:
            cases = [replay_case(ctx.replay)]
    hlines = [c[0] for c in cases]
    hout, logs = vlib.run_harness(binary, hlines)
    singles = [l for c in cases for l in c[1]]
    dout = vlib.run_driver(singles)
    iout = vlib.run_driver([("kfinfo " + " ".join(l.split()[1:-int(l.split()[3])])) for l in singles])
    # the model's own likelihood (kfLikelihood: exact field operations, log/exp through Float)
    lout = vlib.run_driver([("kflik " + " ".join(l.split()[1:-int(l.split()[3])])) for l in singles])
    stats, hist, dims = {}, {}, set()
    distinct = set()
    corr_bad, prop_bad = [], []
    pos = 0
    ncalls_total = 0
    for (hline, slines, meta), h in zip(cases, hout):
        hist[meta.get("style")] = hist.get(meta.get("style"), 0) + 1
        dims.add((meta.get("n"), meta.get("m")))
        if hline.startswith("kfcs") or hline.startswith("kfcv"):
            pre, outs = split_seq_output(h, len(slines))
            if "likdiffer" in h.split():
                prop_bad.append(("likelihood-not-repeatable", "repeated getLikelihood() queries after one correction returned different values", hline, h))
            if pre is not None and pre != "noprelik":
                stats["note_likelihood_before_correction"] = stats.get("note_likelihood_before_correction", 0) + 1   # outside C01: recorded only
            if len(outs) != len(slines):
                outs = (outs + ["crash:short-output"] * len(slines))[:len(slines)]
        else:
            outs = [h]
        for sl, ho in zip(slines, outs):
            distinct.add(sl)
            ncalls_total += 1
            try:
                res = check_case(ctx, sl, meta, ho, dout[pos], iout[pos], stats, lout[pos])
            except Exception as ex:       # malformed / short / non-numeric output of a (mutated) implementation
                res = [("prop", "unreadable-result", "output of the implementation cannot be evaluated (%s: %s): %s" % (type(ex).__name__, ex, ho[:120]))]
            for kind, key2, what in res:
                (corr_bad if kind == "corr" else prop_bad).append((key2, what, hline, h))
            pos += 1
    # --- whole filter histories (Model/KFHist.lean) and the measurement-model plumbing
    from checks import kfhist
    hstats, pstats = {}, {}
    if (not ctx.replay and "hist" in stages) or hist_replay:
        hists = [hist_replay] if hist_replay else [kfhist.gen_history(ctx.gen("kfh"), i, ctx.tier) for i in range(ctx.n(21, 60))]
        hp, hc, hstats = kfhist.run_histories(ctx, binary, hists, "C01")
        prop_bad += hp
        corr_bad += hc
    if not ctx.replay and "plumb" in stages:
        pp, pc, pstats = plumbing(ctx, binary)
        prop_bad += pp
        corr_bad += pc
    for key2, what, line, h in prop_bad[:20]:
        ctx.violation(key2, "KFCorrection: " + what, {"harness": "h_kf", "input_line": line, "observed": h[:2000]})
    if corr_bad and not prop_bad:
        key2, what, line, h = corr_bad[0]
        ctx.violation("correspondence:" + key2, "model and implementation disagree (%d cases), no property predicate failed: %s" % (len(corr_bad), what),
                      {"harness": "h_kf", "correspondence": "kfCorrect vs KFCorrection::correctStep", "input_line": line, "observed": h[:2000]}, no_input=True)
    nontrivial = sum(1 for sl in distinct if int(sl.split()[1]) * int(sl.split()[2]) > 1 or int(sl.split()[3]) > 1)
    wm = {}
    for c_ in cases:
        for k_, v_ in (c_[2].get("wmodes") or {}).items():
            wm[str(k_)] = wm.get(str(k_), 0) + v_
    ctx.coverage.update({
        "evaluations": ncalls_total, "distinct_nontrivial": nontrivial,
        "rule": "KFCorrection objects over a time-varying measurement model (H, R of the same shape may change between calls) used for 1..3 successive correct() calls each (new measurement, new component count per call), likelihood queried 1..3 times per call; near-duplicate consecutive components; the (n,m) grid 1..6 x 1..6 "
                "first, then random n,m up to %d; k in {1,2,3,4,6}; SPD with prescribed spectrum, cond<=1e6; H of any rank, identity/diagonal/symmetric/zero H, "
                "zero innovation; non-trivial = more than one scalar dimension or more than one component; distinct = distinct single-call inputs" % (6 if ctx.quick() else 8),
        "samples": [c_[0][:400] for c_ in (cases[:1] + cases[-1:])] or ["(stages without single-call cases)"],
        "input_weight_modes (0 default, 1 first zero, 2 last zero, 3 all zero, 4 un-normalised, 5 tiny, 6 one negative, 7 one-hot)": wm, "style_histogram": hist, "numeric": stats, "objects": len(cases), "nm_pairs_covered": len(dims),
        "traces_validated_against_impl": ncalls_total,
        "model_vs_impl_disagreements": len(corr_bad), "property_failures_on_impl": len(prop_bad),
        "sanitizer_crashes": len(logs),
        "filter_histories": hstats, "measurement_model_plumbing": pstats,
    })
    ctx.assumptions += ["inverse routine contract InvOn certified exactly on every call of the Q execution",
                        "floating point: implementation compared with exact rational model within 64*eps*cond(S)*scale"]
