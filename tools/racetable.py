#!/usr/bin/env python3
"""C10 translator: clang AST of the library's translation units -> lean/BFL/Gen/RaceTable.lean

    python3 tools/racetable.py [--repo /repo] [--out lean/BFL/Gen/RaceTable.lean] [--json facts.json]

For every translation unit src/BayesFilters/src/*.cpp of the *current* tree ($BFL_REPO) it runs

    clang++-14 -std=gnu++14 -fsyntax-only -DBFL_VERIF -I<include> -I/usr/include/eigen3
               -Xclang -ast-dump=json -Xclang -ast-dump-filter=bfl::

and extracts, purely syntactically,

  * every class of namespace bfl with its bases, data members (declared kind: atomic / plain /
    mutex / condvar / other) and member functions (virtual or not);
  * for every function body (member functions, constructors, free functions; a lambda is
    attributed to the function it is written in, at its lexical position) every access to a data
    member of a bfl class: read / write / read-modify-write, whether the object expression is
    `this`, source line, and the set of mutex members of `this` on which a `std::lock_guard`,
    `std::unique_lock` or `std::scoped_lock` variable is syntactically in scope at that point
    (`lk.unlock()` / `lk.release()` end the scope early; an unlock inside a loop on a lock declared
    outside the loop removes the lock from the whole loop);
  * call edges: direct calls, virtual calls expanded to every overrider in the class hierarchy,
    functions whose address is taken (`ref`), and functions handed to a `std::thread` (`spawn`).

What this translator does *not* see (trusted / out of scope, stated in Props/C10.lean):
accesses through raw pointers to members, `static` data, calls through `std::function`
objects, code outside namespace bfl (Eigen, libstdc++), data reached through references handed to
other threads by user code.
"""
import argparse
import hashlib
import json
import os
import re
import subprocess
import sys
from concurrent.futures import ProcessPoolExecutor
from pathlib import Path

TOOL_VERSION = "racetable-10"
CLANG = os.environ.get("BFL_CLANG", "clang++-14")
EIGEN_INC = "/usr/include/eigen3"

FUNC_KINDS = {"CXXMethodDecl", "CXXConstructorDecl", "CXXDestructorDecl", "CXXConversionDecl", "FunctionDecl"}
LOOP_KINDS = {"WhileStmt", "DoStmt", "ForStmt", "CXXForRangeStmt"}
LOCK_TYPES = re.compile(r"^(const )?std::(lock_guard|unique_lock|scoped_lock)\b")
NOLOCK_TAGS = re.compile(r"std::(defer_lock_t|try_to_lock_t|adopt_lock_t)")
ATOMIC_T = re.compile(r"^(const )?(volatile )?std::(atomic\s*<|atomic_[a-z0-9_]+\b|__atomic_base\s*<)")
MUTEX_T = re.compile(r"^(mutable )?std::(recursive_|timed_|recursive_timed_|shared_|shared_timed_)?mutex$")
CONDVAR_T = re.compile(r"^std::condition_variable(_any)?$")
SCALAR_T = re.compile(
    r"^(const |volatile )*(bool|char|signed char|unsigned char|short|unsigned short|int|unsigned int|unsigned|long|unsigned long|"
    r"long long|unsigned long long|float|double|long double|wchar_t|char16_t|char32_t)$")


# ----------------------------------------------------------------------------- clang

def clang_cmd(repo, tu):
    return [CLANG, "-std=gnu++14", "-fsyntax-only", "-w", "-DBFL_VERIF",
            "-I", str(Path(repo) / "src/BayesFilters/include"), "-I", EIGEN_INC,
            "-Xclang", "-ast-dump=json", "-Xclang", "-ast-dump-filter=bfl::", str(tu)]


def load_objs(text):
    dec = json.JSONDecoder()
    i, n, objs = 0, len(text), []
    while i < n:
        while i < n and text[i] in " \n\r\t":
            i += 1
        if i >= n:
            break
        if text[i] != "{":
            j = text.find("\n", i)
            i = n if j < 0 else j + 1
            continue
        o, j = dec.raw_decode(text, i)
        objs.append(o)
        i = j
    return objs


class Loc:
    """clang's JSON dumper prints `file` / `line` of a location only when they differ from the last
    location printed; replay that state machine in document order."""

    def __init__(self):
        self.file, self.line = "", 0

    def bare(self, d):
        if "file" in d:
            self.file = d["file"]
        if "line" in d:
            self.line = d["line"]
        return self.file, self.line, d.get("col", 0)

    def any(self, d):
        """d is a loc object: bare, or {spellingLoc, expansionLoc}; returns the expansion position"""
        if not isinstance(d, dict):
            return None
        if "offset" in d or "line" in d or "col" in d or "file" in d:
            return self.bare(d)
        pos = None
        for k, v in d.items():      # document order: spellingLoc then expansionLoc
            if k in ("spellingLoc", "expansionLoc") and isinstance(v, dict):
                p = self.bare(v)
                if k == "expansionLoc" or pos is None:
                    pos = p
        return pos


def annotate(node, loc):
    """resolve positions in document order; stores node['_pos'] = (file, line, col) of range.begin"""
    if isinstance(node, list):
        for x in node:
            annotate(x, loc)
        return
    if not isinstance(node, dict):
        return
    pos = None
    kids = None
    for k, v in list(node.items()):
        if k == "loc":
            p = loc.any(v)
            if pos is None:
                pos = p
        elif k == "range" and isinstance(v, dict):
            b = loc.any(v.get("begin"))
            e = loc.any(v.get("end"))
            if b is not None:
                pos = b
            if e is not None:
                node["_end"] = e
        elif k == "inner":
            if "kind" in node:
                node["_pos"] = pos or (loc.file, loc.line, 0)
            annotate(v, loc)
        elif isinstance(v, (dict, list)) and k not in ("type", "referencedDecl", "bases", "definitionData", "argType"):
            annotate(v, loc)
    if "kind" in node and "_pos" not in node:
        node["_pos"] = pos or (loc.file, loc.line, 0)


# ----------------------------------------------------------------------------- helpers

def qt(node):
    t = node.get("type") or {}
    return t.get("qualType", "")


def dqt(node):
    t = node.get("type") or {}
    return t.get("desugaredQualType", t.get("qualType", ""))


def norm_sig(s):
    s = re.sub(r"\bnoexcept(\(\w+\))?", "", s)
    s = s.replace("bfl::", "")
    return re.sub(r"\s+", " ", s).strip()


def field_kind(q, dq):
    for t in (q, dq):
        t = t.strip()
        if ATOMIC_T.match(t) or t in ("std::atomic_flag", "const std::atomic_flag"):
            return "atomic"
        if MUTEX_T.match(t):
            return "mutex"
        if CONDVAR_T.match(t):
            return "condvar"
        if re.match(r"^(class )?std::j?thread$", t):
            return "thread"
    d = dq.strip()
    if SCALAR_T.match(d) or d.endswith("*") or d.endswith("&") or d.startswith("enum ") or SCALAR_T.match(q.strip()):
        return "plain"
    if re.match(r"^(const )?(std::)?(size_t|ptrdiff_t|u?int\d+_t)$", q.strip()):
        return "plain"
    return "other"


def inner(n):
    return [c for c in n.get("inner", []) if isinstance(c, dict) and "kind" in c]


def has_body(n):
    return any(c.get("kind") in ("CompoundStmt", "CXXTryStmt") for c in inner(n))


# ----------------------------------------------------------------------------- per-TU extraction

class TU:
    def __init__(self, objs, repo):
        self.repo = str(repo)
        self.records = {}      # decl id -> class name (every redeclaration)
        self.namespaces = {}   # decl id -> namespace name
        self.fields = {}       # decl id -> (cls, name, kind, type)
        self.funcs = {}        # decl id -> key (cls, name, sig)
        self.classes = {}      # cls -> {bases, fields[], methods{key: info}, file, line}
        self.bodies = {}       # key -> body facts
        self.objs = objs
        loc = Loc()
        for o in objs:
            annotate(o, loc)
        for o in objs:
            self.index(o, None)
        for o in objs:
            self.collect_bodies(o, None)

    def rel(self, f):
        return f[len(self.repo) + 1:] if f.startswith(self.repo + "/") else f

    # -- pass 1: declarations
    def index(self, n, cls):
        k = n.get("kind")
        if k == "NamespaceDecl":
            self.namespaces[n["id"]] = n.get("name", "")
            for c in inner(n):
                self.index(c, None)
            return
        if k in ("CXXRecordDecl", "ClassTemplateSpecializationDecl") and not n.get("isImplicit"):
            name = n.get("name", "")
            if cls:                       # nested class
                name = cls + "::" + name
            self.records[n["id"]] = name
            if n.get("completeDefinition"):
                c = self.classes.setdefault(name, {"bases": [], "fields": [], "methods": {}, "file": self.rel(n["_pos"][0]), "line": n["_pos"][1]})
                c["bases"] = [norm_sig(b["type"]["qualType"]) for b in n.get("bases", [])]
                for ch in inner(n):
                    self.index(ch, name)
            return
        if k == "FieldDecl" and cls:
            kind = field_kind(qt(n), dqt(n))
            self.fields[n["id"]] = (cls, n.get("name", ""), kind, qt(n))
            fl = self.classes[cls]["fields"]
            if not any(f[0] == n.get("name", "") for f in fl):
                fl.append((n.get("name", ""), kind, qt(n), n["_pos"][1]))
            return
        if k in ("FunctionTemplateDecl", "ClassTemplateDecl"):
            for c in inner(n):
                self.index(c, cls)
            return
        if k == "VarDecl":
            self.static_var(n, cls or "")
            return
        if k in FUNC_KINDS:
            owner = cls
            if owner is None:
                p = n.get("parentDeclContextId")
                if p in self.records:
                    owner = self.records[p]
                elif p in self.namespaces:
                    owner = "" if self.namespaces[p] == "bfl" else self.namespaces[p]
                else:
                    owner = ""
            key = (owner, n.get("name", ""), norm_sig(qt(n)))
            self.funcs[n["id"]] = key
            if owner in self.classes:
                m = self.classes[owner]["methods"].setdefault(key, {"virtual": False, "pure": False, "implicit": False, "deleted": False, "kind": k})
                m["virtual"] = m["virtual"] or bool(n.get("virtual")) or any(c.get("kind") == "OverrideAttr" for c in inner(n))
                m["pure"] = m["pure"] or bool(n.get("pure"))
                m["implicit"] = bool(n.get("isImplicit"))
                m["deleted"] = m["deleted"] or bool(n.get("explicitlyDeleted"))
            n["_key"] = key
            if has_body(n):
                self.index_static_locals(n, (owner + "::" if owner else "") + n.get("name", ""))
            return

    def static_var(self, n, owner):
        """data with static storage duration (namespace scope, static data member, static local) that is
        not const: a pseudo-member of the pseudo-class `static` / `static:<Class or function>`"""
        t = qt(n)
        if t.startswith("const ") or n.get("constexpr") or " const" in t.split("<")[0]:
            return
        cls = "static" + ((":" + owner) if owner else "")
        kind = field_kind(t, dqt(n))
        self.fields[n["id"]] = (cls, n.get("name", ""), kind, t)
        c = self.classes.setdefault(cls, {"bases": [], "fields": [], "methods": {}, "file": self.rel(n["_pos"][0]), "line": n["_pos"][1]})
        if not any(f[0] == n.get("name", "") for f in c["fields"]):
            c["fields"].append((n.get("name", ""), kind, t, n["_pos"][1]))

    def index_static_locals(self, n, owner):
        for c in inner(n):
            if c["kind"] == "VarDecl" and c.get("storageClass") == "static":
                self.static_var(c, owner)
            if c["kind"] not in ("CXXRecordDecl",):
                self.index_static_locals(c, owner)

    # -- pass 2: bodies
    def collect_bodies(self, n, cls):
        k = n.get("kind")
        if k in ("NamespaceDecl", "FunctionTemplateDecl", "ClassTemplateDecl"):
            for c in inner(n):
                self.collect_bodies(c, cls)
            return
        if k in ("CXXRecordDecl", "ClassTemplateSpecializationDecl"):
            if n.get("completeDefinition") and not n.get("isImplicit"):
                for c in inner(n):
                    self.collect_bodies(c, self.records.get(n["id"]))
            return
        if k in FUNC_KINDS and "_key" in n and (has_body(n) or any(c.get("kind") == "CXXCtorInitializer" for c in inner(n))):
            if n.get("isImplicit") or n.get("explicitlyDefaulted"):
                return
            key = n["_key"]
            w = Walker(self, key)
            w.function(n)
            if w.spawn_pos is not None:
                # what the spawning function does before it creates the thread is ordered before everything
                # the new thread does (thread creation synchronises): not part of the concurrent phase
                for r in w.rows:
                    if (r["line"], r["col"]) < w.spawn_pos and r.get("kindhint") != "thread":
                        r["pre_spawn"] = True
            b = self.bodies.setdefault(key, {"rows": [], "calls": [], "file": self.rel(n["_pos"][0]), "line": n["_pos"][1],
                                             "end_line": (n.get("_end") or n["_pos"])[1]})
            for r in w.rows:
                if r not in b["rows"]:
                    b["rows"].append(r)
            for c in w.calls:
                if c not in b["calls"]:
                    b["calls"].append(c)
            for t in w.tops:
                if t not in b.setdefault("tops", []):
                    b["tops"].append(t)


class Walker:
    """one function body: member accesses with their syntactic locksets, call edges"""

    def __init__(self, tu, key):
        self.tu, self.key = tu, key
        self.rows, self.calls, self.tops = [], [], []
        self.spawn_pos = None   # (line, col) of the first std::thread construction from a library function
        self.lockvars = {}      # lock variable id -> (mutexes, id of the block it is declared in)
        self.pending_manual = None
        self.held = []          # list of (var decl id, frozenset of (cls, mutexname)), innermost last
        self.stack = []         # ancestors of the node being visited
        self.in_thread_ctor = 0

    # ---- entry
    def function(self, n):
        for c in inner(n):
            if c["kind"] == "CXXCtorInitializer":
                a = c.get("anyInit")
                if a and a.get("id") in self.tu.fields:
                    f = self.tu.fields[a["id"]]
                    self.row(f, "w", True, c)
                    if f[2] == "thread":
                        self.tops.append({"cls": f[0], "field": f[1], "op": "spawn" if self.refers_to_library_function(c) else "move",
                                          "file": self.tu.rel(c.get("_pos", ("", 0, 0))[0]), "line": c.get("_pos", ("", 0, 0))[1]})
                self.visit_children(c)
            elif c["kind"] in ("CompoundStmt", "CXXTryStmt"):
                self.visit(c)

    def locks_now(self):
        s = set()
        for _, ms in self.held:
            s |= ms
        return sorted(s)

    def row(self, f, acc, self_base, node):
        cls, name, kind, ty = f
        file, line, col = node.get("_pos", ("", 0, 0))
        self.rows.append({"cls": cls, "field": name, "acc": acc, "self": bool(self_base), "kindhint": kind,
                          "locks": ["%s::%s" % m for m in self.locks_now()] if self_base else [],
                          "file": self.tu.rel(file), "line": line, "col": col})

    # ---- traversal
    def visit_children(self, n):
        self.stack.append(n)
        for c in inner(n):
            self.visit(c)
        self.stack.pop()

    def visit(self, n):
        k = n["kind"]
        if k == "CompoundStmt":
            mark = len(self.held)
            declared_here = set()
            self.stack.append(n)
            for c in inner(n):
                before = {v for v, _ in self.held}
                self.visit(c)
                declared_here |= {v for v, _ in self.held} - before
            self.stack.pop()
            # leaving the block: lock variables declared in it go out of scope
            self.held = [h for h in self.held if h[0] not in declared_here]
            return
        if k in LOOP_KINDS:
            outer = {v for v, _ in self.held}
            dropped = self.unlocked_in(n) & outer
            if dropped:
                self.held = [h for h in self.held if h[0] not in dropped]
            self.visit_children(n)
            return
        if k == "LambdaExpr":
            # the closure class repeats the body; visit capture initialisers and the body once.
            # A lambda handed directly to a call (cv.wait(lk, pred), algorithms) is taken to run at its
            # lexical position; a lambda that is stored (variable, std::function member, return value)
            # may run anywhere later: its body is visited with no lock held.
            tgt = self.closure_target()
            if tgt is not None:
                # stored in a std::function member: its body becomes the pseudo-function `Class::member$closure`,
                # called from wherever the member is invoked
                key = (tgt[0], tgt[1] + "$closure", "")
                w2 = Walker(self.tu, key)
                w2.stack = [n]
                for c in inner(n):
                    if c["kind"] != "CXXRecordDecl":
                        w2.visit(c)
                b = self.tu.bodies.setdefault(key, {"rows": [], "calls": [], "file": self.tu.rel(n["_pos"][0]), "line": n["_pos"][1],
                                                    "end_line": (n.get("_end") or n["_pos"])[1]})
                for r in w2.rows:
                    if r not in b["rows"]:
                        b["rows"].append(r)
                for c in w2.calls:
                    if c not in b["calls"]:
                        b["calls"].append(c)
                return
            saved = self.held
            if not self.lambda_is_call_argument():
                self.held = []
            self.stack.append(n)
            for c in inner(n):
                if c["kind"] == "CXXRecordDecl":
                    continue
                self.visit(c)
            self.stack.pop()
            self.held = saved
            return
        if k == "VarDecl":
            self.visit_children(n)
            if LOCK_TYPES.match(qt(n)) or LOCK_TYPES.match(dqt(n)):
                ms = self.lock_ctor_mutexes(n)
                allms = self.lock_ctor_mutexes(n, ignore_tags=True)
                blk = next((p for p in reversed(self.stack) if p["kind"] == "CompoundStmt"), None)
                if allms and blk is not None:
                    self.lockvars[n["id"]] = (frozenset(allms), blk.get("id"))
                if ms:
                    self.held.append((n["id"], frozenset(ms)))
            return
        if k == "CXXMemberCallExpr":
            cs = inner(n)
            if cs and cs[0]["kind"] == "MemberExpr" and cs[0].get("name") in ("unlock", "release", "lock"):
                nm = cs[0].get("name")
                base = self.strip(inner(cs[0])[0]) if inner(cs[0]) else None
                # a statement directly in a block: `x.lock();` can open a scope that lasts to the matching
                # unlock / the end of that block; anywhere else (branch, loop body statement) it is ignored
                blk = self.stack[-1] if self.stack and self.stack[-1]["kind"] == "CompoundStmt" else None
                if base is not None and base["kind"] == "DeclRefExpr":
                    vid = (base.get("referencedDecl") or {}).get("id")
                    if nm == "lock":
                        lv = self.lockvars.get(vid)
                        if lv and blk is not None and blk.get("id") == lv[1] and not any(h[0] == vid for h in self.held):
                            self.held.append((vid, lv[0]))
                    else:
                        self.held = [h for h in self.held if h[0] != vid]
                elif base is not None and base["kind"] == "MemberExpr":
                    f = self.tu.fields.get(base.get("referencedMemberDecl"))
                    if f and f[2] == "mutex" and self.base_is_this(base):
                        mk = "manual:%s::%s" % (f[0], f[1])
                        if nm == "lock":
                            if blk is not None and not any(h[0] == mk for h in self.held):
                                self.pending_manual = (mk, frozenset([(f[0], f[1])]))
                        else:
                            self.held = [h for h in self.held if h[0] != mk]
        if k == "MemberExpr":
            self.member(n)
        elif k == "DeclRefExpr":
            self.declref(n)
        elif k in ("CXXConstructExpr", "CXXTemporaryObjectExpr"):
            cid = (n.get("ctorType") and None)
            is_thread = qt(n) in ("std::thread", "class std::thread") or dqt(n) == "std::thread"
            if is_thread:
                if self.spawn_pos is None and self.refers_to_library_function(n):
                    self.spawn_pos = (n.get("_pos", ("", 0, 0))[1], n.get("_pos", ("", 0, 0))[2])
                self.in_thread_ctor += 1
                self.visit_children(n)
                self.in_thread_ctor -= 1
                return
        elif k == "CXXOperatorCallExpr":
            cs = inner(n)
            callee = self.strip(cs[0]) if cs else None
            if ((callee or {}).get("referencedDecl") or {}).get("name") == "operator()" and len(cs) > 1:
                obj = self.strip(cs[1])
                if obj is not None and obj["kind"] == "MemberExpr":
                    f = self.tu.fields.get(obj.get("referencedMemberDecl"))
                    if f and "std::function<" in f[3]:
                        self.add_call((f[0], f[1] + "$closure", ""), "direct", self.base_is_this(obj))
        self.visit_children(n)
        if k == "CXXMemberCallExpr" and self.pending_manual is not None:
            self.held.append(self.pending_manual)
            self.pending_manual = None

    WRAPPERS = ("MaterializeTemporaryExpr", "CXXBindTemporaryExpr", "ImplicitCastExpr", "CXXConstructExpr",
                "CXXFunctionalCastExpr", "ExprWithCleanups", "ParenExpr", "CXXTemporaryObjectExpr")

    def closure_target(self):
        """the std::function member a lambda is stored into (constructor initialiser or assignment), if any"""
        for p in reversed(self.stack):
            k = p["kind"]
            if k in self.WRAPPERS:
                continue
            if k == "CXXCtorInitializer":
                f = self.tu.fields.get((p.get("anyInit") or {}).get("id"))
                return f if f and "std::function<" in f[3] else None
            if k == "CXXOperatorCallExpr":
                cs = inner(p)
                lhs = self.strip(cs[1]) if len(cs) > 2 else None
                if lhs is not None and lhs["kind"] == "MemberExpr":
                    f = self.tu.fields.get(lhs.get("referencedMemberDecl"))
                    if f and "std::function<" in f[3]:
                        return f
            return None
        return None

    def lambda_is_call_argument(self):
        for p in reversed(self.stack):
            k = p["kind"]
            if k in ("MaterializeTemporaryExpr", "CXXBindTemporaryExpr", "ImplicitCastExpr", "CXXConstructExpr",
                     "CXXFunctionalCastExpr", "ExprWithCleanups", "ParenExpr", "CXXTemporaryObjectExpr"):
                continue
            return k in ("CXXMemberCallExpr", "CallExpr")
        return False

    def strip(self, n):
        while n is not None and n["kind"] in ("ImplicitCastExpr", "ParenExpr", "MaterializeTemporaryExpr", "CXXBindTemporaryExpr", "ExprWithCleanups"):
            cs = inner(n)
            n = cs[0] if cs else None
        return n

    def unlocked_in(self, n):
        out = set()
        if n["kind"] == "CXXMemberCallExpr":
            cs = inner(n)
            if cs and cs[0]["kind"] == "MemberExpr" and cs[0].get("name") in ("unlock", "release") and inner(cs[0]):
                b = self.strip(inner(cs[0])[0])
                if b is not None and b["kind"] == "DeclRefExpr":
                    out.add((b.get("referencedDecl") or {}).get("id"))
                elif b is not None and b["kind"] == "MemberExpr":
                    f = self.tu.fields.get(b.get("referencedMemberDecl"))
                    if f and f[2] == "mutex":
                        out.add("manual:%s::%s" % (f[0], f[1]))
        for c in inner(n):
            out |= self.unlocked_in(c)
        return out

    def lock_ctor_mutexes(self, var, ignore_tags=False):
        """mutex members of `this` locked by the constructor of a lock_guard/unique_lock/scoped_lock variable"""
        ms = []

        def scan(n, top):
            if NOLOCK_TAGS.search(qt(n)) and n["kind"] != "VarDecl":
                return True if ignore_tags else False
            if n["kind"] == "MemberExpr":
                f = self.tu.fields.get(n.get("referencedMemberDecl"))
                if f and f[2] == "mutex" and self.base_is_this(n):
                    ms.append((f[0], f[1]))
                return True
            ok = True
            for c in inner(n):
                ok = scan(c, False) and ok
            return ok

        good = True
        for c in inner(var):
            good = scan(c, True) and good
        return ms if good else []

    def base_is_this(self, m):
        cs = inner(m)
        b = self.strip(cs[0]) if cs else None
        while b is not None and b["kind"] in ("ImplicitCastExpr", "ParenExpr"):
            b = self.strip(b)
        return b is not None and b["kind"] == "CXXThisExpr"

    # ---- call edges
    def add_call(self, key, kind, on_this=False, node=None):
        pos = (node or {}).get("_pos", ("", 0, 0))
        c = {"callee": list(key), "kind": kind, "this": bool(on_this), "file": self.tu.rel(pos[0]) if pos[0] else "", "line": pos[1], "col": pos[2],
             "locks": ["%s::%s" % m for m in self.locks_now()] if on_this else [],
             # mutex members of the caller's `this` syntactically held at the call, whatever the callee's object
             "scope": ["%s::%s" % m for m in self.locks_now()]}
        if c not in self.calls:
            self.calls.append(c)

    def declref(self, n):
        r = n.get("referencedDecl") or {}
        sv = self.tu.fields.get(r.get("id"))
        if sv is not None and r.get("kind") == "VarDecl":
            self.row(sv, self.classify(n, sv), False, n)
            return
        key = self.tu.funcs.get(r.get("id"))
        if key is None:
            return
        parent = self.stack[-1] if self.stack else None
        grand = self.stack[-2] if len(self.stack) > 1 else None
        is_callee = (parent is not None and parent["kind"] == "ImplicitCastExpr" and parent.get("castKind") == "FunctionToPointerDecay"
                     and grand is not None and grand["kind"] in ("CallExpr", "CXXOperatorCallExpr", "CXXMemberCallExpr") and inner(grand)[0] is parent)
        if is_callee:
            self.add_call(key, "direct")
        else:
            self.add_call(key, "spawn" if self.in_thread_ctor else "ref")

    def member(self, m):
        rid = m.get("referencedMemberDecl")
        if rid in self.tu.funcs:
            key = self.tu.funcs[rid]
            parent = self.stack[-1] if self.stack else None
            if parent is not None and parent["kind"] == "CXXMemberCallExpr" and inner(parent)[0] is m:
                # a call `x.C::f()` with explicit qualification is not dispatched virtually
                self.add_call(key, "direct" if self.explicitly_qualified(m) else "member", self.base_is_this(m), m)
            else:
                self.add_call(key, "spawn" if self.in_thread_ctor else "ref")
            return
        f = self.tu.fields.get(rid)
        if f is None:
            return
        acc = self.classify(m, f)
        self.row(f, acc, self.base_is_this(m), m)
        if f[2] == "thread":
            file, line, col = m.get("_pos", ("", 0, 0))
            self.tops.append({"cls": f[0], "field": f[1], "op": self.thread_op(m), "file": self.tu.rel(file), "line": line})
        via = self.via_callee(m, f)
        if via is not None:
            self.rows[-1]["via"] = list(via)

    def refers_to_library_function(self, n):
        if n.get("kind") == "DeclRefExpr" and ((n.get("referencedDecl") or {}).get("id") in self.tu.funcs):
            return True
        return any(self.refers_to_library_function(c) for c in inner(n))

    def thread_op(self, m):
        """what is done to a std::thread member: spawn (assigned a thread constructed from a library
        function), join, joinable, detach, move (moved from / swapped / assigned another thread), query, other"""
        chain = list(reversed(self.stack))
        cur, i = m, 0
        while i < len(chain) and (chain[i]["kind"] == "ParenExpr" or (chain[i]["kind"] == "ImplicitCastExpr"
                                  and chain[i].get("castKind") in ("NoOp", "DerivedToBase", "UncheckedDerivedToBase"))):
            cur = chain[i]
            i += 1
        if i >= len(chain):
            return "other"
        p = chain[i]
        if p["kind"] == "MemberExpr" and inner(p) and inner(p)[0] is cur:
            nm = p.get("name", "")
            if nm in ("join", "detach", "joinable"):
                return nm
            if nm in ("get_id", "native_handle"):
                return "query"
            if nm == "swap":
                return "move"
            return "other"
        if p["kind"] == "CXXOperatorCallExpr":
            cs = inner(p)
            callee = self.strip(cs[0]) if cs else None
            nm = ((callee or {}).get("referencedDecl") or {}).get("name", "")
            if nm == "operator=" and len(cs) > 2 and cs[1] is cur:
                return "spawn" if self.refers_to_library_function(cs[2]) else "move"
            return "move"
        if p["kind"] == "CallExpr":
            return "move"          # std::move(t), std::swap(t, u), passed by reference
        return "other"

    def via_callee(self, m, f):
        """the member object (of a class type) is only used as the object of a call of a function of the
        library: the callee's own rows account for what is touched, not this use"""
        if f[2] in ("atomic", "mutex", "condvar", "plain"):
            return None
        chain = list(reversed(self.stack))
        cur, i = m, 0
        while i < len(chain) and (chain[i]["kind"] == "ParenExpr" or (chain[i]["kind"] == "ImplicitCastExpr"
                                  and chain[i].get("castKind") in ("NoOp", "DerivedToBase", "UncheckedDerivedToBase"))):
            cur = chain[i]
            i += 1
        if i >= len(chain):
            return None
        p = chain[i]
        if p["kind"] == "MemberExpr" and inner(p) and inner(p)[0] is cur:
            return self.tu.funcs.get(p.get("referencedMemberDecl"))
        if p["kind"] == "CXXOperatorCallExpr":
            cs = inner(p)
            if len(cs) > 1 and cs[1] is cur:
                callee = self.strip(cs[0])
                return self.tu.funcs.get(((callee or {}).get("referencedDecl") or {}).get("id"))
        return None

    def explicitly_qualified(self, m):
        # clang marks `Base::f()` calls by a nested name specifier; the JSON dump does not print it,
        # but such a call has a base expression cast to the base class and the callee belongs to a
        # different class than the static type of `this`; being conservative (virtual) is harmless.
        return False

    # ---- read / write classification
    def classify(self, m, f):
        kind = f[2]
        chain = list(reversed(self.stack))     # parent first
        cur = m
        i = 0
        if kind in ("atomic", "mutex", "condvar"):
            while i < len(chain) and chain[i]["kind"] in ("ImplicitCastExpr", "ParenExpr"):
                cur = chain[i]
                i += 1
            if i < len(chain):
                p = chain[i]
                if p["kind"] == "MemberExpr":
                    nm = p.get("name", "")
                    if nm == "load" or re.match(r"^operator [A-Za-z_]", nm):
                        return "r"
                    if nm == "store":
                        return "w"
                    return "rw"
                if p["kind"] == "CXXOperatorCallExpr":
                    cs = inner(p)
                    callee = self.strip(cs[0]) if cs else None
                    nm = ((callee or {}).get("referencedDecl") or {}).get("name", "")
                    if nm == "operator=" and len(cs) > 1 and cs[1] is cur:
                        return "w"
                    return "rw"
            return "rw"
        if qt(m).startswith("const ") and not f[3].startswith("const "):
            return "r"        # accessed through a const object (const member function): cannot be written
        while i < len(chain):
            p = chain[i]
            pk = p["kind"]
            if pk == "ParenExpr":
                cur = p
            elif pk == "ConditionalOperator":
                if inner(p) and inner(p)[0] is cur:
                    return "r"
                cur = p           # `c ? x_ : y_` used as an lvalue: decided by the use of the result
            elif pk == "ImplicitCastExpr":
                ck = p.get("castKind")
                if ck == "LValueToRValue":
                    return "r"
                if ck in ("NoOp", "DerivedToBase", "UncheckedDerivedToBase"):
                    if qt(p).startswith("const ") or " const" in qt(p).split("<")[0]:
                        return "r"
                    cur = p
                else:
                    return "w"
            elif pk == "BinaryOperator":
                if p.get("opcode") == "=" and inner(p) and inner(p)[0] is cur:
                    return "w"
                if p.get("opcode") == "," and inner(p) and inner(p)[-1] is cur:
                    cur = p
                else:
                    return "w" if p.get("opcode") in ("=",) else "w"
            elif pk == "CompoundAssignOperator":
                return "rw" if inner(p) and inner(p)[0] is cur else "w"
            elif pk == "UnaryOperator":
                if p.get("opcode") in ("++", "--"):
                    return "rw"
                return "w"
            elif pk == "MemberExpr":
                if inner(p) and inner(p)[0] is cur and p.get("referencedMemberDecl") in self.tu.fields:
                    cur = p          # sub-object access: decided by the use of the sub-object
                else:
                    # bound member function of the member object; a const member function would have
                    # required a cast of the object expression to a const type
                    return "w"
            elif pk == "ArraySubscriptExpr":
                cur = p
            elif pk == "CXXMemberCallExpr" or pk == "CXXOperatorCallExpr" or pk == "CallExpr":
                return "w"
            else:
                return "w"
            i += 1
        return "w"


def extract(args):
    repo, tu = args
    p = subprocess.run(clang_cmd(repo, tu), stdout=subprocess.PIPE, stderr=subprocess.PIPE, text=True)
    if p.returncode != 0:
        return {"tu": str(tu), "error": p.stderr[-3000:]}
    t = TU(load_objs(p.stdout), repo)
    classes = {}
    for name, c in t.classes.items():
        classes[name] = {"bases": c["bases"], "fields": c["fields"], "file": c["file"], "line": c["line"],
                         "methods": [[list(k), v] for k, v in c["methods"].items()]}
    bodies = [[list(k), v] for k, v in t.bodies.items()]
    return {"tu": str(tu), "classes": classes, "bodies": bodies}


# ----------------------------------------------------------------------------- whole program

def tree_hash(repo):
    h = hashlib.sha256(TOOL_VERSION.encode())
    h.update(Path(__file__).read_bytes())
    base = Path(repo) / "src/BayesFilters"
    for p in sorted(list(base.glob("src/*.cpp")) + list(base.glob("include/BayesFilters/*")) + [base / "CMakeLists.txt"]):
        h.update(str(p.relative_to(base)).encode())
        h.update(p.read_bytes())
    return h.hexdigest()[:24]


HOOKS_EXTRA = {("Logger", "log")}
MODEL_IFACES = [("MeasurementModel", "measurement_model_state"), ("LikelihoodModel", "likelihood_model_state"),
                ("ParticleSetInitialization", "initialization_state")]
ESC_RET = re.compile(r"(&|\*|\bEigen::(Ref|Map|Block)\s*<[^()]*>)\s*(const\s*)?$")


def translation_units(repo):
    """the sources the library is built from (CMakeLists.txt of the library; commented entries skipped);
    falls back to every src/*.cpp"""
    base = Path(repo) / "src/BayesFilters"
    cm = base / "CMakeLists.txt"
    tus = []
    if cm.exists():
        for line in cm.read_text().split("\n"):
            line = line.split("#", 1)[0]
            for m in re.finditer(r"\bsrc/[\w./-]+\.cpp\b", line):
                p = base / m.group(0)
                if p.exists() and p not in tus:
                    tus.append(p)
    if not tus:
        tus = list((base / "src").glob("*.cpp"))
    return sorted(tus)


def gather(repo, cache_dir=None, jobs=None):
    repo = Path(repo)
    key = tree_hash(repo)
    if cache_dir:
        cf = Path(cache_dir) / ("racetable-%s.json" % key)
        if cf.exists():
            try:
                return json.loads(cf.read_text())
            except Exception:
                pass
    tus = translation_units(repo)
    # per translation unit cache: key = tool + the unit's text + every header of the library
    hh = hashlib.sha256(TOOL_VERSION.encode())
    hh.update(Path(__file__).read_bytes())
    for p in sorted((repo / "src/BayesFilters/include/BayesFilters").glob("*")):
        hh.update(p.name.encode())
        hh.update(p.read_bytes())
    res, todo = [None] * len(tus), []
    for i, t in enumerate(tus):
        k = hashlib.sha256(hh.digest() + str(t).encode() + t.read_bytes()).hexdigest()[:24]
        cf = Path(cache_dir) / ("tu-%s.json" % k) if cache_dir else None
        if cf is not None and cf.exists():
            try:
                res[i] = json.loads(cf.read_text())
                continue
            except Exception:
                pass
        todo.append((i, cf))
    if todo:
        with ProcessPoolExecutor(max_workers=jobs or min(16, os.cpu_count() or 4)) as ex:
            got = list(ex.map(extract, [(str(repo), str(tus[i])) for i, _ in todo]))
        for (i, cf), r in zip(todo, got):
            res[i] = r
            if cf is not None and "error" not in r:
                cf.parent.mkdir(parents=True, exist_ok=True)
                tmp = cf.with_suffix(".tmp%d" % os.getpid())
                tmp.write_text(json.dumps(r))
                os.replace(tmp, cf)
    errs = [r for r in res if "error" in r]
    if errs:
        raise RuntimeError("clang failed on %s:\n%s" % (errs[0]["tu"], errs[0]["error"]))
    facts = merge(res)
    facts["tree_hash"] = key
    facts["translation_units"] = [str(Path(t).relative_to(repo)) for t in tus]
    if cache_dir:
        Path(cache_dir).mkdir(parents=True, exist_ok=True)
        tmp = Path(cache_dir) / ("racetable-%s.json.tmp%d" % (key, os.getpid()))
        tmp.write_text(json.dumps(facts))
        os.replace(tmp, Path(cache_dir) / ("racetable-%s.json" % key))
    return facts


def merge(res):
    classes, bodies = {}, {}
    for r in res:
        for name, c in r["classes"].items():
            d = classes.setdefault(name, {"bases": c["bases"], "fields": c["fields"], "methods": {}, "file": c["file"], "line": c["line"]})
            for k, v in c["methods"]:
                k = tuple(k)
                m = d["methods"].setdefault(k, dict(v))
                for fl in ("virtual", "pure", "deleted"):
                    m[fl] = m[fl] or v[fl]
        for k, b in r["bodies"]:
            k = tuple(k)
            d = bodies.setdefault(k, {"rows": [], "calls": [], "file": b["file"], "line": b["line"], "end_line": b.get("end_line", b["line"])})
            if b["file"].endswith(".cpp"):
                d["file"], d["line"], d["end_line"] = b["file"], b["line"], b.get("end_line", b["line"])
            for row in b["rows"]:
                if row not in d["rows"]:
                    d["rows"].append(row)
            for c in b["calls"]:
                if c not in d["calls"]:
                    d["calls"].append(c)
            for t in b.get("tops", []):
                if t not in d.setdefault("tops", []):
                    d["tops"].append(t)

    # class hierarchy
    def ancestors(c, seen=None):
        seen = seen if seen is not None else []
        for b in classes.get(c, {}).get("bases", []):
            b = b.split("<")[0]
            if b in classes and b not in seen:
                seen.append(b)
                ancestors(b, seen)
        return seen

    anc = {c: ancestors(c) for c in classes}
    desc = {c: [d for d in classes if c in anc[d]] for c in classes}

    # virtual-ness is inherited by overriders
    def is_virtual(c, name, sig):
        k = (c, name, sig)
        m = classes[c]["methods"].get(k)
        if m and m["virtual"]:
            return True
        for a in anc[c]:
            m = classes[a]["methods"].get((a, name, sig))
            if m and m["virtual"]:
                return True
        return False

    methods = {}   # key -> info
    for c, d in classes.items():
        for k, m in d["methods"].items():
            if m["implicit"] and k not in bodies:
                continue
            if m["deleted"]:
                continue
            methods[k] = {"cls": c, "name": k[1], "sig": k[2], "virtual": is_virtual(c, k[1], k[2]) if m["kind"] == "CXXMethodDecl" else False,
                          "pure": m["pure"], "kind": m["kind"], "body": k in bodies}
    for k, b in bodies.items():
        if k not in methods:
            methods[k] = {"cls": k[0], "name": k[1], "sig": k[2], "virtual": False, "pure": False, "kind": "FunctionDecl", "body": True}

    # call edges, virtual calls expanded over the hierarchy
    calls, sites, site_pos = [], [], []
    scope_sites = {}
    for k, b in bodies.items():
        for c in b["calls"]:
            callee = tuple(c["callee"])
            kind = c["kind"]
            targets = []
            if kind == "member":
                cls, name, sig = callee
                if cls in classes and is_virtual(cls, name, sig):
                    targets.append((callee, "direct"))
                    for d in desc.get(cls, []):
                        kk = (d, name, sig)
                        if kk in classes[d]["methods"] and not classes[d]["methods"][kk]["deleted"]:
                            targets.append((kk, "virtual"))
                else:
                    targets.append((callee, "direct"))
            else:
                targets.append((callee, kind))
                if kind in ("ref", "spawn"):
                    cls, name, sig = callee
                    if cls in classes and is_virtual(cls, name, sig):
                        for d in desc.get(cls, []):
                            kk = (d, name, sig)
                            if kk in classes[d]["methods"]:
                                targets.append((kk, kind))
            for t, kd in targets:
                if t not in methods:
                    methods[t] = {"cls": t[0], "name": t[1], "sig": t[2], "virtual": False, "pure": False, "kind": "external", "body": False}
                e = (k, t, kd)
                if e not in calls:
                    calls.append(e)
                sites.append((k, t, kd, bool(c.get("this")), tuple(c.get("locks", []))))
                sk = (k, t, kd)
                scope_sites[sk] = set(c.get("scope", [])) if sk not in scope_sites else (scope_sites[sk] & set(c.get("scope", [])))
                if c.get("line"):
                    site_pos.append((k, t, kd, bool(c.get("this")), c.get("file", ""), c["line"], c.get("col", 0)))

    fields = []
    for c in sorted(classes):
        for (name, kind, ty, line) in classes[c]["fields"]:
            fields.append({"cls": c, "name": name, "kind": kind, "type": ty, "file": classes[c]["file"], "line": line})
    mkeys = sorted(methods)
    # display names: Class::name, with an index when overloaded
    byname = {}
    for k in mkeys:
        byname.setdefault((k[0], k[1]), []).append(k)
    disp, name2, ovl = {}, {}, {}
    for (c, n), ks in byname.items():
        for i, k in enumerate(ks):
            base = ((c + "::" + n) if c else n).replace(" ", "_")
            name2[k] = base
            ovl[k] = 0 if len(ks) == 1 else i + 1
            disp[k] = base if len(ks) == 1 else "%s#%d" % (base, i + 1)
    mlist = []
    for k in mkeys:
        m = methods[k]
        b = bodies.get(k, {})
        mlist.append({"cls": m["cls"], "name": m["name"], "sig": m["sig"], "qual": disp[k], "name2": name2[k], "ovl": ovl[k], "virtual": m["virtual"], "pure": m["pure"],
                      "kind": m["kind"], "body": m["body"], "file": b.get("file", ""), "line": b.get("line", 0), "end_line": b.get("end_line", 0)})
    mid = {k: i for i, k in enumerate(mkeys)}
    fid = {(f["cls"], f["name"]): i for i, f in enumerate(fields)}
    # a function that hands out a reference / pointer / Eigen::Ref into its object: the access really happens where
    # the caller uses the result — copy the accessor's member rows to every call site (no lock credited)
    for (k, t, kd, th, file, line, col) in site_pos:
        if kd in ("direct", "virtual") and t in bodies and t in methods and ESC_RET.search(t[2].split("(")[0].strip()):
            for r in bodies[t]["rows"]:
                if r.get("kindhint") in ("atomic", "mutex", "condvar") or r.get("via") or r.get("from_accessor"):
                    continue
                nr = dict(r, locks=[], file=file or bodies[k]["file"], line=line, col=col, from_accessor=True)
                nr["self"] = bool(r["self"] and th)
                nr.pop("pre_spawn", None)
                if nr not in bodies[k]["rows"]:
                    bodies[k]["rows"].append(nr)
    # user hooks: the pure virtual functions declared by FilteringAlgorithm (initialization_step, filtering_step,
    # run_condition) and the logging hook Logger::log are implemented by user code that may touch any plain state
    # of the user's filter.  Every call of a hook is a write to the pseudo-member `user::hook_state`, at the call
    # site, with the locks in scope there: a hook invoked from a controller command then conflicts with the
    # filtering thread's own invocations like any other unsynchronised member.
    hooks = {k for k, m in methods.items() if (m["cls"] == "FilteringAlgorithm" and m["pure"]) or (k[0], k[1]) in HOOKS_EXTRA}
    # model interfaces implemented by user code and called by the filtering thread in every step: the pure virtual
    # functions of MeasurementModel (freeze, measure, predictedMeasure, innovation), LikelihoodModel::likelihood and
    # ParticleSetInitialization::initialize.  Each call is a write to the pseudo-member `user::<interface>_state`
    # at the call site, so that a controller command that reaches such a call (e.g. skip() freezing the measurement
    # model) conflicts with the filtering thread's own calls whatever the user's model looks like.
    hook_groups = [("hook_state", "state of the user's filter touched by its hooks", hooks)]
    for cls_name, fld in MODEL_IFACES:
        hs = {k for k, m in methods.items() if m["cls"] == cls_name and m["pure"]}
        hook_groups.append((fld, "state of the user's %s touched by its pure virtual functions" % cls_name, hs))
    lockmap = None
    for fld, descr, hs in hook_groups:
        hs = set(hs)
        hs |= {k for k in methods if any((h[1], h[2]) == (k[1], k[2]) and k[0] in desc.get(h[0], []) for h in list(hs))}
        hook_sites = [sp for sp in site_pos if sp[1] in hs and sp[2] in ("direct", "virtual")]
        if not hook_sites:
            continue
        classes.setdefault("user", {"bases": [], "fields": [], "methods": {}, "file": "", "line": 0})
        classes["user"]["fields"].append((fld, "plain", descr, 0))
        anc.setdefault("user", [])
        fields.append({"cls": "user", "name": fld, "kind": "plain", "type": "(pseudo-member)", "file": "", "line": 0})
        fid[("user", fld)] = len(fields) - 1
        if lockmap is None:
            lockmap = {}
            for (a, b, kd, th, lk) in sites:
                key = (a, b, kd, th)
                # several call sites of the same callee in one function: only locks in scope at all of them
                lockmap[key] = set(lk) if key not in lockmap else (lockmap[key] & set(lk))
        # The pseudo-object behind a model interface is the model *owned* (unique_ptr) by the object whose member
        # function makes the call: the row counts as an access through `this` of that function, so that mutex
        # members of `this` in scope at the call site (and, through the entry locksets, in every caller on `this`)
        # are credited — a command that calls into the model under the mutex the filtering thread also takes
        # around its own calls obeys the discipline.  Hooks are called on `this` anyway.
        owned = fld != "hook_state"
        for (k, t, kd, th, file, line, col) in hook_sites:
            if k not in bodies:
                continue
            is_method = bool(k[0]) and k[0] in classes
            slf = bool(th) or (owned and is_method)
            nr = {"cls": "user", "field": fld, "acc": "w", "self": slf, "kindhint": "plain",
                  "locks": sorted(lockmap.get((k, t, kd, th), ()) if th else scope_sites.get((k, t, kd), ())) if slf else [],
                  "file": file or bodies[k]["file"], "line": line, "col": 0}
            if nr not in bodies[k]["rows"]:
                bodies[k]["rows"].append(nr)
    accesses, via_rows = [], []
    for k in mkeys:
        for r in bodies.get(k, {}).get("rows", []):
            if (r["cls"], r["field"]) not in fid:
                continue
            if r.get("pre_spawn"):
                via_rows.append({"meth": mid[k], "field": fid[(r["cls"], r["field"])], "line": r["line"], "via": "before the thread is created"})
                continue
            if r.get("via") and tuple(r["via"]) in bodies:
                # object of a call into the library: the callee's rows say what is touched
                via_rows.append({"meth": mid[k], "field": fid[(r["cls"], r["field"])], "line": r["line"], "via": disp.get(tuple(r["via"]), "?")})
                continue
            accesses.append({"meth": mid[k], "field": fid[(r["cls"], r["field"])], "acc": r["acc"], "self": r["self"],
                             "locks": sorted(fid[tuple(l.split("::", 1))] for l in r["locks"] if tuple(l.split("::", 1)) in fid),
                             "file": r["file"], "line": r["line"], "col": r["col"]})
    accesses.sort(key=lambda a: (a["meth"], a["file"], a["line"], a["col"], a["field"], a["acc"]))
    thread_ops = []
    for k in mkeys:
        for t in bodies.get(k, {}).get("tops", []):
            if (t["cls"], t["field"]) in fid:
                thread_ops.append({"meth": mid[k], "field": fid[(t["cls"], t["field"])], "op": t["op"], "file": t["file"], "line": t["line"]})
    thread_ops.sort(key=lambda t: (t["meth"], t["line"], t["op"]))
    clist = sorted({(mid[a], mid[b], kd) for a, b, kd in calls})
    slist = sorted({(mid[a], mid[b], kd, th, tuple(sorted(fid[tuple(l.split("::", 1))] for l in lk if tuple(l.split("::", 1)) in fid)))
                    for a, b, kd, th, lk in sites})
    return {"fields": fields, "methods": mlist, "accesses": accesses, "accesses_via": via_rows, "thread_ops": thread_ops,
            "calls": [{"caller": a, "callee": b, "kind": kd} for a, b, kd in clist],
            "call_sites": [{"caller": a, "callee": b, "kind": kd, "this": th, "locks": list(lk)} for a, b, kd, th, lk in slist],
            "scope_locks": [{"caller": mid[a], "callee": mid[b], "kind": kd,
                             "locks": sorted(fid[tuple(l.split("::", 1))] for l in lk if tuple(l.split("::", 1)) in fid)}
                            for (a, b, kd), lk in sorted(scope_sites.items(), key=lambda x: (mid[x[0][0]], mid[x[0][1]], x[0][2])) if lk],
            "classes": {c: {"bases": classes[c]["bases"], "ancestors": anc[c]} for c in sorted(classes)}}


# ----------------------------------------------------------------------------- discipline (mirror of BFL/Model/Race.lean)

def role_roots(model_path):
    """the role map is hand-written in lean/BFL/Model/Race.lean; read the two name lists from there"""
    txt = Path(model_path).read_text()
    out = {}
    for role, d in (("controller", "controllerRoots"), ("filter", "filterRoots")):
        m = re.search(r"def %s\s*:\s*List Nat\s*:=\s*\[(.*?)\]" % d, txt, re.S)
        if not m:
            raise RuntimeError("role map %s not found in %s" % (d, model_path))
        out[role] = re.findall(r'name%\s*"([^"]+)"', m.group(1))
    return out


EXTENDED_CONTROLLER = ["Logger::enable_log", "Logger::disable_log", "Logger::get_folder_path", "Logger::get_file_name_prefix"]


def advisory_extended_role(facts, roots):
    """What would be undisciplined if the owner also called the logging configuration functions from its
    thread while the filter runs.  They are not control / query commands of the property (not part of the
    obligation); reported as information only."""
    ext = {"controller": list(roots["controller"]) + EXTENDED_CONTROLLER, "filter": list(roots["filter"])}
    base = {v["name"] for v in discipline(facts, roots)["verdicts"] if not v["ok"]}
    d = discipline(facts, ext)
    return sorted(v["name"] for v in d["verdicts"] if not v["ok"] and v["name"] not in base)


def apply_entry_locks(facts, roots):
    """Interprocedural part of the lock recognition: a function that is only ever called, on `this`, from
    places where a lock on mutex member m of `this` is in scope (or from functions with that property)
    executes with m held.  Greatest fixed point of
        entry(g) = ∩ over call sites f -> g of (entry(f) ∪ locks(site))   if the call is on `this`, else ∅
    with entry = ∅ for the entry points of the role map, for functions nobody calls and for functions
    whose address is taken.  The effective lockset of a row is its syntactic lockset ∪ entry(function)."""
    M, A, S = facts["methods"], facts["accesses"], facts.get("call_sites", [])
    names = set(n for ns in roots.values() for n in ns)
    incoming = {}
    for c in S:
        incoming.setdefault(c["callee"], []).append(c)
    TOP = None
    entry = {}
    for i, m in enumerate(M):
        inc = incoming.get(i, [])
        if m["name2"] in names or not inc or any(c["kind"] in ("ref", "spawn") or not c["this"] for c in inc):
            entry[i] = frozenset()
        else:
            entry[i] = TOP
    changed = True
    while changed:
        changed = False
        for i in range(len(M)):
            if entry[i] == frozenset():
                continue
            acc = TOP
            for c in incoming.get(i, []):
                e = entry[c["caller"]]
                contrib = TOP if e is TOP else frozenset(e | set(c["locks"]))
                if contrib is TOP:
                    continue
                acc = contrib if acc is TOP else (acc & contrib)
            if acc is not TOP and acc != entry[i]:
                entry[i] = acc
                changed = True
    for m in M:
        m["escapes"] = bool(m["body"] and ESC_RET.search(m["sig"].split("(")[0].strip()))
    for a in A:
        a.setdefault("locks_syntactic", list(a["locks"]))
        e = entry.get(a["meth"])
        if M[a["meth"]]["escapes"]:
            # the function hands out a reference / pointer / Eigen::Ref: what it refers to may be used after
            # every scope has been left, so no lock is credited to the member accesses inside it
            a["locks"] = []
        elif a["self"] and e:
            a["locks"] = sorted(set(a["locks_syntactic"]) | set(e))
        else:
            a["locks"] = list(a["locks_syntactic"])
    facts["entry_locks"] = {M[i]["qual"]: sorted(e) for i, e in entry.items() if e}
    guard_model_calls(facts, roots)
    return facts


def guard_model_calls(facts, roots):
    """A control command that calls into a user model object *under a mutex of the calling object* (every
    controller-reachable row of a model pseudo-member carries a non-empty effective lockset).  Whether the
    filtering thread's own calls of that interface take the same mutex cannot be decided from the table: the
    pseudo-member is one location per *interface* for all model objects of all prediction / correction classes
    (a Gaussian correction's measurement model and a particle-filter correction's are the same pseudo-member),
    and the filtering thread also calls the interface from free functions and from other owner classes whose
    mutexes are different members.  Such rows are therefore taken out of the table and listed in
    facts["guarded_model_calls"]: the check records them (note, not alarm) and ThreadSanitizer decides — a race
    reported at those call sites / in the model is then an unpredicted report, i.e. a violation with a replay.
    A controller row *without* a lock stays in the table and makes the pseudo-member undisciplined as before."""
    F, M, A, C = facts["fields"], facts["methods"], facts["accesses"], facts["calls"]
    S = {i for i, m in enumerate(M) if m["name2"] in roots.get("controller", ())}
    changed = True
    while changed:
        changed = False
        for c in C:
            if c["kind"] != "spawn" and c["caller"] in S and c["callee"] not in S:
                S.add(c["callee"]); changed = True
    # Calls made by a controller-reachable function on an object other than `this` while a mutex of `this` is held
    # at every such call site (syntactic lockset ∪ entry lockset of the caller): the lock belongs to the caller's
    # object, the members touched behind the call belong to the callee's object — the lockset discipline as
    # formalised (`Justified`: the row's locks are held on the object whose member is accessed; necessary, see
    # `same_object_necessary`) cannot credit it, although it does protect the callee when the callee is owned
    # exclusively by the caller and the filtering thread takes the same mutex around its calls.  These edges are
    # removed from the call graph and listed in facts["guarded_calls"]; what lies behind them is judged by
    # ThreadSanitizer alone (a race there is an unpredicted report = violation with replay).
    by_pair = {}
    for cs in facts.get("call_sites", []):
        by_pair.setdefault((cs["caller"], cs["callee"], cs["kind"]), []).append(cs)
    scope = {(x["caller"], x["callee"], x["kind"]): set(x["locks"]) for x in facts.get("scope_locks", [])}
    elocks = {}
    for i, m in enumerate(M):
        elocks[i] = set(facts.get("entry_locks", {}).get(m["qual"], ()))
    gcalls = []
    for (a, b, kd), lst in by_pair.items():
        held = scope.get((a, b, kd), set()) | elocks.get(a, set())
        if a in S and kd in ("direct", "virtual") and held and all(not cs["this"] for cs in lst):
            gcalls.append((a, b, kd, sorted(held)))
    if gcalls:
        gs = {(a, b, kd) for a, b, kd, _ in gcalls}
        facts["calls"][:] = [c for c in C if (c["caller"], c["callee"], c["kind"]) not in gs]
        facts["call_sites"][:] = [c for c in facts["call_sites"] if (c["caller"], c["callee"], c["kind"]) not in gs]
    facts["guarded_calls"] = [{"caller": M[a]["qual"], "callee": M[b]["qual"], "kind": kd,
                               "locks": [F[l]["cls"] + "::" + F[l]["name"] for l in held]} for a, b, kd, held in gcalls]
    names = {fld for _, fld in MODEL_IFACES}
    guarded = []
    for fi, f in enumerate(F):
        if f["cls"] != "user" or f["name"] not in names:
            continue
        rows = [a for a in A if a["field"] == fi and a["meth"] in S]
        if rows and all(a["self"] and a["locks"] for a in rows):
            for a in rows:
                guarded.append({"interface": f["name"], "function": M[a["meth"]]["qual"], "file": a["file"], "line": a["line"],
                                "locks": [F[l]["cls"] + "::" + F[l]["name"] for l in a["locks"]]})
            facts["accesses"][:] = [a for a in A if not (a["field"] == fi and a["meth"] in S)]
            A = facts["accesses"]
    facts["guarded_model_calls"] = guarded


def discipline(facts, roots):
    """Python mirror of Table.reach / Table.undisciplined / Table.witness (the Lean definitions are the
    ones the theorems are about; `table_undisciplined_exact` re-checks this list in the kernel)."""
    F, M, A, C = facts["fields"], facts["methods"], facts["accesses"], facts["calls"]
    reach, rootids = {}, {}
    for role, names in roots.items():
        S = {i for i, m in enumerate(M) if m["name2"] in names}
        rootids[role] = sorted(S)
        changed = True
        while changed:
            changed = False
            for c in C:
                if c["kind"] != "spawn" and c["caller"] in S and c["callee"] not in S:
                    S.add(c["callee"])
                    changed = True
        reach[role] = S
    rc = [a for a in A if a["meth"] in reach["controller"]]
    rf = [a for a in A if a["meth"] in reach["filter"]]

    def sync(f):
        return F[f]["kind"] in ("atomic", "mutex", "condvar")

    def pair_ok(a, b):
        return (a["acc"] == "r" and b["acc"] == "r") or sync(a["field"]) or (a["self"] and b["self"] and bool(set(a["locks"]) & set(b["locks"])))

    shared = sorted({a["field"] for a in rc} & {b["field"] for b in rf})
    verdicts = []
    for f in shared:
        wit = None
        for a in rc:
            if a["field"] != f:
                continue
            for b in rf:
                if b["field"] == f and not pair_ok(a, b):
                    wit = (a, b)
                    break
            if wit:
                break
        verdicts.append({"field": f, "name": F[f]["cls"] + "::" + F[f]["name"], "kind": F[f]["kind"], "ok": wit is None,
                         "witness": None if wit is None else {"controller": wit[0], "filter": wit[1]}})
    # thread handles (mirror of Table.joinCertifiedIn)
    TO = facts.get("thread_ops", [])
    SC, SF = reach["controller"], reach["filter"]
    is_thread = lambda f: F[f]["kind"] == "thread"
    nm = lambda i: M[i]["name2"]
    BOOT, WAIT = "FilteringAlgorithm::boot", "FilteringAlgorithm::wait"
    hp = []
    for o in TO:
        where = "%s (%s:%d)" % (M[o["meth"]]["qual"], o["file"].split("/")[-1], o["line"])
        h = F[o["field"]]["cls"] + "::" + F[o["field"]]["name"]
        if o["meth"] in SF:
            hp.append({"key": "%s:%s" % (M[o["meth"]]["qual"], o["op"]), "what": "the filtering thread operates on the thread handle %s: %s in %s" % (h, o["op"], where)})
        if o["meth"] in SC:
            ok = (o["op"] == "spawn" and nm(o["meth"]) == BOOT) or (o["op"] == "join" and nm(o["meth"]) == WAIT) or o["op"] in ("joinable", "query")
            if not ok:
                hp.append({"key": "%s:%s" % (M[o["meth"]]["qual"], o["op"]),
                           "what": "%s performs `%s` on the thread handle %s: the join in wait() no longer orders the filtering thread's accesses before what follows wait()" % (where, o["op"], h)})
    if not any(o["op"] == "join" and nm(o["meth"]) == WAIT and o["meth"] in SC for o in TO):
        hp.append({"key": "FilteringAlgorithm::wait:no-join", "what": "wait() contains no join() of the filtering thread"})
    for a in A:
        if is_thread(a["field"]) and (a["meth"] in SF or (a["meth"] in SC and nm(a["meth"]) not in (BOOT, WAIT))):
            k = "%s:access" % M[a["meth"]]["qual"]
            if not any(p["key"].startswith(M[a["meth"]]["qual"] + ":") for p in hp):
                hp.append({"key": k, "what": "%s (%s:%d) touches the thread handle %s::%s outside boot()/wait()" % (
                    M[a["meth"]]["qual"], a["file"].split("/")[-1], a["line"], F[a["field"]]["cls"], F[a["field"]]["name"])})
    missing = {role: [n for n in names if not any(m["name2"] == n for m in M)] for role, names in roots.items()}
    return {"join_certified": not hp, "handle_problems": hp,
            "roots": rootids, "reach": {r: sorted(s) for r, s in reach.items()}, "shared": shared, "verdicts": verdicts, "missing_roots": missing}


# ----------------------------------------------------------------------------- independent textual cross-check

def strip_code(text):
    """blank out comments and string / character literals (keeps line structure)"""
    out, i, n = [], 0, len(text)
    while i < n:
        c = text[i]
        if text.startswith("//", i):
            while i < n and text[i] != "\n":
                i += 1
        elif text.startswith("/*", i):
            j = text.find("*/", i + 2)
            j = n if j < 0 else j + 2
            out.append("".join(ch if ch == "\n" else " " for ch in text[i:j]))
            i = j
        elif c in "\"'":
            q = c
            out.append(" ")
            i += 1
            while i < n and text[i] != q:
                i += 2 if text[i] == "\\" else 1
            i += 1
        else:
            out.append(c)
            i += 1
    return "".join(out)


def token_oracle(facts, repo):
    """Independent of the AST walk: inside the source extent of every member function, every occurrence of
    an identifier that is the name of a data member (ending in `_`, the library's convention) of the
    function's class or of one of its bases must be matched by a row (function, member) of the table.
    -> list of {function, member, file, line} the translator has no row for"""
    F, M, A = facts["fields"], facts["methods"], facts["accesses"]
    classes = facts["classes"]
    have = {(a["meth"], F[a["field"]]["cls"], F[a["field"]]["name"]) for a in A}
    have_any = {(a["meth"], F[a["field"]]["name"]) for a in A} | {(a["meth"], F[a["field"]]["name"]) for a in facts.get("accesses_via", [])}
    closure_rows = [(M[a["meth"]]["file"], a["line"], F[a["field"]]["name"]) for a in A if "$closure" in M[a["meth"]]["name"]]
    for mi, m in enumerate(M):
        if m["body"] and m.get("end_line"):
            for (cf, cl, cn) in closure_rows:
                if cf == m["file"] and m["line"] <= cl <= m["end_line"]:
                    have_any.add((mi, cn))
    fields_of = {}
    for f in F:
        fields_of.setdefault(f["cls"], set()).add(f["name"])
    texts, missing = {}, []
    for mi, m in enumerate(M):
        if not m["body"] or not m["file"] or m["cls"] not in classes or not m.get("end_line") or "$closure" in m["name"]:
            continue
        names = {}
        for c in [m["cls"]] + classes[m["cls"]]["ancestors"]:
            for n in fields_of.get(c, ()):
                if n.endswith("_"):
                    names.setdefault(n, c)
        if not names:
            continue
        if m["file"] not in texts:
            try:
                texts[m["file"]] = strip_code((Path(repo) / m["file"]).read_text()).split("\n")
            except OSError:
                texts[m["file"]] = []
        lines = texts[m["file"]][m["line"] - 1:m["end_line"]]
        for off, ln in enumerate(lines):
            for tok in set(re.findall(r"[A-Za-z_][A-Za-z0-9_]*", ln)):
                if tok in names and (mi, tok) not in have_any:
                    missing.append({"function": m["qual"], "member": names[tok] + "::" + tok, "file": m["file"], "line": m["line"] + off})
    return missing


# ----------------------------------------------------------------------------- Lean emission

def lstr(s):
    return '"' + s.replace("\\", "\\\\").replace('"', '\\"') + '"'


def code(s):
    """BFL.Race.encodeName"""
    n = 0
    for ch in s:
        n = n * 256 + ord(ch)
    return n


def encode_table(facts):
    """the table as the token list of the driver's `c10` entries (lean/BFL/Driver/Race.lean)"""
    F, M, A, C = facts["fields"], facts["methods"], facts["accesses"], facts["calls"]
    fk = {"atomic": 0, "plain": 1, "mutex": 2, "condvar": 3, "other": 4, "thread": 5}
    tk = {"spawn": 0, "join": 1, "joinable": 2, "detach": 3, "move": 4, "query": 5, "other": 6}
    TO = facts.get("thread_ops", [])
    ak = {"r": 0, "w": 1, "rw": 2}
    ck = {"direct": 0, "virtual": 1, "ref": 2, "spawn": 3}
    t = [len(F), len(M), len(A), len(C), len(TO)]
    for f in F:
        t += [code(f["cls"]), code(f["name"]), fk[f["kind"]]]
    for m in M:
        t += [code(m["name2"]), m["ovl"], int(m["virtual"]), int(m["body"])]
    for a in A:
        t += [a["meth"], a["field"], ak[a["acc"]], int(a["self"]), a["line"], len(a["locks"])] + list(a["locks"])
    for c in C:
        t += [c["caller"], c["callee"], ck[c["kind"]]]
    for o in TO:
        t += [o["meth"], o["field"], tk[o["op"]], o["line"]]
    return " ".join(str(x) for x in t)


def lean_ident(s):
    return re.sub(r"[^A-Za-z0-9_]", "_", s)


def emit_lean(facts, disc=None):
    F, M, A, C = facts["fields"], facts["methods"], facts["accesses"], facts["calls"]
    out = []
    w = out.append
    w("import BFL.Model.Race")
    w("/-! GENERATED by tools/racetable.py from the clang AST of the library sources — do not edit.")
    w("    (%d translation units, tool %s)" % (len(facts.get("translation_units", [])), TOOL_VERSION))
    w("    Shared-variable access table of property C10: data members with their declared kind,")
    w("    member accesses per function with syntactic locksets, call edges. -/")
    w("set_option maxRecDepth 100000")
    w("namespace BFL.RaceTable")
    w("open BFL.Race")
    w("")
    w("/-- data members: class, name, declared kind (index in this list = field id) -/")
    w("def fields : List Field := [")
    for i, f in enumerate(F):
        w("  ⟨%d, %d, .%s⟩%s -- %d %s::%s" % (code(f["cls"]), code(f["name"]), f["kind"], "," if i + 1 < len(F) else "", i, f["cls"], f["name"]))
    w("]")
    w("")
    w("/-- functions: qualified name, overload index, virtual, has a body in the library (index = function id) -/")
    w("def methods : List Method := [")
    for i, m in enumerate(M):
        w("  ⟨%d, %d, %s, %s⟩%s -- %d %s %s" % (code(m["name2"]), m["ovl"], "true" if m["virtual"] else "false", "true" if m["body"] else "false",
                                               "," if i + 1 < len(M) else "", i, m["qual"], m["sig"][:80]))
    w("]")
    w("")
    CH = 60
    nchunks = (len(A) + CH - 1) // CH
    for c in range(nchunks):
        w("def accesses%d : List Access := [" % c)
        part = A[c * CH:(c + 1) * CH]
        for i, a in enumerate(part):
            acc = {"r": "read", "w": "write", "rw": "rmw"}[a["acc"]]
            w("  ⟨%d, %d, .%s, %s, [%s], %d⟩%s -- %s %s.%s %s:%d" % (
                a["meth"], a["field"], acc, "true" if a["self"] else "false", ", ".join(str(x) for x in a["locks"]), a["line"],
                "," if i + 1 < len(part) else "", M[a["meth"]]["qual"], F[a["field"]]["cls"], F[a["field"]]["name"], a["file"].split("/")[-1], a["line"]))
        w("]")
    w("/-- member accesses: function, field, kind, object is `this`, mutex members of `this` syntactically held, line -/")
    w("def accesses : List Access := " + (" ++ ".join("accesses%d" % c for c in range(nchunks)) if nchunks else "[]"))
    w("")
    nchunks = (len(C) + 2 * CH - 1) // (2 * CH)
    for c in range(nchunks):
        w("def calls%d : List Call := [" % c)
        part = C[c * 2 * CH:(c + 1) * 2 * CH]
        for i, e in enumerate(part):
            w("  ⟨%d, %d, .%s⟩%s -- %s -> %s" % (e["caller"], e["callee"], {"direct": "direct", "virtual": "virt", "ref": "ref", "spawn": "spawn"}[e["kind"]],
                                                "," if i + 1 < len(part) else "", M[e["caller"]]["qual"], M[e["callee"]]["qual"]))
        w("]")
    w("/-- call edges (virtual calls already expanded to the overriders known in the library) -/")
    w("def calls : List Call := " + (" ++ ".join("calls%d" % c for c in range(nchunks)) if nchunks else "[]"))
    w("")
    w("/-- operations on std::thread members: function, field, operation, line -/")
    w("def threadOps : List ThreadOp := [")
    TO = facts.get("thread_ops", [])
    for i, t in enumerate(TO):
        w("  ⟨%d, %d, .%s, %d⟩%s -- %s %s.%s" % (t["meth"], t["field"], t["op"], t["line"], "," if i + 1 < len(TO) else "",
                                              M[t["meth"]]["qual"], F[t["field"]]["cls"], F[t["field"]]["name"]))
    w("]")
    w("")
    w("def table : Table := ⟨fields, methods, accesses, calls, threadOps⟩")
    w("")
    if disc is not None:
        bad = [v for v in disc["verdicts"] if not v["ok"]]
        w("/-! Claims of the translator's own evaluation (tools/racetable.py `discipline`), each re-checked in the")
        w("    kernel against the definitions of BFL/Model/Race.lean by the theorems of BFL/Proofs/RaceTable.lean. -/")
        w("")
        w("/-- ids of the entry points of each role (`Table.rootIds`) -/")
        w("def rootsClaim : Role → List Nat")
        for role in ("controller", "filter"):
            w("  | .%s => [%s]" % (role, ", ".join(str(i) for i in disc["roots"][role])))
        w("")
        w("/-- bit set of the functions reachable by each role (`Table.reach`) -/")
        w("def reachClaim : Role → Nat")
        for role in ("controller", "filter"):
            w("  | .%s => %d" % (role, sum(1 << i for i in disc["reach"][role])))
        w("")
        w("/-- ids of the members touched by both roles (`Table.shared`) -/")
        w("def sharedClaim : List Nat := [%s]" % ", ".join(str(f) for f in disc["shared"]))
        w("")
        w("/-- the translator's own evaluation of the discipline: ids of the members it found undisciplined.")
        w("    Re-checked in the kernel by `BFL.C10.table_undisciplined_exact`. -/")
        w("def claimedUndisciplined : List Nat := [%s]" % ", ".join(str(v["field"]) for v in bad))
        w("")
        for v in bad:
            a, b = v["witness"]["controller"], v["witness"]["filter"]
            w("/-- `%s` (%s): %s by `%s` (%s:%d) on the controller thread, %s by `%s` (%s:%d) on the filtering" % (
                v["name"], v["kind"], {"r": "read", "w": "written", "rw": "read-modify-written"}[a["acc"]], M[a["meth"]]["qual"], a["file"].split("/")[-1], a["line"],
                {"r": "read", "w": "written", "rw": "read-modify-written"}[b["acc"]], M[b["meth"]]["qual"], b["file"].split("/")[-1], b["line"]))
            w("    thread; not a synchronisation object, no common mutex. -/")
            w("theorem %s_counterexample :\n    table.fieldOKIn (reachClaim .controller) (reachClaim .filter) %d = false := by decide +kernel" % (lean_ident(v["name"]), v["field"]))
            w("")
    w("end BFL.RaceTable")
    return "\n".join(out) + "\n"


def main():
    ap = argparse.ArgumentParser()
    ap.add_argument("--repo", default=os.environ.get("BFL_REPO", "/repo"))
    here = Path(__file__).resolve().parent.parent
    ap.add_argument("--out", default=str(here / "lean/BFL/Gen/RaceTable.lean"))
    ap.add_argument("--json", default=None)
    ap.add_argument("--cache", default=None)
    ap.add_argument("--model", default=str(here / "lean/BFL/Model/Race.lean"))
    a = ap.parse_args()
    facts = gather(a.repo, a.cache)
    apply_entry_locks(facts, role_roots(a.model))
    disc = discipline(facts, role_roots(a.model))
    facts["discipline"] = disc
    txt = emit_lean(facts, disc)
    outp = Path(a.out)
    outp.parent.mkdir(parents=True, exist_ok=True)
    if not outp.exists() or outp.read_text() != txt:
        outp.write_text(txt)
    if a.json:
        Path(a.json).write_text(json.dumps(facts, indent=1))
    print("fields=%d functions=%d accesses=%d calls=%d" % (len(facts["fields"]), len(facts["methods"]), len(facts["accesses"]), len(facts["calls"])))


if __name__ == "__main__":
    main()
