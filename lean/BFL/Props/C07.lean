import BFL.Model.Resample
import BFL.Proofs.ResampleSet
import BFL.Proofs.ResamplePrior
import BFL.Proofs.ResampleSortIndep
import Mathlib.Tactic.NormNum
/-
C07 — Resampling is a faithful low-variance selection with uniform output weights.

Theorems about the model in `BFL/Model/Resample.lean`:
  `resampleIdx ws u₁`     the parents `Resampling::resample` reports for linear-domain weights
                          `ws = [exp w₀, …, exp w_{N-1}]` and offset `u₁`
  `resample cor res u₁`   the same on particle sets (copies, output weights)
  `neff`, `neffLog`       effective sample size
  `resampleWithPrior`     the prior-mixing variant.

The selection theorems hold over every linearly ordered field `α` (with a floor where counting is
involved): they are about `ℝ`, and they apply literally to the `ℚ` instance the correspondence run
executes (see the `example`s at the end).  Hypotheses, as in the property: `N ≥ 1` (implied by the
others), weights non-negative with sum 1, `0 < u₁ < 1/N`.
-/
namespace BFL
open PF
set_option linter.unusedSectionVars false

section selection
variable {α : Type} [Field α] [LinearOrder α] [IsStrictOrderedRing α] [Inhabited α]

/-- as many parents as particles -/
theorem sel_length (ws : List α) (u1 : α) : (resampleIdx ws u1).length = ws.length :=
  resampleIdx_length ws u1

/-- every parent is a valid particle index -/
theorem sel_range (ws : List α) (u1 : α) : ∀ p ∈ resampleIdx ws u1, p < ws.length :=
  fun p hp => resampleIdx_mem_lt ws u1 p hp

/-- parents are non-decreasing -/
theorem sel_monotone (ws : List α) (u1 : α) : (resampleIdx ws u1).Pairwise (· ≤ ·) :=
  resampleIdx_pairwise ws u1

/-- For *any* weights (normalised or not) parent `j` is the least index `i` whose cumulative weight
    `w₀ + … + wᵢ` reaches the comb point `u_j = u₁ + j/N`, **or** `N - 1` if there is none: this
    is the whole effect of the clamp `idx_csw < num_particles - 1` in the `while`. -/
theorem sel_char_clamped (ws : List α) (u1 : α) (j : Nat) (hj : j < (resampleIdx ws u1).length) :
    IsLeast {i | comb ws.length u1 j ≤ (ws.take (i + 1)).sum ∨ i = ws.length - 1} (resampleIdx ws u1)[j] := by
  rw [resampleIdx_getElem]
  exact ptr_isLeast_clamped (cum ws) ws.length u1 j

/-- For normalised weights and `u₁ < 1/N` the last cumulative weight (= 1) reaches every comb
    point, so the clamp never decides, and parent `j` is the least `i` with `u_j ≤ w₀ + … + wᵢ`. -/
theorem sel_char (ws : List α) (u1 : α) (hs : ws.sum = 1) (hu1 : u1 < 1 / (ws.length : α))
    (j : Nat) (hj : j < (resampleIdx ws u1).length) :
    comb ws.length u1 j ≤ (ws.take (ws.length - 1 + 1)).sum ∧
    IsLeast {i | comb ws.length u1 j ≤ (ws.take (i + 1)).sum} (resampleIdx ws u1)[j] := by
  have hj' : j < ws.length := by rwa [resampleIdx_length] at hj
  have hlast : comb ws.length u1 j ≤ cum ws (ws.length - 1) := by
    rw [cum_last ws (by omega), hs]; exact (comb_lt_one _ u1 j hj' hu1).le
  refine ⟨hlast, ?_⟩
  rw [resampleIdx_getElem]
  exact ptr_isLeast (cum ws) ws.length u1 j hlast

variable [FloorRing α]

/-- particle `i` is replicated a number of times that differs from `N·wᵢ` by less than one -/
theorem sel_count_bound (ws : List α) (u1 : α) (hw : ∀ x ∈ ws, 0 ≤ x) (hs : ws.sum = 1)
    (hu0 : 0 < u1) (hu1 : u1 < 1 / (ws.length : α)) (i : Nat) (hi : i < ws.length) :
    |((resampleIdx ws u1).count i : α) - (ws.length : α) * ws[i]| < 1 :=
  count_bound ws u1 hw hs hu0 hu1 i hi

/-- a particle of weight zero is never selected -/
theorem sel_zero_weight (ws : List α) (u1 : α) (hw : ∀ x ∈ ws, 0 ≤ x) (hs : ws.sum = 1)
    (hu0 : 0 < u1) (hu1 : u1 < 1 / (ws.length : α)) (i : Nat) (hi : i < ws.length) (h0 : ws[i] = 0) :
    i ∉ resampleIdx ws u1 := by
  have h := sel_count_bound ws u1 hw hs hu0 hu1 i hi
  rw [h0, mul_zero, sub_zero, abs_lt] at h
  have : (resampleIdx ws u1).count i = 0 := by
    have h2 : ((resampleIdx ws u1).count i : α) < 1 := h.2
    exact_mod_cast Nat.lt_one_iff.1 (by exact_mod_cast h2)
  exact List.count_eq_zero.1 this

/-- a particle of weight at least `1/N` is always selected -/
theorem sel_heavy_weight (ws : List α) (u1 : α) (hw : ∀ x ∈ ws, 0 ≤ x) (hs : ws.sum = 1)
    (hu0 : 0 < u1) (hu1 : u1 < 1 / (ws.length : α)) (i : Nat) (hi : i < ws.length)
    (hh : 1 / (ws.length : α) ≤ ws[i]) :
    i ∈ resampleIdx ws u1 := by
  have h := sel_count_bound ws u1 hw hs hu0 hu1 i hi
  have hN : (0 : α) < (ws.length : α) := by exact_mod_cast (by omega : 0 < ws.length)
  have h1 : 1 ≤ (ws.length : α) * ws[i] := by
    have := mul_le_mul_of_nonneg_left hh hN.le
    rwa [mul_one_div_cancel hN.ne'] at this
  rw [abs_lt] at h
  have hpos : (0 : α) < ((resampleIdx ws u1).count i : α) := by linarith [h.1]
  have : 0 < (resampleIdx ws u1).count i := by exact_mod_cast hpos
  exact List.count_pos_iff.1 this

end selection

/-- The hypothesis `0 < u₁` is forced: with `u₁ = 0`, particle 0 of weight zero *is* selected.
    (`uniform_real_distribution<double>(0, 1/N)` can return exactly 0, with probability 2⁻⁵³ per
    draw; the correspondence run asserts `0 < u₁` on every draw it observes.) -/
theorem sel_u1_zero_counterexample :
    (∀ x ∈ ([0, 1] : List ℚ), 0 ≤ x) ∧ ([0, 1] : List ℚ).sum = 1 ∧
    (0 : ℚ) < 1 / (([0, 1] : List ℚ).length : ℚ) ∧ ([0, 1] : List ℚ)[0] = 0 ∧
    0 ∈ resampleIdx ([0, 1] : List ℚ) 0 := by
  refine ⟨by simp, by norm_num, by norm_num, rfl, ?_⟩
  rw [resampleIdx_eq]
  simp only [List.length_cons, List.length_nil, List.mem_map, List.mem_range]
  refine ⟨0, by norm_num, ?_⟩
  simp [ptr, advance, comb, cum]

section sets
variable {π : Type} [Inhabited π]

/-- output particle `j` is the input particle at the parent reported for `j`
    (`π` stands for the state, mean and covariance columns of one particle) -/
theorem sel_copy (cor res : PSet π ℝ) (u1 : ℝ) (hc : cor.parts.length = cor.logw.length)
    (j : Nat) (hj : j < cor.logw.length) :
    ∃ (p : Nat) (hp : p < cor.parts.length),
      (resampleIdx (cor.logw.map Real.exp) u1)[j]? = some p ∧
      (resample cor res u1).2[j]? = some (p : Int) ∧
      (resample cor res u1).1.parts[j]? = some cor.parts[p] :=
  resample_copy cor res u1 hc j hj

/-- the parents reported by the set-level operation are those of the selection on `exp wᵢ` -/
theorem sel_parents (cor res : PSet π ℝ) (u1 : ℝ) :
    (resample cor res u1).2 = (resampleIdx (cor.logw.map Real.exp) u1).map Int.ofNat := rfl

/-- into a set of `N` particles: `N` output particles, all log-weights `-log N` (with `0 < N`, the
    argument of the `log`), which are normalised: `Σ exp = 1` and their log-sum-exp is `0`;
    count and layout fields of the destination are not touched -/
theorem sel_weights_uniform (cor res : PSet π ℝ) (u1 : ℝ) (hN : 0 < cor.logw.length)
    (hr : res.logw.length = cor.logw.length) (hrp : res.parts.length = cor.logw.length) :
    (resample cor res u1).1.logw = List.replicate cor.logw.length (-(Real.log (cor.logw.length : ℝ))) ∧
    (resample cor res u1).1.parts.length = cor.logw.length ∧
    (0 : ℝ) < (cor.logw.length : ℝ) ∧
    (((resample cor res u1).1.logw).map Real.exp).sum = 1 ∧
    logSumExp (resample cor res u1).1.logw = 0 ∧
    (resample cor res u1).1.n = res.n ∧ (resample cor res u1).1.lin = res.lin ∧
    (resample cor res u1).1.circ = res.circ ∧ (resample cor res u1).1.quat = res.quat := by
  have h1 : (resample cor res u1).1.logw = List.replicate cor.logw.length (-(Real.log (cor.logw.length : ℝ))) := by
    rw [resample_logw, List.drop_eq_nil_of_le (by omega), List.append_nil]
  refine ⟨h1, ?_, by exact_mod_cast hN, ?_, ?_, rfl, rfl, rfl, rfl⟩
  · rw [resample_parts]; simp [resampleIdx_length]; omega
  · rw [h1]; exact sum_exp_uniform _ hN
  · rw [h1]; exact logSumExp_uniform _ hN

/-- Object level: in a sequence of calls on one resampling object, call `i` behaves exactly as a single
    call with its own set and its own draw — all the per-call theorems above apply to every call,
    whatever the particle counts, layouts and weights of the earlier calls were. -/
theorem sel_calls_independent (calls : List (PSet π ℝ × PSet π ℝ)) (us : List ℝ) (i : Nat)
    (hi : i < calls.length) (hu : i < us.length) :
    (resampleSeq calls us).length = min calls.length us.length ∧
    (resampleSeq calls us)[i]? = some (resample calls[i].1 calls[i].2 us[i]) := by
  constructor
  · simp [resampleSeq]
  · simp [resampleSeq, List.getElem?_zipWith, List.getElem?_eq_getElem hi, List.getElem?_eq_getElem hu]

end sets

section neffs
variable {α : Type} [Field α] [LinearOrder α] [IsStrictOrderedRing α]

/-- `neff = 1/Σ wᵢ²` lies in `[1, N]` for normalised non-negative weights; the denominator is positive -/
theorem neff_bounds (ws : List α) (hw : ∀ x ∈ ws, 0 ≤ x) (hs : ws.sum = 1) :
    0 < (ws.map (fun x => x * x)).sum ∧ neff ws = 1 / (ws.map (fun x => x * x)).sum ∧
    1 ≤ neff ws ∧ neff ws ≤ (ws.length : α) := by
  obtain ⟨h1, h2, h3⟩ := neff_bounds' ws hw hs
  exact ⟨h1, rfl, h2, h3⟩

end neffs

/-- `Resampling::neff` on normalised log-weights: `1 / Σ exp(wᵢ)²  ∈ [1, N]` -/
theorem neffLog_bounds (logw : List ℝ) (hs : (logw.map Real.exp).sum = 1) :
    neffLog logw = 1 / (logw.map (fun w => Real.exp w * Real.exp w)).sum ∧
    1 ≤ neffLog logw ∧ neffLog logw ≤ (logw.length : ℝ) := by
  have hw : ∀ x ∈ logw.map Real.exp, 0 ≤ x := by
    intro x hx; obtain ⟨w, _, rfl⟩ := List.mem_map.1 hx; exact (Real.exp_pos w).le
  obtain ⟨_, h2, h3⟩ := neff_bounds' (logw.map Real.exp) hw hs
  have e : neffLog logw = neff (logw.map Real.exp) := rfl
  rw [List.length_map] at h3
  refine ⟨?_, by rw [e]; exact h2, by rw [e]; exact h3⟩
  unfold neffLog neff
  simp [List.map_map, Function.comp_def]

section prior
variable {π : Type} [Inhabited π]

/-- `⌊ratio·N⌋ < N` for `ratio ∈ [0, 1)`: at least one particle is resampled -/
theorem prior_count_lt (ratio : ℝ) (cor : PSet π ℝ) (h1 : ratio < 1) (hN : 0 < cor.parts.length) :
    numPrior (fun x => ⌊x⌋₊) ratio cor < cor.parts.length := by
  unfold numPrior
  have hNr : (0 : ℝ) < (cor.parts.length : ℝ) := by exact_mod_cast hN
  rw [Nat.floor_lt' (by omega)]
  nlinarith

/-- Prior-mixing variant, sizes: with `k = ⌊ratio·N⌋` the result has component count `N`, `N` columns,
    the layout (linear / circular / quaternion flag) of the input, all weights `-log N`; the parent vector has `N` entries, the first `k`
    are `-1`, no other entry is (`count (-1) = k`), the others lie in `[k, N)` and are non-decreasing;
    the first `k` particles are the fresh draws of the initialisation model. -/
theorem prior_counts (sortIdx : List ℝ → List Nat) (init : PSet π ℝ → PSet π ℝ) (ratio : ℝ) (cor : PSet π ℝ) (u1 : ℝ)
    (hs : SortPerm sortIdx) (hi : InitKeepsShape init) (hc : cor.logw.length = cor.parts.length)
    (h1 : ratio < 1) (hN : 0 < cor.parts.length) :
    let k := ⌊(cor.parts.length : ℝ) * ratio⌋₊
    let out := resampleWithPrior (fun x => ⌊x⌋₊) sortIdx init ratio cor u1
    k < cor.parts.length ∧
    out.1.n = cor.parts.length ∧ out.1.parts.length = cor.parts.length ∧
    out.1.lin = cor.lin ∧ out.1.circ = cor.circ ∧ out.1.quat = cor.quat ∧
    out.1.logw = List.replicate cor.parts.length (-(Real.log (cor.parts.length : ℝ))) ∧
    out.2.length = cor.parts.length ∧
    out.2.take k = List.replicate k (-1) ∧ out.2.count (-1) = k ∧
    (∀ p ∈ out.2.drop k, (k : Int) ≤ p ∧ p < (cor.parts.length : Int)) ∧
    (out.2.drop k).Pairwise (· ≤ ·) ∧
    out.1.parts.take k = (init (PSet.fresh k cor.lin cor.circ cor.quat)).parts := by
  intro k out
  have hk := prior_count_lt ratio cor h1 hN
  have hk' : numPrior (fun x => ⌊x⌋₊) ratio cor ≤ cor.parts.length := hk.le
  obtain ⟨a1, a2, a3, a4, a4', a5⟩ := rwp_shape (fun x => ⌊x⌋₊) sortIdx init ratio cor u1 hs.len hi hc hk'
  obtain ⟨b1, b2, b3, b4⟩ := rwp_parents_shape (fun x => ⌊x⌋₊) sortIdx init ratio cor u1 hs.len hi hc hk'
  exact ⟨hk, a1, a2, a3, a4, a4', a5, b1, b2,
    rwp_count_neg_one (fun x => ⌊x⌋₊) sortIdx init ratio cor u1 hs.len hi hc hk', b3, b4,
    rwp_left_parts (fun x => ⌊x⌋₊) sortIdx init ratio cor u1 hs.len hi hc hk'⟩

/-- Prior-mixing variant, content: every output `j ≥ k` is a copy of the input particle that sits
    at sorted position `k + q` (ascending weight), where `k + q` is the parent reported for `j`:
    the survivors are drawn from all but the `k` lowest-weight particles (`prior_dropped_lowest`). -/
theorem prior_copy (sortIdx : List ℝ → List Nat) (init : PSet π ℝ → PSet π ℝ) (ratio : ℝ) (cor : PSet π ℝ) (u1 : ℝ)
    (hs : SortPerm sortIdx) (hi : InitKeepsShape init) (hc : cor.logw.length = cor.parts.length)
    (h1 : ratio < 1) (hN : 0 < cor.parts.length)
    (j : Nat) (hj1 : ⌊(cor.parts.length : ℝ) * ratio⌋₊ ≤ j) (hj2 : j < cor.parts.length) :
    ∃ (q i : Nat) (hi : i < cor.parts.length),
      ⌊(cor.parts.length : ℝ) * ratio⌋₊ + q < cor.parts.length ∧
      (sortIdx (cor.logw.map Real.exp))[⌊(cor.parts.length : ℝ) * ratio⌋₊ + q]? = some i ∧
      (resampleWithPrior (fun x => ⌊x⌋₊) sortIdx init ratio cor u1).2[j]? = some ((⌊(cor.parts.length : ℝ) * ratio⌋₊ + q : Nat) : Int) ∧
      (resampleWithPrior (fun x => ⌊x⌋₊) sortIdx init ratio cor u1).1.parts[j]? = some cor.parts[i] :=
  rwp_right_copy (fun x => ⌊x⌋₊) sortIdx init ratio cor u1 hs hi hc (prior_count_lt ratio cor h1 hN).le j hj1 hj2

/-- the `k` sorted positions left out of the temporary set carry weights no larger than any kept one -/
theorem prior_dropped_lowest (sortIdx : List ℝ → List Nat) (ha : SortAsc sortIdx) (v : List ℝ) (k a b : Nat)
    (ha' : a < k) (hb : k ≤ b) (hb' : b < (sortIdx v).length) :
    v.getD ((sortIdx v).getD a 0) 0 ≤ v.getD ((sortIdx v).getD b 0) 0 :=
  dropped_lowest sortIdx ha v k a b ha' hb hb'

/-- the temporary set handed to the inner resampling is normalised (so the selection theorems apply to it) -/
theorem prior_tmp_normalised (sortIdx : List ℝ → List Nat) (hs : SortPerm sortIdx) (cor : PSet π ℝ) (k : Nat)
    (hc : cor.logw.length = cor.parts.length) (hk : k < cor.parts.length) :
    (((priorTmp sortIdx cor k).logw).map Real.exp).sum = 1 := by
  have hl : (sortIdx (cor.logw.map Real.exp)).length = cor.parts.length := by rw [hs.len]; simp [hc]
  simp only [priorTmp]
  apply sum_exp_normalizeLog
  intro h
  have := congrArg List.length h
  simp at this
  have e : (Transc.exp : ℝ → ℝ) = Real.exp := rfl
  rw [e, hl] at this
  omega

/-- "resamples the rest": the parents after the first `k` are C07's systematic selection on the
    (normalised) temporary set, offset by `k`; hence every kept particle — sorted position `k + q` — is
    replicated a number of times within one of `(N - k)` times its renormalised weight. -/
theorem prior_resamples_rest (sortIdx : List ℝ → List Nat) (init : PSet π ℝ → PSet π ℝ) (ratio : ℝ) (cor : PSet π ℝ) (u1 : ℝ)
    (hs : SortPerm sortIdx) (hc : cor.logw.length = cor.parts.length)
    (h1 : ratio < 1) (hN : 0 < cor.parts.length)
    (hu0 : 0 < u1) (hu1 : u1 < 1 / ((cor.parts.length - ⌊(cor.parts.length : ℝ) * ratio⌋₊ : ℕ) : ℝ)) :
    let k := ⌊(cor.parts.length : ℝ) * ratio⌋₊
    let ws := (priorTmp sortIdx cor k).logw.map Real.exp
    (resampleWithPrior (fun x => ⌊x⌋₊) sortIdx init ratio cor u1).2.drop k
      = (resampleIdx ws u1).map (fun (p : Nat) => (p : Int) + (k : Int)) ∧
    ws.length = cor.parts.length - k ∧ ws.sum = 1 ∧ (∀ x ∈ ws, 0 ≤ x) ∧
    (∀ q (hq : q < ws.length), |((resampleIdx ws u1).count q : ℝ) - (ws.length : ℝ) * ws[q]| < 1) := by
  intro k ws
  have hk : k < cor.parts.length := prior_count_lt ratio cor h1 hN
  have hlen : ws.length = cor.parts.length - k := by
    simp only [ws, List.length_map]
    exact priorTmp_logw_length sortIdx hs.len cor k hc
  have hsum : ws.sum = 1 := prior_tmp_normalised sortIdx hs cor k hc hk
  have hnn : ∀ x ∈ ws, 0 ≤ x := by
    intro x hx; obtain ⟨w, _, rfl⟩ := List.mem_map.1 hx; exact (Real.exp_pos w).le
  refine ⟨?_, hlen, hsum, hnn, ?_⟩
  · have : (resampleWithPrior (fun x => ⌊x⌋₊) sortIdx init ratio cor u1).2 =
        List.replicate k (-1) ++ ((resampleIdx ws u1).map Int.ofNat).map (fun p => p + (k : Int)) := by
      rw [rwp_parents, resample_parents]; rfl
    rw [this, List.drop_left' (by simp), List.map_map]
    rfl
  · intro q hq
    exact sel_count_bound ws u1 hnn hsum hu0 (by rw [hlen]; exact hu1) q hq

/-- The counting statement lifted to the prior variant and to *input* particles: every input particle `i` sits
    at exactly one sorted position `pos`; if `pos < k = ⌊ratio·N⌋` it is one of the replaced ones and no output
    reports it as parent; otherwise the number of outputs whose parent is `pos` (which are copies of particle
    `i`: `prior_copy`) differs from `(N - k)` times its renormalised weight by less than one. -/
theorem prior_count_bound_input (sortIdx : List ℝ → List Nat) (init : PSet π ℝ → PSet π ℝ) (ratio : ℝ) (cor : PSet π ℝ) (u1 : ℝ)
    (hs : SortPerm sortIdx) (hc : cor.logw.length = cor.parts.length)
    (h1 : ratio < 1) (hN : 0 < cor.parts.length)
    (hu0 : 0 < u1) (hu1 : u1 < 1 / ((cor.parts.length - ⌊(cor.parts.length : ℝ) * ratio⌋₊ : ℕ) : ℝ))
    (i : Nat) (hi : i < cor.parts.length) :
    let k := ⌊(cor.parts.length : ℝ) * ratio⌋₊
    let ws := (priorTmp sortIdx cor k).logw.map Real.exp
    let par := (resampleWithPrior (fun x => ⌊x⌋₊) sortIdx init ratio cor u1).2
    ∃ pos, pos < cor.parts.length ∧ (sortIdx (cor.logw.map Real.exp))[pos]? = some i ∧
      (pos < k → par.count (pos : Int) = 0) ∧
      (k ≤ pos → ∃ hq : pos - k < ws.length,
        |((par.count (pos : Int) : ℕ) : ℝ) - (ws.length : ℝ) * ws[pos - k]| < 1) := by
  intro k ws par
  obtain ⟨hdrop, hlen, _, _, hcnt⟩ := prior_resamples_rest sortIdx init ratio cor u1 hs hc h1 hN hu0 hu1
  have hl : (sortIdx (cor.logw.map Real.exp)).length = cor.parts.length := by rw [hs.len]; simp [hc]
  have hmem : i ∈ sortIdx (cor.logw.map Real.exp) := by
    rw [(hs _).mem_iff]; simp [hc, hi]
  obtain ⟨pos, hpos, hget⟩ := List.getElem_of_mem hmem
  have hpar : par = List.replicate k (-1) ++ (resampleIdx ws u1).map (fun (p : Nat) => (p : Int) + (k : Int)) := by
    have : par = List.replicate k (-1) ++ ((resampleIdx ws u1).map Int.ofNat).map (fun p => p + (k : Int)) := by
      show (resampleWithPrior (fun x => ⌊x⌋₊) sortIdx init ratio cor u1).2 = _
      rw [rwp_parents, resample_parents]; rfl
    rw [this, List.map_map]; rfl
  have hrep : (List.replicate k (-1 : Int)).count (pos : Int) = 0 := by
    rw [List.count_replicate]; simp
  refine ⟨pos, by omega, by rw [List.getElem?_eq_getElem hpos, hget], ?_, ?_⟩
  · intro hlt
    rw [hpar, List.count_append, hrep, Nat.zero_add, List.count_eq_zero]
    intro hm
    obtain ⟨p, _, hp⟩ := List.mem_map.1 hm
    omega
  · intro hge
    have hq : pos - k < ws.length := by rw [hlen]; omega
    refine ⟨hq, ?_⟩
    have hinj : Function.Injective (fun (p : Nat) => (p : Int) + (k : Int)) := by
      intro a b h; simp only at h; omega
    have e : (pos : Int) = (fun (p : Nat) => (p : Int) + (k : Int)) (pos - k) := by simp only; omega
    rw [hpar, List.count_append, hrep, Nat.zero_add, e, List.count_map_of_injective _ _ hinj]
    exact hcnt (pos - k) hq

/-- `std::sort` is not stable: the order among particles of equal weight is unspecified.  The weights read
    along the sorted order are the same for every admissible sort (an ascending arrangement is unique), so the
    normalised weights of the temporary set, the parents the variant reports (sorted positions) and the output
    weights do not depend on how ties are broken — for ties at the cut `⌊ratio·N⌋` as for any others. -/
theorem prior_sort_independent (s1 s2 : List ℝ → List Nat) (hp1 : SortPerm s1) (ha1 : SortAsc s1)
    (hp2 : SortPerm s2) (ha2 : SortAsc s2) (init : PSet π ℝ → PSet π ℝ) (ratio : ℝ) (cor : PSet π ℝ) (u1 : ℝ)
    (hi : InitKeepsShape init) (hc : cor.logw.length = cor.parts.length) (h1 : ratio < 1) (hN : 0 < cor.parts.length) :
    (priorTmp s1 cor ⌊(cor.parts.length : ℝ) * ratio⌋₊).logw = (priorTmp s2 cor ⌊(cor.parts.length : ℝ) * ratio⌋₊).logw ∧
    (resampleWithPrior (fun x => ⌊x⌋₊) s1 init ratio cor u1).2 = (resampleWithPrior (fun x => ⌊x⌋₊) s2 init ratio cor u1).2 ∧
    (resampleWithPrior (fun x => ⌊x⌋₊) s1 init ratio cor u1).1.logw = (resampleWithPrior (fun x => ⌊x⌋₊) s2 init ratio cor u1).1.logw := by
  have h := rwp_sort_indep (fun x => ⌊x⌋₊) s1 s2 hp1 ha1 hp2 ha2 init ratio cor u1 hi hc (prior_count_lt ratio cor h1 hN).le
  exact ⟨priorTmp_logw_sort_indep s1 s2 hp1 ha1 hp2 ha2 cor _, h.1, h.2⟩

/-- … and the particle found at a sorted position can differ between two admissible sorts only by a particle of
    the *same* weight: "the `⌊ratio·N⌋` lowest-weight particles are replaced" is well defined up to ties. -/
theorem prior_ties_only_among_equal_weights (s1 s2 : List ℝ → List Nat) (hp1 : SortPerm s1) (ha1 : SortAsc s1)
    (hp2 : SortPerm s2) (ha2 : SortAsc s2) (w : List ℝ) (p : Nat) :
    ((s1 (w.map Real.exp))[p]?.map fun i => w.toArray.getD i default) =
    ((s2 (w.map Real.exp))[p]?.map fun i => w.toArray.getD i default) :=
  sorted_position_weight_indep s1 s2 hp1 ha1 hp2 ha2 w p

/-- Refinement: the parent vector of the model of `ResamplingWithPrior::resample` (index sort with unspecified
    tie-breaking, temporary particle set, inner `Resampling::resample`, concatenation) is the one of the
    specification `rwpSpecParents`, which is written on weight values alone: sort the log-weights, drop the
    `⌊ratio·N⌋` lowest, normalise, select systematically, offset, prepend `⌊ratio·N⌋` times `-1`. -/
theorem prior_refines_sort_split_resample (sortIdx : List ℝ → List Nat) (hp : SortPerm sortIdx) (ha : SortAsc sortIdx)
    (init : PSet π ℝ → PSet π ℝ) (ratio : ℝ) (cor : PSet π ℝ) (u1 : ℝ) (hc : cor.logw.length = cor.parts.length) :
    (resampleWithPrior (fun x => ⌊x⌋₊) sortIdx init ratio cor u1).2 = rwpSpecParents (fun x => ⌊x⌋₊) ratio cor.logw u1 ∧
    rwpSpecParents (fun x => ⌊x⌋₊) ratio cor.logw u1 =
      List.replicate ⌊(cor.logw.length : ℝ) * ratio⌋₊ (-1) ++
        (resampleIdx ((normalizeLog ((cor.logw.mergeSort (fun a b => decide (a ≤ b))).drop ⌊(cor.logw.length : ℝ) * ratio⌋₊)).map Real.exp) u1).map
          (fun (p : Nat) => (p : Int) + (⌊(cor.logw.length : ℝ) * ratio⌋₊ : Int)) :=
  ⟨rwp_refines_spec (fun x => ⌊x⌋₊) sortIdx hp ha init ratio cor u1 hc, rfl⟩

/-- the two contracts on `sort_indices` are satisfiable together: a merge sort of the indices by weight -/
theorem prior_sort_contract_satisfiable : SortPerm mergeSortIdx ∧ SortAsc mergeSortIdx :=
  ⟨mergeSortIdx_perm, mergeSortIdx_asc⟩

end prior

/-! ### Objects obtained by move: must behave as the original configured object -/

/-- a move-constructed `ResamplingWithPrior` has the ratio, generator and model of the original -/
theorem rwp_move_construct_keeps_config (src : RwpObj ℝ) :
    src.moveConstruct.1 = src := rfl

/-- a move-assigned `ResamplingWithPrior` has the ratio, generator and model of the source, whatever
    the target was configured with (fix f722f03; before it `prior_ratio_` was not assigned and the
    target kept its own ratio — re-introducing that is reported under key `rwp-move-assign-config`) -/
theorem rwp_move_assign_keeps_config (tgt src : RwpObj ℝ) :
    (tgt.moveAssign src).1 = src := rfl

/-- the hypothesis-free statement is not vacuous and matters: for the witness that exposed the defect
    (source ratio `0.3` assigned onto an object configured with `0.5`, `N = 2`) the assigned object
    replaces `⌊0.3·2⌋ = 0` particles, where the target's own ratio would have given `⌊0.5·2⌋ = 1` -/
example : ((⟨0.5, [], true⟩ : RwpObj ℝ).moveAssign ⟨0.3, [], true⟩).1.ratio = 0.3 ∧
    ⌊(2 : ℝ) * 0.3⌋₊ = 0 ∧ ⌊(2 : ℝ) * 0.5⌋₊ = 1 := by
  refine ⟨rfl, ?_, ?_⟩
  · rw [Nat.floor_eq_zero]; norm_num
  · rw [Nat.floor_eq_iff (by norm_num)]; norm_num

/-! ### Construction and hand-over as a state machine (every overload, any history) -/

/-- the constructor overloads without a seed build `Resampling(1)`; the one without a ratio keeps the in-class
    default `prior_ratio_ = 0.5` -/
theorem rs_constructor_defaults (r : ℝ) :
    (RsCtor.rsDefault : RsCtor ℝ).build = (RsCtor.rs 1).build ∧
    (RsCtor.rwp2 r).build = (RsCtor.rwp3 r 1).build ∧
    (RsCtor.rwp1 : RsCtor ℝ).build = (RsCtor.rwp3 0.5 1).build ∧
    ((RsCtor.rs 7 : RsCtor ℝ).build).drawn = 0 ∧ ((RsCtor.rwp3 r 7).build).prior = true :=
  ⟨rfl, rfl, rfl, rfl, rfl⟩

/-- History level: through any sequence of `resample()` calls, copy / move constructions and copy / move
    assignments (onto objects of any configuration) the object in use has the class, the prior ratio and the seed
    of the original, and its generator has produced exactly one draw per call served — by the original or by any
    of its successors: call `i` of the history uses draw `i` of the original's stream (`sel_calls_independent`
    then gives the per-call behaviour). -/
theorem rs_object_history (c : RsCfg ℝ) (ops : List (RsOp ℝ)) :
    (c.run ops).prior = c.prior ∧ (c.run ops).ratio = c.ratio ∧ (c.run ops).seed = c.seed ∧
    (c.run ops).drawn = c.drawn + (ops.filter RsOp.isCall).length := by
  induction ops generalizing c with
  | nil => exact ⟨rfl, rfl, rfl, rfl⟩
  | cons op ops ih =>
    have h := ih (c.apply op)
    have hrun : c.run (op :: ops) = (c.apply op).run ops := rfl
    rw [hrun]
    cases op <;> simp only [RsCfg.apply, List.filter_cons, RsOp.isCall] at h ⊢ <;>
      exact ⟨h.1, h.2.1, h.2.2.1, by rw [h.2.2.2]; simp; try omega⟩

/-- non-vacuity: the history of the defect witness (f722f03) — an object built with ratio `0.3`, move-assigned
    onto one built with ratio `0.5` and seed `999`, then used twice -/
example : let o := ((RsCtor.rwp3 (0.3 : ℝ) 5).build).run [.moveAssign ((RsCtor.rwp3 0.5 999).build), .call, .call]
    o.ratio = 0.3 ∧ o.seed = 5 ∧ o.drawn = 2 ∧ o.prior = true := by
  intro o
  have h := rs_object_history ((RsCtor.rwp3 (0.3 : ℝ) 5).build) [.moveAssign ((RsCtor.rwp3 0.5 999).build), .call, .call]
  exact ⟨h.2.1, h.2.2.1, by rw [h.2.2.2]; rfl, h.1⟩

/-! ### Non-vacuity and literal applicability to the executed `ℚ` instance -/

/-- the hypotheses of the selection theorems are satisfiable on a non-trivial instance, and the
    theorems apply to core `Rat` with the instances the driver executes -/
example : |(((resampleIdx ([1/2, 0, 1/4, 1/4] : List ℚ) (1/8)).count 0 : ℚ)) - 4 * (1/2)| < 1 := by
  have h := sel_count_bound ([1/2, 0, 1/4, 1/4] : List ℚ) (1/8) (by simp) (by norm_num) (by norm_num) (by norm_num) 0 (by simp)
  simpa using h

example : 1 ∉ resampleIdx ([1/2, 0, 1/4, 1/4] : List ℚ) (1/8) :=
  sel_zero_weight _ _ (by simp) (by norm_num) (by norm_num) (by norm_num) 1 (by simp) (by simp)

/-- the contracts of the prior variant are satisfiable -/
example : SortPerm (fun v => List.range v.length) ∧ InitKeepsShape (fun (s : PSet ℕ ℝ) => s) :=
  ⟨fun _ => List.Perm.refl _, ⟨fun _ => rfl, fun _ => rfl, fun _ => rfl, fun _ => rfl, fun _ => rfl, fun _ => rfl⟩⟩

example : (1 : ℚ) ≤ neff ([1/2, 0, 1/4, 1/4] : List ℚ) ∧ neff ([1/2, 0, 1/4, 1/4] : List ℚ) ≤ 4 := by
  obtain ⟨_, _, h1, h2⟩ := neff_bounds ([1/2, 0, 1/4, 1/4] : List ℚ) (by simp) (by norm_num)
  exact ⟨h1, by simpa using h2⟩

end BFL
