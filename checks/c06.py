"""C06 — The SIS recursion keeps a normalised, fixed-size, correctly re-weighted particle set.

The real `SIS` filter thread is run for scripted histories (skip commands, failing acquisition, invalid and
vanishing likelihoods); after every step the protected particle sets are observed from a subclass and compared
with `sisStep` (lean/BFL/Model/SIS.lean, executed over Float), and the property's predicates are evaluated on the
implementation's own output."""
import math
from fractions import Fraction

import vlib
from vlib import hexd, unhex, frac_of_hex
from checks.c07 import cum_sums, within_slack, is_minus_log_n

EPS = 2.0 ** -52
TINY = 2.2250738585072014e-308      # std::numeric_limits<double>::min()
NEG_INF = float("-inf")


def sexp(x):
    try:
        return math.exp(x)
    except OverflowError:
        return math.inf


def lse(xs):
    m = max(xs)
    if m == NEG_INF or m == math.inf or m != m:
        return m
    return m + math.log(math.fsum(sexp(x - m) for x in xs))


# --------------------------------------------------------------------------- generation

LIK_STYLES = ["ones", "random", "random", "peaked", "zeros", "allzero", "tiny", "onehot", "huge", "twohot"]


def gen_lik(r, style, n):
    if style == "ones":
        return [1.0] * n
    if style == "random":
        return [r.random() for _ in range(n)]
    if style == "peaked":
        l = [r.uniform(0, 1e-6) for _ in range(n)]
        l[r.randrange(n)] = r.uniform(0.5, 2.0)
        return l
    if style == "zeros":
        return [0.0 if r.random() < 0.5 else r.random() for _ in range(n)]
    if style == "allzero":
        return [0.0] * n
    if style == "tiny":
        return [r.choice([1e-300, 1e-310, 0.0, 1e-200]) for _ in range(n)]
    if style == "onehot":
        l = [0.0] * n
        l[r.randrange(n)] = 1.0
        return l
    if style == "twohot":
        l = [0.0] * n
        for i in r.sample(range(n), min(2, n)):
            l[i] = 1.0
        return l
    return [r.choice([1e300, 1e250, 1.0]) for _ in range(n)]


def gen_history(r, tier, forced=None):
    n = r.randint(1, 50) if r.random() < 0.8 else r.randint(1, 6)
    lin, circ = r.randint(0, 3), r.randint(0, 2)
    if lin + circ == 0:
        lin = 1
    K = r.randint(1, 30 if tier == "quick" else 60)
    if r.random() < 0.5:
        K = r.randint(1, 6)
    init = "uniform"
    steps = []
    mode = r.choice(["mixed", "mixed", "clean", "nofreeze", "skippy", "epochs", "net-nothing", "midstep"])
    for k in range(K):
        cmd = []
        if mode == "skippy":
            cmd = [r.randint(1, 6) for _ in range(r.randint(0, 3))]
        elif mode == "net-nothing" and r.random() < 0.6:
            # command histories that net to nothing before the step: it must behave as if none had been issued
            cmd = list(r.choice([[1, 2], [3, 4], [5, 6], [5, 2, 4], [1, 3, 6], [1, 2, 1, 2], [3, 1, 2, 4], [5, 6, 5, 6], [1, 6], [3, 6], [5, 4, 2]]))
        elif mode in ("mixed", "epochs") and r.random() < 0.25:
            cmd = [r.randint(1, 6)]
        fr = 1
        if mode == "nofreeze":
            fr = 1 if r.random() < 0.3 else 0
        elif mode != "clean" and r.random() < 0.2:
            fr = 0
        va = 0 if (mode != "clean" and r.random() < 0.12) else 1
        style = r.choice(LIK_STYLES)
        rst = 1 if (mode == "epochs" and r.random() < 0.2) else 0
        shift = r.choice([1.0, 1.0, 2.0, -0.5, 0.25 * (k + 1)])          # time-varying prediction
        st = (cmd, fr, va, gen_lik(r, style, n), style, rst, shift)
        if mode == "midstep":
            # skip commands arriving DURING the step (asynchronous command, atomic flags): between the prediction's and the
            # correction's read of their flags (mid), and after the correction's read (late: during the likelihood evaluation)
            c = r.random()
            mid = [r.randint(1, 7) for _ in range(r.randint(1, 2))] if c < 0.35 else []
            late = [r.choice([3, 3, 4, 5, 6, 1, 2, 7])] if (c > 0.25 and c < 0.8) else []
            st = (cmd if r.random() < 0.3 else []) + ([7] if r.random() < 0.1 else []), fr, va, st[3], style, rst, shift, mid, late
        steps.append(st)
    if forced == "late-corOn":
        # the C06-r4-1 interleaving: skip("correction", true) lands while the likelihood is being evaluated (the correction has
        # read its flag already): this step re-weights AND normalises; the following ones hand the weights on
        n, K = r.randint(2, 12), r.randint(2, 5)
        kk = r.randrange(K - 1)
        steps = [([], 1, 1, gen_lik(r, "random", n), "random", 0, 1.0, [], ([3] if q == kk else [4] if q == kk + 2 else [])) for q in range(K)]
    if forced == "mid-corOn":
        n, K = r.randint(2, 12), r.randint(2, 4)
        steps = [([], 1, 1, gen_lik(r, "random", n), "random", 0, 1.0, r.choice([[3], [5], [1], [3, 4], [5, 2]]) if q % 2 == 0 else r.choice([[4], [6], [2]]), []) for q in range(K)]
    if forced == "n3-onehot":
        n, K = 3, r.randint(1, 4)
        steps = [([], 1, 1, [1.0, 0.0, 0.0][::r.choice([1, -1])], "onehot", 0, 1.0)] + \
                [([], r.choice([0, 1]), 1, [1.0, 1.0, 1.0], "ones", 0, 1.0) for _ in range(K - 1)]
    if forced == "n3-init-onehot":
        n, K, init = 3, r.randint(1, 3), "onehot"
        steps = [([], 0, 1, [1.0] * 3, "ones", 0, 1.0) for _ in range(K)]
    if forced == "init-peaked":
        n, K, init = r.randint(4, 20), r.randint(1, 3), "peaked"
        steps = [([], 0, 1, [1.0] * n, "ones", 0, 1.0) for _ in range(K)]
    if forced == "n6-twohot":
        n, K = 6, 2
        steps = [([], 1, 1, [1.0, 1.0, 0.0, 0.0, 0.0, 0.0], "twohot", 0, 1.0), ([], 0, 1, [1.0] * 6, "ones", 0, 1.0)]
    if forced in ("circ-resample", "circ-resample-prior"):
        n = r.randint(4, 30)
        circ = r.randint(1, 2)
        K = r.randint(1, 5)
        steps = [(r.choice([[], [], [1], [3]]), 1, 1, gen_lik(r, "peaked", n), "peaked", 0, 1.0) for _ in range(K)]
    if init == "uniform":
        w0 = [-math.log(n)] * n
    elif init == "peaked":
        xs = [0.0] + [r.uniform(-12, -6) for _ in range(n - 1)]
        l = lse(xs)
        w0 = [x - l for x in xs]
    else:
        w0 = [0.0] + [-800.0] * (n - 1)
    if forced is None and r.random() < 0.2 and n > 1:
        xs = [r.uniform(-5, 0) for _ in range(n)]
        l = lse(xs)
        w0 = [x - l for x in xs]
        init = "random-normalised"
    if forced == "unnorm-init":
        # un-normalised initial weights and a failing acquisition at step 0 (outside the hypothesis InitOK, inside the
        # clause "when it is not, the corrected set equals the predicted set")
        n = r.randint(1, 12)
        K = r.randint(1, 4)
        w0 = r.choice([[0.0] * n, [r.uniform(-3, 1) for _ in range(n)], [-0.5] * n, [-2.0 - math.log(n)] * n])
        init = "unnormalised"
        steps = [([], 0, 1, gen_lik(r, "random", n), "random", 0, 1.0)] + \
                [([], r.choice([0, 1]), 1, gen_lik(r, "random", n), "random", 0, 1.0) for _ in range(K - 1)]
    x0 = [1000.0 * (i + 1) for i in range(n)]
    inits = [(w0, x0)]
    if any(st[5] for st in steps):
        # time-varying initialisation model: every epoch gets its own weights and positions
        for e in range(1, r.randint(2, 3)):
            kind = r.choice(["uniform", "random", "unnormalised"])
            if kind == "uniform":
                we = [-math.log(n)] * n
            else:
                xs = [r.uniform(-5, 0) for _ in range(n)]
                l = lse(xs) if kind == "random" else 0.0
                we = [x - l for x in xs]
            inits.append((we, [100000.0 * e + 1000.0 * (i + 1) for i in range(n)]))
    seed = r.randrange(1, 2 ** 32)
    prior, ratio = 0, 0.0
    if (forced is None and r.random() < 0.25) or forced == "circ-resample-prior":
        prior = 1
        ratio = r.choice([0.0, 0.1, 0.25, 0.3, 0.5, 0.75, 0.9, r.uniform(0, 0.95)])
    meta = {"n": n, "lin": lin, "circ": circ, "K": len(steps), "mode": forced or mode, "init": init, "seed": seed, "prior": prior}
    return (seed, n, lin, circ, inits, None, steps, prior, ratio), meta


def special_history(r, kind, n, i=0, j=0, prior=0, ratio=0.0):
    """deterministically enumerated histories (every run):
    chunk    N at a boundary of blocked accumulation (multiples of 256 up to 4096, +-1): log_sum_exp / neff / the cumulative sums
             of the resampler over long vectors; the mass of the last block matters
    tie-max  the largest corrected log-weight is attained exactly (bitwise) at positions i and j (every pair for N = 2..6; block
             boundaries for long vectors); a second step with the prediction skipped keeps the duplicates of one parent tied"""
    lin, circ = r.choice([(1, 0), (2, 1), (0, 1), (3, 0)])
    w0 = [-math.log(n)] * n
    x0 = [1000.0 * (q + 1) for q in range(n)]
    if kind == "chunk":
        last = range(max(0, ((n - 1) // 256) * 256), n)
        l1 = [r.uniform(0.2, 1.0) for _ in range(n)]
        l2 = [r.uniform(0, 1e-3) for _ in range(n)]
        for q in last:
            l2[q] = r.uniform(0.5, 1.0)                         # the weight sits in the last block: resampling is triggered
        l3 = [r.random() for _ in range(n)]
        steps = [([], 1, 1, l1, "random", 0, 1.0), ([], 1, 1, l2, "lastblock", 0, 1.0), (r.choice([[], [1], [3]]), r.choice([0, 1]), 1, l3, "random", 0, 2.0)]
    else:
        vals = [r.uniform(0.05, 0.6) for _ in range(n)]
        top = r.choice([1.0, 0.75, 2.5])
        if n <= 6:
            l1 = [top if q in (i, j) else vals[q] for q in range(n)]
        else:
            l1 = [r.uniform(0, 1e-4) for _ in range(n)]
            l1[i] = l1[j] = top
        steps = [([], 1, 1, l1, "tie-max", 0, 1.0), ([1], 1, 1, [1.0] * n, "ones", 0, 1.0), ([2], r.choice([0, 1]), 1, l1[::-1], "tie-max", 0, 1.0)]
    seed = r.randrange(1, 2 ** 32)
    meta = {"n": n, "lin": lin, "circ": circ, "K": len(steps), "mode": kind, "init": "uniform", "seed": seed, "prior": prior}
    return (seed, n, lin, circ, [(w0, x0)], None, steps, prior, ratio), meta


def special_histories(r, tier):
    out = []
    mults = list(range(256, 4096 + 1, 256))
    for n in mults:
        out.append(special_history(r, "chunk", n))
    for n0 in r.sample(mults, 3) + [256]:
        for n in (n0 - 1, n0 + 1):
            out.append(special_history(r, "chunk", n))
    for n, ratio in [(512, 0.5), (1280, 0.2), (4096, 0.25)]:
        out.append(special_history(r, "chunk", n, prior=1, ratio=ratio))
    for n in range(2, 7):
        for i in range(n):
            for j in range(i + 1, n):
                out.append(special_history(r, "tie-max", n, i, j, prior=(1 if (i + j + n) % 5 == 0 else 0), ratio=0.25))
    for n in [256, 512, 1000, 1025]:
        for i, j in [(0, n - 1), (1, n - 1), (255, 256), (n - 2, n - 1), (0, 1)]:
            if j >= n:
                continue
            out.append(special_history(r, "tie-max", n, i, j))
    return out


def draw_count(case):
    """the resampler draws from uniform(0, 1/m): m = N, or N - floor(N * ratio) for the prior-mixing resampler"""
    n, prior, ratio = case[1], case[7], case[8]
    return n - int(math.floor(n * ratio)) if prior else n


def make_lines(case, us):
    seed, n, lin, circ, inits, _, steps, prior, ratio = case
    body = "%d %d %d %d %d %d %s %s %d %s" % (n, lin, circ, len(steps), len(us), prior, hexd(ratio), " ".join(us), len(inits),
                                         " ".join(" ".join(hexd(x) for x in w) + " " + " ".join(hexd(x) for x in x) for w, x in inits))
    ext = any(len(st) > 7 for st in steps)
    for st in steps:
        cmd, fr, va, lik, _, rst, shift = st[:7]
        mid, late = (st[7], st[8]) if len(st) > 7 else ([], [])
        cs = "%d %s" % (len(cmd), "".join("%d " % c for c in cmd))
        if ext:
            cs += "%d %s%d %s" % (len(mid), "".join("%d " % c for c in mid), len(late), "".join("%d " % c for c in late))
        body += " %s%d %d %d %s %s" % (cs, fr, va, rst, hexd(shift), " ".join(hexd(x) for x in lik))
    op = "sis2" if ext else "sis"
    return "%s %d %s" % (op, seed, body), op + " " + body


def parse_line(line):
    """corpus / replay line (a harness line) -> case tuple"""
    t = line.split()
    ext = t[0] == "sis2"
    seed, n, lin, circ, K, D, prior = [int(x) for x in t[1:8]]
    ratio = unhex(t[8])
    p = 9 + D
    E = int(t[p]); p += 1
    inits = []
    for _ in range(E):
        w0 = [unhex(x) for x in t[p:p + n]]; p += n
        x0 = [unhex(x) for x in t[p:p + n]]; p += n
        inits.append((w0, x0))
    steps = []
    for _ in range(K):
        nc = int(t[p]); p += 1
        cmd = [int(x) for x in t[p:p + nc]]; p += nc
        extra = ()
        if ext:
            nm = int(t[p]); mid = [int(x) for x in t[p + 1:p + 1 + nm]]; p += 1 + nm
            nl = int(t[p]); late = [int(x) for x in t[p + 1:p + 1 + nl]]; p += 1 + nl
            extra = (mid, late)
        fr, va, rst = int(t[p]), int(t[p + 1]), int(t[p + 2]); shift = unhex(t[p + 3]); p += 4
        steps.append((cmd, fr, va, [unhex(x) for x in t[p:p + n]], "corpus", rst, shift) + extra); p += n
    return (seed, n, lin, circ, inits, None, steps, prior, ratio), {"n": n, "lin": lin, "circ": circ, "K": K, "mode": "corpus", "init": "corpus", "seed": seed, "prior": prior}


# --------------------------------------------------------------------------- parsing

def parse_blocks(tokens, with_x):
    """blocks `S …` (and `X …` for the harness) -> list of dicts"""
    out, p = [], 0
    while p < len(tokens) and tokens[p] == "S":
        b = {}
        (b["cn"], b["clin"], b["ccirc"], b["ccols"], b["wrows"], b["pn"], b["plin"], b["pcirc"], b["pcols"], b["trig"]) = [int(x) for x in tokens[p + 1:p + 11]]
        b["neff"] = unhex(tokens[p + 11])
        npar = int(tokens[p + 12]); p += 13
        b["parents"] = [int(x) for x in tokens[p:p + npar]]; p += npar
        b["w"] = [unhex(x) for x in tokens[p:p + b["wrows"]]]; p += b["wrows"]
        b["x"] = [unhex(x) for x in tokens[p:p + b["ccols"]]]; p += b["ccols"]
        assert tokens[p] == "L"
        nl = int(tokens[p + 1]); p += 2
        b["lw"] = [unhex(x) for x in tokens[p:p + nl]]; p += nl
        if not with_x:
            assert tokens[p] == "T"
            b["stepno"] = int(tokens[p + 1]); p += 2
            if p < len(tokens) and tokens[p] == "F":
                b["skipP"], b["skipC"], b["accepted"] = int(tokens[p + 1]), int(tokens[p + 2]), int(tokens[p + 3]); p += 4
        if with_x:
            assert tokens[p] == "X"
            (b["srows"], b["mrows"], b["mcols"], b["crows"], b["covcols"], b["dim"], b["quat"], b["rows_ok"], b["u1ok"]) = [int(x) for x in tokens[p + 1:p + 10]]
            b["u1"] = tokens[p + 10]
            b["neff_calls"], b["res_calls"] = int(tokens[p + 11]), int(tokens[p + 12]); p += 13
            for key in ("cw", "cs", "pw", "ps"):
                k = int(tokens[p]); p += 1
                b[key] = [unhex(x) for x in tokens[p:p + k]]; p += k
            b["stepno"], b["log_calls"], b["skipP"], b["refused_ok"] = [int(x) for x in tokens[p:p + 4]]; p += 4
        out.append(b)
    return out, p


# --------------------------------------------------------------------------- checks

def close(a, b, rel=1e-9):
    if a == b:
        return True
    if not (math.isfinite(a) and math.isfinite(b)):
        return False
    return abs(a - b) <= rel * max(1.0, abs(a), abs(b))


def bits_equal(a, b):
    return len(a) == len(b) and all(hexd(x) == hexd(y) for x, y in zip(a, b))


def check_history(case, meta, h, d, stats, hist):
    probs = []
    seed, n, lin, circ, inits, _, steps, prior, ratio = case
    kprior = int(math.floor(n * ratio)) if prior else 0
    K = len(steps)
    if not h.startswith("ok"):
        return [("prop", "impl-crash", "the SIS filter failed on a valid history (N=%d, lin=%d, circ=%d, %d steps): %s" % (n, lin, circ, K, h[:160]))]
    ht = h.split()
    if ht[1] != "twin-ok":
        probs.append(("corr", "twin-generator", "the draws handed to the model are not the twin generator's"))
    if ht[2] != "skip-ok":
        probs.append(("corr", "skip-refused", "a skip command was refused by the filter"))
    nblocks = int(ht[3])
    blocks, p = parse_blocks(ht[4:], True)
    if nblocks != K or len(blocks) != K:
        return probs + [("prop", "steps-not-run", "%d of %d scripted steps were executed" % (nblocks, K))]
    mblocks = None
    if d.startswith("ok"):
        mblocks, _ = parse_blocks(d.split()[1:], False)
        if len(mblocks) != K:
            probs.append(("corr", "model-steps", "model produced %d of %d steps" % (len(mblocks), K)))
            mblocks = None
    else:
        probs.append(("corr", "model-undefined", "model not defined: %s" % d[:60]))
    thr = n / 3.0
    wl = hexd(-math.log(n))
    epoch, local = 0, 0                       # epoch = number of resets seen so far; local = step number inside the epoch
    w0, x0 = inits[0]
    prev_w, prev_x = list(w0), list(x0)
    prev_norm = abs(lse(w0)) <= 1e-10         # are the weights handed to this step normalised?
    skipP = skipC = False
    live = mblocks is not None
    flagP = flagC = False                     # the two flags as the commands issued so far leave them

    def apply(cs, fp, fc):
        for cmd in cs:
            if cmd in (1, 2):
                fp = (cmd == 1)
            elif cmd in (3, 4):
                fc = (cmd == 3)
            elif cmd in (5, 6):
                fp = fc = (cmd == 5)
        return fp, fc
    for k, st in enumerate(steps):
        cmds, fr, va, lik, style, rst, shift = st[:7]
        mid, late = (st[7], st[8]) if len(st) > 7 else ([], [])
        b = blocks[k]
        # the prediction obeys the flags after the commands issued before the step; the correction those after the commands that
        # arrived before its own read (`mid`: issued from inside freeze_measurements()); `late` commands act on later steps only
        flagP, flagC = apply(cmds, flagP, flagC)
        skipP = flagP
        flagP, flagC = apply(mid, flagP, flagC)
        skipC = flagC
        flagP, flagC = apply(late, flagP, flagC)
        if mid or late:
            stats["steps_with_commands_arriving_mid_step"] = stats.get("steps_with_commands_arriving_mid_step", 0) + 1
            if fr and va and not skipC and 3 in late:
                stats["correction_skip_arriving_during_likelihood_evaluation"] = stats.get("correction_skip_arriving_during_likelihood_evaluation", 0) + 1
        if len(cmds) > 1:
            stats["steps_after_several_commands"] = stats.get("steps_after_several_commands", 0) + 1
        where = "step %d of %d (epoch %d, step %d in it; N=%d, lin=%d, circ=%d)" % (k, K, epoch, local, n, lin, circ)
        trig = bool(b["trig"])
        cls = "%s%s%s%s%s%s" % ("step0 " if local == 0 else "", "freeze " if fr else "nofreeze ", "valid " if va else "invalid ",
                               "skipP " if skipP else "", "skipC " if skipC else "", "resample" if trig else "keep")
        hist[cls] = hist.get(cls, 0) + 1
        if epoch > 0:
            stats["steps_in_later_epochs"] = stats.get("steps_in_later_epochs", 0) + 1
        norm_expected = bool(fr or trig or prev_norm)
        if not norm_expected:
            stats["steps_with_unnormalised_weights_handed_on"] = stats.get("steps_with_unnormalised_weights_handed_on", 0) + 1
        # ------------------------------------------------ the property's predicates on the implementation
        if not (b["cn"] == n and b["ccols"] == n and b["wrows"] == n and b["mcols"] == n):
            probs.append(("prop", "particle-count", "%s: corrected set has components=%d, state columns=%d, mean columns=%d, weights=%d" % (where, b["cn"], b["ccols"], b["mcols"], b["wrows"])))
            break
        if not (b["clin"] == lin and b["ccirc"] == circ and b["srows"] == lin + circ and b["dim"] == lin + circ):
            probs.append(("prop", "layout-lost", "%s%s: corrected set reports layout (linear=%d, circular=%d), %d state rows" % (where, " after resampling" if trig else "", b["clin"], b["ccirc"], b["srows"])))
            break
        if not all(math.isfinite(x) for x in b["w"]):
            probs.append(("prop", "weight-not-finite", "%s: a log-weight is not finite (likelihood style %s): %s" % (where, style, b["w"][:6])))
            break
        l = lse(b["w"])
        if norm_expected:
            stats["max_abs_lse"] = max(stats.get("max_abs_lse", 0.0), abs(l))
        if norm_expected and not abs(l) <= 1e-10:
            probs.append(("prop", "not-normalised", "%s: log-sum-exp of the corrected log-weights is %.3g" % (where, l)))
            break
        cw = b["cw"]
        if len(cw) != n or b["neff_calls"] < 1:
            probs.append(("prop", "resample-trigger", "%s: the effective sample size of the corrected weights was not evaluated" % where))
            break
        try:
            s2 = math.fsum(sexp(x) ** 2 for x in cw)
        except OverflowError:
            s2 = math.inf
        neff_py = 1.0 / s2 if s2 > 0 else math.inf
        if not close(b["neff"], neff_py, 64 * n * EPS):
            probs.append(("prop", "neff-wrong", "%s: neff = %.17g, 1/sum(exp(w)^2) = %.17g" % (where, b["neff"], neff_py)))
            break
        if b["neff"] == thr:
            stats["neff_equals_threshold_exactly"] = stats.get("neff_equals_threshold_exactly", 0) + 1
        if trig != (b["neff"] < thr):
            probs.append(("prop", "resample-trigger", "%s: neff = %.17g, N/3 = %.17g, resampling %s" % (where, b["neff"], thr, "ran" if trig else "did not run")))
            break
        if trig and not b["u1ok"]:
            probs.append(("prop", "assumption-u1-range", "%s: the draw u1 = %s is not in (0, 1/N)" % (where, b["u1"])))
            break
        if trig:
            if not all(is_minus_log_n(hexd(x), n) for x in b["w"]):
                probs.append(("prop", "not-uniform-after-resampling", "%s: weights after resampling are not all -log N" % where))
                break
            par = b["parents"]
            if prior:
                # prior-mixing resampler: floor(ratio*N) leading parents -1 (fresh draws), the others copies of corrected particles
                if len(par) != n or [q for q in par if q == -1] != par[:kprior] or len([q for q in par if q == -1]) != kprior or not b["rows_ok"]:
                    probs.append(("prop", "resampled-not-copies", "%s: prior-mixing resampling: %d parents -1 (expected %d leading), columns %s" % (where, len([q for q in par if q == -1]), kprior, "ok" if b["rows_ok"] else "not fresh draws / copies")))
                    break
            elif len(par) != n or any(not (0 <= q < n) for q in par) or len(b["cs"]) != n or any(hexd(b["x"][j]) != hexd(b["cs"][par[j]]) for j in range(n)) or not b["rows_ok"]:   # rows_ok: every full column equals the corrected column at its parent (harness)
                probs.append(("prop", "resampled-not-copies", "%s: resampled particles are not copies of the corrected particles at the reported parents" % where))
                break
            pre_x = b["cs"]
        else:
            if not bits_equal(b["w"], cw):
                probs.append(("prop", "neff-not-of-corrected-weights", "%s: resampling did not run, yet the weights whose effective sample size was evaluated are not the corrected weights" % where))
                break
            pre_x = b["x"]
        # the predicted set as the (harness-defined) prediction produces it from the previous corrected set
        if local == 0:
            exp_pw, exp_ps = list(w0), list(x0)
        elif skipP:
            exp_pw, exp_ps = prev_w, prev_x
        else:
            exp_pw, exp_ps = prev_w, [x + shift for x in prev_x]
        pw, ps = b["pw"], b["ps"]
        if not fr:
            if not (bits_equal(cw, pw) and bits_equal(pre_x, ps)):
                probs.append(("prop", "corrected-differs-from-predicted", "%s: acquisition failed but the corrected set is not the predicted set" % where))
                break
        elif va and not skipC:
            # `each weight` = the previous corrected weight (the prediction step hands weights on unchanged)
            raw = [w + math.log(li + TINY) for w, li in zip(exp_pw, lik)]
            lr = lse(raw)
            want = [x - lr for x in raw]
            if not all(close(a, c) for a, c in zip(cw, want)) or not bits_equal(pre_x, ps):
                j = [i for i in range(n) if not close(cw[i], want[i])][:1]
                probs.append(("prop", "reweight-wrong", "%s: corrected log-weight %s is not w + log(l + tiny) - LSE (likelihood style %s)" % (where, j, style)))
                break
        else:
            lr = lse(pw)
            if not all(close(a, x - lr) for a, x in zip(cw, pw)) or not bits_equal(pre_x, ps):
                probs.append(("corr", "unused-measurement", "%s: correction skipped / likelihood invalid: weights are not the predicted ones, normalised" % where))
        if not (bits_equal(pw, exp_pw) and bits_equal(ps, exp_ps)):
            probs.append(("corr", "predicted-set", "%s: predicted set is not what the prediction step produces from the previous corrected set" % where))
        if b["skipP"] != (1 if flagP else 0):
            probs.append(("corr", "skip-flag", "%s: PFPrediction::is_skipping() = %d after the step, commands issued so far leave it at %d" % (where, b["skipP"], flagP)))
        if not b["refused_ok"]:
            probs.append(("corr", "skip-unknown-accepted", "%s: ParticleFilter::skip accepted a command it does not know" % where))
        if live and "skipP" in mblocks[k]:
            if (mblocks[k]["skipP"], mblocks[k]["skipC"]) != (1 if flagP else 0, 1 if flagC else 0) or mblocks[k]["skipP"] != b["skipP"]:
                probs.append(("corr", "skip-flag-model", "%s: model flags after the step (%d, %d), commands issued so far (%d, %d), implementation prediction flag %d" % (where, mblocks[k]["skipP"], mblocks[k]["skipC"], flagP, flagC, b["skipP"])))
            acc = 0 if 7 in (list(cmds) + list(mid) + list(late)) else 1
            if mblocks[k]["accepted"] != acc:
                probs.append(("corr", "skip-accept-model", "%s: model accepts an unknown command" % where))
        if not (b["pn"] == n and b["plin"] == lin and b["pcirc"] == circ and b["pcols"] == n):
            probs.append(("corr", "predicted-shape", "%s: predicted set has components=%d layout (%d, %d)" % (where, b["pn"], b["plin"], b["pcirc"])))
        # ------------------------------------------------ correspondence with the model
        if live:
            mb = mblocks[k]
            disc = ("cn", "clin", "ccirc", "ccols", "wrows", "pn", "plin", "pcirc", "pcols")
            if any(mb[f] != b[f] for f in disc):
                probs.append(("corr", "shape-model", "%s: model %s, implementation %s" % (where, [mb[f] for f in disc], [b[f] for f in disc])))
                live = False
            elif not close(mb["neff"], b["neff"]):
                probs.append(("corr", "neff-model", "%s: model neff %.17g, implementation %.17g" % (where, mb["neff"], b["neff"])))
                live = False
            elif mb["trig"] != b["trig"]:
                if abs(b["neff"] - thr) <= 1e-9 * thr or abs(mb["neff"] - thr) <= 1e-9 * thr:
                    stats["trigger_tolerated_rounding"] = stats.get("trigger_tolerated_rounding", 0) + 1
                else:
                    probs.append(("corr", "trigger-model", "%s: model trigger %d, implementation %d (neff %.17g, N/3 %.17g)" % (where, mb["trig"], b["trig"], b["neff"], thr)))
                live = False
            elif trig and mb["parents"] != b["parents"]:
                e = [Fraction(sexp(x)) if sexp(x) != math.inf else Fraction(10) ** 400 for x in cw]
                c = cum_sums(e)
                u1 = frac_of_hex(b["u1"])
                tol = Fraction(n * EPS + 2.0 ** -40)
                ok = len(mb["parents"]) == n and all(within_slack(n, u1, c, j, mb["parents"][j], b["parents"][j], b["parents"][j], tol) for j in range(n))
                if ok:
                    stats["parents_tolerated_rounding"] = stats.get("parents_tolerated_rounding", 0) + 1
                else:
                    probs.append(("corr", "parents-model", "%s: parents differ from the model beyond rounding" % where))
                live = False
            elif not all(close(a, c) for a, c in zip(mb["w"], b["w"])):
                probs.append(("corr", "weights-model", "%s: weights differ from the model" % where))
                live = False
            elif not bits_equal(mb["x"], b["x"]):
                # with the prior-mixing resampler equal weights may be ordered differently by std::sort (unstable)
                if not prior:
                    probs.append(("corr", "states-model", "%s: particles differ from the model" % where))
                    live = False
                else:
                    stats["prior_steps_particles_differ_from_model"] = stats.get("prior_steps_particles_differ_from_model", 0) + 1
            else:
                stats["steps_identical_to_model"] = stats.get("steps_identical_to_model", 0) + 1
        # log(): called once, between the normalisation and the resampling decision (it sees the corrected weights)
        # (observations only: the property does not speak about log() or step_number())
        lk = "log_calls_as_model" if (b["log_calls"] == 1 and bits_equal(b["lw"], cw)) else "log_calls_not_as_model"
        stats[lk] = stats.get(lk, 0) + 1
        sk = "step_numbers_as_model" if (b["stepno"] == local and (not live or mblocks[k].get("stepno") == b["stepno"])) else "step_numbers_not_as_model"
        stats[sk] = stats.get(sk, 0) + 1
        prev_w, prev_x = b["w"], b["x"]
        prev_norm = norm_expected
        local += 1
        if rst:                               # reset during this step: the recursion re-initialises before the next one
            epoch += 1
            local = 0
            w0, x0 = inits[epoch % len(inits)]
            prev_norm = abs(lse(w0)) <= 1e-10
    return probs


def gauss_density(v, Rinv, detR):
    m = len(v)
    q = sum(Fraction(v[i]) * Rinv[i][j] * Fraction(v[j]) for i in range(m) for j in range(m))
    return (2 * math.pi) ** (-m / 2.0) * float(detR) ** -0.5 * sexp(-0.5 * float(q))


def det_frac(A):
    n = len(A)
    M = [[Fraction(x) for x in row] for row in A]
    d = Fraction(1)
    for c in range(n):
        p = next((r for r in range(c, n) if M[r][c] != 0), None)
        if p is None:
            return Fraction(0)
        if p != c:
            M[c], M[p] = M[p], M[c]
            d = -d
        d *= M[c][c]
        for r in range(c + 1, n):
            f = M[r][c] / M[c][c]
            M[r] = [a - f * b for a, b in zip(M[r], M[c])]
    return d


def parse_glik(line):
    t = line.split()
    scale, fail, m, n = unhex(t[1]), int(t[2]), int(t[3]), int(t[4])
    p = 5
    y = [unhex(x) for x in t[p:p + m]]; p += m
    P = vlib.mat_from_cm(t[p:p + m * n], m, n, unhex); p += m * n
    R = vlib.mat_from_cm(t[p:p + m * m], m, m, unhex)
    return (scale, fail, m, n, y, P, R)


def likelihood_stage(ctx, binary, stats, only=None):
    """the shipped GaussianLikelihood: validity = all four model calls succeed (all 16 subsets), one non-negative
    likelihood per particle = scale * N(innovation; 0, R)"""
    g = ctx.gen("glik")
    r = g.r
    cases = [parse_glik(only)] if only else []
    for rep in range(0 if only else ctx.n(3, 30)):
        for fail in range(16):
            m, n = r.randint(1, 3), r.randint(1, 6)
            R = g.spd(m, cond=10 ** r.uniform(0, 4), scale=10 ** r.uniform(-1, 1))
            y = [r.uniform(-2, 2) for _ in range(m)]
            P = [[r.uniform(-3, 3) for _ in range(n)] for _ in range(m)]
            scale = r.choice([1.0, 1.0, 0.5, 2.5, 0.0])
            cases.append((scale, fail, m, n, y, P, R))
    hl, dl, dens = [], [], []
    for scale, fail, m, n, y, P, R in cases:
        hl.append("glik %s %d %d %d %s %s %s" % (hexd(scale), fail, m, n, " ".join(hexd(x) for x in y), " ".join(vlib.fmt_mat_cm(P)), " ".join(vlib.fmt_mat_cm(R))))
        Rinv, dR = vlib.minv_frac(R), det_frac(R)
        ds = [gauss_density([P[i][c] - y[i] for i in range(m)], Rinv, dR) for c in range(n)]
        dens.append(ds)
        dl.append("glik %s %d %d %d %d %d %s" % (hexd(scale), 0 if fail & 1 else 1, 0 if fail & 2 else 1, 0 if fail & 4 else 1, 0 if fail & 8 else 1, n, " ".join(hexd(x) for x in ds)))
    hout, logs = vlib.run_harness(binary, hl)
    dout = vlib.run_driver(dl)
    bad = []
    for (scale, fail, m, n, y, P, R), ds, line, h, d in zip(cases, dens, hl, hout, dout):
        ht, dt = h.split(), d.split()
        if not ht or ht[0] != "ok":
            bad.append(("prop", "likelihood-crash", "GaussianLikelihood failed (fail mask %d): %s" % (fail, h[:80]), line, h)); continue
        valid, size = int(ht[1]), int(ht[2])
        vals = [unhex(x) for x in ht[3:3 + size]]
        if valid != (1 if fail == 0 else 0):
            bad.append(("prop", "likelihood-validity", "fail mask %d: likelihood reported %s" % (fail, "valid" if valid else "invalid"), line, h)); continue
        if valid:
            want = [scale * x for x in ds]
            if size != n or any(not (v >= 0.0 and math.isfinite(v)) for v in vals) or any(abs(a - b) > 1e-8 * abs(b) + 1e-300 for a, b in zip(vals, want)):
                bad.append(("prop", "likelihood-value", "likelihood is not scale * N(innovation; 0, R), non-negative, one per particle: %s vs %s" % (vals[:3], want[:3]), line, h)); continue
        if dt[0] != "ok" or int(dt[1]) != valid or int(dt[2]) != size or any(abs(unhex(a) - b) > 1e-8 * abs(b) + 1e-300 for a, b in zip(dt[3:], vals)):
            bad.append(("corr", "likelihood-model", "gaussianLikelihood (model) %s vs implementation %s" % (d[:60], h[:60]), line, h))
        stats["likelihood_cases_valid" if valid else "likelihood_cases_invalid"] = stats.get("likelihood_cases_valid" if valid else "likelihood_cases_invalid", 0) + 1
    return len(cases), bad, len(logs)


def parse_pipe(tokens):
    out, p = [], 0
    while p < len(tokens) and tokens[p] == "P":
        b = {}
        (b["cn"], b["clin"], b["ccirc"], b["ccols"], b["srows"], b["wrows"], b["trig"]) = [int(x) for x in tokens[p + 1:p + 8]]
        b["neff"] = unhex(tokens[p + 8]); b["u1ok"] = int(tokens[p + 9]); b["u1"] = tokens[p + 10]
        npar = int(tokens[p + 11]); p += 12
        b["parents"] = [int(x) for x in tokens[p:p + npar]]; p += npar
        b["w"] = [unhex(x) for x in tokens[p:p + b["wrows"]]]; p += b["wrows"]
        b["x"] = [unhex(x) for x in tokens[p:p + b["ccols"]]]; p += b["ccols"]
        for key in ("cw", "lw", "pw"):
            k = int(tokens[p]); p += 1
            b[key] = [unhex(x) for x in tokens[p:p + k]]; p += k
        k = int(tokens[p]); p += 1
        b["px"] = [unhex(x) for x in tokens[p:p + k]]; p += k
        b["py"] = [unhex(x) for x in tokens[p:p + k]]; p += k
        b["vm"] = int(tokens[p]); b["y"] = (unhex(tokens[p + 1]), unhex(tokens[p + 2])); p += 3
        b["vl"], b["lik_same"] = int(tokens[p]), int(tokens[p + 1]); k = int(tokens[p + 2]); p += 3
        b["lik"] = [unhex(x) for x in tokens[p:p + k]]; p += k
        b["copies"], b["log_calls"] = int(tokens[p]), int(tokens[p + 1]); p += 2
        out.append(b)
    return out


def pipeline_stage(ctx, binary, stats, only=None):
    """the shipped pipeline of test_SIS end to end (InitSurveillanceAreaGrid, DrawParticles + WhiteNoiseAcceleration,
    BootstrapCorrection + SimulatedLinearSensor + GaussianLikelihood, Resampling) against the predicates and the model:
    the prediction outcome and the reported likelihood of every step are handed to `sisStep` as event data"""
    r = ctx.gen("pipe").r
    cases = []
    if only:
        t = only.split()
        cases.append(tuple(int(x) for x in t[1:7]) + tuple(unhex(x) for x in t[7:10]))
    for _ in range(0 if only else ctx.n(14, 150)):
        nx, ny = r.randint(2, 6), r.randint(2, 6)
        cases.append((r.randrange(1, 2 ** 32), r.randrange(1, 2 ** 32), r.randrange(1, 2 ** 32), r.randint(2, 8), nx, ny,
                      r.choice([1000.0, 100.0, 50.0]), r.choice([10.0, 30.0, 100.0]), r.choice([10.0, 1.0, 0.1])))
    uouts, _ = vlib.run_harness(binary, ["u1 %d %d %d" % (c[0], c[4] * c[5], c[3]) for c in cases])
    hl = ["pipe %d %d %d %d %d %d %s %s %s" % (c[0], c[1], c[2], c[3], c[4], c[5], hexd(c[6]), hexd(c[7]), hexd(c[8])) for c in cases]
    hout, logs = vlib.run_harness(binary, hl)
    parsed, dl = [], []
    for c, line, h, uo in zip(cases, hl, hout, uouts):
        n, K = c[4] * c[5], c[3]
        try:
            ht = h.split()
            blocks = parse_pipe(ht[3:]) if ht[0] == "ok" else None
            if blocks is None or len(blocks) != K or int(ht[2]) != K:
                raise ValueError("blocks")
        except (IndexError, ValueError):
            parsed.append(None); dl.append("skip"); continue
        parsed.append(blocks)
        us = uo.split()[1:]
        body = "sisp %d 4 0 %d %d %s %s %s" % (n, K, len(us), " ".join(us), " ".join(hexd(x) for x in blocks[0]["pw"]), " ".join(hexd(x) for x in blocks[0]["px"]))
        for b in blocks:
            body += " 1 %d %s %d %s" % (b["vl"], " ".join(hexd(x) for x in b["px"]), len(b["lik"]), " ".join(hexd(x) for x in b["lik"]))
        dl.append(body)
    dout = vlib.run_driver(dl)
    bad = []
    for c, line, h, blocks, d in zip(cases, hl, hout, parsed, dout):
        n, K, sigma = c[4] * c[5], c[3], c[7]
        if blocks is None:
            bad.append(("prop", "impl-crash", "the shipped SIS pipeline failed or did not run its %d steps: %s" % (K, h[:120]), line, h)); continue
        mblocks = parse_blocks(d.split()[1:], False)[0] if d.startswith("ok") else None
        if mblocks is None or len(mblocks) != K:
            bad.append(("corr", "model-undefined", "model not defined on the pipeline history: %s" % d[:60], line, h)); mblocks = None
        thr, live = n / 3.0, mblocks is not None
        if abs(lse(blocks[0]["pw"])) > 1e-10:
            bad.append(("corr", "shipped-init-not-normalised", "InitSurveillanceAreaGrid: initial weights are not normalised (hypothesis InitOK)", line, h))
        prev_w = blocks[0]["pw"]
        for k, b in enumerate(blocks):
            where = "pipeline step %d of %d (N=%d)" % (k, K, n)
            fail = None
            trig = bool(b["trig"])
            if not (b["cn"] == n and b["ccols"] == n and b["wrows"] == n): fail = ("particle-count", "corrected set has components=%d, columns=%d, weights=%d" % (b["cn"], b["ccols"], b["wrows"]))
            elif not (b["clin"] == 4 and b["ccirc"] == 0 and b["srows"] == 4): fail = ("layout-lost", "layout (%d, %d), %d rows" % (b["clin"], b["ccirc"], b["srows"]))
            elif not all(math.isfinite(x) for x in b["w"]): fail = ("weight-not-finite", "a log-weight is not finite")
            elif abs(lse(b["w"])) > 1e-10: fail = ("not-normalised", "log-sum-exp of the corrected log-weights is %.3g" % lse(b["w"]))
            elif len(b["cw"]) != n or trig != (b["neff"] < thr): fail = ("resample-trigger", "neff = %.17g, N/3 = %.17g, resampling %s" % (b["neff"], thr, "ran" if trig else "did not run"))
            elif trig and (not all(is_minus_log_n(hexd(x), n) for x in b["w"]) or not b["copies"] or not b["u1ok"]): fail = ("not-uniform-after-resampling", "after resampling: weights not all -log N / particles not copies at the parents")
            elif not trig and not bits_equal(b["w"], b["cw"]): fail = ("neff-not-of-corrected-weights", "resampling did not run, yet neff was evaluated on other weights")
            elif not b["lik_same"]: fail = ("likelihood-query-not-idempotent", "two getLikelihood() calls after the step disagree")
            elif not (b["vm"] and b["vl"] and len(b["lik"]) == n): fail = ("reweight-wrong", "measurement / likelihood not valid although the acquisition succeeded")
            else:
                want_l = [math.exp(-((b["y"][0] - x) ** 2 + (b["y"][1] - y) ** 2) / (2 * sigma * sigma)) / (2 * math.pi * sigma * sigma) for x, y in zip(b["px"], b["py"])]
                # below ~1e-290 the true density underflows; Eigen's vectorised exp saturates there (tiny positive values instead
                # of 0): only "vanishing and non-negative" is required in that regime
                if any((abs(a - w) > 1e-8 * w) if w > 1e-280 else not (0.0 <= a <= 1e-270) for a, w in zip(b["lik"], want_l)):
                    fail = ("likelihood-value", "reported likelihood is not N(y - Hx; 0, R) of the predicted particles")
                else:
                    raw = [w + math.log(li + TINY) for w, li in zip(prev_w, b["lik"])]
                    lr = lse(raw)
                    if not all(close(a, x - lr) for a, x in zip(b["cw"], raw)) or not bits_equal(b["pw"], prev_w):
                        fail = ("reweight-wrong", "corrected log-weights are not w_prev + log(l + tiny) - LSE for the likelihood the correction reports")
            if fail:
                bad.append(("prop", fail[0], "%s: %s" % (where, fail[1]), line, h)); break
            lk = "log_calls_as_model" if (b["log_calls"] == 1 and bits_equal(b["lw"], b["cw"])) else "log_calls_not_as_model"
            stats[lk] = stats.get(lk, 0) + 1
            if live:
                mb = mblocks[k]
                if (mb["cn"], mb["clin"], mb["ccirc"], mb["ccols"], mb["wrows"]) != (b["cn"], b["clin"], b["ccirc"], b["ccols"], b["wrows"]) or not close(mb["neff"], b["neff"]):
                    bad.append(("corr", "pipeline-model", "%s: shape / neff differ from the model" % where, line, h)); live = False
                elif mb["trig"] != b["trig"]:
                    if not (abs(b["neff"] - thr) <= 1e-9 * thr or abs(mb["neff"] - thr) <= 1e-9 * thr):
                        bad.append(("corr", "pipeline-model", "%s: trigger differs from the model" % where, line, h))
                    live = False
                elif trig and mb["parents"] != b["parents"]:
                    e = [Fraction(sexp(x)) for x in b["cw"]]
                    tol = Fraction(n * EPS + 2.0 ** -40)
                    if not (len(mb["parents"]) == n and all(within_slack(n, frac_of_hex(b["u1"]), cum_sums(e), j, mb["parents"][j], b["parents"][j], b["parents"][j], tol) for j in range(n))):
                        bad.append(("corr", "pipeline-model", "%s: parents differ from the model beyond rounding" % where, line, h))
                    live = False
                elif not all(close(a, x) for a, x in zip(mb["w"], b["w"])) or not bits_equal(mb["x"], b["x"]):
                    bad.append(("corr", "pipeline-model", "%s: weights / particles differ from the model" % where, line, h)); live = False
                else:
                    stats["pipeline_steps_identical_to_model"] = stats.get("pipeline_steps_identical_to_model", 0) + 1
            stats["pipeline_steps_resampled" if trig else "pipeline_steps_kept"] = stats.get("pipeline_steps_resampled" if trig else "pipeline_steps_kept", 0) + 1
            prev_w = b["w"]
    return len(cases), bad, len(logs)


def run(ctx):
    ctx.proof_stage()
    if not ctx.quick():
        bad = vlib.leanchecker(['BFL.Props.C06', 'BFL.Proofs.SIS', 'BFL.Model.SIS', 'BFL.Model.Resample'])
        ctx.coverage["leanchecker"] = "failed: %s" % bad if bad else "all modules re-checked"
        if bad:
            ctx.violation("leanchecker", "leanchecker rejects compiled modules: %s" % bad, {"modules": bad}, no_input=True)
    binary = vlib.build_harness("h_pf")
    g = ctx.gen("sis")
    r = g.r
    n_hist = ctx.n(700, 5000)
    cases = []
    corpus = vlib.VERIF / "corpus" / "C06" / "cases.txt"
    replay_line = None
    if ctx.replay:
        import json
        replay_line = json.load(open(ctx.replay)).get("replay", {}).get("input_line")
    glik_replay = replay_line if (replay_line and replay_line.startswith("glik")) else None
    pipe_replay = replay_line if (replay_line and replay_line.startswith("pipe")) else None
    if replay_line:
        if not glik_replay and not pipe_replay:
            cases.append(parse_line(replay_line))
        n_hist = 0
    elif corpus.exists():
        for ln in corpus.read_text().split("\n"):
            if ln.strip() and not ln.startswith("#"):
                cases.append(parse_line(ln.strip()))
    for forced in [] if replay_line else ["late-corOn"] * 6 + ["mid-corOn"] * 6 + ["n3-onehot"] * 4 + ["n3-init-onehot"] * 2 + ["n6-twohot"] * 2 + ["init-peaked"] * 4 + ["unnorm-init"] * ctx.n(8, 60) + ["circ-resample"] * ctx.n(12, 100) + ["circ-resample-prior"] * ctx.n(8, 60):
        cases.append(gen_history(r, ctx.tier, forced))
    if not replay_line:
        cases += special_histories(ctx.gen("sis-special").r, ctx.tier)
    cases += [gen_history(r, ctx.tier) for _ in range(n_hist)]
    # the draws of the resampler's generator (twin generator, same seed, same distribution)
    uouts, _ = vlib.run_harness(binary, ["u1 %d %d %d" % (c[0], draw_count(c), len(c[6])) for c, _ in cases])
    hlines, dlines = [], []
    for (case, meta), uo in zip(cases, uouts):
        us = uo.split()[1:] if uo.startswith("ok") else []
        hl, dl = make_lines(case, us)
        hlines.append(hl)
        dlines.append(dl)
    hout, logs = vlib.run_harness(binary, hlines)
    dout = vlib.run_driver(dlines)
    stats, hist, modes, distinct = {}, {}, {}, set()
    corr_bad, prop_bad = [], []
    steps_total = 0
    for (case, meta), hl, h, d in zip(cases, hlines, hout, dout):
        modes[meta["mode"]] = modes.get(meta["mode"], 0) + 1
        if meta.get("prior"):
            stats["histories_with_prior_mixing_resampler"] = stats.get("histories_with_prior_mixing_resampler", 0) + 1
        if meta["circ"] > 0:
            stats["histories_with_circular_components"] = stats.get("histories_with_circular_components", 0) + 1
        distinct.add(hl)
        steps_total += meta["K"]
        try:
            probs = check_history(case, meta, h, d, stats, hist)
        except (IndexError, ValueError, AssertionError, KeyError, OverflowError, ZeroDivisionError, TypeError) as ex:
            probs = [("prop", "malformed-output", "harness output not parseable (%r): %s" % (ex, h[:160]))]
        for kind, key2, what in probs:
            (corr_bad if kind == "corr" else prop_bad).append((key2, what, hl, h))
    n_lik, lik_bad, lik_crashes = (0, [], 0) if (replay_line and not glik_replay) else likelihood_stage(ctx, binary, stats, glik_replay)
    n_pipe, pipe_bad, pipe_crashes = (0, [], 0) if (replay_line and not pipe_replay) else pipeline_stage(ctx, binary, stats, pipe_replay)
    for kind, key2, what, line, h in lik_bad + pipe_bad:
        (corr_bad if kind == "corr" else prop_bad).append((key2, what, line, h))
    prop_bad.sort(key=lambda v: len(v[2]))          # report the smallest failing input of each kind
    corr_bad.sort(key=lambda v: len(v[2]))
    seen = set()
    for key2, what, hl, h in prop_bad:
        if key2 in seen:
            continue
        seen.add(key2)
        ctx.violation(key2, "SIS: " + what, {"harness": "h_pf", "input_line": hl, "observed": h[:4000]})
    if corr_bad and not prop_bad:
        key2, what, hl, h = corr_bad[0]
        ctx.violation("correspondence:" + key2, "model and implementation disagree (%d findings), no property predicate failed: %s" % (len(corr_bad), what),
                      {"harness": "h_pf", "correspondence": "sisStep vs SIS::filtering_step", "input_line": hl, "observed": h[:4000]}, no_input=True)
    nontrivial = set(hl for (c, m), hl in zip(cases, hlines) if m["n"] > 1 and m["K"] > 1)
    resampled_circ = sum(v for k, v in hist.items() if k.endswith("resample"))
    ctx.coverage.update({
        "evaluations": len(cases) + n_lik + n_pipe, "shipped_pipeline_histories": n_pipe, "distinct_nontrivial": len(nontrivial & distinct),
        "gaussian_likelihood_cases": n_lik, "gaussian_likelihood_fail_subsets_exhaustive": True,
        "rule": "scripted histories of the real SIS filter thread (several skip commands per step incl. sequences netting to nothing, reset -> re-initialisation epochs with a time-varying initialiser, time-varying prediction shift, un-normalised initial weights with failing acquisition): 1..%d steps, N in 1..50, layouts lin 0..3 / circ 0..2, per step a skip command "
                "(prediction/correction/all on/off), acquisition success/failure, valid/invalid likelihood, likelihood vectors (ones, random, peaked, exact zeros, "
                "all zero, 1e-300, one-hot, two-hot, 1e300); forced boundary histories (N=3 one-hot: neff == N/3 exactly; resampling with circular components); "
                "enumerated in every run: N at every multiple of 256 up to 4096 (and +-1), the largest corrected log-weight attained exactly at every pair of positions (N = 2..6) and at block boundaries of long vectors; "
                "non-trivial = N > 1 and more than one step; distinct = distinct input lines" % (30 if ctx.quick() else 60),
        "samples": ([hlines[0][:400], hlines[len(hlines) // 2][:400]] if hlines else [str(glik_replay or pipe_replay)[:400]]),
        "chunk_boundary_particle_counts": sorted(set(m["n"] for c, m in cases if m["mode"] == "chunk")),
        "tie_at_maximum_histories": sum(1 for c, m in cases if m["mode"] == "tie-max"),
        "steps_executed": steps_total, "step_class_histogram": hist, "history_mode_histogram": modes,
        "branch_and_numeric_counters": stats, "steps_with_resampling": resampled_circ,
        "traces_validated_against_impl": len(cases),
        "model_vs_impl_disagreements": len(corr_bad), "property_failures_on_impl": len(prop_bad),
        "sanitizer_crashes": len(logs) + lik_crashes + pipe_crashes,
    })
    ctx.assumptions += [
        "likelihoods non-negative (hypothesis EvOK.likNonneg): checked on the shipped GaussianLikelihood (gaussian_likelihood_contract; density non-negative is C15's)",
        "initial weights normalised (hypothesis InitOK of the theorems; true of the shipped InitSurveillanceAreaGrid and of the scripted initialiser)",
        "prediction step satisfies PredOK (shape-preserving, copies weights): DrawParticles over a harness-defined deterministic state model",
        "the draws of the resampler are obtained from a twin std::mt19937_64 + uniform_real_distribution(0, 1/N); 0 < u1 < 1/N asserted on every draw",
        "Float execution of the model: weights compared within 1e-9 relative; a trigger/parent disagreement with the model is tolerated only within rounding "
        "(|neff - N/3| <= 1e-9 N/3, comb point within N*2^-52 + 2^-40 of the disputed cumulative weights), after which the history is no longer compared with the model "
        "(the implementation-side predicates are still evaluated on every step)",
        "normalisation tolerance |LSE| <= 1e-10 (observed maximum reported as max_abs_lse)",
    ]
