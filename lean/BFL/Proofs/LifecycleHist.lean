import BFL.Proofs.LifecycleMon
import BFL.Proofs.LifecycleLive
/-
C09 — the history grows one event at a time: every suffix of the history of a schedule is the
history of a prefix of that schedule.  This turns "at every moment …" invariants into
statements about the position of events inside the final history.
-/
namespace BFL.Life

theorem step_hist_cases (cfg : Cfg) (s : St) (a : Act) :
    (step cfg s a).hist = s.hist ∨ ∃ e, (step cfg s a).hist = e :: s.hist := by
  obtain ⟨pc, run, reset, td, stp, woken, mid, joined, hist⟩ := s
  cases a with
  | c x => cases x <;> simp only [step, ctl] <;> (try split) <;> simp
  | fin => simp only [step, fin]; split <;> simp
  | spur => simp only [step]; split <;> simp
  | t b => cases pc <;> simp only [step, thr] <;> (repeat' split) <;> simp [Option.getD]

theorem hist_prefix_from (cfg : Cfg) (as : List Act) :
    ∀ (s0 : St) (later : List Ev) (e : Ev) (rest : List Ev), (exec cfg s0 as).hist = later ++ e :: rest →
      (∃ l', s0.hist = l' ++ e :: rest) ∨ ∃ as', as' <+: as ∧ (exec cfg s0 as').hist = e :: rest := by
  induction as with
  | nil => intro s0 later e rest h; exact Or.inl ⟨later, by simpa [exec] using h⟩
  | cons a as ih =>
    intro s0 later e rest h
    rw [exec_cons] at h
    rcases ih _ later e rest h with ⟨l', hl⟩ | ⟨as', hp, hh⟩
    · rcases step_hist_cases cfg s0 a with hs | ⟨e', hs⟩
      · exact Or.inl ⟨l', by rw [← hs, hl]⟩
      · rw [hs] at hl
        cases l' with
        | nil =>
          refine Or.inr ⟨[a], by simp, ?_⟩
          simp only [List.nil_append] at hl
          simp [exec, hs, hl]
        | cons x l' =>
          simp only [List.cons_append, List.cons.injEq] at hl
          exact Or.inl ⟨l', hl.2⟩
    · exact Or.inr ⟨a :: as', by simpa using hp, by rw [exec_cons]; exact hh⟩

/-- every non-empty suffix of the history was the whole history after some prefix of the schedule -/
theorem hist_prefix (cfg : Cfg) (as : List Act) (later : List Ev) (e : Ev) (rest : List Ev)
    (h : (runAll cfg as).hist = later ++ e :: rest) :
    ∃ as', as' <+: as ∧ (runAll cfg as').hist = e :: rest := by
  rcases hist_prefix_from cfg as St.boot later e rest h with ⟨l', hl⟩ | h2
  · simp [St.boot] at hl
  · exact h2

/-! ### counting steps -/

def isStep : Ev → Bool | .stepStart _ => true | _ => false

/-- number of steps started in a stretch of history -/
def countSteps (l : List Ev) : Nat := (l.filter isStep).length

theorem runMon_td (post : List Ev) : runMon tdδ 0 post = countSteps post := by
  induction post with
  | nil => rfl
  | cons e post ih =>
    cases e <;> simp_all [runMon_cons, tdδ, countSteps, isStep, List.filter_cons]

theorem runMon_rs (seg : List Ev) (h : Ev.init ∉ seg) : runMon rsδ (some 0) seg = some (countSteps seg) := by
  induction seg with
  | nil => rfl
  | cons e seg ih =>
    have h' : Ev.init ∉ seg := fun hm => h (List.mem_cons_of_mem _ hm)
    cases e <;> simp_all [runMon_cons, rsδ, countSteps, isStep, List.filter_cons]

/-! ### reading the reboot monitor -/

theorem rb_bad_absorbing (post seg : List Ev) (h : runMon rbδ .a (post ++ seg) ≠ .bad) :
    runMon rbδ .a seg ≠ .bad := by
  induction post with
  | nil => simpa using h
  | cons e post ih =>
    apply ih
    intro hb
    apply h
    simp only [List.cons_append, runMon_cons, hb, rbδ]

theorem rb_after_init (seg : List Ev) (h : Ev.init ∈ seg) :
    runMon rbδ .a seg = .b ∨ runMon rbδ .a seg = .c ∨ runMon rbδ .a seg = .ok ∨ runMon rbδ .a seg = .bad := by
  induction seg with
  | nil => simp at h
  | cons e seg ih =>
    simp only [runMon_cons]
    by_cases he : e = .init
    · subst he
      cases hm : runMon rbδ .a seg <;> simp [rbδ]
    · have hin : Ev.init ∈ seg := by
        rcases List.mem_cons.1 h with h1 | h1
        · exact absurd h1.symm he
        · exact h1
      rcases ih hin with h1 | h1 | h1 | h1 <;> rw [h1] <;> cases e <;> simp_all [rbδ]

theorem rb_ok_witness (seg : List Ev) (h : runMon rbδ .a seg = .ok) :
    ∃ s2 s1, seg = s2 ++ Ev.init :: s1 ∧ Ev.cmdRun ∈ s1 := by
  induction seg with
  | nil => simp at h
  | cons e seg ih =>
    simp only [runMon_cons] at h
    cases hm : runMon rbδ .a seg with
    | ok =>
      obtain ⟨s2, s1, hs, hr⟩ := ih hm
      exact ⟨e :: s2, s1, by simp [hs], hr⟩
    | a => rw [hm] at h; cases e <;> simp [rbδ] at h
    | b => rw [hm] at h; cases e <;> simp [rbδ] at h
    | bad => rw [hm] at h; simp [rbδ] at h
    | ar =>
      rw [hm] at h
      have he : e = .init := by cases e <;> simp_all [rbδ]
      subst he
      refine ⟨[], seg, rfl, ?_⟩
      -- state `ar` is reached only through a run request
      clear h ih
      induction seg with
      | nil => simp at hm
      | cons f seg ih2 =>
        simp only [runMon_cons] at hm
        by_cases hf : f = .cmdRun
        · simp [hf]
        · apply List.mem_cons_of_mem
          apply ih2
          cases hm2 : runMon rbδ .a seg <;> rw [hm2] at hm <;> cases f <;> simp_all [rbδ]
    | c =>
      rw [hm] at h
      have he : e = .init := by cases e <;> simp_all [rbδ]
      subst he
      refine ⟨[], seg, rfl, ?_⟩
      clear h ih
      induction seg with
      | nil => simp at hm
      | cons f seg ih2 =>
        simp only [runMon_cons] at hm
        by_cases hf : f = .cmdRun
        · simp [hf]
        · apply List.mem_cons_of_mem
          apply ih2
          cases hm2 : runMon rbδ .a seg <;> rw [hm2] at hm <;> cases f <;> simp_all [rbδ]

/-! ### reading the epoch acceptor -/

theorem shape_bad_absorbing (post l : List Ev) (h : shape (post ++ l) ≠ .bad) : shape l ≠ .bad := by
  induction post with
  | nil => simpa using h
  | cons e post ih =>
    apply ih
    intro hb
    apply h
    simp only [List.cons_append, shape, hb, shapeStep]

theorem shape_step_pre (k : Nat) (pre : List Ev) (h : shape (.stepStart k :: pre) ≠ .bad) :
    shape pre = .next k := by
  simp only [shape] at h
  cases hs : shape pre with
  | bad => simp [hs, shapeStep] at h
  | idle => simp [hs, shapeStep] at h
  | next j =>
    rw [hs] at h
    simp only [shapeStep] at h
    split at h
    · next hjk => rw [hjk]
    · exact absurd rfl h

/-- inside an epoch whose next step is `k`, the latest Init/Step event is `Init` (k = 0) or
`Step (k-1)` -/
theorem shape_next_last (pre : List Ev) : ∀ k, shape pre = .next k →
    (workEvents pre).head? = some (if k = 0 then Ev.init else Ev.stepStart (k - 1)) := by
  induction pre with
  | nil => intro k h; simp [shape] at h
  | cons e pre ih =>
    intro k h
    simp only [shape] at h
    cases hs : shape pre with
    | bad => simp [hs, shapeStep] at h
    | idle =>
      rw [hs] at h
      cases e <;> simp [shapeStep] at h
      subst h; simp [workEvents]
    | next j =>
      rw [hs] at h
      cases e with
      | init => simp [shapeStep] at h; subst h; simp [workEvents]
      | stepStart i =>
        simp only [shapeStep] at h
        split at h
        · next hij => simp at h; subst h; subst hij; simp [workEvents]
        · simp at h
      | _ =>
        simp only [shapeStep, Shape.next.injEq] at h
        subst h
        simpa [workEvents] using ih j hs

end BFL.Life
