/-
C09 — model of the filter lifecycle (`FilteringAlgorithm.cpp`, as it is after the fixes 56cf611
and 3c680f4): a small-step transition system of the filtering thread interleaved with the
controller's commands.  Core Lean only (the driver executes these very definitions).

Source (filtering_recursion):

    do {                                              pc
        [sp0]  reset_ = false;                        top
               filtering_step_ = 0;                   zero
        [sp1]  lock; while (!(run_||teardown_))       preWait   (lock + predicate, atomic under the mutex)
                         cond_wait;                   blocking  (predicate was false, mutex still held)
               unlock;                                waiting   (inside the wait, mutex released)
        [sp2]  initialization_step();                 preInit, inInit
               while (run_condition()                 inA
                      && !teardown_                   inB
                      && !reset_) {                   inC
                   filtering_step();                  aboutStep, inStep
                   ++filtering_step_; }               incr
        [sp3]                                         afterLoop
    } while (run_condition()                          outA
             && (run_                                 outB
                 || reset_)                           outC
             && !teardown_);                          outD
    [sp4] run_ = false;                               preFinal
    [sp5]                                             done

Every read or write of a shared flag is a move of its own, in the source's short-circuit order,
so a command can arrive between any two of them.  The mutex is modelled by who holds it: the
filtering thread holds it exactly at `blocking` (between the predicate evaluation and the
atomic release-and-block of the condition wait), the controller holds it between the two
stores of `reboot()` (`mid`).  `run()` and `teardown()` perform one store under the mutex, so
they are single moves; a command that needs the mutex while the thread holds it does not
happen (the controller is blocked; the schedule may issue it again later).
-/
namespace BFL.Life

inductive PC
  | top | zero | preWait | blocking | waiting | preInit | inInit
  | inA | inB | inC | aboutStep | inStep | incr | afterLoop
  | outA | outB | outC | outD | preFinal | done
  deriving DecidableEq, Repr, Inhabited

/-- Ghost events (the history is newest first). -/
inductive Ev
  | init | stepStart (k : Nat) | stepEnd (k : Nat) | rc (b : Bool)
  | cmdRun | cmdReset | cmdReboot | cmdTeardown | thrDone | joined
  deriving DecidableEq, Repr, Inhabited

/-- How `teardown()` is written: the current code locks and notifies (`Cfg.current`); the code
before fix 56cf611 did neither (`Cfg.old`). -/
structure Cfg where
  tdLock : Bool
  tdNotify : Bool
  deriving DecidableEq, Repr

def Cfg.current : Cfg := ⟨true, true⟩
def Cfg.old : Cfg := ⟨false, false⟩

structure St where
  pc : PC := .top
  run : Bool := false
  reset : Bool := false
  teardown : Bool := false
  step : Nat := 0
  /-- a notification is pending for the thread blocked in the condition wait -/
  woken : Bool := false
  /-- the controller is between the two stores of `reboot()` and holds the mutex -/
  mid : Bool := false
  joined : Bool := false
  hist : List Ev := []
  deriving Repr, Inhabited

/-- state right after `boot()`: the thread exists and is at the top of the recursion -/
def St.boot : St := {}

/-- state after a `boot()` that could not create the thread (it returns false): there is no
filtering thread, `wait()` finds nothing to join and returns -/
def St.bootFailed : St := { pc := .done }

inductive Cmd | run | reset | reboot | teardown | wait
  deriving DecidableEq, Repr, Inhabited

/-- the mutex is held by the filtering thread -/
abbrev St.thrHolds (s : St) : Bool := s.pc == .blocking

/-- `notify_one`: reaches the thread only if it is blocked inside the wait -/
abbrev St.notify (s : St) : Bool := s.woken || (s.pc == .waiting)

/-- A controller command.  Commands that take the mutex do nothing while it is held by the
thread or by an unfinished `reboot()`. -/
def ctl (cfg : Cfg) (s : St) : Cmd → St
  | .run =>
    if s.pc == .blocking || s.mid then s
    else { s with run := true, woken := s.notify, hist := .cmdRun :: s.hist }
  | .reset => { s with reset := true, hist := .cmdReset :: s.hist }
  | .reboot =>
    if s.pc == .blocking || s.mid then s
    else { s with reset := true, mid := true, hist := .cmdReboot :: s.hist }
  | .teardown =>
    if cfg.tdLock && (s.pc == .blocking || s.mid) then s
    else { s with teardown := true, woken := if cfg.tdNotify then s.notify else s.woken,
                  hist := .cmdTeardown :: s.hist }
  | .wait =>
    if s.pc == .done && !s.joined then { s with joined := true, hist := .joined :: s.hist } else s

/-- second half of `reboot()`: `run_ = false; notify; unlock` -/
def fin (s : St) : St :=
  if s.mid then { s with run := false, woken := s.notify, mid := false } else s

/-- One move of the filtering thread; `c` is what `run_condition()` returns if it is called in
this move; `none` = the thread cannot move (blocked on the mutex, blocked in the wait, ended). -/
def thr (s : St) (c : Bool) : Option St :=
  match s.pc with
  | .top      => some { s with reset := false, pc := .zero }
  | .zero     => some { s with step := 0, pc := .preWait }
  | .preWait  =>
    if s.mid then none
    else if s.run || s.teardown then some { s with pc := .preInit }
    else some { s with pc := .blocking }
  | .blocking => some { s with pc := .waiting, woken := false }
  | .waiting  =>
    if s.woken && !s.mid then
      (if s.run || s.teardown then some { s with pc := .preInit, woken := false }
       else some { s with pc := .blocking, woken := false })
    else none
  | .preInit  => some { s with pc := .inInit, hist := .init :: s.hist }
  | .inInit   => some { s with pc := .inA }
  | .inA      => some { s with pc := if c then .inB else .afterLoop, hist := .rc c :: s.hist }
  | .inB      => some { s with pc := if s.teardown then .afterLoop else .inC }
  | .inC      => some { s with pc := if s.reset then .afterLoop else .aboutStep }
  | .aboutStep => some { s with pc := .inStep, hist := .stepStart s.step :: s.hist }
  | .inStep   => some { s with pc := .incr, hist := .stepEnd s.step :: s.hist }
  | .incr     => some { s with pc := .inA, step := s.step + 1 }
  | .afterLoop => some { s with pc := .outA }
  | .outA     => some { s with pc := if c then .outB else .preFinal, hist := .rc c :: s.hist }
  | .outB     => some { s with pc := if s.run then .outD else .outC }
  | .outC     => some { s with pc := if s.reset then .outD else .preFinal }
  | .outD     => some { s with pc := if s.teardown then .preFinal else .top }
  | .preFinal => some { s with run := false, pc := .done, hist := .thrDone :: s.hist }
  | .done     => none

/-- Actions of a schedule: a command, the end of a `reboot()`, one thread move (with the value
the environment gives to `run_condition()`), a spurious wake-up of the condition wait. -/
inductive Act | c (x : Cmd) | fin | t (cond : Bool) | spur
  deriving Repr, Inhabited

def step (cfg : Cfg) (s : St) : Act → St
  | .c x => ctl cfg s x
  | .fin => fin s
  | .t b => (thr s b).getD s
  | .spur => if s.pc == .waiting then { s with woken := true } else s

def exec (cfg : Cfg) (s : St) (as : List Act) : St := as.foldl (step cfg) s

/-- the state after a schedule, starting right after `boot()` -/
def runAll (cfg : Cfg) (as : List Act) : St := exec cfg St.boot as

/-! ### a consumer of the step number inside the library: `SIS::filtering_step()`

    void SIS::filtering_step()
    {
        if (step_number() != 0)
            prediction().predict(cor_particle_, pred_particle_);
        ...

The step that carries number `k` predicts unless `k = 0`: the first step of an epoch works on the
particles `initialization_step()` has just drawn. -/
def sisPredicts (stepNumber : Nat) : Bool := stepNumber != 0

/-! ### observations -/
def St.isRunning (s : St) : Bool := s.run
def St.stepNumber (s : St) : Nat := s.step

end BFL.Life
