import BFL.Model.KF
import BFL.Model.Density
/-
Model of `KFCorrection::getLikelihood` (src/BayesFilters/src/KFCorrection.cpp): for component `i`
the Gaussian density of the stored innovation `ν_i = y − H m_i` under `N(0, S_i)`,
`S_i = H P_i Hᵀ + R` (the member `meas_covariances_`), through
`utils::multivariate_gaussian_density` (BFL/Model/Density.lean).
-/
namespace BFL

section
variable {α : Type} [Add α] [Sub α] [Mul α] [Div α] [Neg α] [Zero α] [One α] [Inhabited α] [DecidableEq α]
  [Transc α] {n m k : Nat}

/-- a vector as a one-column batch (`innovations_.col(i)`) -/
def colBatch (v : Vec α m) : Mat α m 1 := Mat.of (fun i _ => v i)

/-- `likelihood(i) = multivariate_gaussian_density(innovations_.col(i), Zero, meas_covariances_.covariance(i))` -/
def kfLikelihood (inv : InvFn α) (H : Mat α m n) (R : Mat α m m) (y : Vec α m) (b : GM α n k) (i : Fin k) : α :=
  density inv (colBatch (kfInnovation H y (b.mean i))) Vec.zero (kfS H (b.cov i) R) 0

end
end BFL
