import BFL.Proofs.ShapeOps
/-
C11 — Belief containers keep their declared shape consistent with their storage.

Theorems about the executable model `BFL.Shape` (BFL/Model/Shape.lean) of `GaussianMixture`,
`Gaussian` and `ParticleSet`: for every operation sequence of every length, every layout
(any component count ≥ 0 — `augmentWithNoise` needs ≥ 1 —, any linear/circular/noise size, Euler and quaternion) and every scalar
type.  `WF` is the agreement the property states; contents are `Option α` cells (`none` =
unspecified), so every equation below is between specified-or-unspecified cells and says in
particular that a specified cell stays specified with the same value.

`operator+=` has an unchecked precondition in the code ("Should check whether …"): with operands
whose state, mean or covariance storage have different row counts the `-UNDEBUG` build stops in an
Eigen assertion (the release build would write out of bounds).  That is a precondition violation
by the caller; the model returns `none` (`Outcome.assert`) there, `concat_requires` states exactly
which operands are accepted, and the theorems about concatenation are about accepted operands.
-/
namespace BFL.Shape

variable {α : Type}

/-! ### Well-formedness is an invariant of every operation sequence -/

/-- Every constructor overload of the three classes yields a well-formed container, for every
    component count including 0. -/
theorem wf_ctor [One α] [Div α] [NatCast α] (kind : Kind) (k l c d : Nat) (q : Bool) :
    WF (ctorDefault kind : Container α) ∧ WF (ctorDim kind k d : Container α) ∧
    WF (ctorLayout kind k l c q : Container α) :=
  ⟨wf_ctorDefault kind, wf_ctorDim kind k d, wf_ctorLayout kind k l c q⟩

/-- Each operation (construction, copy, base-class copy, the three `resize`s, noise augmentation with
    any matrix, `+=`, `+`, element writes, fills) keeps every live object well-formed. -/
theorem wf_step [Zero α] [One α] [Div α] [NatCast α] (p p' : Pool α) (op : Op α) (hp : PoolWF p)
    (hd : Disciplined p op) (h : step p op = Outcome.ok p') : PoolWF p' :=
  wf_step_pool p p' op hp hd h

/-- After any sequence of operations every live object is well-formed. -/
theorem wf_of_ops [Zero α] [One α] [Div α] [NatCast α] (ops : List (Op α))
    (hd : DisciplinedFrom emptyPool ops) : PoolWF (run ops).1 :=
  wf_runFrom ops emptyPool poolWF_empty hd

/-- An operation touches only its destination: copies are deep, operands are left alone. -/
theorem op_frame [Zero α] [One α] [Div α] [NatCast α] (p p' : Pool α) (op : Op α)
    (h : step p op = Outcome.ok p') (t : Nat) (ht : t ≠ op.dst) (hmv : ∀ d s, op = Op.move d s → t ≠ s) :
    p' t = p t :=
  step_frame p p' op h t ht hmv

/-! ### Per-component accessors address exactly that component's block -/

/-- In a well-formed container the blocks `mean(i)`, `covariance(i)`, `state(i)`, `weight(i)` for
    `i < components` lie inside the storage, have the declared shape (`dim × 1`,
    `dim_covariance × dim_covariance`, `(dim − dim_noise) × 1`), are pairwise disjoint and together
    cover the storage. -/
theorem accessor_block (x : Container α) (h : WF x) :
    (∀ i, i < x.components →
      (meanBlock x i).1 + (meanBlock x i).2 ≤ x.mean.cols ∧ (meanBlock x i).2 = 1 ∧ x.mean.rows = x.dim ∧
      (covBlock x i).1 + (covBlock x i).2 ≤ x.cov.cols ∧ (covBlock x i).2 = x.dimCovariance ∧
        x.cov.rows = x.dimCovariance ∧
      weightIndex x i < x.weight.rows ∧
      (x.kind = Kind.ps → (stateBlock x i).1 + (stateBlock x i).2 ≤ x.state.cols ∧ (stateBlock x i).2 = 1 ∧
        x.state.rows = x.dim - x.dimNoise)) ∧
    (∀ i j, i < j → (meanBlock x i).1 + (meanBlock x i).2 ≤ (meanBlock x j).1 ∧
      (covBlock x i).1 + (covBlock x i).2 ≤ (covBlock x j).1 ∧
      (stateBlock x i).1 + (stateBlock x i).2 ≤ (stateBlock x j).1 ∧ weightIndex x i < weightIndex x j) ∧
    (∀ c, c < x.mean.cols → ∃ i, i < x.components ∧ (meanBlock x i).1 ≤ c ∧ c < (meanBlock x i).1 + (meanBlock x i).2) ∧
    (∀ c, c < x.cov.cols → ∃ i, i < x.components ∧ (covBlock x i).1 ≤ c ∧ c < (covBlock x i).1 + (covBlock x i).2) ∧
    (∀ r, r < x.weight.rows → ∃ i, i < x.components ∧ weightIndex x i = r) ∧
    (x.kind = Kind.ps → ∀ c, c < x.state.cols →
      ∃ i, i < x.components ∧ (stateBlock x i).1 ≤ c ∧ c < (stateBlock x i).1 + (stateBlock x i).2) := by
  refine ⟨?_, ?_, ?_, ?_, ?_, ?_⟩
  · intro i hi
    refine ⟨by simp only [meanBlock, h.meanCols]; omega, rfl, h.meanRows, covBlock_in_range x h i hi, rfl,
      h.covRows, by simp only [weightIndex, h.weightRows]; exact hi, ?_⟩
    intro hk
    exact ⟨by simp only [stateBlock, h.stateCols hk]; omega, rfl, h.stateRows hk⟩
  · intro i j hij
    exact ⟨by simp only [meanBlock]; omega, covBlock_disjoint x i j hij, by simp only [stateBlock]; omega, hij⟩
  · intro c hc
    exact ⟨c, by rw [← h.meanCols]; exact hc, Nat.le_refl c, by simp only [meanBlock]; omega⟩
  · exact covBlock_cover x h
  · intro r hr
    exact ⟨r, by rw [← h.weightRows]; exact hr, rfl⟩
  · intro hk c hc
    exact ⟨c, by rw [← h.stateCols hk]; exact hc, Nat.le_refl c, by simp only [stateBlock]; omega⟩

/-- `Gaussian`'s own accessors (`mean()` = column 0, `covariance()` = the whole matrix, `weight()`
    = entry 0) are component 0's block: that block is the whole storage. -/
theorem accessor_block_gaussian (x : Container α) (h : WF x) (hg : x.kind = Kind.gaussian) :
    meanBlock x 0 = (0, x.mean.cols) ∧ covBlock x 0 = (0, x.cov.cols) ∧ x.weight.rows = 1 := by
  have hk := h.gaussian hg
  refine ⟨by simp [meanBlock, h.meanCols, hk], by simp [covBlock, h.covCols, hk], by rw [h.weightRows, hk]⟩

/-- A write through an element accessor changes exactly the addressed cell of the addressed
    component's block (row `j`, column `block start + k`) and nothing else. -/
theorem write_through_accessor (x y : Container α) (i j k : Nat) (v : α) :
    (writeMean x i j v = some y →
      (∀ r c, y.mean.get r c = if r = j ∧ c = (meanBlock x i).1 then some v else x.mean.get r c) ∧
      y.cov = x.cov ∧ y.weight = x.weight ∧ y.state = x.state) ∧
    (writeCov x i j k v = some y →
      (∀ r c, y.cov.get r c = if r = j ∧ c = (covBlock x i).1 + k then some v else x.cov.get r c) ∧
      y.mean = x.mean ∧ y.weight = x.weight ∧ y.state = x.state) ∧
    (writeWeight x i v = some y →
      (∀ r c, y.weight.get r c = if r = weightIndex x i ∧ c = 0 then some v else x.weight.get r c) ∧
      y.mean = x.mean ∧ y.cov = x.cov ∧ y.state = x.state) ∧
    (writeState x i j v = some y →
      (∀ r c, y.state.get r c = if r = j ∧ c = (stateBlock x i).1 then some v else x.state.get r c) ∧
      y.mean = x.mean ∧ y.cov = x.cov ∧ y.weight = x.weight) :=
  ⟨writeMean_get, writeCov_get, writeWeight_get, writeState_get⟩

/-- In a well-formed container every element access through the accessors of a component
    `i < components` with indices inside the declared sizes is inside the storage (no Eigen
    assertion): `mean(i, j)` for `j < dim`, `covariance(i, j, k)` for `j, k < dim_covariance`,
    `weight(i)`, and for particle sets `state(i, j)` for `j < dim − dim_noise`. -/
theorem element_access_defined (x : Container α) (h : WF x) (i j k : Nat) (v : α) (hi : i < x.components) :
    (j < x.dim → ∃ y, writeMean x i j v = some y) ∧
    (j < x.dimCovariance → k < x.dimCovariance → ∃ y, writeCov x i j k v = some y) ∧
    (∃ y, writeWeight x i v = some y) ∧
    (x.kind = Kind.ps → j < x.dim - x.dimNoise → ∃ y, writeState x i j v = some y) := by
  refine ⟨?_, ?_, ?_, ?_⟩
  · intro hj
    simp only [writeMean, Sto.write, h.meanRows, h.meanCols]
    rw [if_pos ⟨hj, hi⟩]
    exact ⟨_, rfl⟩
  · intro hj hk
    have hc : x.dimCovariance * i + k < x.dimCovariance * x.components := by
      have := radix_lt hi hk
      rw [Nat.mul_comm x.dimCovariance i, Nat.mul_comm x.dimCovariance x.components]; exact this
    simp only [writeCov, Sto.write, h.covRows, h.covCols]
    rw [if_pos ⟨hj, hc⟩]
    exact ⟨_, rfl⟩
  · simp only [writeWeight, Sto.write, h.weightRows, h.weightCols]
    rw [if_pos ⟨hi, by omega⟩]
    exact ⟨_, rfl⟩
  · intro hk hj
    simp only [writeState, Sto.write, h.stateRows hk, h.stateCols hk]
    rw [if_pos ⟨hj, hi⟩]
    exact ⟨_, rfl⟩

/-! ### New mixtures start with uniform weights -/

/-- Every constructor sets every weight to `1 / components`. -/
theorem ctor_uniform_weights [One α] [Div α] [NatCast α] (kind : Kind) (k l c d : Nat) (q : Bool) (i : Nat) :
    (i < 1 → (ctorDefault kind : Container α).weight.get i 0 = some (1 / ((1 : Nat) : α))) ∧
    (i < (ctorDim kind k d : Container α).components →
      (ctorDim kind k d : Container α).weight.get i 0
        = some (1 / (((ctorDim kind k d : Container α).components : Nat) : α))) ∧
    (i < (ctorLayout kind k l c q : Container α).components →
      (ctorLayout kind k l c q : Container α).weight.get i 0
        = some (1 / (((ctorLayout kind k l c q : Container α).components : Nat) : α))) := by
  have key : ∀ (kind : Kind) (k l c : Nat) (q : Bool), i < k →
      (ctorFull kind k l c q : Container α).weight.get i 0 = some (1 / ((k : Nat) : α)) := by
    intro kind k l c q hi
    simp only [ctorFull, Sto.build_get]
    rw [if_pos ⟨hi, by omega⟩]
  refine ⟨fun hi => key kind 1 1 0 false hi, ?_, ?_⟩
  · cases kind <;> simp only [ctorDim] <;> intro hi <;> exact key _ _ _ _ _ hi
  · cases kind <;> simp only [ctorLayout] <;> intro hi <;> exact key _ _ _ _ _ hi

/-! ### Changing only the number of components preserves the surviving components -/

/-- `resize(k, dim_linear, dim_circular)` with the layout the container already has: only
    `components` changes, and every cell of every component `i < min(old, new)` — mean column,
    covariance block, weight, particle state — is what it was.  (For a `Gaussian` the only such
    call is `resize(dim_linear, dim_circular)` itself, which returns early: `gaussian_resize_same`.) -/
theorem resize_components_preserves (x : Container α) (h : WF x) (k : Nat) :
    let y := resize x k x.dimLinear x.dimCircular
    y.components = k ∧ y.kind = x.kind ∧ y.useQuaternion = x.useQuaternion ∧
    y.dimCircularComponent = x.dimCircularComponent ∧ y.dim = x.dim ∧ y.dimLinear = x.dimLinear ∧
    y.dimCircular = x.dimCircular ∧ y.dimNoise = x.dimNoise ∧ y.dimCovariance = x.dimCovariance ∧
    (∀ i r, i < x.components → i < k → y.mean.get r (meanBlock y i).1 = x.mean.get r (meanBlock x i).1) ∧
    (∀ i r c, i < x.components → i < k → c < x.dimCovariance →
      y.cov.get r ((covBlock y i).1 + c) = x.cov.get r ((covBlock x i).1 + c)) ∧
    (∀ i, i < x.components → i < k → y.weight.get (weightIndex y i) 0 = x.weight.get (weightIndex x i) 0) ∧
    (x.kind = Kind.ps → ∀ i r, i < x.components → i < k →
      y.state.get r (stateBlock y i).1 = x.state.get r (stateBlock x i).1) := by
  intro y
  obtain ⟨h1, h2, h3, h4, h5, h6, h7, h8, h9, hm, hc, hw, hs⟩ := resize_components_data x h k
  refine ⟨h1, h2, h3, h4, h5, h6, h7, h8, h9, hm, ?_, hw, hs⟩
  intro i r c hi hik hcc
  simp only [covBlock]
  rw [h9]
  exact hc i r c hi hik hcc

/-- `Gaussian::resize` with the layout it already has is the early return: nothing changes. -/
theorem gaussian_resize_same (x : Container α) (h : WF x) (hg : x.kind = Kind.gaussian) :
    gaussianResize x x.dimLinear x.dimCircular = x := by
  simp [gaussianResize, gmResize, h.gaussian hg]

/-! ### Noise augmentation: means `[m; 0]`, covariances `blockdiag(P, Q)` -/

/-- A matrix that is not square is refused: `false`, nothing changes. -/
theorem augment_nonsquare_unchanged [Zero α] (x : Container α) (qr qc : Nat) (q : Nat → Nat → α) (h : qr ≠ qc) :
    augment x qr qc q = some (x, false) :=
  augment_nonsquare x qr qc q h

/-- General form (`Q` given as cells, possibly read from the object itself).
    `augmentWithNoise(Q)` with an `a × a` matrix on a well-formed container with at least one
    component (necessary: `augment_zero_components_counterexample`; the container may already
    carry noise from earlier augmentations): no assertion, returns `true`; the noise, total and
    covariance sizes grow by `a`, nothing else changes in the layout; every component's mean is
    `[m; 0]` and every component's covariance is `blockdiag(P, Q)` — `P` being the whole previous
    covariance block; weights and particle states are not touched. -/
theorem augmentO_mean_cov [Zero α] (x : Container α) (h : WF x) (hk : 1 ≤ x.components) (a : Nat)
    (q : Nat → Nat → Option α) :
    ∃ y, augmentO x a a q = some (y, true) ∧ WF y ∧
      y.components = x.components ∧ y.kind = x.kind ∧ y.useQuaternion = x.useQuaternion ∧
      y.dimCircularComponent = x.dimCircularComponent ∧ y.dimLinear = x.dimLinear ∧
      y.dimCircular = x.dimCircular ∧ y.dimNoise = x.dimNoise + a ∧ y.dim = x.dim + a ∧
      y.dimCovariance = x.dimCovariance + a ∧ y.weight = x.weight ∧ y.state = x.state ∧
      (∀ i, i < x.components →
        (∀ r, r < x.dim → y.mean.get r (meanBlock y i).1 = x.mean.get r (meanBlock x i).1) ∧
        (∀ r, r < a → y.mean.get (x.dim + r) (meanBlock y i).1 = some 0) ∧
        (∀ r c, r < x.dimCovariance → c < x.dimCovariance →
          y.cov.get r ((covBlock y i).1 + c) = x.cov.get r ((covBlock x i).1 + c)) ∧
        (∀ r c, r < x.dimCovariance → c < a →
          y.cov.get r ((covBlock y i).1 + (x.dimCovariance + c)) = some 0) ∧
        (∀ r c, r < a → c < x.dimCovariance →
          y.cov.get (x.dimCovariance + r) ((covBlock y i).1 + c) = some 0) ∧
        (∀ r c, r < a → c < a →
          y.cov.get (x.dimCovariance + r) ((covBlock y i).1 + (x.dimCovariance + c)) = q r c)) := by
  obtain ⟨m2, hm2, he⟩ := augmentO_square x a q h.meanCols (by omega)
  have hwf : WF (augmented x a q m2) := wf_augmentO x h a a q _ true he
  refine ⟨augmented x a q m2, he, hwf, rfl, rfl, rfl, rfl, rfl, rfl, rfl, rfl, rfl, rfl, rfl, ?_⟩
  intro i hi
  obtain ⟨hmean1, hmean2⟩ := augment_mean x h a m2 hm2 i hi
  obtain ⟨c1, c2, c3, c4⟩ := augmented_cov x h a q m2 i hi
  have e : ∀ c, (covBlock (augmented x a q m2) i).1 + c = i * (x.dimCovariance + a) + c := by
    intro c; simp only [covBlock, augmented]; rw [Nat.mul_comm]
  have e' : ∀ c, (covBlock x i).1 + c = i * x.dimCovariance + c := by
    intro c; simp only [covBlock]; rw [Nat.mul_comm]
  refine ⟨hmean1, ?_, ?_, ?_, ?_, ?_⟩
  · intro r hr; exact hmean2 (x.dim + r) (by omega) (by omega)
  · intro r c hr hc; rw [e, e']; exact c1 r c hr hc
  · intro r c hr hc; rw [e, ← Nat.add_assoc]; exact c2 r c hr hc
  · intro r c hr hc; rw [e]; exact c3 r c hr hc
  · intro r c hr hc; rw [e, ← Nat.add_assoc]; exact c4 r c hr hc

/-- `augmentWithNoise(Q)` with an `a × a` matrix on a well-formed container with at least one
    component (necessary: `augment_zero_components_counterexample`; the container may already
    carry noise from earlier augmentations): no assertion, returns `true`; the noise, total and
    covariance sizes grow by `a`, nothing else changes in the layout; every component's mean is
    `[m; 0]` and every component's covariance is `blockdiag(P, Q)` — `P` being the whole previous
    covariance block; weights and particle states are not touched. -/
theorem augment_mean_cov [Zero α] (x : Container α) (h : WF x) (hk : 1 ≤ x.components) (a : Nat)
    (q : Nat → Nat → α) :
    ∃ y, augment x a a q = some (y, true) ∧ WF y ∧
      y.components = x.components ∧ y.kind = x.kind ∧ y.useQuaternion = x.useQuaternion ∧
      y.dimCircularComponent = x.dimCircularComponent ∧ y.dimLinear = x.dimLinear ∧
      y.dimCircular = x.dimCircular ∧ y.dimNoise = x.dimNoise + a ∧ y.dim = x.dim + a ∧
      y.dimCovariance = x.dimCovariance + a ∧ y.weight = x.weight ∧ y.state = x.state ∧
      (∀ i, i < x.components →
        (∀ r, r < x.dim → y.mean.get r (meanBlock y i).1 = x.mean.get r (meanBlock x i).1) ∧
        (∀ r, r < a → y.mean.get (x.dim + r) (meanBlock y i).1 = some 0) ∧
        (∀ r c, r < x.dimCovariance → c < x.dimCovariance →
          y.cov.get r ((covBlock y i).1 + c) = x.cov.get r ((covBlock x i).1 + c)) ∧
        (∀ r c, r < x.dimCovariance → c < a →
          y.cov.get r ((covBlock y i).1 + (x.dimCovariance + c)) = some 0) ∧
        (∀ r c, r < a → c < x.dimCovariance →
          y.cov.get (x.dimCovariance + r) ((covBlock y i).1 + c) = some 0) ∧
        (∀ r c, r < a → c < a →
          y.cov.get (x.dimCovariance + r) ((covBlock y i).1 + (x.dimCovariance + c)) = some (q r c))) :=
  augmentO_mean_cov x h hk a (fun r c => some (q r c))

/-- A second augmentation: `blockdiag(P, Q₁, Q₂)` and means `[m; 0; 0]` for every component. -/
theorem augment_twice [Zero α] (x : Container α) (h : WF x) (hk : 1 ≤ x.components) (a b : Nat)
    (q1 q2 : Nat → Nat → α) :
    ∃ y z, augment x a a q1 = some (y, true) ∧ augment y b b q2 = some (z, true) ∧ WF z ∧
      z.components = x.components ∧ z.dimNoise = x.dimNoise + a + b ∧ z.dim = x.dim + a + b ∧
      z.dimCovariance = x.dimCovariance + a + b ∧
      (∀ i, i < x.components →
        (∀ r, r < x.dim → z.mean.get r (meanBlock z i).1 = x.mean.get r (meanBlock x i).1) ∧
        (∀ r, r < a + b → z.mean.get (x.dim + r) (meanBlock z i).1 = some 0) ∧
        (∀ r c, r < x.dimCovariance → c < x.dimCovariance →
          z.cov.get r ((covBlock z i).1 + c) = x.cov.get r ((covBlock x i).1 + c)) ∧
        (∀ r c, r < a → c < a →
          z.cov.get (x.dimCovariance + r) ((covBlock z i).1 + (x.dimCovariance + c)) = some (q1 r c)) ∧
        (∀ r c, r < b → c < b →
          z.cov.get (x.dimCovariance + a + r) ((covBlock z i).1 + (x.dimCovariance + a + c)) = some (q2 r c)) ∧
        -- the six off-diagonal blocks are zero
        (∀ r c, r < x.dimCovariance → c < a + b →
          z.cov.get r ((covBlock z i).1 + (x.dimCovariance + c)) = some 0) ∧
        (∀ r c, r < a + b → c < x.dimCovariance →
          z.cov.get (x.dimCovariance + r) ((covBlock z i).1 + c) = some 0) ∧
        (∀ r c, r < a → c < b →
          z.cov.get (x.dimCovariance + r) ((covBlock z i).1 + (x.dimCovariance + a + c)) = some 0) ∧
        (∀ r c, r < b → c < a →
          z.cov.get (x.dimCovariance + a + r) ((covBlock z i).1 + (x.dimCovariance + c)) = some 0)) := by
  obtain ⟨y, hy, hwy, yk, _, _, _, _, _, yn, yd, ydc, _, _, hyc⟩ := augment_mean_cov x h hk a q1
  obtain ⟨z, hz, hwz, zk, _, _, _, _, _, zn, zd, zdc, _, _, hzc⟩ := augment_mean_cov y hwy (by rw [yk]; exact hk) b q2
  refine ⟨y, z, hy, hz, hwz, by rw [zk, yk], by rw [zn, yn], by rw [zd, yd], by rw [zdc, ydc], ?_⟩
  intro i hi
  obtain ⟨ym1, ym2, yc1, yc2, yc3, yc4⟩ := hyc i hi
  obtain ⟨zm1, zm2, zc1, zc2, zc3, zc4⟩ := hzc i (by rw [yk]; exact hi)
  rw [yd] at zm1 zm2
  rw [ydc] at zc1 zc2 zc3 zc4
  refine ⟨?_, ?_, ?_, ?_, ?_, ?_, ?_, ?_, ?_⟩
  · intro r hr; rw [zm1 r (by omega)]; exact ym1 r hr
  · intro r hr
    by_cases hra : r < a
    · rw [zm1 _ (by omega)]; exact ym2 r hra
    · have := zm2 (r - a) (by omega)
      rw [show x.dim + a + (r - a) = x.dim + r by omega] at this
      exact this
  · intro r c hr hc; rw [zc1 r c (by omega) (by omega)]; exact yc1 r c hr hc
  · intro r c hr hc; rw [zc1 _ _ (by omega) (by omega)]; exact yc4 r c hr hc
  · intro r c hr hc; exact zc4 r c hr hc
  · intro r c hr hc
    by_cases hca : c < a
    · rw [zc1 _ _ (by omega) (by omega)]; exact yc2 r c hr hca
    · have := zc2 r (c - a) (by omega) (by omega)
      rw [show x.dimCovariance + a + (c - a) = x.dimCovariance + c by omega] at this
      exact this
  · intro r c hr hc
    by_cases hra : r < a
    · rw [zc1 _ _ (by omega) (by omega)]; exact yc3 r c hra hc
    · have := zc3 (r - a) c (by omega) (by omega)
      rw [show x.dimCovariance + a + (r - a) = x.dimCovariance + r by omega] at this
      exact this
  · intro r c hr hc; exact zc2 _ c (by omega) hc
  · intro r c hr hc; exact zc3 r _ hr (by omega)

/-! ### Concatenation yields the components of both operands in order -/

/-- What `+=` requires of its operands (necessary and sufficient for no Eigen assertion): state,
    mean and covariance storage with the same row counts as the left operand's, and the right
    operand's own storage consistent with its component count. -/
theorem concat_requires (x rhs : Container α) :
    (∃ y, concat x rhs = some y) ↔
      (rhs.state.rows = x.state.rows ∧ rhs.state.cols = rhs.components) ∧
      (rhs.mean.rows = x.mean.rows ∧ rhs.mean.cols = rhs.components) ∧
      (rhs.cov.rows = x.cov.rows ∧ rhs.cov.cols = x.dimCovariance * rhs.components) ∧
      (rhs.weight.rows = rhs.components ∧ rhs.weight.cols = 1) :=
  concat_isSome_iff x rhs

/-- For well-formed particle sets the requirement is: equal state size (`dim − dim_noise`), equal
    total size and equal covariance size — in particular operands of equal layout are accepted. -/
theorem concat_defined (x rhs : Container α) (hx : WF x) (hr : WF rhs) (hxk : x.kind = Kind.ps)
    (hrk : rhs.kind = Kind.ps) :
    (∃ y, concat x rhs = some y) ↔
      (rhs.dim - rhs.dimNoise = x.dim - x.dimNoise ∧ rhs.dim = x.dim ∧ rhs.dimCovariance = x.dimCovariance) := by
  rw [concat_requires, hr.stateRows hrk, hr.stateCols hrk, hx.stateRows hxk, hr.meanRows, hr.meanCols, hx.meanRows,
    hr.covRows, hr.covCols, hx.covRows, hr.weightRows, hr.weightCols]
  constructor
  · rintro ⟨⟨a, _⟩, ⟨b, _⟩, ⟨c, _⟩, _⟩
    exact ⟨a, b, c⟩
  · rintro ⟨a, b, c⟩
    exact ⟨⟨a, rfl⟩, ⟨b, rfl⟩, ⟨c, by rw [c]⟩, rfl, rfl⟩

/-- `x += rhs` (and `x + rhs`, which is `+=` on a copy of `x`) for accepted operands: the result is
    well-formed with `components = x.components + rhs.components` and the layout of `x`; its first
    `x.components` components are those of `x`, the following `rhs.components` those of `rhs`, in
    order — mean column, covariance block, weight and particle state. -/
theorem concat_components (x rhs y : Container α) (hx : WF x) (hr : WF rhs) (hxk : x.kind = Kind.ps)
    (h : concat x rhs = some y) :
    WF y ∧ y.components = x.components + rhs.components ∧
    y.kind = x.kind ∧ y.useQuaternion = x.useQuaternion ∧ y.dimCircularComponent = x.dimCircularComponent ∧
    y.dim = x.dim ∧ y.dimLinear = x.dimLinear ∧ y.dimCircular = x.dimCircular ∧ y.dimNoise = x.dimNoise ∧
    y.dimCovariance = x.dimCovariance ∧
    (∀ i, i < x.components →
      (∀ r, y.mean.get r (meanBlock y i).1 = x.mean.get r (meanBlock x i).1) ∧
      (∀ r c, c < x.dimCovariance → y.cov.get r ((covBlock y i).1 + c) = x.cov.get r ((covBlock x i).1 + c)) ∧
      y.weight.get (weightIndex y i) 0 = x.weight.get (weightIndex x i) 0 ∧
      (∀ r, y.state.get r (stateBlock y i).1 = x.state.get r (stateBlock x i).1)) ∧
    (∀ i, i < rhs.components →
      (∀ r, y.mean.get r (meanBlock y (x.components + i)).1 = rhs.mean.get r (meanBlock rhs i).1) ∧
      (∀ r c, c < x.dimCovariance →
        y.cov.get r ((covBlock y (x.components + i)).1 + c) = rhs.cov.get r ((covBlock rhs i).1 + c)) ∧
      y.weight.get (weightIndex y (x.components + i)) 0 = rhs.weight.get (weightIndex rhs i) 0 ∧
      (∀ r, y.state.get r (stateBlock y (x.components + i)).1 = rhs.state.get r (stateBlock rhs i).1)) := by
  obtain ⟨h1, h2, h3, h4, h5, h6, h7, h8, h9, m1, m2, c1, c2, w1, w2, s1, s2⟩ := concat_data h
  have hreq := (concat_requires x rhs).1 ⟨y, h⟩
  have hdc : rhs.dimCovariance = x.dimCovariance := by
    have := hreq.2.2.1.1
    rw [hr.covRows, hx.covRows] at this
    exact this
  refine ⟨wf_concat hx hr hxk h, h1, h2, h3, h4, h5, h6, h7, h8, h9, ?_, ?_⟩
  · intro i hi
    refine ⟨fun r => m1 i r hi, ?_, w1 i hi, fun r => s1 i r hi⟩
    intro r c hc
    simp only [covBlock, h9]
    exact c1 i r c hi hc
  · intro i hi
    refine ⟨fun r => m2 i r hi, ?_, w2 i hi, fun r => s2 i r hi⟩
    intro r c hc
    simp only [covBlock, h9, hdc]
    exact c2 i r c hi hc

/-- Particle sets of equal layout (same linear, circular and noise sizes, same rotation
    representation) can always be concatenated. -/
theorem concat_equal_layout (x rhs : Container α) (hx : WF x) (hr : WF rhs) (hxk : x.kind = Kind.ps)
    (hrk : rhs.kind = Kind.ps) (hl : rhs.dimLinear = x.dimLinear) (hc : rhs.dimCircular = x.dimCircular)
    (hq : rhs.useQuaternion = x.useQuaternion) (hn : rhs.dimNoise = x.dimNoise) :
    ∃ y, concat x rhs = some y := by
  rw [concat_defined x rhs hx hr hxk hrk, hr.dim, hr.dcov, hx.dim, hx.dcov, hl, hc, hq, hn]
  exact ⟨rfl, rfl, rfl⟩

/-! ### The model stops only on misuse -/

/-- A legal step never trips an assertion: on a pool of well-formed objects the only operations the
    model stops at are a concatenation whose operands `concat_requires` refuses, element writes outside
    the storage, `augmentWithNoise(covariance(i))` with `i` not a component, and `augmentWithNoise` with
    a square matrix on a container with 0 components. -/
theorem step_assert_only_on_misuse [Zero α] [One α] [Div α] [NatCast α] (p : Pool α) (hp : PoolWF p) (op : Op α)
    (h : step p op = Outcome.assert) :
    (∃ d s x r, op = Op.concatAssign d s ∧ p d = some x ∧ p s = some r ∧ concat x r = none) ∨
    (∃ d a b x r, op = Op.concatPlus d a b ∧ p a = some x ∧ p b = some r ∧ concat x r = none) ∨
    (∃ s i j v x, op = Op.writeMean s i j v ∧ p s = some x ∧ ¬ (j < x.mean.rows ∧ i < x.mean.cols)) ∨
    (∃ s i j k v x, op = Op.writeCov s i j k v ∧ p s = some x ∧
      ¬ (j < x.cov.rows ∧ x.dimCovariance * i + k < x.cov.cols)) ∨
    (∃ s i v x, op = Op.writeWeight s i v ∧ p s = some x ∧ ¬ (i < x.weight.rows ∧ 0 < x.weight.cols)) ∨
    (∃ s i j v x, op = Op.writeState s i j v ∧ p s = some x ∧ ¬ (j < x.state.rows ∧ i < x.state.cols)) ∨
    (∃ s i x, op = Op.augmentSelf s i ∧ p s = some x ∧ ¬ i < x.components) ∨
    (∃ s qr qc q x, op = Op.augment s qr qc q ∧ p s = some x ∧ x.components = 0 ∧ qr = qc) := by
  have onSlot_assert : ∀ {s : Nat} {ok : Container α → Bool} {f : Container α → Option (Container α)},
      onSlot p s ok f = Outcome.assert → ∃ x, p s = some x ∧ f x = none := by
    intro s ok f hh
    unfold onSlot at hh
    split at hh
    · cases hh
    · next x hx =>
      split_ifs at hh
      split at hh
      · cases hh
      · next hf => exact ⟨x, hx, hf⟩
  cases op with
  | ctorDefault dst kind init => simp [step] at h
  | ctorDim dst kind k d init => simp [step] at h
  | ctorLayout dst kind k l c q init => simp [step] at h
  | copy dst src => simp only [step] at h; split at h <;> cases h
  | slice dst src => simp only [step] at h; split at h <;> cases h
  | resize s k l c =>
    simp only [step] at h
    obtain ⟨x, _, hf⟩ := onSlot_assert h
    cases hf
  | gaussianResize s l c =>
    simp only [step] at h
    obtain ⟨x, _, hf⟩ := onSlot_assert h
    cases hf
  | augment s qr qc q =>
    simp only [step] at h
    obtain ⟨x, hx, hf⟩ := onSlot_assert h
    right; right; right; right; right; right; right
    have hw := hp s x hx
    by_cases hsq : qr = qc
    · by_cases hk : x.components = 0
      · exact ⟨s, qr, qc, q, x, rfl, hx, hk, hsq⟩
      · exfalso
        subst hsq
        obtain ⟨y, hy, _⟩ := augment_mean_cov x hw (by omega) qr q
        rw [hy] at hf
        cases hf
    · exfalso
      rw [augment_nonsquare x qr qc q hsq] at hf
      cases hf
  | concatAssign dst src =>
    left
    simp only [step] at h
    split at h
    · next x r hx hr =>
      split_ifs at h with hk
      split at h
      · cases h
      · next hc => exact ⟨dst, src, x, r, rfl, hx, hr, hc⟩
    · cases h
  | concatPlus dst a b =>
    right; left
    simp only [step] at h
    split at h
    · next x r hx hr =>
      split_ifs at h with hk
      split at h
      · cases h
      · next hc => exact ⟨dst, a, b, x, r, rfl, hx, hr, hc⟩
    · cases h
  | writeMean s i j v =>
    right; right; left
    simp only [step] at h
    obtain ⟨x, hx, hf⟩ := onSlot_assert h
    refine ⟨s, i, j, v, x, rfl, hx, ?_⟩
    intro hc
    simp [writeMean, Sto.write, hc] at hf
  | writeCov s i j k v =>
    right; right; right; left
    simp only [step] at h
    obtain ⟨x, hx, hf⟩ := onSlot_assert h
    refine ⟨s, i, j, k, v, x, rfl, hx, ?_⟩
    intro hc
    simp [writeCov, Sto.write, hc] at hf
  | writeWeight s i v =>
    right; right; right; right; left
    simp only [step] at h
    obtain ⟨x, hx, hf⟩ := onSlot_assert h
    refine ⟨s, i, v, x, rfl, hx, ?_⟩
    intro hc
    simp [writeWeight, Sto.write, hc] at hf
  | writeState s i j v =>
    right; right; right; right; right; left
    simp only [step] at h
    obtain ⟨x, hx, hf⟩ := onSlot_assert h
    refine ⟨s, i, j, v, x, rfl, hx, ?_⟩
    intro hc
    simp [writeState, Sto.write, hc] at hf
  | augmentSelf s i =>
    right; right; right; right; right; right; left
    simp only [step] at h
    obtain ⟨x, hx, hf⟩ := onSlot_assert h
    refine ⟨s, i, x, rfl, hx, ?_⟩
    intro hi
    have hw := hp s x hx
    have hr := covBlock_in_range x hw i hi
    simp only [covBlock] at hr
    obtain ⟨y, hy, _⟩ := augmentO_mean_cov x hw (by omega) x.dimCovariance (fun r c => x.cov.get r (x.dimCovariance * i + c))
    simp only [augmentSelf, if_pos hr, hw.covRows, hy] at hf
    cases hf
  | move dst src =>
    simp only [step] at h
    split at h
    · split_ifs at h
    · cases h
  | baseAssign dst src =>
    simp only [step] at h
    split at h <;> cases h
  | fill s val =>
    simp only [step] at h
    obtain ⟨x, hx, hf⟩ := onSlot_assert h
    exfalso
    obtain ⟨y, hy⟩ := fill_defined x val (hp s x hx)
    rw [hy] at hf
    cases hf

/-! ### Aliasing, hand-over through base references, build configuration -/

/-- `g.augmentWithNoise(g.covariance(i))` (the argument aliases the object's own storage; the
    function copies it first): every component `j` becomes `blockdiag(P_j, P_i)` with `P_i` the
    block as it was before the call, means `[m; 0]`. -/
theorem augment_self [Zero α] (x : Container α) (h : WF x) (i : Nat) (hi : i < x.components) :
    ∃ y, augmentSelf x i = some (y, true) ∧ WF y ∧ y.components = x.components ∧
      y.dimNoise = x.dimNoise + x.dimCovariance ∧ y.dim = x.dim + x.dimCovariance ∧
      y.dimCovariance = x.dimCovariance + x.dimCovariance ∧
      (∀ j, j < x.components →
        (∀ r, r < x.dim → y.mean.get r (meanBlock y j).1 = x.mean.get r (meanBlock x j).1) ∧
        (∀ r, r < x.dimCovariance → y.mean.get (x.dim + r) (meanBlock y j).1 = some 0) ∧
        (∀ r c, r < x.dimCovariance → c < x.dimCovariance →
          y.cov.get r ((covBlock y j).1 + c) = x.cov.get r ((covBlock x j).1 + c)) ∧
        (∀ r c, r < x.dimCovariance → c < x.dimCovariance →
          y.cov.get (x.dimCovariance + r) ((covBlock y j).1 + (x.dimCovariance + c))
            = x.cov.get r ((covBlock x i).1 + c)) ∧
        (∀ r c, r < x.dimCovariance → c < x.dimCovariance →
          y.cov.get r ((covBlock y j).1 + (x.dimCovariance + c)) = some 0 ∧
          y.cov.get (x.dimCovariance + r) ((covBlock y j).1 + c) = some 0)) := by
  have hr := covBlock_in_range x h i hi
  simp only [covBlock] at hr
  obtain ⟨y, hy, hw, hk, _, _, _, _, _, hn, hd, hdc, _, _, hc⟩ :=
    augmentO_mean_cov x h (by omega) x.dimCovariance (fun r c => x.cov.get r (x.dimCovariance * i + c))
  refine ⟨y, by simp only [augmentSelf, if_pos hr, h.covRows, hy], hw, hk, hn, hd, hdc, ?_⟩
  intro j hj
  obtain ⟨m1, m2, c1, c2, c3, c4⟩ := hc j hj
  exact ⟨m1, m2, c1, fun r c hr' hc' => by rw [c4 r c hr' hc']; rfl, fun r c hr' hc' => ⟨c2 r c hr' hc', c3 r c hr' hc'⟩⟩

/-- Move construction / move assignment hands over exactly the source object (the classes have no
    move operations of their own, a move is a copy); the source slot is not used afterwards. -/
theorem move_is_copy [Zero α] [One α] [Div α] [NatCast α] (p : Pool α) (dst src : Nat) (x : Container α)
    (hx : p src = some x) (hne : dst ≠ src) :
    ∃ p', step p (Op.move dst src) = Outcome.ok p' ∧ p' dst = some x ∧ p' src = none ∧
      ∀ t, t ≠ dst → t ≠ src → p' t = p t := by
  refine ⟨fun t => if t = src then none else (p.set dst x) t, by simp only [step, hx, if_neg hne], ?_, ?_, ?_⟩
  · simp [Pool.set, hne]
  · simp
  · intro t h1 h2; simp [Pool.set, h1, h2]

/-- `static_cast<GaussianMixture&>(dst) = src` (what `pred_state = prev_state` does inside the
    prediction classes, also on particle sets and Gaussians held by base reference): the mixture part
    of `dst` — all eight fields, means, covariances, weights — becomes that of `src`, class and
    particle state stay; the result is well-formed exactly when the discipline holds. -/
theorem base_assign [Zero α] [One α] [Div α] [NatCast α] (p : Pool α) (dst src : Nat) (x r : Container α)
    (hx : p dst = some x) (hr : p src = some r) (hwr : WF r) :
    ∃ p' y, step p (Op.baseAssign dst src) = Outcome.ok p' ∧ p' dst = some y ∧
      y.kind = x.kind ∧ y.state = x.state ∧ y.mean = r.mean ∧ y.cov = r.cov ∧ y.weight = r.weight ∧
      y.components = r.components ∧ y.dim = r.dim ∧ y.dimLinear = r.dimLinear ∧ y.dimCircular = r.dimCircular ∧
      y.dimNoise = r.dimNoise ∧ y.dimCovariance = r.dimCovariance ∧ y.useQuaternion = r.useQuaternion ∧
      (WF y ↔ ((x.kind = Kind.ps → x.state.rows = r.dim - r.dimNoise ∧ x.state.cols = r.components) ∧
               (x.kind = Kind.gaussian → r.components = 1))) := by
  refine ⟨p.set dst { r with kind := x.kind, state := x.state }, { r with kind := x.kind, state := x.state },
    by simp only [step, hx, hr], by simp [Pool.set],
    rfl, rfl, rfl, rfl, rfl, rfl, rfl, rfl, rfl, rfl, rfl, rfl, ?_⟩
  obtain ⟨hdcc, hdim, hdcov, hmr, hmc, hcr, hcc, hwr', hwc, _, _, _⟩ := hwr
  constructor
  · intro hy
    exact ⟨fun hk => ⟨hy.stateRows hk, hy.stateCols hk⟩, fun hk => hy.gaussian hk⟩
  · intro hd
    exact ⟨hdcc, hdim, hdcov, hmr, hmc, hcr, hcc, hwr', hwc, fun hk => (hd.1 hk).1, fun hk => (hd.1 hk).2,
      fun hk => hd.2 hk⟩

/-- The discipline is necessary (1): the inherited `GaussianMixture::resize` applied to a `Gaussian`
    with 3 components yields an object whose fields and storage agree, but `Gaussian::covariance()`
    (the whole matrix, 2 × 6) is no longer component 0's block (2 × 2). -/
theorem base_resize_counterexample :
    let g : Container Nat := resize (ctorLayout Kind.gaussian 1 2 0 false) 3 2 0
    ¬ WF g ∧ g.components = 3 ∧ g.cov.cols = 6 ∧ covBlock g 0 = (0, 2) := by
  refine ⟨fun h => ?_, rfl, rfl, rfl⟩
  have := h.gaussian rfl
  exact absurd this (by decide)

/-- The discipline is necessary (2): assigning a 3-component mixture through base references onto a
    2-particle set leaves 3 means over 2 particle states. -/
theorem base_assign_counterexample :
    ∃ p' y, step (α := Nat) (fun t => if t = 0 then some (ctorLayout Kind.ps 2 2 0 false)
        else if t = 1 then some (ctorLayout Kind.gm 3 2 0 false) else none) (Op.baseAssign 0 1) = Outcome.ok p' ∧
      p' 0 = some y ∧ y.components = 3 ∧ y.mean.cols = 3 ∧ y.state.cols = 2 ∧ ¬ WF y := by
  refine ⟨_, _, rfl, rfl, rfl, rfl, rfl, fun h => ?_⟩
  have := h.stateCols rfl
  exact absurd this (by decide)

/-- Contents under the build configuration `init` (`some 0` with EIGEN_INITIALIZE_MATRICES_BY_ZERO):
    a constructor leaves every mean, covariance and particle-state coefficient at `init`. -/
theorem ctor_contents [One α] [Div α] [NatCast α] (kind : Kind) (k l c : Nat) (q : Bool) (init : Option α)
    (r j : Nat) :
    let x : Container α := ctorFull kind k l c q init
    (r < x.mean.rows → j < x.mean.cols → x.mean.get r j = init) ∧
    (r < x.cov.rows → j < x.cov.cols → x.cov.get r j = init) ∧
    (kind = Kind.ps → r < x.state.rows → j < x.state.cols → x.state.get r j = init) ∧ x.init = init := by
  refine ⟨?_, ?_, ?_, rfl⟩
  · intro h1 h2; simp only [ctorFull, Sto.fresh_rows, Sto.fresh_cols] at h1 h2 ⊢; rw [Sto.fresh_get, if_pos ⟨h1, h2⟩]
  · intro h1 h2; simp only [ctorFull, Sto.fresh_rows, Sto.fresh_cols] at h1 h2 ⊢; rw [Sto.fresh_get, if_pos ⟨h1, h2⟩]
  · intro hk h1 h2
    subst hk
    simp only [ctorFull, if_true, Sto.fresh_rows, Sto.fresh_cols] at h1 h2 ⊢
    rw [Sto.fresh_get, if_pos ⟨h1, h2⟩]

/-- Non-conservative `resize`: when the number of coefficients changes every coefficient is freshly
    allocated (`init`); when it does not, Eigen keeps the buffer and the values stay in column-major
    linear order. -/
theorem resize_nonconservative_contents (s : Sto α) (r c : Nat) (init : Option α) (i j : Nat) (hi : i < r) (hj : j < c) :
    (r * c ≠ s.rows * s.cols → (s.resizeNC r c init).get i j = init) ∧
    (r * c = s.rows * s.cols →
      (s.resizeNC r c init).get i j = s.get ((i + j * r) % s.rows) ((i + j * r) / s.rows)) := by
  constructor
  · intro h; simp only [Sto.resizeNC, if_neg h]; rw [Sto.fresh_get, if_pos ⟨hi, hj⟩]
  · intro h; simp only [Sto.resizeNC, if_pos h]; rw [Sto.build_get, if_pos ⟨hi, hj⟩]

/-! ### Zero components -/

/-- `GaussianMixture(0, …)`, `ParticleSet(0, …)` and `resize(0, …)` of a mixture or particle set yield a
    well-formed container with 0 components: `dim × 0` means, `dim_covariance × 0` covariances, no
    weights, a `(dim − dim_noise) × 0` particle state (empty storage of the declared row counts). -/
theorem zero_components_wf [One α] [Div α] [NatCast α] (kind : Kind) (hkind : kind ≠ Kind.gaussian)
    (l c d : Nat) (q : Bool) (x : Container α) (hx : WF x) (hxk : x.kind ≠ Kind.gaussian) :
    (∀ a : Container α, a = ctorLayout kind 0 l c q ∨ a = ctorDim kind 0 d ∨ a = resize x 0 l c →
      WF a ∧ a.components = 0 ∧ a.mean.rows = a.dim ∧ a.mean.cols = 0 ∧ a.cov.rows = a.dimCovariance ∧
      a.cov.cols = 0 ∧ a.weight.rows = 0 ∧ (a.kind = Kind.ps → a.state.rows = a.dim - a.dimNoise ∧ a.state.cols = 0)) := by
  have key : ∀ a : Container α, WF a → a.components = 0 →
      WF a ∧ a.components = 0 ∧ a.mean.rows = a.dim ∧ a.mean.cols = 0 ∧ a.cov.rows = a.dimCovariance ∧
      a.cov.cols = 0 ∧ a.weight.rows = 0 ∧ (a.kind = Kind.ps → a.state.rows = a.dim - a.dimNoise ∧ a.state.cols = 0) := by
    intro a ha h0
    refine ⟨ha, h0, ha.meanRows, by rw [ha.meanCols, h0], ha.covRows, by rw [ha.covCols, h0, Nat.mul_zero],
      by rw [ha.weightRows, h0], fun hk => ⟨ha.stateRows hk, by rw [ha.stateCols hk, h0]⟩⟩
  intro a ha
  rcases ha with rfl | rfl | rfl
  · refine key _ (wf_ctorLayout kind 0 l c q) ?_
    cases kind <;> first | rfl | exact absurd rfl hkind
  · refine key _ (wf_ctorDim kind 0 d) ?_
    cases kind <;> first | rfl | exact absurd rfl hkind
  · exact key _ (wf_resize x hx 0 l c hxk) (resize_components_eq x 0 l c)

/-- On a container with 0 components `augmentWithNoise` with a square matrix does not complete
    (`components - 1` wraps around): the model's step is an assertion, whatever the matrix. -/
theorem augment_zero_components [Zero α] (x : Container α) (h0 : x.components = 0) (a : Nat) (q : Nat → Nat → α) :
    augment x a a q = none :=
  augmentO_zero_components x a _ h0

/-- The hypothesis `1 ≤ components` of `augment_mean_cov` is necessary: a well-formed 0-component
    mixture of dimension 2 (`GaussianMixture(0, 2)`) augmented with a 1 × 1 matrix stops in the
    assertion — as a function and as a step of a pool (the real code aborts in `block()`); after
    `resize(2, 2)` the same call succeeds. -/
theorem augment_zero_components_counterexample :
    let x : Container Nat := ctorLayout Kind.gm 0 2 0 false
    WF x ∧ x.components = 0 ∧ augment x 1 1 (fun _ _ => 5) = none ∧
    (∃ y, resize x 2 2 0 = y ∧ WF y ∧ y.components = 2 ∧ ∃ z, augment y 1 1 (fun _ _ => 5) = some (z, true)) ∧
    (match step (fun t => if t = 0 then some x else none) (Op.augment 0 1 1 (fun _ _ => 5)) with
     | Outcome.assert => True
     | _ => False) := by
  intro x
  have hx : WF x := wf_ctorLayout _ _ _ _ _
  refine ⟨hx, rfl, rfl, ⟨_, rfl, wf_resize x hx 2 2 0 (by decide), resize_components_eq x 2 2 0, ?_⟩, ?_⟩
  · obtain ⟨z, hz, _⟩ := augment_mean_cov (resize x 2 2 0) (wf_resize x hx 2 2 0 (by decide))
      (by rw [resize_components_eq]; decide) 1 (fun _ _ => 5)
    exact ⟨z, hz⟩
  · simp [step, onSlot, x, augment_zero_components (ctorLayout Kind.gm 0 2 0 false : Container Nat) rfl]

/-- Concatenation with an empty particle set: `a += empty` and `empty += a` (accepted operands) both
    yield exactly the components of `a`, in order — mean column, covariance block, weight, particle
    state — in a well-formed set with `a`'s component count. -/
theorem concat_zero_components (x e y : Container α) (hx : WF x) (he : WF e) (hxk : x.kind = Kind.ps)
    (hek : e.kind = Kind.ps) (h0 : e.components = 0) :
    (concat x e = some y → WF y ∧ y.components = x.components ∧ y.dimCovariance = x.dimCovariance ∧
      ∀ i, i < x.components →
        (∀ r, y.mean.get r (meanBlock y i).1 = x.mean.get r (meanBlock x i).1) ∧
        (∀ r c, c < x.dimCovariance → y.cov.get r ((covBlock y i).1 + c) = x.cov.get r ((covBlock x i).1 + c)) ∧
        y.weight.get (weightIndex y i) 0 = x.weight.get (weightIndex x i) 0 ∧
        (∀ r, y.state.get r (stateBlock y i).1 = x.state.get r (stateBlock x i).1)) ∧
    (concat e x = some y → WF y ∧ y.components = x.components ∧ y.dimCovariance = x.dimCovariance ∧
      ∀ i, i < x.components →
        (∀ r, y.mean.get r (meanBlock y i).1 = x.mean.get r (meanBlock x i).1) ∧
        (∀ r c, c < x.dimCovariance → y.cov.get r ((covBlock y i).1 + c) = x.cov.get r ((covBlock x i).1 + c)) ∧
        y.weight.get (weightIndex y i) 0 = x.weight.get (weightIndex x i) 0 ∧
        (∀ r, y.state.get r (stateBlock y i).1 = x.state.get r (stateBlock x i).1)) := by
  constructor
  · intro h
    obtain ⟨hw, hc, _, _, _, _, _, _, _, hdc, hl, _⟩ := concat_components x e y hx he hxk h
    exact ⟨hw, by rw [hc, h0, Nat.add_zero], hdc, hl⟩
  · intro h
    obtain ⟨hw, hc, _, _, _, _, _, _, _, hdc, _, hr⟩ := concat_components e x y he hx hek h
    have hreq := (concat_requires e x).1 ⟨y, h⟩
    have hdd : x.dimCovariance = e.dimCovariance := by
      have := hreq.2.2.1.1
      rw [hx.covRows, he.covRows] at this
      exact this
    refine ⟨hw, by rw [hc, h0, Nat.zero_add], by rw [hdc, hdd], ?_⟩
    intro i hi
    obtain ⟨m, cv, w, st⟩ := hr i hi
    rw [h0, Nat.zero_add] at m cv w st
    exact ⟨m, fun r c hcc => cv r c (by rw [← hdd]; exact hcc), w, st⟩

/-! ### Non-vacuity: the hypotheses above are satisfiable on non-trivial instances -/

/-- A quaternion particle set with 3 particles, 2 linear and 1 circular entries, augmented by a
    2 × 2 noise block: well-formed with `dim = 8`, `dim_covariance = 7`, a `6 × 3` state. -/
example : ∃ y : Container Nat, augment (ctorLayout Kind.ps 3 2 1 true) 2 2 (fun i j => i + 2 * j) = some (y, true) ∧
    WF y ∧ y.dim = 8 ∧ y.dimCovariance = 7 ∧ y.dimNoise = 2 ∧ y.mean.rows = 8 ∧ y.cov.cols = 21 ∧
    y.state.rows = 6 ∧ y.state.cols = 3 := by
  have hx : WF (ctorLayout Kind.ps 3 2 1 true : Container Nat) := wf_ctorLayout _ _ _ _ _
  obtain ⟨y, hy, hw, hk, hkind, _, _, _, _, hn, hd, hdc, _, hs, _⟩ := augment_mean_cov _ hx (by decide) 2 (fun i j => i + 2 * j)
  refine ⟨y, hy, hw, by rw [hd]; rfl, by rw [hdc]; rfl, by rw [hn]; rfl, by rw [hw.meanRows, hd]; rfl,
    by rw [hw.covCols, hdc, hk]; rfl, by rw [hs]; rfl, by rw [hs]; rfl⟩

/-- Two Euler particle sets whose layouts differ (2 + 1 against 1 + 2) but whose sizes agree are
    accepted by `+=`; sets of different total size are refused (the assertion). -/
example : (∃ y, concat (ctorLayout Kind.ps 2 2 1 false : Container Nat) (ctorLayout Kind.ps 3 1 2 false) = some y) ∧
    ¬ (∃ y, concat (ctorLayout Kind.ps 2 2 1 false : Container Nat) (ctorLayout Kind.ps 3 2 2 false) = some y) := by
  have h1 : WF (ctorLayout Kind.ps 2 2 1 false : Container Nat) := wf_ctorLayout _ _ _ _ _
  have h2 : WF (ctorLayout Kind.ps 3 1 2 false : Container Nat) := wf_ctorLayout _ _ _ _ _
  have h3 : WF (ctorLayout Kind.ps 3 2 2 false : Container Nat) := wf_ctorLayout _ _ _ _ _
  constructor
  · rw [concat_defined _ _ h1 h2 rfl rfl]; exact ⟨rfl, rfl, rfl⟩
  · rw [concat_defined _ _ h1 h3 rfl rfl]
    rintro ⟨_, h, _⟩
    exact absurd h (by decide)

/-- A run that exercises construction, fill, augmentation twice, a component-count resize, copy
    and concatenation ends without assertion. -/
example : (run (α := Nat)
    [Op.ctorLayout 0 Kind.ps 2 1 1 true, Op.fill 0 (fun s c i => s + c + i), Op.augment 0 1 1 (fun _ _ => 7),
     Op.augment 0 2 2 (fun i j => i + j), Op.resize 0 3 1 1, Op.copy 1 0, Op.concatAssign 0 1,
     Op.concatPlus 2 0 1]).2 = false := by
  decide

/-- Zero components: an empty quaternion particle set concatenated (either way round) with a
    3-particle set of the same layout is accepted, and a run that constructs an empty set, fills it,
    resizes it to 2 and back to 0, copies, concatenates with non-empty sets and writes a weight ends
    without assertion, while augmenting an empty mixture stops the run. -/
example : (∃ y, concat (ctorLayout Kind.ps 0 2 1 true : Container Nat) (ctorLayout Kind.ps 3 2 1 true) = some y) ∧
    (∃ y, concat (ctorLayout Kind.ps 3 2 1 true : Container Nat) (ctorLayout Kind.ps 0 2 1 true) = some y) ∧
    (run (α := Nat)
      [Op.ctorLayout 0 Kind.ps 0 1 1 true, Op.fill 0 (fun s c i => s + c + i), Op.resize 0 2 1 1, Op.resize 0 0 1 1,
       Op.copy 1 0, Op.ctorLayout 2 Kind.ps 2 1 1 true, Op.concatAssign 1 2, Op.concatPlus 3 2 0,
       Op.writeWeight 1 1 9]).2 = false ∧
    (run (α := Nat) [Op.ctorDim 0 Kind.gm 0 2, Op.augment 0 1 1 (fun _ _ => 1)]).2 = true := by
  refine ⟨concat_equal_layout _ _ (wf_ctorLayout _ _ _ _ _) (wf_ctorLayout _ _ _ _ _) rfl rfl rfl rfl rfl rfl,
    concat_equal_layout _ _ (wf_ctorLayout _ _ _ _ _) (wf_ctorLayout _ _ _ _ _) rfl rfl rfl rfl rfl rfl, by decide, by decide⟩

end BFL.Shape
