#!/usr/bin/env python3
"""Markdown table of the seeded changes (seeded/*/meta.json) and which checks caught them."""
import glob, json, os
V = os.path.dirname(os.path.dirname(os.path.abspath(__file__)))
rows = []
harmless = []
for d in sorted(glob.glob(os.path.join(V, "seeded", "*"))):
    mp = os.path.join(d, "meta.json")
    if not os.path.exists(mp):
        continue
    m = json.load(open(mp))
    name = os.path.basename(d)
    if m.get("kind") == "harmless" or name.startswith("harmless"):
        harmless.append((name, m))
        continue
    if "checks_run" not in m:
        res = m.get("result", "not run yet")
    else:
        parts = []
        for p, r in m["checks_run"].items():
            parts.append("%s: %s" % (p, ("caught" + ("" if r.get("with_failing_input") else " (no-failing-input-found)")) if r.get("detected") else "MISSED"))
        res = "; ".join(parts)
    hist = m.get("history", "")
    if not hist:
        for p, r in m.get("checks_run", {}).items():
            log = [x for x in m.get("run_log", []) if x["property"] == p]
            if r.get("detected") and any(not x["detected"] for x in log):
                hist = "first run MISSED; caught after the check was strengthened (verif %s)" % log[-1]["verif_commit"]
    rows.append("| %s | %s | %s | %s |" % (name, (m.get("description", "") or "").replace("|", "/").replace("\n", " ")[:260],
                                         (m.get("needs_to_manifest", "") or "").replace("|", "/").replace("\n", " ")[:200], res + ((" — " + hist) if hist else "")))
print("| seed | change | needs, to manifest | result |\n|---|---|---|---|")
print("\n".join(rows))

if harmless:
    print()
    print("**Harmless rewrites** (independent sub-agents asked for realistic maintenance changes after which the property still")
    print("holds — equivalent formulas that round differently, correct caches, refactorings; each compiles and passes the")
    print("13 shipped tests). The owning check must stay silent (exit 0, no VIOLATION line).")
    print()
    print("| rewrite | change | numerically identical | result |\n|---|---|---|---|")
    for name, m in harmless:
        cr = m.get("checks_run") or {}
        if cr:
            res = "; ".join("%s: %s" % (p, "FALSE ALARM" if (r.get("exit") != 0 or r.get("detected")) else "silent (pass)") for p, r in cr.items())
        else:
            res = m.get("result", "not run yet")
        hist = m.get("history", "")
        print("| %s | %s | %s | %s |" % (name, (m.get("description", "") or "").replace("|", "/").replace("\n", " ")[:300], m.get("numerically_identical", ""), res + ((" — " + hist) if hist else "")))
