import BFL.Driver.Proto
import BFL.Model.UT
import BFL.Model.UTStore
/-
Driver entries for the storage-level model of `augmentWithNoise`, histories of augmentations, the `UTWeight`
constructor taking a layout, and the two covariance formulas on `Float` (C03).

  augst d z k | storage d × (d·k), column-major | Q (z × z)   -> "ok" storage (d+z) × ((d+z)·k) after `augmentStore`
  augsa …same…                                               -> the same with the relocation loop in ascending order
  augh  nx k nb z_1 … z_nb | means (nx × k) | covs (nx × nx·k) | Q_1 … Q_nb
                                                             -> "ok" n means (n × k) covs (n × n per component)
  utwl  lin circ noise quat α β κ                            -> "ok" dof wm wc c   (UTWeight.ofLayout)
  utnv  ny N | wc (N) | Y (ny × N) | m (ny)                  -> "ok" offsets-form covariance, expanded-form covariance (Float)

Numbers are 16-hex-digit doubles or exact rationals `num/den`.
-/
namespace BFL.DriverUTStore
open BFL BFL.Proto

def ratq : R Rat := do
  let t ← tok
  match t.splitOn "/" with
  | [a, b] =>
    match a.toInt?, b.toNat? with
    | some x, some y => if y = 0 then failure else pure (mkRat x y)
    | _, _ => failure
  | _ =>
    match parseRatHex? t with
    | some q => pure q
    | none => failure

instance {n : Nat} : Inhabited (Vec Rat n) := ⟨Vec.of (fun _ => 0)⟩
instance {r c : Nat} : Inhabited (Mat Rat r c) := ⟨Mat.of (fun _ _ => 0)⟩

def storeOut (D k : Nat) (s : Store Rat) : List String :=
  (List.range (D * k)).flatMap fun c => (List.range D).map fun r => ratStr (s r c)

def augStoreOp (asc : Bool) : R String := do
  let d ← nat; let z ← nat; let k ← nat
  let l ← listOf (d * (d * k)) ratq
  let Q ← matCM ratq z z
  done
  let arr := l.toArray
  let s : Store Rat := fun r c => if r < d ∧ c < d * k then arr[c * d + r]! else 0
  let Q := Mat.eval Q
  let res := if asc then augmentStoreAsc d z k Q s else augmentStore d z k Q s
  pure (join ("ok" :: storeOut (d + z) k res))

def readSqs : Nat → List Nat → R (List (AnySq Rat))
  | _, [] => pure []
  | fuel, z :: zs => do
    let Q ← matCM ratq z z
    let rest ← readSqs fuel zs
    pure (⟨z, Mat.eval Q⟩ :: rest)

def augh : R String := do
  let nx ← nat; let k ← nat; let nb ← nat
  let zs ← listOf nb nat
  let means ← matCM ratq nx k
  let covs ← matCM ratq nx (nx * k)
  let qs ← readSqs 0 zs
  done
  let b : GM Rat nx k :=
    { mean := fun i => Vec.eval (Vec.of (fun r => means r i))
      cov := fun i => Mat.eval (Mat.of (fun r c => covs.getN r.val (nx * i.val + c.val)))
      weight := Vec.of (fun _ => 0) }
  let fin := (AnyGM.mk nx b).augmentAll qs
  let ms := (List.finRange k).flatMap fun i => outVec ratStr (fin.g.mean i)
  let cs := (List.finRange k).flatMap fun i => outMatCM ratStr (fin.g.cov i)
  pure (join ("ok" :: toString fin.n :: ms ++ cs))

def utwl : R String := do
  let lin ← nat; let circ ← nat; let noise ← nat; let quat ← bool
  let a ← ratq; let b ← ratq; let kp ← ratq
  done
  let ly : Layout := { lin := lin, circ := circ, quat := quat, noise := noise }
  let w := UTWeight.ofLayout ly a b kp
  if (ly.dof : Rat) + utLambda ly.dof a kp = 0 then pure "undefined:c=0" else
  pure (join ("ok" :: toString ly.dof :: outVec ratStr w.mean ++ outVec ratStr w.cov ++ [ratStr w.c]))

instance : Zero Float := ⟨0.0⟩
instance {r c : Nat} : Inhabited (Mat Float r c) := ⟨Mat.of (fun _ _ => 0.0)⟩

def utnv : R String := do
  let ny ← nat; let N ← nat
  let wc ← vec flt N
  let Y ← matCM flt ny N
  let m ← vec flt ny
  done
  let Y := Mat.eval Y
  let D := Mat.eval (utOffsets Y m)
  let c1 := utCov wc D D
  let c2 := Mat.eval (utCovNaive wc Y m)
  pure (join ("ok" :: outMatCM floatStr c1 ++ outMatCM floatStr c2))

def handle (op : String) (args : List String) : Option String :=
  match op with
  | "augst" => some ((run (augStoreOp false) args).getD "bad-args")
  | "augsa" => some ((run (augStoreOp true) args).getD "bad-args")
  | "augh" => some ((run augh args).getD "bad-args")
  | "utwl" => some ((run utwl args).getD "bad-args")
  | "utnv" => some ((run utnv args).getD "bad-args")
  | _ => none

end BFL.DriverUTStore
