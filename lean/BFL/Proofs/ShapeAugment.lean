import BFL.Proofs.Shape
/-
The relocation loop of `GaussianMixture::augmentWithNoise` (column swaps from right to left) and
the loop writing the noise blocks: what the covariance storage contains afterwards.
-/
namespace BFL.Shape

/-! ### Mixed-radix arithmetic -/

theorem radix_lt {i k j d : Nat} (hi : i < k) (hj : j < d) : i * d + j < k * d := by
  have h1 : (i + 1) * d ≤ k * d := Nat.mul_le_mul_right d hi
  rw [Nat.succ_mul] at h1
  omega

theorem radix_unique {i i' j j' m : Nat} (hj : j < m) (hj' : j' < m) (h : i * m + j = i' * m + j') :
    i = i' ∧ j = j' := by
  rcases Nat.lt_trichotomy i i' with hlt | heq | hgt
  · have := radix_lt hlt hj (d := m); omega
  · subst heq; omega
  · have := radix_lt hgt hj' (d := m); omega

theorem radix_mono {i j d D : Nat} (hD : d ≤ D) : i * d + j ≤ i * D + j := by
  have := Nat.mul_le_mul_left i hD
  omega

/-! ### The relocation loop -/

section
variable {α : Type}

/-- Invariant of the relocation loop.  `P` columns of the old layout (width `d` per component)
    are still where they were; the columns from `P` on have been moved to the new layout (width
    `D`); every other column inside the storage holds the background `bg` (the zeros appended by
    `conservativeResizeLike`); rows from `d` on are never touched. -/
structure RelInv (d D k : Nat) (bg : Option α) (g0 g : Nat → Nat → Option α) (P : Nat) : Prop where
  unmoved : ∀ r c, r < d → c < P → g r c = g0 r c
  moved : ∀ r i j, r < d → i < k → j < d → P ≤ i * d + j → g r (i * D + j) = g0 r (i * d + j)
  background : ∀ r c, r < d → P ≤ c → c < k * D →
    (∀ i j, i < k → j < d → P ≤ i * d + j → c ≠ i * D + j) → g r c = bg
  lower : ∀ r c, d ≤ r → g r c = g0 r c

theorem relInv_init (d D k : Nat) (bg : Option α) (g0 : Nat → Nat → Option α)
    (h0 : ∀ r c, r < d → k * d ≤ c → c < k * D → g0 r c = bg) : RelInv d D k bg g0 g0 (k * d) := by
  refine ⟨fun _ _ _ _ => rfl, ?_, ?_, fun _ _ _ => rfl⟩
  · intro r i j _ hi hj hP
    have := radix_lt hi hj
    omega
  · intro r c hr hP hc _
    exact h0 r c hr hP hc

/-- One column swap. -/
theorem relInv_step {d D k : Nat} {bg : Option α} {g0 g : Nat → Nat → Option α} {i j : Nat}
    (hD : d ≤ D) (hi : i < k) (hj : j < d)
    (h : RelInv d D k bg g0 g (i * d + j + 1)) :
    RelInv d D k bg g0 (swapCols d (i * D + j) (i * d + j) g) (i * d + j) := by
  obtain ⟨h1, h2, h3, h4⟩ := h
  have hsd : i * d + j ≤ i * D + j := radix_mono hD
  have hdstlt : i * D + j < k * D := radix_lt hi (Nat.lt_of_lt_of_le hj hD)
  refine ⟨?_, ?_, ?_, ?_⟩
  · intro r c hr hc
    simp only [swapCols, hr, if_true]
    rw [if_neg (by omega), if_neg (by omega)]
    exact h1 r c hr (by omega)
  · intro r i' j' hr hi' hj' hP
    simp only [swapCols, hr, if_true]
    by_cases heq : i' * d + j' = i * d + j
    · obtain ⟨rfl, rfl⟩ := radix_unique hj' hj heq
      rw [if_pos rfl]
      exact h1 r _ hr (by omega)
    · have hne : i' * D + j' ≠ i * D + j := by
        intro hh
        obtain ⟨rfl, rfl⟩ := radix_unique (Nat.lt_of_lt_of_le hj' hD) (Nat.lt_of_lt_of_le hj hD) hh
        exact heq rfl
      have hge : i' * d + j' ≤ i' * D + j' := radix_mono hD
      rw [if_neg hne, if_neg (by omega)]
      exact h2 r i' j' hr hi' hj' (by omega)
  · intro r c hr hP hc hnot
    simp only [swapCols, hr, if_true]
    have hcd : c ≠ i * D + j := hnot i j hi hj (Nat.le_refl _)
    rw [if_neg hcd]
    by_cases hcs : c = i * d + j
    · rw [if_pos hcs]
      -- the destination column held background
      apply h3 r (i * D + j) hr (by omega) hdstlt
      intro i' j' hi' hj' hP' hh
      obtain ⟨rfl, rfl⟩ := radix_unique (Nat.lt_of_lt_of_le hj hD) (Nat.lt_of_lt_of_le hj' hD) hh
      omega
    · rw [if_neg hcs]
      apply h3 r c hr (by omega) hc
      intro i' j' hi' hj' hP'
      exact hnot i' j' hi' hj' (by omega)
  · intro r c hr
    simp only [swapCols, if_neg (show ¬ r < d by omega)]
    exact h4 r c hr

/-- The inner loop moves component `i`. -/
theorem relInv_inner {d D k : Nat} {bg : Option α} {g0 g : Nat → Nat → Option α} {i : Nat}
    (hD : d ≤ D) (hi : i < k) (s : Nat) (hs : s ≤ d)
    (h : RelInv d D k bg g0 g (i * d + d)) :
    RelInv d D k bg g0
      (forUp s (fun j g => swapCols d (i * D + (d - 1 - j)) (i * d + (d - 1 - j)) g) g) (i * d + (d - s)) := by
  induction s with
  | zero => simpa [forUp] using h
  | succ s ih =>
    have ih' := ih (by omega)
    simp only [forUp]
    have e1 : i * d + (d - s) = i * d + (d - 1 - s) + 1 := by omega
    have e2 : i * d + (d - (s + 1)) = i * d + (d - 1 - s) := by omega
    rw [e1] at ih'
    rw [e2]
    exact relInv_step hD hi (by omega) ih'

/-- The whole relocation loop: afterwards only component 0 is where it was. -/
theorem relInv_relocate {d D k : Nat} {bg : Option α} {g0 : Nat → Nat → Option α}
    (hD : d ≤ D) (hk : 1 ≤ k) (h : RelInv d D k bg g0 g0 (k * d)) :
    RelInv d D k bg g0 (relocate k d D g0) d := by
  have key : ∀ t, t ≤ k - 1 → RelInv d D k bg g0
      (forUp t (fun i g => forUp d (fun j g =>
        swapCols d ((k - 1 - i) * D + (d - 1 - j)) ((k - 1 - i) * d + (d - 1 - j)) g) g) g0) ((k - t) * d) := by
    intro t
    induction t with
    | zero => intro _; simpa [forUp] using h
    | succ t ih =>
      intro ht
      have ih' := ih (by omega)
      simp only [forUp]
      have e1 : (k - t) * d = (k - 1 - t) * d + d := by
        have : k - t = (k - 1 - t) + 1 := by omega
        rw [this, Nat.succ_mul]
      rw [e1] at ih'
      have := relInv_inner (i := k - 1 - t) hD (by omega) d (Nat.le_refl d) ih'
      have e2 : (k - 1 - t) * d + (d - d) = (k - (t + 1)) * d := by
        have : k - (t + 1) = k - 1 - t := by omega
        rw [this]; omega
      rw [e2] at this
      exact this
  have := key (k - 1) (Nat.le_refl _)
  have e : (k - (k - 1)) * d = d := by
    have : k - (k - 1) = 1 := by omega
    rw [this, Nat.one_mul]
  rw [e] at this
  exact this

/-- After the relocation every component's old block sits at the start of its new block. -/
theorem relocate_block {d D k : Nat} {bg : Option α} {g0 : Nat → Nat → Option α}
    (hD : d ≤ D) (hk : 1 ≤ k)
    (h0 : ∀ r c, r < d → k * d ≤ c → c < k * D → g0 r c = bg)
    (r i j : Nat) (hr : r < d) (hi : i < k) (hj : j < d) :
    relocate k d D g0 r (i * D + j) = g0 r (i * d + j) := by
  have inv := relInv_relocate hD hk (relInv_init d D k bg g0 h0)
  rcases Nat.eq_zero_or_pos i with rfl | hpos
  · have := inv.unmoved r j hr hj
    simpa using this
  · apply inv.moved r i j hr hi hj
    have : d ≤ i * d := Nat.le_mul_of_pos_left d hpos
    omega

/-- After the relocation the columns to the right of every relocated block (where the zero block
    of `blockdiag(P, Q)` goes) already hold the background in rows `< d`: they were either appended
    by `conservativeResizeLike` or vacated by a swap that brought background in.  (So the statement
    "Clean part of the matrix that should be zero" of the code is redundant with the swap-based
    relocation; the model performs it all the same.) -/
theorem relocate_right_of_block {d D k : Nat} {bg : Option α} {g0 : Nat → Nat → Option α}
    (hD : d ≤ D) (hk : 1 ≤ k)
    (h0 : ∀ r c, r < d → k * d ≤ c → c < k * D → g0 r c = bg)
    (r i j : Nat) (hr : r < d) (hi : i < k) (hj1 : d ≤ j) (hj2 : j < D) :
    relocate k d D g0 r (i * D + j) = bg := by
  have inv := relInv_relocate hD hk (relInv_init d D k bg g0 h0)
  apply inv.background r (i * D + j) hr (by omega) (radix_lt hi hj2)
  intro i' j' _ hj' _ hh
  obtain ⟨_, rfl⟩ := radix_unique hj2 (Nat.lt_of_lt_of_le hj' hD) hh
  omega

/-- Rows below the old blocks are not touched by the relocation. -/
theorem relocate_lower {d D k : Nat} {bg : Option α} {g0 : Nat → Nat → Option α}
    (hD : d ≤ D) (hk : 1 ≤ k)
    (h0 : ∀ r c, r < d → k * d ≤ c → c < k * D → g0 r c = bg)
    (r c : Nat) (hr : d ≤ r) : relocate k d D g0 r c = g0 r c :=
  (relInv_relocate hD hk (relInv_init d D k bg g0 h0)).lower r c hr

/-! ### The loop writing the noise blocks -/

/-- The second loop of `augmentWithNoise` over the first `n` components. -/
def noiseLoop [Zero α] (d D a : Nat) (q : Nat → Nat → Option α) (n : Nat) (g : Nat → Nat → Option α) :
    Nat → Nat → Option α :=
  forUp n (fun i g =>
    putBlock 0 (i * D + d) d a (fun _ _ => some 0)
      (putBlock d (i * D + d) a a q g)) g

theorem noiseLoop_succ [Zero α] (d D a : Nat) (q : Nat → Nat → Option α) (n : Nat) (g : Nat → Nat → Option α) :
    noiseLoop d D a q (n + 1) g =
      putBlock 0 (n * D + d) d a (fun _ _ => some 0)
        (putBlock d (n * D + d) a a q (noiseLoop d D a q n g)) := rfl

/-- Columns outside every noise column range are not written. -/
theorem noiseLoop_outside [Zero α] (d D a : Nat) (q : Nat → Nat → Option α) (n : Nat) (g : Nat → Nat → Option α)
    (r c : Nat) (h : ∀ i, i < n → ¬ (i * D + d ≤ c ∧ c < i * D + d + a)) :
    noiseLoop d D a q n g r c = g r c := by
  induction n with
  | zero => rfl
  | succ n ih =>
    rw [noiseLoop_succ]
    have hn := h n (Nat.lt_succ_self n)
    simp only [putBlock]
    rw [if_neg (by omega), if_neg (by omega)]
    exact ih (fun i hi => h i (Nat.lt_succ_of_lt hi))

/-- Columns `d .. d + a` of component `i`: zero above, the noise covariance below. -/
theorem noiseLoop_inside [Zero α] (d a : Nat) (q : Nat → Nat → Option α) (n : Nat) (g : Nat → Nat → Option α)
    (r c i : Nat) (hi : i < n) (hc1 : i * (d + a) + d ≤ c) (hc2 : c < i * (d + a) + d + a) :
    noiseLoop d (d + a) a q n g r c =
      if r < d then some 0
      else if r < d + a then q (r - d) (c - (i * (d + a) + d))
      else g r c := by
  induction n with
  | zero => omega
  | succ n ih =>
    rw [noiseLoop_succ]
    simp only [putBlock]
    by_cases hin : i = n
    · subst hin
      by_cases hr : r < d
      · rw [if_pos (by omega), if_pos hr]
      · rw [if_neg (by omega), if_neg hr]
        by_cases hr2 : r < d + a
        · rw [if_pos (by omega), if_pos hr2]
        · rw [if_neg (by omega), if_neg hr2]
          apply noiseLoop_outside
          intro i' hi'
          have h1 : (i' + 1) * (d + a) ≤ i * (d + a) := Nat.mul_le_mul_right _ hi'
          rw [Nat.succ_mul] at h1
          omega
    · have hlt : i < n := by omega
      have h1 : (i + 1) * (d + a) ≤ n * (d + a) := Nat.mul_le_mul_right _ hlt
      rw [Nat.succ_mul] at h1
      rw [if_neg (by omega), if_neg (by omega)]
      exact ih hlt

/-- Columns `0 .. d` of any component are not written by the second loop. -/
theorem noiseLoop_left [Zero α] (d a : Nat) (q : Nat → Nat → Option α) (n : Nat) (g : Nat → Nat → Option α)
    (r i j : Nat) (hj : j < d) :
    noiseLoop d (d + a) a q n g r (i * (d + a) + j) = g r (i * (d + a) + j) := by
  apply noiseLoop_outside
  intro i' _ hh
  rcases Nat.lt_trichotomy i i' with hlt | heq | hgt
  · have h1 : (i + 1) * (d + a) ≤ i' * (d + a) := Nat.mul_le_mul_right _ hlt
    rw [Nat.succ_mul] at h1
    omega
  · subst heq; omega
  · have h1 : (i' + 1) * (d + a) ≤ i * (d + a) := Nat.mul_le_mul_right _ hgt
    rw [Nat.succ_mul] at h1
    omega

/-! ### Contents after `augmentWithNoise` -/

/-- The covariance storage after augmentation, cell by cell, for a well-formed container:
    component `i` occupies columns `i (d + a) .. (i + 1)(d + a)` and is `blockdiag(P_i, Q)`. -/
theorem augmented_cov [Zero α] (x : Container α) (h : WF x) (a : Nat) (q : Nat → Nat → Option α) (mean2 : Sto α)
    (i : Nat) (hi : i < x.components) :
    (∀ r c, r < x.dimCovariance → c < x.dimCovariance →
      (augmented x a q mean2).cov.get r (i * (x.dimCovariance + a) + c) = x.cov.get r (i * x.dimCovariance + c)) ∧
    (∀ r c, r < x.dimCovariance → c < a →
      (augmented x a q mean2).cov.get r (i * (x.dimCovariance + a) + x.dimCovariance + c) = some 0) ∧
    (∀ r c, r < a → c < x.dimCovariance →
      (augmented x a q mean2).cov.get (x.dimCovariance + r) (i * (x.dimCovariance + a) + c) = some 0) ∧
    (∀ r c, r < a → c < a →
      (augmented x a q mean2).cov.get (x.dimCovariance + r) (i * (x.dimCovariance + a) + x.dimCovariance + c)
        = q r c) := by
  have hk : 1 ≤ x.components := by omega
  have hcr := h.covRows
  have hcc := h.covCols
  generalize hd : x.dimCovariance = d at *
  generalize hkk : x.components = k at *
  -- the cells after `conservativeResizeLike`
  let cov1 := x.cov.conservativeResizeLike (Sto.const (d + a) ((d + a) * k) 0)
  have hg0 : ∀ r c, cov1.get r c =
      if r < d + a ∧ c < (d + a) * k then (if r < d ∧ c < d * k then x.cov.get r c else some 0) else none := by
    intro r c
    simp only [cov1, Sto.conservativeResizeLike_get, Sto.const_rows, Sto.const_cols, Sto.const_get, hcr, hcc]
    by_cases h1 : r < d + a ∧ c < (d + a) * k
    · simp [h1]
    · simp [h1]
  have hbg : ∀ r c, r < d → k * d ≤ c → c < k * (d + a) → cov1.get r c = some 0 := by
    intro r c hr h1 h2
    rw [hg0, if_pos ⟨by omega, by rw [Nat.mul_comm]; exact h2⟩, if_neg]
    rw [Nat.mul_comm d k]; omega
  have hcell : ∀ r c, (augmented x a q mean2).cov.get r c =
      if r < d + a ∧ c < (d + a) * k then
        noiseLoop d (d + a) a q k (relocate k d (d + a) cov1.get) r c else none := by
    intro r c
    simp only [augmented, hd, hkk, Sto.build_get]
    rfl
  have hcolin : ∀ c, c < d + a → i * (d + a) + c < (d + a) * k := by
    intro c hc
    have := radix_lt hi hc
    rw [Nat.mul_comm (d + a) k]; exact this
  have hDle : d ≤ d + a := Nat.le_add_right d a
  refine ⟨?_, ?_, ?_, ?_⟩
  · intro r c hr hc
    rw [hcell, if_pos ⟨by omega, hcolin c (by omega)⟩, noiseLoop_left d a q k _ r i c hc,
      relocate_block hDle hk hbg r i c hr hi hc, hg0]
    have h2 : i * d + c < d * k := by rw [Nat.mul_comm d k]; exact radix_lt hi hc
    have h3 : i * d + c < (d + a) * k := by
      have := hcolin c (by omega)
      have := radix_mono (i := i) (j := c) hDle
      omega
    rw [if_pos ⟨by omega, h3⟩, if_pos ⟨hr, h2⟩]
  · intro r c hr hc
    rw [hcell, if_pos ⟨by omega, by have := hcolin (d + c) (by omega); omega⟩,
      noiseLoop_inside d a q k _ r _ i hi (by omega) (by omega), if_pos hr]
  · intro r c hr hc
    rw [hcell, if_pos ⟨by omega, hcolin c (by omega)⟩, noiseLoop_left d a q k _ _ i c hc,
      relocate_lower hDle hk hbg _ _ (by omega), hg0, if_pos ⟨by omega, hcolin c (by omega)⟩, if_neg (by omega)]
  · intro r c hr hc
    rw [hcell, if_pos ⟨by omega, by have := hcolin (d + c) (by omega); omega⟩,
      noiseLoop_inside d a q k _ _ _ i hi (by omega) (by omega), if_neg (by omega), if_pos (by omega)]
    congr 2 <;> omega

end
end BFL.Shape
