// Correspondence harness for C07 (Resampling, ResamplingWithPrior, ParticleSet::operator+=)
// and C06 (the SIS recursion run by the real filtering thread).
//
//   u1  seed N count                       -> "ok" the first `count` values of uniform(0, 1/N) on mt19937_64(seed)
//   rs  seed N lin circ quat w_0..w_{N-1}  -> Resampling::resample / neff on a set with distinct columns
//   rwp seed N lin circ quat ratio w_0..   -> ResamplingWithPrior::resample with a deterministic initialiser
//   seq seed kind ratio ncalls (N lin circ quat w..) x ncalls -> ONE resampling object serving successive calls of different sizes
//   pipe seedR seedM seedT K nx ny surv sigma q -> the shipped test_SIS pipeline end to end
//   glik scale fail m N y P R              -> GaussianLikelihood::likelihood on a measurement model whose calls can fail
//   sis seed N lin circ K D prior ratio u.. E (w0.. x0..) x E (ncmd cmd.. freeze valid reset shift l_0..l_{N-1}) x K
//                                          -> the real SIS filter thread, scripted models, K steps
//   sis2 …                                 -> as `sis`, every step with three command lists: (ncmd cmd.. nmid mid.. nlate late.. freeze …);
//                                             `mid` commands are issued from inside freeze_measurements() (after the prediction has read its
//                                             skip flag, before the correction reads its own), `late` commands from inside the likelihood
//                                             evaluation (after the correction has read its flag) or, when that does not run, from log();
//                                             command 7 = skip("measurement", true), which ParticleFilter::skip must refuse
//
// The draw `u1` is obtained from a twin generator (same seed, same distribution) run in lock-step.
#include "common.hpp"
#include <BayesFilters/Resampling.h>
#include <BayesFilters/ResamplingWithPrior.h>
#include <BayesFilters/ParticleSet.h>
#include <BayesFilters/ParticleSetInitialization.h>
#include <BayesFilters/SIS.h>
#include <BayesFilters/DrawParticles.h>
#include <BayesFilters/BootstrapCorrection.h>
#include <BayesFilters/StateModel.h>
#include <BayesFilters/MeasurementModel.h>
#include <BayesFilters/LikelihoodModel.h>
#include <BayesFilters/GaussianLikelihood.h>
#include <BayesFilters/InitSurveillanceAreaGrid.h>
#include <BayesFilters/WhiteNoiseAcceleration.h>
#include <BayesFilters/SimulatedStateModel.h>
#include <BayesFilters/SimulatedLinearSensor.h>
#include <BayesFilters/any.h>
#include <BayesFilters/utils.h>
#include <cmath>
#include <limits>
#include <memory>
#include <random>
#include <algorithm>
#include <numeric>
#include <functional>

using namespace bfl;
using namespace Eigen;
using vh::Toks; using vh::Out;

// ----------------------------------------------------------------------------- helpers

// log-sum-exp computed here, independently of utils::log_sum_exp (which is code under test)
static double twin_lse(const VectorXd& x) {
    double m = -std::numeric_limits<double>::infinity();
    for (long i = 0; i < x.size(); ++i) if (x(i) > m) m = x(i);
    if (!std::isfinite(m)) return m;
    double s = 0.0;
    for (long i = 0; i < x.size(); ++i) s += std::exp(x(i) - m);
    return m + std::log(s);
}

static double twin_u1(std::mt19937_64& g, long n) {
    std::uniform_real_distribution<double> d(0.0, 1.0 / n);
    return d(g);
}

// Scale of the particle contents (the property constrains only *copies*: any magnitude must survive bit for bit).
// Power-of-two factors keep the entries exact and distinct; classes: 0 plain, 1 covariance 2^-70 (~1e-21 .. 1e-16),
// 2 everything 2^-70, 3 everything 2^33, 4 covariance exactly zero, 5 mean 2^-70 and covariance 2^40, 6 state 2^-70,
// 7 mean exactly zero, 8 near-duplicate columns: consecutive particles differ by 2^-36 (1.5e-11) in entries of size 1e3, i.e.
// they are isApprox-equal (1e-12 relative) but not equal - a copy taken from a neighbour is not a copy.
// The state is never exactly zero, so a column can always be identified by its first entry.
struct Scales { double s, m, c; int cls; };
static Scales scales_of(unsigned long salt) {
    const double t = std::ldexp(1.0, -70), b = std::ldexp(1.0, 33);
    switch (salt % 9) {
        case 8: return {1.0, 1.0, 1.0, 8};      // near-duplicate columns: see fill_set
        case 1: return {1.0, 1.0, t, 1};
        case 2: return {t, t, t, 2};
        case 3: return {b, b, b, 3};
        case 4: return {1.0, 1.0, 0.0, 4};
        case 5: return {1.0, t, std::ldexp(1.0, 40), 5};
        case 6: return {t, 1.0, 1.0, 6};
        case 7: return {1.0, 0.0, 1.0, 7};
        default: return {1.0, 1.0, 1.0, 0};
    }
}
static const Scales kPlain = {1.0, 1.0, 1.0, 0};

// distinct, exactly representable column contents: particle i, row r (column c of its covariance)
static void fill_set(ParticleSet& p, double base, const Scales& sc = kPlain) {
    if (sc.cls == 8) {
        const double e = std::ldexp(1.0, -36);
        for (long i = 0; i < (long)p.state().cols(); ++i) {
            for (long r = 0; r < p.state().rows(); ++r) p.state()(r, i) = (base + 1000.0 + r) + (i + 1) * e;
            for (long r = 0; r < p.mean().rows(); ++r) p.mean()(r, i) = (base + 1000.0 + r + 0.25) + (i + 1) * e;
        }
        long dc8 = p.dim_covariance;
        for (long i = 0; i < (long)p.components; ++i)
            for (long c = 0; c < dc8; ++c)
                for (long r = 0; r < dc8; ++r) p.covariance()(r, dc8 * i + c) = (base + 1000.0 + 10.0 * r + c + 0.5) + (i + 1) * e;
        return;
    }
    for (long i = 0; i < (long)p.state().cols(); ++i) {
        // (the term (i+1) 2^-30 gives every entry a long mantissa: a detour through single precision would not be exact)
        const double lowbits = (i + 1) * std::ldexp(1.0, -30);
        for (long r = 0; r < p.state().rows(); ++r) p.state()(r, i) = (base + 1000.0 * (i + 1) + r + lowbits) * sc.s;
        for (long r = 0; r < p.mean().rows(); ++r) p.mean()(r, i) = (base + 1000.0 * (i + 1) + r + 0.25 + lowbits) * sc.m;
    }
    long dc = p.dim_covariance;
    for (long i = 0; i < (long)p.components; ++i)
        for (long c = 0; c < dc; ++c)
            for (long r = 0; r < dc; ++r) p.covariance()(r, dc * i + c) = (base + 1000.0 * (i + 1) + 10.0 * r + c + 0.5 + (i + 1) * std::ldexp(1.0, -30)) * sc.c;
}

static bool col_same(const ParticleSet& a, long i, const ParticleSet& b, long j) {
    if (a.state().rows() != b.state().rows() || a.mean().rows() != b.mean().rows() || a.dim_covariance != b.dim_covariance) return false;
    MatrixXd s1 = a.state().col(i), s2 = b.state().col(j), m1 = a.mean().col(i), m2 = b.mean().col(j);
    long d1 = a.dim_covariance, d2 = b.dim_covariance;
    MatrixXd c1 = a.covariance().middleCols(d1 * i, d1), c2 = b.covariance().middleCols(d2 * j, d2);
    return vh::same_bits(s1, s2) && vh::same_bits(m1, m2) && vh::same_bits(c1, c2);
}

static void out_shape(Out& o, const ParticleSet& p) {
    o.n(p.components).n(p.dim_linear).n(p.dim_circular).n(p.use_quaternion ? 1 : 0)
     .n(p.state().rows()).n(p.state().cols()).n(p.mean().rows()).n(p.mean().cols())
     .n(p.covariance().rows()).n(p.covariance().cols()).n(p.weight().rows()).n(p.dim).n(p.dim_covariance);
}

// ----------------------------------------------------------------------------- u1

static std::string op_u1(Toks& t) {
    unsigned long seed = t.nat(); long n = t.nat(); long cnt = t.nat(); t.done();
    std::mt19937_64 g(static_cast<unsigned int>(seed));
    Out o; o.s("ok");
    for (long i = 0; i < cnt; ++i) o.d(twin_u1(g, n));
    return o.str();
}

// ----------------------------------------------------------------------------- rs

// one resample() call on the object `r`; `twin` is the twin of r's generator, advanced in lock-step
static std::string rs_call(Resampling& r, std::mt19937_64& twin, long n, long lin, long circ, bool quat, const VectorXd& w, unsigned long salt) {
    ParticleSet cor(n, lin, circ, quat), res(n, lin, circ, quat);
    const Scales sc = scales_of(salt);
    fill_set(cor, 0.0, sc); cor.weight() = w;
    fill_set(res, 5.0e6); res.weight().setConstant(777.0);
    ParticleSet cor0 = cor;
    VectorXi par = VectorXi::Constant(n, -7);
    double u1 = twin_u1(twin, n);
    double ne = r.neff(cor.weight());
    r.resample(cor, res, par);
    double ne2 = r.neff(cor.weight());                             // queried again after the call: the answers must agree
    Out o; o.s("ok");
    o.s((u1 > 0.0 && u1 < 1.0 / n) ? "u1-in-range" : "u1-out-of-range").d(u1);
    for (long i = 0; i < n; ++i) o.d(std::exp(w(i)));           // exp as computed by libm, as the code does
    for (long i = 0; i < n; ++i) o.n(par(i));
    for (long j = 0; j < n; ++j) {                                 // is output j a bit-for-bit copy of the parent it reports?
        long p = par(j);
        o.n((p >= 0 && p < n && col_same(res, j, cor0, p)) ? 1 : 0);
    }
    for (long j = 0; j < n; ++j) o.d(res.weight()(j));
    o.d(ne);
    bool same = vh::same_bits(cor.state(), cor0.state()) && vh::same_bits(cor.mean(), cor0.mean()) &&
                vh::same_bits(cor.covariance(), cor0.covariance()) && vh::same_bits(cor.weight(), cor0.weight());
    o.s(same ? "in-same" : "in-modified");
    out_shape(o, res);
    o.s(vh::hx(ne) == vh::hx(ne2) ? "neff-same" : "neff-differs").n(sc.cls);
    return o.str();
}

static std::string op_rs(Toks& t) {
    unsigned long seed = t.nat(); long n = t.nat(), lin = t.nat(), circ = t.nat(); bool quat = t.flag();
    VectorXd w = t.vec(n); t.done();
    std::mt19937_64 twin(static_cast<unsigned int>(seed));
    Resampling r(static_cast<unsigned int>(seed));
    return rs_call(r, twin, n, lin, circ, quat, w, seed);
}

// ----------------------------------------------------------------------------- rwp

// The initialisation model is a time-varying collaborator: its c-th call (counted per case, over all the objects of the
// case) places the particles around 9.0e9 + 1.0e8 c.  "Fresh draws" of the c-th resampling are therefore distinguishable
// from the draws handed out by any earlier call (a cached / reused prior subset is not fresh).
static long g_init_calls = 0;
static double init_base(long call) { return 9.0e9 + 1.0e8 * call; }
struct HInit : public ParticleSetInitialization {
    bool initialize(ParticleSet& p) override { fill_set(p, init_base(g_init_calls)); ++g_init_calls; p.weight().setConstant(-3.25); return true; }
};

// one resample() call on the prior-mixing object `r` (built with `ratio`)
static std::string rwp_call(Resampling& r, std::mt19937_64& twin, double ratio, long n, long lin, long circ, bool quat, const VectorXd& w, unsigned long salt) {
    ParticleSet cor(n, lin, circ, quat), res(n, lin, circ, quat);
    const Scales sc = scales_of(salt);
    fill_set(cor, 0.0, sc); cor.weight() = w;
    fill_set(res, 5.0e6); res.weight().setConstant(777.0);
    ParticleSet cor0 = cor;
    VectorXi par = VectorXi::Constant(n, -7);
    // twin of the quantities the property is stated with: k = floor(N * ratio); the normalised weights of the
    // N - k heaviest particles in ascending order (ties carry equal values, so their order does not matter here)
    long k = static_cast<long>(std::floor(n * ratio));
    long m = n - k;
    std::vector<double> lw(w.data(), w.data() + n);
    std::sort(lw.begin(), lw.end());
    Out o; o.s("ok"); o.n(k);
    if (m < 1 || k < 0) { o.s("ratio-out-of-range"); return o.str(); }
    VectorXd kept(m);
    for (long i = 0; i < m; ++i) kept(i) = lw[k + i];
    double lse = twin_lse(kept);
    double u1 = twin_u1(twin, m);
    const long call0 = g_init_calls;                    // the draws of THIS call come from the call0-th initialisation
    r.resample(cor, res, par);
    o.s((u1 > 0.0 && u1 < 1.0 / m) ? "u1-in-range" : "u1-out-of-range").d(u1);
    for (long i = 0; i < m; ++i) { double x = kept(i); x -= lse; o.d(std::exp(x)); }
    out_shape(o, res);
    for (long i = 0; i < n; ++i) o.n(par(i));
    // identity of every output column: input particle i -> i+1; fresh draw j -> -(j+1); anything else -> 0
    ParticleSet fresh(k, lin, circ, quat); fill_set(fresh, init_base(call0));
    long cols = std::min<long>(res.state().cols(), std::min<long>(res.mean().cols(), res.dim_covariance ? res.covariance().cols() / (long)res.dim_covariance : 0));
    o.n(cols);
    for (long j = 0; j < cols; ++j) {
        // the first state entry identifies the candidate (entries are (base + 1000 (i+1) + r) * scale, exact); then all
        // of state, mean and covariance must match bit for bit
        long id = 0;
        double v = res.state().rows() ? res.state()(0, j) : 0.0;
        double qc = (sc.cls == 8) ? (v - 1000.0) * std::ldexp(1.0, 36) : v / sc.s / 1000.0, qf = (v - init_base(call0)) / 1000.0;
        long ci = (std::isfinite(qc) && std::fabs(qc) < 1e15) ? std::llround(qc) - 1 : -1;
        long fi = (std::isfinite(qf) && std::fabs(qf) < 1e15) ? std::llround(qf) - 1 : -1;
        if (ci >= 0 && ci < n && col_same(res, j, cor0, ci)) id = ci + 1;
        else if (fi >= 0 && fi < k && col_same(res, j, fresh, fi)) id = -(fi + 1);
        o.n(id);
    }
    o.n(res.weight().rows());
    for (long j = 0; j < res.weight().rows(); ++j) o.d(res.weight()(j));
    bool same = vh::same_bits(cor.state(), cor0.state()) && vh::same_bits(cor.mean(), cor0.mean()) &&
                vh::same_bits(cor.covariance(), cor0.covariance()) && vh::same_bits(cor.weight(), cor0.weight());
    o.s(same ? "in-same" : "in-modified").n(sc.cls);
    return o.str();
}

static std::string op_rwp(Toks& t) {
    unsigned long seed = t.nat(); long n = t.nat(), lin = t.nat(), circ = t.nat(); bool quat = t.flag();
    double ratio = t.dbl();
    VectorXd w = t.vec(n); t.done();
    std::mt19937_64 twin(static_cast<unsigned int>(seed));
    g_init_calls = 0;
    ResamplingWithPrior r(std::unique_ptr<ParticleSetInitialization>(new HInit()), ratio, static_cast<unsigned int>(seed));
    return rwp_call(r, twin, ratio, n, lin, circ, quat, w, seed);
}

// ----------------------------------------------------------------------------- seq
// seq seed kind ratio ncalls (N lin circ quat w_0..w_{N-1}) x ncalls
// ONE resampling object serves all the calls (different particle counts, layouts, weights); one twin generator is
// advanced in lock-step.  The object is built by one of the constructor overloads, possibly handed on by copy / move
// construction or assignment, and always used through a `Resampling*` (as the filters hold it, virtual dispatch):
//    0 Resampling(seed)              11 Resampling()                                [seed 1]
//    2 copy-constructed              4 move-constructed    3 move-assigned    5 copy-assigned   (Resampling)
//    1 ResamplingWithPrior(init, ratio, seed)   9 (init, ratio) [seed 1]   10 (init) [ratio 0.5, seed 1]
//    6 move-constructed from 1       12 move-constructed from 9    7 move-assigned from 1 onto an object built with another
//    ratio and seed                  13 move-assigned from 10 onto such an object
// kind + 100: the hand-over happens after the first call (the generator state must travel too).
// The object obtained must behave as the original configured object: the blocks are those of `rs` / `rwp` for the
// ratio and seed of the ORIGINAL.  Output: "ok" ncalls, then per call "|" + block.
static std::string op_seq(Toks& t) {
    typedef ResamplingWithPrior RWP;
    unsigned long seed_in = t.nat(); int kind = (int)t.nat(); double ratio = t.dbl(); long calls = t.nat();
    std::vector<long> ns, lins, circs; std::vector<bool> quats; std::vector<VectorXd> ws;
    for (long c = 0; c < calls; ++c) {
        long n = t.nat(); ns.push_back(n); lins.push_back(t.nat()); circs.push_back(t.nat()); quats.push_back(t.flag()); ws.push_back(t.vec(n));
    }
    t.done();
    bool late = kind >= 100; kind %= 100;
    g_init_calls = 0;
    unsigned int seed = static_cast<unsigned int>(seed_in);
    auto init = [] { return std::unique_ptr<ParticleSetInitialization>(new HInit()); };
    bool prior = (kind == 1 || kind == 6 || kind == 7 || kind == 9 || kind == 10 || kind == 12 || kind == 13);
    double other = (ratio == 0.5) ? 0.25 : 0.5;          // configuration of the object that is assigned onto
    std::unique_ptr<Resampling> A, B;
    switch (kind) {
        case 0: case 2: case 3: case 4: case 5: A.reset(new Resampling(seed)); break;
        case 11: A.reset(new Resampling()); seed = 1; break;
        case 1: case 6: case 7: A.reset(new RWP(init(), ratio, seed)); break;
        case 9: case 12: A.reset(new RWP(init(), ratio)); seed = 1; break;
        case 10: case 13: A.reset(new RWP(init())); seed = 1; ratio = 0.5; break;
        default: throw vh::BadArgs("kind");
    }
    std::mt19937_64 twin(seed);
    auto hand_over = [&]() {
        switch (kind) {
            case 2: B.reset(new Resampling(*A)); break;
            case 4: B.reset(new Resampling(std::move(*A))); break;
            case 3: B.reset(new Resampling(12345u)); *B = std::move(*A); break;
            case 5: B.reset(new Resampling(777u)); *B = *A; break;
            case 6: case 12: B.reset(new RWP(std::move(static_cast<RWP&>(*A)))); break;
            case 7: case 13: B.reset(new RWP(init(), other, 999u)); static_cast<RWP&>(*B) = std::move(static_cast<RWP&>(*A)); break;
            default: break;
        }
        if (B) A.reset();                                 // the original is gone: only the obtained object is used from now on
    };
    Out o; o.s("ok").n(calls);
    for (long c = 0; c < calls; ++c) {
        if ((c == 0 && !late) || (c == 1 && late)) hand_over();
        Resampling& r = B ? *B : *A;
        o.s("|");
        if (prior) o.s(rwp_call(r, twin, ratio, ns[c], lins[c], circs[c], quats[c], ws[c], seed_in + c));
        else o.s(rs_call(r, twin, ns[c], lins[c], circs[c], quats[c], ws[c], seed_in + c));
    }
    return o.str();
}

// ----------------------------------------------------------------------------- sis

struct Script {
    long N = 0, K = 0;
    std::vector<std::vector<int>> cmds; std::vector<bool> freeze, valid, reset; std::vector<double> shift; std::vector<VectorXd> lik;
    std::vector<VectorXd> w0s, x0s;   // initial weights / first state rows, one pair per epoch (cycled)
    long epoch = 0;          // number of initialisations done so far
    long step = 0;           // global index of the step being executed (set by the filter subclass)
    long freeze_calls = 0, lik_calls = 0, motion_calls = 0;
    std::vector<std::vector<int>> cmds_mid, cmds_late;       // commands arriving during the step (sis2)
    std::function<void(int)> issue;                          // issues one skip command on the filter
    bool late_done = false;
    void issue_mid() { if (issue && step < (long)cmds_mid.size()) for (int c : cmds_mid[step]) issue(c); }
    void issue_late() { if (issue && !late_done && step < (long)cmds_late.size()) { late_done = true; for (int c : cmds_late[step]) issue(c); } }
};

struct SInit : public ParticleSetInitialization {
    explicit SInit(Script* s) : s_(s) {}
    bool initialize(ParticleSet& p) override {
        for (long i = 0; i < (long)p.state().cols(); ++i)
            for (long r = 0; r < p.state().rows(); ++r) p.state()(r, i) = s_->x0s[s_->epoch % s_->x0s.size()](i) + 0.001953125 * r;
        p.weight() = s_->w0s[s_->epoch % s_->w0s.size()];
        ++s_->epoch;
        return true;
    }
    Script* s_;
};

struct SState : public StateModel {
    SState(Script* s, long lin, long circ) : s_(s), lin_(lin), circ_(circ) {}
    void propagate(const Ref<const MatrixXd>& cur, Ref<MatrixXd> prop) override { prop = cur.array() + 1.0; }
    void motion(const Ref<const MatrixXd>& cur, Ref<MatrixXd> mot) override { ++s_->motion_calls; mot = cur.array() + s_->shift[s_->step]; }   // time-varying
    bool setProperty(const std::string&) override { return false; }
    VectorDescription getInputDescription() override { return VectorDescription(lin_, circ_); }
    VectorDescription getStateDescription() override { return VectorDescription(lin_, circ_); }
    Script* s_; long lin_, circ_;
};

struct SMeas : public MeasurementModel {
    explicit SMeas(Script* s) : s_(s) {}
    bool freeze(const Data&) override { ++s_->freeze_calls; s_->issue_mid(); return s_->freeze[s_->step]; }
    std::pair<bool, Data> measure(const Data&) const override { return std::make_pair(true, Data(MatrixXd(MatrixXd::Zero(1, 1)))); }
    std::pair<bool, Data> predictedMeasure(const Ref<const MatrixXd>& x) const override { return std::make_pair(true, Data(MatrixXd(MatrixXd::Zero(1, x.cols())))); }
    std::pair<bool, Data> innovation(const Data&, const Data&) const override { return std::make_pair(true, Data(MatrixXd(MatrixXd::Zero(1, 1)))); }
    Script* s_;
};

struct SLik : public LikelihoodModel {
    explicit SLik(Script* s) : s_(s) {}
    std::pair<bool, VectorXd> likelihood(const MeasurementModel&, const Ref<const MatrixXd>&) override {
        ++s_->lik_calls;
        s_->issue_late();
        // like the shipped GaussianLikelihood, an invalid likelihood comes with a vector of size 1
        if (!s_->valid[s_->step]) return std::make_pair(false, VectorXd(VectorXd::Zero(1)));
        return std::make_pair(true, s_->lik[s_->step]);
    }
    Script* s_;
};

struct ResLog { bool called = false; double neff = 0, u1 = 0; bool u1ok = true; std::vector<int> parents; long neff_calls = 0, res_calls = 0;
                std::vector<double> cw, cs; MatrixXd cor_state; };   // weights handed to neff(), first state row handed to resample()

struct SResampling : public Resampling {
    SResampling(unsigned int seed, long n, ResLog* log) : Resampling(seed), twin_(seed), n_(n), log_(log) {}
    void resample(const ParticleSet& cor, ParticleSet& res, Ref<VectorXi> par) override {
        double u1 = twin_u1(twin_, n_);
        log_->called = true; log_->u1 = u1; log_->u1ok = (u1 > 0.0 && u1 < 1.0 / n_); ++log_->res_calls;
        log_->cor_state = cor.state();
        log_->cs.clear(); for (long i = 0; i < cor.state().cols(); ++i) log_->cs.push_back(cor.state().rows() ? cor.state()(0, i) : 0.0);
        Resampling::resample(cor, res, par);
        log_->parents.assign(par.data(), par.data() + par.size());
    }
    double neff(const Ref<const VectorXd>& w) override {
        double v = Resampling::neff(w); log_->neff = v; ++log_->neff_calls;
        log_->cw.assign(w.data(), w.data() + w.size());
        return v;
    }
    std::mt19937_64 twin_; long n_; ResLog* log_;
};

// initialiser of the prior-mixing resampler: fresh particle j has first state entry 5e6 + j
struct PInit : public ParticleSetInitialization {
    bool initialize(ParticleSet& p) override {
        for (long i = 0; i < (long)p.state().cols(); ++i)
            for (long r = 0; r < p.state().rows(); ++r) p.state()(r, i) = 5.0e6 + i + 0.001953125 * r;
        p.weight().setConstant(-1.0);
        return true;
    }
};

struct SResamplingPrior : public ResamplingWithPrior {
    SResamplingPrior(unsigned int seed, long n, double ratio, ResLog* log)
        : ResamplingWithPrior(std::unique_ptr<ParticleSetInitialization>(new PInit()), ratio, seed), twin_(seed),
          m_(n - static_cast<long>(std::floor(n * ratio))), log_(log) {}
    void resample(const ParticleSet& cor, ParticleSet& res, Ref<VectorXi> par) override {
        double u1 = twin_u1(twin_, m_);
        log_->called = true; log_->u1 = u1; log_->u1ok = (u1 > 0.0 && u1 < 1.0 / m_); ++log_->res_calls;
        log_->cor_state = cor.state();
        log_->cs.clear(); for (long i = 0; i < cor.state().cols(); ++i) log_->cs.push_back(cor.state().rows() ? cor.state()(0, i) : 0.0);
        ResamplingWithPrior::resample(cor, res, par);
        log_->parents.assign(par.data(), par.data() + par.size());
    }
    double neff(const Ref<const VectorXd>& w) override {
        double v = Resampling::neff(w); log_->neff = v; ++log_->neff_calls;
        log_->cw.assign(w.data(), w.data() + w.size());
        return v;
    }
    std::mt19937_64 twin_; long m_; ResLog* log_;
};

struct SSIS : public SIS {
    SSIS(Script* s, ResLog* log, unsigned int n, std::size_t lin, std::size_t circ,
         std::unique_ptr<ParticleSetInitialization> i, std::unique_ptr<PFPrediction> p, std::unique_ptr<PFCorrection> c, std::unique_ptr<Resampling> r)
        : SIS(n, lin, circ, std::move(i), std::move(p), std::move(c), std::move(r)), s_(s), log_(log) {}
    bool run_condition() override { return g_ < s_->K; }
    void log() override {                // called by filtering_step() after the normalisation, before the resampling decision
        ++log_calls_;
        lw_.assign(cor_particle_.weight().data(), cor_particle_.weight().data() + cor_particle_.weight().size());
        s_->issue_late();                // the likelihood was not evaluated in this step: the late commands arrive here
        SIS::log();
    }
    void issue(int cmd) {
        switch (cmd) {
            case 1: skip_ok_ &= skip("prediction", true); break;
            case 2: skip_ok_ &= skip("prediction", false); break;
            case 3: skip_ok_ &= skip("correction", true); break;
            case 4: skip_ok_ &= skip("correction", false); break;
            case 5: skip_ok_ &= skip("all", true); break;
            case 6: skip_ok_ &= skip("all", false); break;
            case 7: { bool r = skip("measurement", true); refused_ok_ &= !r; break; }   // unknown to ParticleFilter::skip: must be refused
            default: break;
        }
    }
    void filtering_step() override {
        long k = g_;
        s_->step = k; s_->late_done = false;
        for (int cmd : s_->cmds[k]) issue(cmd);        // skip commands issued between the previous step and this one
        *log_ = ResLog(); log_calls_ = 0; lw_.clear();
        long stepno = step_number();
        SIS::filtering_step();
        // observables after the step
        Out o; o.s("S");
        const ParticleSet& c = cor_particle_; const ParticleSet& p = pred_particle_;
        o.n(c.components).n(c.dim_linear).n(c.dim_circular).n(c.state().cols()).n(c.weight().rows());
        o.n(p.components).n(p.dim_linear).n(p.dim_circular).n(p.state().cols());
        o.n(log_->called ? 1 : 0).d(log_->neff);
        o.n(log_->parents.size()); for (int q : log_->parents) o.n(q);
        for (long i = 0; i < c.weight().rows(); ++i) o.d(c.weight()(i));
        for (long i = 0; i < c.state().cols(); ++i) o.d(c.state().rows() ? c.state()(0, i) : 0.0);
        o.s("L").n(lw_.size()); for (double v : lw_) o.d(v);        // corrected weights as seen by log()
        // extra facts (not part of the model's output block): storage rows, draw used, row pattern of the states
        bool rows_ok = true;
        for (long i = 0; i < c.state().cols(); ++i)
            for (long r = 0; r < c.state().rows(); ++r) if (c.state()(r, i) != c.state()(0, i) + 0.001953125 * r) rows_ok = false;
        // after a resampling: is every column a bit-for-bit copy of the corrected column at its reported parent?
        if (log_->called) {
            bool copies = (long)log_->parents.size() == (long)c.state().cols() && log_->cor_state.rows() == c.state().rows();
            for (long j = 0; copies && j < c.state().cols(); ++j) {
                long q = log_->parents[j];
                MatrixXd a = c.state().col(j);
                if (prior_) {
                    // parent -1: the fresh draw j of the initialisation model; otherwise a copy of some corrected column
                    bool found = false;
                    if (q == -1) { found = true; for (long r = 0; r < a.rows(); ++r) if (a(r, 0) != 5.0e6 + j + 0.001953125 * r) found = false; }
                    else for (long i = 0; i < log_->cor_state.cols() && !found; ++i) { MatrixXd bcol = log_->cor_state.col(i); if (vh::same_bits(a, bcol)) found = true; }
                    if (!found) copies = false;
                    continue;
                }
                if (q < 0 || q >= log_->cor_state.cols()) { copies = false; break; }
                MatrixXd bcol = log_->cor_state.col(q);
                if (!vh::same_bits(a, bcol)) copies = false;
            }
            rows_ok = rows_ok && copies;
            copies_ok_ = copies;
        } else copies_ok_ = true;
        o.s("X").n(c.state().rows()).n(c.mean().rows()).n(c.mean().cols()).n(c.covariance().rows()).n(c.covariance().cols())
         .n(c.dim).n(c.use_quaternion ? 1 : 0).n(copies_ok_ ? 1 : 0).n(log_->u1ok ? 1 : 0).d(log_->u1)
         .n(log_->neff_calls).n(log_->res_calls);
        o.n(log_->cw.size()); for (double v : log_->cw) o.d(v);
        o.n(log_->cs.size()); for (double v : log_->cs) o.d(v);
        o.n(p.weight().rows()); for (long i = 0; i < p.weight().rows(); ++i) o.d(p.weight()(i));
        o.n(p.state().cols()); for (long i = 0; i < p.state().cols(); ++i) o.d(p.state().rows() ? p.state()(0, i) : 0.0);
        o.n(stepno).n(log_calls_);
        // the two skip flags after the step, as the filter's own objects report / obey them
        o.n(prediction().is_skipping() ? 1 : 0).n(refused_ok_ ? 1 : 0);
        blocks.push_back(o.str());
        if (s_->reset[k]) reset();       // a reset command arrives during this step: the recursion re-initialises before the next one
        ++g_;
    }
    Script* s_; ResLog* log_; bool skip_ok_ = true, copies_ok_ = true, prior_ = false, refused_ok_ = true; std::vector<std::string> blocks;
    long g_ = 0, log_calls_ = 0; std::vector<double> lw_;
};

static std::string op_sis(Toks& t, bool ext) {
    Script sc; ResLog log;
    unsigned long seed = t.nat(); long n = t.nat(), lin = t.nat(), circ = t.nat(), K = t.nat(), D = t.nat();
    bool prior = t.flag(); double ratio = t.dbl();
    long m = prior ? n - static_cast<long>(std::floor(n * ratio)) : n;      // the resampler draws from uniform(0, 1/m)
    if (m < 1) throw vh::BadArgs("ratio");
    sc.N = n; sc.K = K;
    VectorXd us = t.vec(D);
    long E = t.nat(); if (E < 1) throw vh::BadArgs("epochs");
    for (long e = 0; e < E; ++e) { sc.w0s.push_back(t.vec(n)); sc.x0s.push_back(t.vec(n)); }
    for (long k = 0; k < K; ++k) {
        long nc = t.nat(); std::vector<int> cs; for (long i = 0; i < nc; ++i) cs.push_back((int)t.nat());
        sc.cmds.push_back(cs);
        std::vector<int> cm, cl;
        if (ext) { long nm = t.nat(); for (long i = 0; i < nm; ++i) cm.push_back((int)t.nat()); long nl = t.nat(); for (long i = 0; i < nl; ++i) cl.push_back((int)t.nat()); }
        sc.cmds_mid.push_back(cm); sc.cmds_late.push_back(cl);
        sc.freeze.push_back(t.flag()); sc.valid.push_back(t.flag()); sc.reset.push_back(t.flag()); sc.shift.push_back(t.dbl());
        sc.lik.push_back(t.vec(n));
    }
    t.done();
    // the draws handed to the model are the twin generator's
    std::mt19937_64 g(static_cast<unsigned int>(seed)); bool us_ok = true;
    for (long i = 0; i < D; ++i) { double u = twin_u1(g, m); if (vh::hx(u) != vh::hx(us(i))) us_ok = false; }
    std::unique_ptr<ParticleSetInitialization> init(new SInit(&sc));
    std::unique_ptr<PFPrediction> pred(new DrawParticles(std::unique_ptr<StateModel>(new SState(&sc, lin, circ))));
    std::unique_ptr<PFCorrection> corr(new BootstrapCorrection(std::unique_ptr<MeasurementModel>(new SMeas(&sc)), std::unique_ptr<LikelihoodModel>(new SLik(&sc))));
    std::unique_ptr<Resampling> res;
    if (prior) res.reset(new SResamplingPrior(static_cast<unsigned int>(seed), n, ratio, &log));
    else res.reset(new SResampling(static_cast<unsigned int>(seed), n, &log));
    SSIS f(&sc, &log, (unsigned int)n, lin, circ, std::move(init), std::move(pred), std::move(corr), std::move(res));
    f.prior_ = prior;
    sc.issue = [&f](int c) { f.issue(c); };
    bool ok = f.boot();
    f.run();
    ok = f.wait() && ok;
    Out o; o.s(ok ? "ok" : "thread-failed"); o.s(us_ok ? "twin-ok" : "twin-mismatch").s(f.skip_ok_ ? "skip-ok" : "skip-refused");
    o.n(f.blocks.size());
    for (auto& b : f.blocks) o.s(b);
    o.s("C").n(sc.freeze_calls).n(sc.lik_calls).n(sc.motion_calls);
    return o.str();
}

// ----------------------------------------------------------------------------- pipe
// The shipped pipeline of test_SIS run end to end: InitSurveillanceAreaGrid, DrawParticles over WhiteNoiseAcceleration,
// BootstrapCorrection over SimulatedLinearSensor(SimulatedStateModel(WhiteNoiseAcceleration)) and GaussianLikelihood,
// Resampling (logging subclass, twin generator).   pipe seedR seedM seedT K nx ny surv sigma q
struct PSIS : public SIS {
    PSIS(long K, ResLog* log, unsigned int n, std::unique_ptr<ParticleSetInitialization> i, std::unique_ptr<PFPrediction> p,
         std::unique_ptr<PFCorrection> c, std::unique_ptr<Resampling> r)
        : SIS(n, 4, std::move(i), std::move(p), std::move(c), std::move(r)), K_(K), log_(log) {}
    bool run_condition() override { return static_cast<long>(step_number()) < K_; }
    bool initialization_step() override { init_ok_ = SIS::initialization_step(); return init_ok_; }
    void log() override { ++log_calls_; lw_.assign(cor_particle_.weight().data(), cor_particle_.weight().data() + cor_particle_.weight().size()); SIS::log(); }
    void filtering_step() override {
        *log_ = ResLog(); log_calls_ = 0; lw_.clear();
        SIS::filtering_step();
        const ParticleSet& c = cor_particle_; const ParticleSet& p = pred_particle_;
        Out o; o.s("P");
        o.n(c.components).n(c.dim_linear).n(c.dim_circular).n(c.state().cols()).n(c.state().rows()).n(c.weight().rows());
        o.n(log_->called ? 1 : 0).d(log_->neff).n(log_->u1ok ? 1 : 0).d(log_->u1);
        o.n(log_->parents.size()); for (int q : log_->parents) o.n(q);
        for (long i = 0; i < c.weight().rows(); ++i) o.d(c.weight()(i));
        for (long i = 0; i < c.state().cols(); ++i) o.d(c.state()(0, i));
        o.n(log_->cw.size()); for (double v : log_->cw) o.d(v);
        o.n(lw_.size()); for (double v : lw_) o.d(v);
        o.n(p.weight().rows()); for (long i = 0; i < p.weight().rows(); ++i) o.d(p.weight()(i));
        o.n(p.state().cols());
        for (long i = 0; i < p.state().cols(); ++i) o.d(p.state()(0, i));
        for (long i = 0; i < p.state().cols(); ++i) o.d(p.state()(2, i));
        // the measurement the correction used and the likelihood it reports (queried twice: the answers must agree)
        bool vm; Data dm; std::tie(vm, dm) = correction().getMeasurementModel().measure();
        MatrixXd y = vm ? any::any_cast<MatrixXd>(dm) : MatrixXd(MatrixXd::Zero(2, 1));
        o.n(vm ? 1 : 0).d(y(0, 0)).d(y(1, 0));
        bool vl, vl2; VectorXd lk, lk2;
        std::tie(vl, lk) = correction().getLikelihood();
        std::tie(vl2, lk2) = correction().getLikelihood();
        bool same = (vl == vl2) && lk.size() == lk2.size(); for (long i = 0; same && i < lk.size(); ++i) if (vh::hx(lk(i)) != vh::hx(lk2(i))) same = false;
        o.n(vl ? 1 : 0).n(same ? 1 : 0).n(lk.size()); for (long i = 0; i < lk.size(); ++i) o.d(lk(i));
        bool copies = true;
        if (log_->called) {
            copies = (long)log_->parents.size() == (long)c.state().cols();
            for (long j = 0; copies && j < c.state().cols(); ++j) {
                long q = log_->parents[j];
                if (q < 0 || q >= log_->cor_state.cols()) { copies = false; break; }
                MatrixXd a = c.state().col(j), bcol = log_->cor_state.col(q);
                if (!vh::same_bits(a, bcol)) copies = false;
            }
        }
        o.n(copies ? 1 : 0).n(log_calls_);
        blocks.push_back(o.str());
    }
    long K_; ResLog* log_; bool init_ok_ = false; long log_calls_ = 0; std::vector<double> lw_; std::vector<std::string> blocks;
};

static std::string op_pipe(Toks& t) {
    unsigned long seedR = t.nat(), seedM = t.nat(), seedT = t.nat(); long K = t.nat(), nx = t.nat(), ny = t.nat();
    double surv = t.dbl(), sigma = t.dbl(), q = t.dbl(); t.done();
    long n = nx * ny; ResLog log;
    std::unique_ptr<ParticleSetInitialization> init(new InitSurveillanceAreaGrid(surv, surv, (unsigned int)nx, (unsigned int)ny));
    std::unique_ptr<StateModel> wna(new WhiteNoiseAcceleration(WhiteNoiseAcceleration::Dim::TwoD, 1.0, q, (unsigned int)seedM));
    std::unique_ptr<PFPrediction> pred(new DrawParticles(std::move(wna)));
    std::unique_ptr<StateModel> target(new WhiteNoiseAcceleration(WhiteNoiseAcceleration::Dim::TwoD, 1.0, q, (unsigned int)seedT));
    Vector4d x0(surv / 2.0, 0.0, surv / 3.0, 0.0);
    std::unique_ptr<SimulatedStateModel> sim(new SimulatedStateModel(std::move(target), x0, (unsigned int)(K + 2)));
    MatrixXd R(2, 2); R << sigma * sigma, 0.0, 0.0, sigma * sigma;
    std::unique_ptr<MeasurementModel> sensor(new SimulatedLinearSensor(std::move(sim), SimulatedLinearSensor::LinearMatrixComponent{ 4, std::vector<std::size_t>{ 0, 2 } }, R));
    std::unique_ptr<PFCorrection> corr(new BootstrapCorrection(std::move(sensor), std::unique_ptr<LikelihoodModel>(new GaussianLikelihood())));
    std::unique_ptr<Resampling> res(new SResampling((unsigned int)seedR, n, &log));
    PSIS f(K, &log, (unsigned int)n, std::move(init), std::move(pred), std::move(corr), std::move(res));
    bool ok = f.boot(); f.run(); ok = f.wait() && ok;
    Out o; o.s(ok ? "ok" : "thread-failed").n(f.init_ok_ ? 1 : 0).n(f.blocks.size());
    for (auto& b : f.blocks) o.s(b);
    return o.str();
}

// ----------------------------------------------------------------------------- glik

// measurement model whose four calls can be made to fail; innovation = predicted - measurement (column-wise)
struct GMeas : public MeasurementModel {
    GMeas(const MatrixXd& y, const MatrixXd& P, const MatrixXd& R, int fail) : y_(y), P_(P), R_(R), fail_(fail) {}
    bool freeze(const Data&) override { return true; }
    std::pair<bool, Data> measure(const Data&) const override { MatrixXd y = y_; return std::make_pair(!(fail_ & 1), Data(y)); }
    std::pair<bool, Data> predictedMeasure(const Ref<const MatrixXd>&) const override { MatrixXd p = P_; return std::make_pair(!(fail_ & 2), Data(p)); }
    std::pair<bool, Data> innovation(const Data& p, const Data& m) const override {
        MatrixXd pm = any::any_cast<MatrixXd>(p), mm = any::any_cast<MatrixXd>(m);
        MatrixXd inn = pm.colwise() - mm.col(0);
        return std::make_pair(!(fail_ & 4), Data(inn));
    }
    std::pair<bool, MatrixXd> getNoiseCovarianceMatrix() const override { return std::make_pair(!(fail_ & 8), R_); }
    MatrixXd y_, P_, R_; int fail_;
};

// glik scale fail m N y[m] P[m x N] R[m x m]
static std::string op_glik(Toks& t) {
    double scale = t.dbl(); int fail = (int)t.nat(); long m = t.nat(), n = t.nat();
    MatrixXd y = t.mat(m, 1), P = t.mat(m, n), R = t.mat(m, m); t.done();
    GMeas gm(y, P, R, fail);
    GaussianLikelihood gl(scale);
    MatrixXd states = MatrixXd::Zero(1, n);
    bool valid; VectorXd lik;
    LikelihoodModel& lm = gl;                       // public through the interface
    std::tie(valid, lik) = lm.likelihood(gm, states);
    Out o; o.s("ok").n(valid ? 1 : 0).n(lik.size());
    for (long i = 0; i < lik.size(); ++i) o.d(lik(i));
    return o.str();
}

int main() {
    return vh::run([](const std::string& op, Toks& t, std::string& out) {
        if (op == "u1") { out = op_u1(t); return true; }
        if (op == "rs") { out = op_rs(t); return true; }
        if (op == "rwp") { out = op_rwp(t); return true; }
        if (op == "seq") { out = op_seq(t); return true; }
        if (op == "sis") { out = op_sis(t, false); return true; }
        if (op == "sis2") { out = op_sis(t, true); return true; }
        if (op == "glik") { out = op_glik(t); return true; }
        if (op == "pipe") { out = op_pipe(t); return true; }
        return false;
    });
}
