// Correspondence harness for C08: the real GPFPrediction / GPFCorrection wrapping the real
// KFPrediction / UKFPrediction and KFCorrection / UKFCorrection / SUKFCorrection.
//
//   gpfh n k m seed predKind corrKind alpha beta kappa sub exo circ <trans> <set> nsteps <step>*
//     predKind 0 KF, 1 UKF(additive model), 2 UKF(generic StateModel overload)
//     corrKind 0 KF, 1 UKF(additive), 2 SUKF(sub-size `sub`), 3 UKF(generic MeasurementModel overload), 4 same with online weights
//     seed 1 selects the GPFCorrection constructor overload without a seed
//     exo     = 1: an ExogenousModel u(x) = G x + g is attached to the wrapped prediction's state model
//     circ    = number of circular (angle, non-quaternion) components of the state: the particle sets are built as
//               ParticleSet(k, n - circ, circ) and every model describes its state as (n - circ) linear + circ circular
//               components (the last circ rows are angles; sigma points and unscented means treat them as such)
//     <trans> = 0                   harness-defined density  c / (1 + |cur − A prev − b|²), A b c per step
//             | 1 T qtilde          the shipped WhiteNoiseAcceleration (n = 2, 4, 6)
//     <set>   = states(n×k) means(n×k) covs(n×nk) logweights(k)
//     <step>  = P skip hand F(n×n) Q(n×n) [exo: exoSkip G(n×n) g(n)]
//             | C skip hand inplace H(m×n) R(m×m) [trans 0: A(n×n) b(n) c] y(m) valid <lik>
//     <lik>   = 0 l(k) | 1 c(k) a(n) | 2 scale fail(0..4: which call of the measurement model fails)          (2 = the shipped GaussianLikelihood)
//     hand    = 0 | 1 move-construct the GPF object first | 2 move-assign it over a differently configured one
//   After the steps: [R k' <set> nsteps <step>*]* — further segments with another number of particles, same objects.
//   All models may change from step to step (same sizes): the model objects read them from a script.
//
// One GPFPrediction and one GPFCorrection object live through the whole history (so the random
// stream continues from step to step); a twin mt19937_64 + normal_distribution with the same seed is
// advanced in lock-step to obtain the draws.  For every step the wrapped Gaussian step is also run
// directly (second, identically configured object) on the same beliefs.
//
// Output: "ok" [F Q of the transition model if <trans>=1] then per step
//     P: set  directMeans directCovs  in-same|in-modified
//     C: set  directMeans directCovs  in-same|in-modified  z(n·k, generation order)  ncalls  lik cnt l… cnt t… | nolik
//        glik cnt l… | gnolik 0          (getLikelihood(), reported only)
#include "common.hpp"
#include <BayesFilters/GPFPrediction.h>
#include <BayesFilters/GPFCorrection.h>
#include <BayesFilters/KFPrediction.h>
#include <BayesFilters/KFCorrection.h>
#include <BayesFilters/UKFPrediction.h>
#include <BayesFilters/UKFCorrection.h>
#include <BayesFilters/SUKFCorrection.h>
#include <BayesFilters/LinearStateModel.h>
#include <BayesFilters/LinearMeasurementModel.h>
#include <BayesFilters/ExogenousModel.h>
#include <BayesFilters/LikelihoodModel.h>
#include <BayesFilters/GaussianLikelihood.h>
#include <BayesFilters/WhiteNoiseAcceleration.h>
#include <BayesFilters/ParticleSet.h>
#include <memory>
#include <random>

using namespace bfl;
using namespace Eigen;
using vh::Toks; using vh::Out;

struct Script {
    // the models of the current step (they may change from step to step at fixed sizes)
    MatrixXd F, Q, H, R, A, G; VectorXd b, g; double c = 1.0;
    VectorXd y; bool lik_valid = true; int lik_kind = 0; VectorXd lik_c, lik_a;
    long lin = 0, circ = 0;   // layout of the state: lin linear components followed by circ angles
    int meas_fail = 0;   // 1 measure, 2 predictedMeasure, 3 innovation, 4 noise covariance reports failure
    // what the likelihood model returned in its last call (recorded by the harness-defined models)
    int rec_calls = 0; bool rec_valid = false; VectorXd rec_l;
    std::pair<bool, VectorXd> record(std::pair<bool, VectorXd> r) { ++rec_calls; rec_valid = r.first; rec_l = r.second; return r; }
};

// x' = F x (+ u(x)) + w, F and Q read from the script at every call
struct HState : public LinearStateModel {
    explicit HState(std::shared_ptr<Script> s) : s_(s) {}
    MatrixXd getStateTransitionMatrix() override { return s_->F; }
    MatrixXd getNoiseCovarianceMatrix() override { return s_->Q; }
    bool setProperty(const std::string&) override { return false; }
    VectorDescription getStateDescription() override { return VectorDescription(s_->lin, s_->circ); }
    std::shared_ptr<Script> s_;
};

// u(x) = G x + g, column-wise (state-dependent and constant part), read from the script
struct HExo : public ExogenousModel {
    explicit HExo(std::shared_ptr<Script> s) : s_(s) {}
    void propagate(const Ref<const MatrixXd>& cur, Ref<MatrixXd> prop) override { prop = (s_->G * cur).colwise() + s_->g; }
    bool setProperty(const std::string&) override { return false; }
    VectorDescription getStateDescription() const override { return VectorDescription(s_->lin, s_->circ); }
    std::shared_ptr<Script> s_;
};

// the same state equation as a *generic* (non-additive) StateModel: x' = F x + w with the noise as part
// of the (augmented) input — selects the other constructor overload / branch of UKFPrediction
struct HGenState : public StateModel {
    explicit HGenState(std::shared_ptr<Script> s) : s_(s) {}
    void propagate(const Ref<const MatrixXd>& cur, Ref<MatrixXd> prop) override { prop = s_->F * cur.topRows(s_->F.rows()); }
    void motion(const Ref<const MatrixXd>& cur, Ref<MatrixXd> mot) override {
        long n = s_->F.rows();
        mot = s_->F * cur.topRows(n);
        if (cur.rows() == 2 * n) mot += cur.bottomRows(n);
    }
    MatrixXd getNoiseCovarianceMatrix() override { return s_->Q; }
    bool setProperty(const std::string&) override { return false; }
    VectorDescription getInputDescription() override { return VectorDescription(s_->lin, s_->circ, s_->F.rows()); }
    VectorDescription getStateDescription() override { return VectorDescription(s_->lin, s_->circ); }
    std::shared_ptr<Script> s_;
};

// the same sensor as a *generic* MeasurementModel: y = H x + v with the noise as part of the input
struct HGenMeas : public MeasurementModel {
    explicit HGenMeas(std::shared_ptr<Script> s) : s_(s) {}
    std::pair<bool, MatrixXd> getNoiseCovarianceMatrix() const override { return std::make_pair(s_->meas_fail != 4, s_->R); }
    bool freeze(const Data&) override { return true; }
    std::pair<bool, Data> measure(const Data&) const override { MatrixXd y = s_->y; return std::make_pair(s_->meas_fail != 1, Data(y)); }
    std::pair<bool, Data> predictedMeasure(const Ref<const MatrixXd>& x) const override {
        if (s_->meas_fail == 2) return std::make_pair(false, Data());
        long n = s_->H.cols(), m = s_->H.rows();
        MatrixXd p = s_->H * x.topRows(n);
        if (x.rows() == n + m) p += x.bottomRows(m);
        return std::make_pair(true, Data(p));
    }
    std::pair<bool, Data> innovation(const Data& p, const Data& y) const override {
        if (s_->meas_fail == 3) return std::make_pair(false, Data());
        MatrixXd inn = -(any::any_cast<MatrixXd>(p).colwise() - any::any_cast<MatrixXd>(y).col(0));
        return std::make_pair(true, Data(inn));
    }
    VectorDescription getInputDescription() const override { return VectorDescription(s_->lin, s_->circ, s_->R.rows()); }
    VectorDescription getMeasurementDescription() const override { return VectorDescription(s_->H.rows()); }
    std::shared_ptr<Script> s_;
};

// y = H x + v, H, R and the measurement read from the script at every call
struct HMeas : public LinearMeasurementModel {
    explicit HMeas(std::shared_ptr<Script> s) : s_(s) {}
    MatrixXd getMeasurementMatrix() const override { return s_->H; }
    std::pair<bool, MatrixXd> getNoiseCovarianceMatrix() const override { return std::make_pair(s_->meas_fail != 4, s_->R); }
    bool freeze(const Data&) override { return true; }
    std::pair<bool, Data> measure(const Data&) const override { MatrixXd y = s_->y; return std::make_pair(s_->meas_fail != 1, Data(y)); }
    std::pair<bool, Data> predictedMeasure(const Ref<const MatrixXd>& x) const override {
        if (s_->meas_fail == 2) return std::make_pair(false, Data());
        return LinearMeasurementModel::predictedMeasure(x);
    }
    std::pair<bool, Data> innovation(const Data& p, const Data& y) const override {
        if (s_->meas_fail == 3) return std::make_pair(false, Data());
        return LinearMeasurementModel::innovation(p, y);
    }
    VectorDescription getInputDescription() const override { return VectorDescription(s_->lin, s_->circ, s_->R.rows()); }
    VectorDescription getMeasurementDescription() const override { return VectorDescription(s_->H.rows()); }
    std::shared_ptr<Script> s_;
};

struct HLik : public LikelihoodModel {
    explicit HLik(std::shared_ptr<Script> s) : s_(s) {}
    std::pair<bool, VectorXd> likelihood(const MeasurementModel&, const Ref<const MatrixXd>& states) override {
        if (!s_->lik_valid) return s_->record(std::make_pair(false, VectorXd(VectorXd::Zero(1))));
        if (s_->lik_kind == 0) return s_->record(std::make_pair(true, s_->lik_c));
        VectorXd l(states.cols());
        for (long i = 0; i < states.cols(); ++i) l(i) = s_->lik_c(i) / (1.0 + (states.col(i) - s_->lik_a).squaredNorm());
        return s_->record(std::make_pair(true, l));
    }
    std::shared_ptr<Script> s_;
};

// the shipped Gaussian likelihood, with a scripted validity switch in front
struct HGaussLik : public GaussianLikelihood {
    HGaussLik(double scale, std::shared_ptr<Script> s) : GaussianLikelihood(scale), s_(s) {}
    std::pair<bool, VectorXd> likelihood(const MeasurementModel& mm, const Ref<const MatrixXd>& states) override {
        if (!s_->lik_valid) return s_->record(std::make_pair(false, VectorXd(VectorXd::Zero(1))));
        return s_->record(GaussianLikelihood::likelihood(mm, states));
    }
    std::shared_ptr<Script> s_;
};

// harness-defined transition density, not symmetric in (prev, cur); A, b, c read from the script
struct HTrans : public StateModel {
    explicit HTrans(std::shared_ptr<Script> s) : s_(s) {}
    void propagate(const Ref<const MatrixXd>& cur, Ref<MatrixXd> prop) override { prop = s_->A * cur; }
    void motion(const Ref<const MatrixXd>& cur, Ref<MatrixXd> mot) override { mot = s_->A * cur; }
    bool setProperty(const std::string&) override { return false; }
    VectorDescription getInputDescription() override { return VectorDescription(s_->lin, s_->circ); }
    VectorDescription getStateDescription() override { return VectorDescription(s_->lin, s_->circ); }
    VectorXd getTransitionProbability(const Ref<const MatrixXd>& prev, const Ref<const MatrixXd>& cur) override {
        VectorXd t(cur.cols());
        for (long i = 0; i < cur.cols(); ++i) t(i) = s_->c / (1.0 + (cur.col(i) - s_->A * prev.col(i) - s_->b).squaredNorm());
        return t;
    }
    std::shared_ptr<Script> s_;
};

static void readSet(Toks& t, ParticleSet& p, long n, long k) {
    p.state() = t.mat(n, k);
    p.mean() = t.mat(n, k);
    p.covariance() = t.mat(n, n * k);
    p.weight() = t.vec(k);
}

static void outSet(Out& o, const ParticleSet& p) {
    o.m(p.state()); o.m(p.mean()); o.m(p.covariance()); o.m(p.weight());
}

static void poison(ParticleSet& p) {
    p.state().setConstant(777.0); p.mean().setConstant(12345.0); p.covariance().setConstant(-54321.0); p.weight().setConstant(-999.0);
}

static bool sameSet(const ParticleSet& a, const ParticleSet& b) {
    return vh::same_bits(a.state(), b.state()) && vh::same_bits(a.mean(), b.mean()) &&
           vh::same_bits(a.covariance(), b.covariance()) && vh::same_bits(a.weight(), b.weight());
}

static std::unique_ptr<GaussianPrediction> makePred(int kind, std::shared_ptr<Script> s, bool exo, double a, double b, double kp) {
    std::unique_ptr<HState> sm(new HState(s));
    if (exo) sm->add_exogenous_model(std::unique_ptr<ExogenousModel>(new HExo(s)));
    if (kind == 0) return std::unique_ptr<GaussianPrediction>(new KFPrediction(std::unique_ptr<LinearStateModel>(std::move(sm))));
    if (kind == 1) return std::unique_ptr<GaussianPrediction>(new UKFPrediction(std::unique_ptr<AdditiveStateModel>(std::move(sm)), a, b, kp));
    if (kind == 2) return std::unique_ptr<GaussianPrediction>(new UKFPrediction(std::unique_ptr<StateModel>(new HGenState(s)), a, b, kp));
    throw vh::BadArgs("predKind");
}

static std::unique_ptr<GaussianCorrection> makeCorr(int kind, std::shared_ptr<Script> s, double a, double b, double kp, long sub) {
    if (kind == 0) return std::unique_ptr<GaussianCorrection>(new KFCorrection(std::unique_ptr<LinearMeasurementModel>(new HMeas(s))));
    if (kind == 1) return std::unique_ptr<GaussianCorrection>(new UKFCorrection(std::unique_ptr<AdditiveMeasurementModel>(new HMeas(s)), a, b, kp));
    if (kind == 2) return std::unique_ptr<GaussianCorrection>(new SUKFCorrection(std::unique_ptr<AdditiveMeasurementModel>(new HMeas(s)), a, b, kp, sub, false));
    if (kind == 3 || kind == 4) return std::unique_ptr<GaussianCorrection>(new UKFCorrection(std::unique_ptr<MeasurementModel>(new HGenMeas(s)), a, b, kp, kind == 4));
    throw vh::BadArgs("corrKind");
}

static std::unique_ptr<StateModel> makeTrans(int kind, long n, std::shared_ptr<Script> s, double T, double q) {
    if (kind == 0) return std::unique_ptr<StateModel>(new HTrans(s));
    WhiteNoiseAcceleration::Dim d;
    if (n == 2) d = WhiteNoiseAcceleration::Dim::OneD;
    else if (n == 4) d = WhiteNoiseAcceleration::Dim::TwoD;
    else if (n == 6) d = WhiteNoiseAcceleration::Dim::ThreeD;
    else throw vh::BadArgs("wna-dim");
    return std::unique_ptr<StateModel>(new WhiteNoiseAcceleration(d, T, q));
}

static std::string gpfh(Toks& t) {
    long n = t.nat(), k = t.nat(), m = t.nat();
    unsigned int seed = (unsigned int)t.nat();
    int predKind = (int)t.nat(), corrKind = (int)t.nat();
    double alpha = t.dbl(), beta = t.dbl(), kappa = t.dbl();
    long sub = t.nat();
    bool exo = t.flag();
    long circ = t.nat();
    if (circ > n) throw vh::BadArgs("circ");
    long lin = n - circ;
    int transKind = (int)t.nat();
    double T = 0, qt = 0;
    if (transKind == 1) { T = t.dbl(); qt = t.dbl(); }
    else if (transKind != 0) throw vh::BadArgs("transKind");
    ParticleSet cur = circ ? ParticleSet(k, lin, circ) : ParticleSet(k, n);
    readSet(t, cur, n, k);
    long nsteps = t.nat();

    auto script = std::make_shared<Script>();
    script->lin = lin; script->circ = circ;
    script->y = VectorXd::Zero(m);
    script->A = MatrixXd::Identity(n, n); script->b = VectorXd::Zero(n);
    script->G = MatrixXd::Zero(n, n); script->g = VectorXd::Zero(n);
    // likelihood kind is fixed by the first correction that names it; read ahead lazily: the objects
    // are built on first use
    // a differently configured set of models, only ever used as the *target* of a move assignment
    auto decoy = std::make_shared<Script>();
    decoy->lin = lin; decoy->circ = circ;
    decoy->F = MatrixXd::Identity(n, n) * 3.0; decoy->Q = MatrixXd::Identity(n, n) * 7.0;
    decoy->H = MatrixXd::Ones(m, n); decoy->R = MatrixXd::Identity(m, m) * 5.0; decoy->y = VectorXd::Constant(m, 9.0);
    decoy->A = MatrixXd::Zero(n, n); decoy->b = VectorXd::Constant(n, 2.0); decoy->c = 11.0;
    decoy->G = MatrixXd::Zero(n, n); decoy->g = VectorXd::Zero(n);
    decoy->lik_kind = 0; decoy->lik_c = VectorXd::Constant(k, 7.0);
    std::unique_ptr<GPFPrediction> gpfp;
    GaussianPrediction* wrappedP = nullptr;
    std::unique_ptr<GaussianPrediction> directP;
    std::unique_ptr<GPFCorrection> gpfc;
    GaussianCorrection* wrappedC = nullptr;
    std::unique_ptr<GaussianCorrection> directC;
    std::unique_ptr<StateModel> directT = makeTrans(transKind, n, script, T, qt);
    int builtLikKind = -1;

    std::mt19937_64 twin(seed);
    std::normal_distribution<double> twin_nd(0.0, 1.0);

    Out o; o.s("ok");
    if (transKind == 1) {
        // the shipped model's own F and Q (closed form checked by the orchestrator)
        WhiteNoiseAcceleration* w = static_cast<WhiteNoiseAcceleration*>(directT.get());
        o.m(w->getStateTransitionMatrix()); o.m(w->getNoiseCovarianceMatrix());
    }

    for (;;) {
    for (long s = 0; s < nsteps; ++s) {
        std::string kind = t.tok();
        bool skip = t.flag();
        ParticleSet out = circ ? ParticleSet(k, lin, circ) : ParticleSet(k, n);
        poison(out);
        GaussianMixture dout = circ ? GaussianMixture(k, lin, circ) : GaussianMixture(k, n);
        dout.mean().setConstant(12345.0); dout.covariance().setConstant(-54321.0); dout.weight().setConstant(-999.0);
        ParticleSet in0 = cur;
        if (kind == "P") {
            int hand = (int)t.nat();
            // this step's state model: F, Q and (if attached) the exogenous law u(x) = G x + g
            script->F = t.mat(n, n); script->Q = t.mat(n, n);
            bool exoSkip = false;
            if (exo) { exoSkip = t.flag(); script->G = t.mat(n, n); script->g = t.vec(n); }
            if (!gpfp) {
                std::unique_ptr<GaussianPrediction> w = makePred(predKind, script, exo, alpha, beta, kappa);
                wrappedP = w.get();
                gpfp.reset(new GPFPrediction(std::move(w)));
                directP = makePred(predKind, script, exo, alpha, beta, kappa);
            }
            if (hand == 1) {            // move-construct into a new object, destroy the source
                std::unique_ptr<GPFPrediction> moved(new GPFPrediction(std::move(*gpfp)));
                gpfp = std::move(moved);
            } else if (hand == 2) {     // move-assign over a differently configured object
                std::unique_ptr<GPFPrediction> other(new GPFPrediction(makePred(predKind == 0 ? 1 : 0, decoy, false, 1.0, 2.0, 1.0)));
                *other = std::move(*gpfp);
                gpfp = std::move(other);
            }
            wrappedP->skip("prediction", skip);
            directP->skip("prediction", skip);
            if (exo && !skip) { wrappedP->skip("exogenous", exoSkip); directP->skip("exogenous", exoSkip); }
            gpfp->predict(cur, out);
            directP->predict(static_cast<const GaussianMixture&>(cur), dout);
            outSet(o, out);
            o.m(dout.mean()); o.m(dout.covariance());
            o.s(sameSet(in0, cur) ? "in-same" : "in-modified");
        } else if (kind == "C") {
            int mv = (int)t.nat();
            bool inplace = t.flag();
            // this step's measurement model and transition density
            script->H = t.mat(m, n); script->R = t.mat(m, m);
            if (transKind == 0) { script->A = t.mat(n, n); script->b = t.vec(n); script->c = t.dbl(); }
            script->y = t.vec(m);
            script->lik_valid = t.flag();
            int lk = (int)t.nat();
            double scale = 1.0;
            if (lk == 0) { script->lik_kind = 0; script->lik_c = t.vec(k); }
            else if (lk == 1) { script->lik_kind = 1; script->lik_c = t.vec(k); script->lik_a = t.vec(n); }
            else if (lk == 2) { scale = t.dbl(); script->meas_fail = (int)t.nat(); }
            else throw vh::BadArgs("likKind");
            if (lk != 2) script->meas_fail = 0;
            if (!gpfc) {
                std::unique_ptr<GaussianCorrection> w = makeCorr(corrKind, script, alpha, beta, kappa, sub);
                wrappedC = w.get();
                std::unique_ptr<LikelihoodModel> lm;
                if (lk == 2) lm.reset(new HGaussLik(scale, script)); else lm.reset(new HLik(script));
                builtLikKind = (lk == 2) ? 2 : 0;
                if (seed == 1u)   // the constructor overload without a seed (documented default: 1)
                    gpfc.reset(new GPFCorrection(std::move(lm), std::move(w), makeTrans(transKind, n, script, T, qt)));
                else
                    gpfc.reset(new GPFCorrection(std::move(lm), std::move(w), makeTrans(transKind, n, script, T, qt), seed));
                directC = makeCorr(corrKind, script, alpha, beta, kappa, sub);
            } else if (((lk == 2) ? 2 : 0) != builtLikKind) throw vh::BadArgs("likKind-changed");
            if (mv == 2) {  // move-assign over a differently configured object (own likelihood model, own
                            // Gaussian correction, own transition model, other seed): the target must
                            // from now on behave as the source did
                std::unique_ptr<LikelihoodModel> dl(new HLik(decoy));
                std::unique_ptr<GPFCorrection> other(new GPFCorrection(std::move(dl), makeCorr(0, decoy, 1.0, 2.0, 0.0, 1),
                                                                       std::unique_ptr<StateModel>(new HTrans(decoy)), seed + 17u));
                *other = std::move(*gpfc);
                gpfc = std::move(other);
            }
            if (mv == 1) {   // move-construct the correction into a new object and destroy the source: the
                        // random stream must simply continue
                std::unique_ptr<GPFCorrection> moved(new GPFCorrection(std::move(*gpfc)));
                gpfc = std::move(moved);
            }
            wrappedC->skip(skip);
            directC->skip(skip);
            if (inplace) {
                // the same object as input and output: must equal the out-of-place call whose output
                // object initially holds the predicted set
                ParticleSet io = cur;
                gpfc->correct(io, io);
                out = io;
                dout = static_cast<const GaussianMixture&>(cur);
            } else gpfc->correct(cur, out);
            directC->correct(static_cast<const GaussianMixture&>(cur), dout);
            outSet(o, out);
            o.m(dout.mean()); o.m(dout.covariance());
            o.s(sameSet(in0, cur) ? "in-same" : "in-modified");
            // the next n*k values of the twin normal stream, in generation order
            VectorXd z(n * k);
            for (long i = 0; i < n * k; ++i) z(i) = twin_nd(twin);
            o.m(z);
            // what the likelihood model returned (recorded by the harness-defined model itself)
            o.n(script->rec_calls); o.n(decoy->rec_calls); decoy->rec_calls = 0;
            if (script->rec_calls > 0 && script->rec_valid) {
                o.s("lik"); o.n(script->rec_l.size()); o.m(script->rec_l);
                VectorXd tp = directT->getTransitionProbability(cur.state(), out.state());
                o.n(tp.size()); o.m(tp);
            } else o.s("nolik");
            script->rec_calls = 0;
            // getLikelihood() of the step (reported, not decided upon)
            bool valid; VectorXd lik;
            (void)gpfc->getLikelihood();            // repeated queries must not change anything
            std::tie(valid, lik) = gpfc->getLikelihood();
            o.s(valid ? "glik" : "gnolik"); o.n(valid ? lik.size() : 0); if (valid) o.m(lik);
        } else throw vh::BadArgs("step");
        cur = out;
    }
    // a further segment: the same objects (and random stream) go on with a particle set of another size
    if (t.empty()) break;
    if (t.tok() != "R") throw vh::BadArgs("segment");
    k = t.nat();
    cur = circ ? ParticleSet(k, lin, circ) : ParticleSet(k, n);
    readSet(t, cur, n, k);
    nsteps = t.nat();
    decoy->lik_c = VectorXd::Constant(k, 7.0);
    o.s("R");
    }
    t.done();
    return o.str();
}

int main() {
    return vh::run([](const std::string& op, Toks& t, std::string& out) {
        if (op == "gpfh") { out = gpfh(t); return true; }
        return false;
    });
}
