import BFL.Model.Skip
/-
Helper lemmas for C13 (skip machinery).  Everything here is a finite case analysis over the
flags and the command, closed by `decide`/`simp`, plus inductions over command lists.
-/
namespace BFL.Skip

/-- The bookkeeping invariant of the prediction-level flag. -/
def Inv (st : SkipState) : Prop :=
  st.pred = (st.state && (match st.exo with
                          | none => true
                          | some e => e))

instance (st : SkipState) : Decidable (Inv st) := by unfold Inv; infer_instance

/-- Commands that go through the filter or the steps (not directly to the state model). -/
def Cmd.viaSteps (c : Cmd) : Prop := c.level ≠ .stateModel ∧ c.level ≠ .exoModel

instance (c : Cmd) : Decidable c.viaSteps := by unfold Cmd.viaSteps; infer_instance

theorem init_inv (h : Bool) : Inv (SkipState.init h) := by
  cases h <;> decide

/-- Every command that goes through the filter or a step re-establishes the invariant,
    whatever the flags were before (so a throwing command cannot break it either). -/
theorem filterSkip_inv (st : SkipState) (n : StepName) (on : Bool) (h : Inv st) :
    Inv (filterSkip st n on).st := by
  obtain ⟨p, s, e, c⟩ := st
  cases n <;> cases on <;> cases p <;> cases s <;> cases c <;> rcases e with _ | (_ | _) <;>
    first | decide | (revert h; decide)

theorem predictionSkip_inv (st : SkipState) (n : StepName) (on : Bool) (h : Inv st) :
    Inv (predictionSkip st n on).st := by
  obtain ⟨p, s, e, c⟩ := st
  cases n <;> cases on <;> cases p <;> cases s <;> cases c <;> rcases e with _ | (_ | _) <;>
    first | decide | (revert h; decide)

theorem correctionSkip_inv (st : SkipState) (on : Bool) (h : Inv st) :
    Inv (correctionSkip st on).st := by
  obtain ⟨p, s, e, c⟩ := st
  cases on <;> cases p <;> cases s <;> cases c <;> rcases e with _ | (_ | _) <;>
    first | decide | (revert h; decide)

theorem skipCmd_inv (st : SkipState) (c : Cmd) (hc : c.viaSteps) (h : Inv st) :
    Inv (skipCmd st c).st := by
  obtain ⟨l, n, on⟩ := c
  cases l
  · exact filterSkip_inv st n on h
  · exact predictionSkip_inv st n on h
  · exact correctionSkip_inv st on h
  · exact absurd rfl hc.1
  · exact absurd rfl hc.2

theorem run_inv (cs : List Cmd) : ∀ (st : SkipState), (∀ c ∈ cs, c.viaSteps) → Inv st → Inv (run st cs) := by
  induction cs with
  | nil => intro st _ h; exact h
  | cons c cs ih =>
    intro st hcs h
    exact ih _ (fun c' hc' => hcs c' (List.mem_cons_of_mem _ hc')) (skipCmd_inv st c (hcs c List.mem_cons_self) h)

/-- No command attaches or detaches the exogenous model. -/
theorem skipCmd_hasExo (st : SkipState) (c : Cmd) : (skipCmd st c).st.hasExo = st.hasExo := by
  obtain ⟨p, s, e, cr⟩ := st
  obtain ⟨l, n, on⟩ := c
  cases l <;> cases n <;> cases on <;> cases p <;> cases s <;> cases cr <;> rcases e with _ | (_ | _) <;> decide

theorem run_hasExo (cs : List Cmd) : ∀ st : SkipState, (run st cs).hasExo = st.hasExo := by
  induction cs with
  | nil => intro st; rfl
  | cons c cs ih => intro st; simp only [run]; rw [ih, skipCmd_hasExo]

/-- One filter-level command against the specification: flags and outcome. -/
theorem filterSkip_spec (s : Spec) (n : StepName) (on : Bool) :
    filterSkip s.flags n on = ⟨(s.apply n on).flags, s.outcome n⟩ := by
  obtain ⟨h, st, e, c⟩ := s
  cases n <;> cases on <;> cases h <;> cases st <;> cases e <;> cases c <;> decide

theorem run_spec (cs : List (StepName × Bool)) : ∀ s : Spec,
    run s.flags (filterCmds cs) = (s.run cs).flags := by
  induction cs with
  | nil => intro s; rfl
  | cons c cs ih =>
    intro s
    obtain ⟨n, on⟩ := c
    simp only [filterCmds, List.map_cons, run, skipCmd, Spec.run]
    rw [filterSkip_spec]
    exact ih _

theorem init_flags (h : Bool) : (Spec.init h).flags = SkipState.init h := by
  cases h <;> decide

theorem spec_run_hasExo (cs : List (StepName × Bool)) : ∀ s : Spec, (s.run cs).hasExo = s.hasExo := by
  induction cs with
  | nil => intro s; rfl
  | cons c cs ih =>
    intro s
    obtain ⟨n, on⟩ := c
    simp only [Spec.run]
    rw [ih]
    cases n <;> simp [Spec.apply] <;> split <;> rfl

/-! ### The (flags, belief) machine against the table of switches -/

variable {β : Type}

theorem predictBelief_spec (sem : Sem β) (k : PredKind) (s : Spec) (t : Nat) (b : β) :
    predictBelief sem k s.flags t b = (s.predBehaviour k).act sem t b := by
  obtain ⟨h, st, e, c⟩ := s
  cases k <;> cases h <;> cases st <;> cases e <;> cases c <;> rfl

theorem predObs_spec (s : Spec) (k : PredKind) : predObs k s.flags = s.predBehaviour k := by
  obtain ⟨h, st, e, c⟩ := s
  cases k <;> cases h <;> cases st <;> cases e <;> cases c <;> decide

theorem correctBelief_spec (sem : Sem β) (s : Spec) (t : Nat) (b : β) :
    correctBelief sem s.flags t b = if s.corr then b else sem.corr t b := by
  obtain ⟨h, st, e, c⟩ := s
  cases c <;> rfl

/-- one operation: the concrete machine started in the image of a specification state ends in
    the image of the specification's successor -/
theorem stepOp_spec (sem : Sem β) (k : PredKind) (s : SpecSt β) (o : SOp) :
    stepOp sem k s.toFilter o.toOp = (Spec.stepOp sem k s o).toFilter := by
  cases o with
  | cmd n on =>
    simp only [SOp.toOp, stepOp, SpecSt.toFilter, Spec.stepOp, skipCmd, filterSkip_spec]
  | predict =>
    simp only [SOp.toOp, stepOp, SpecSt.toFilter, Spec.stepOp, predictBelief_spec]
  | correct =>
    simp only [SOp.toOp, stepOp, SpecSt.toFilter, Spec.stepOp, correctBelief_spec]
  | handOver =>
    simp only [SOp.toOp, stepOp, SpecSt.toFilter, Spec.stepOp, handOver]

theorem runOps_spec (sem : Sem β) (k : PredKind) (ops : List SOp) : ∀ s : SpecSt β,
    runOps sem k s.toFilter (ops.map SOp.toOp) = (Spec.runOps sem k s ops).toFilter := by
  induction ops with
  | nil => intro s; rfl
  | cons o os ih =>
    intro s
    simp only [List.map_cons, runOps, Spec.runOps]
    rw [stepOp_spec]
    exact ih _

theorem runOps_append (sem : Sem β) (k : PredKind) (a b : List Op) : ∀ s : FilterSt β,
    runOps sem k s (a ++ b) = runOps sem k (runOps sem k s a) b := by
  induction a with
  | nil => intro s; rfl
  | cons o os ih => intro s; simp only [List.cons_append, runOps]; exact ih _

theorem specRunOps_append (sem : Sem β) (k : PredKind) (a b : List SOp) : ∀ s : SpecSt β,
    Spec.runOps sem k s (a ++ b) = Spec.runOps sem k (Spec.runOps sem k s a) b := by
  induction a with
  | nil => intro s; rfl
  | cons o os ih => intro s; simp only [List.cons_append, Spec.runOps]; exact ih _

theorem specRunOps_hasExo (sem : Sem β) (k : PredKind) (ops : List SOp) : ∀ s : SpecSt β,
    (Spec.runOps sem k s ops).spec.hasExo = s.spec.hasExo := by
  induction ops with
  | nil => intro s; rfl
  | cons o os ih =>
    intro s
    simp only [Spec.runOps]
    rw [ih]
    cases o with
    | cmd n on =>
      have := spec_run_hasExo [(n, on)] s.spec
      simpa [Spec.run, Spec.stepOp] using this
    | predict => rfl
    | correct => rfl
    | handOver => rfl

/-- an operation that is not a step -/
def Op.isStep : Op → Bool
  | .predict => true
  | .correct => true
  | _ => false

theorem runOps_no_step (sem : Sem β) (k : PredKind) (ops : List Op) : ∀ s : FilterSt β,
    (∀ o ∈ ops, o.isStep = false) →
    (runOps sem k s ops).belief = s.belief ∧ (runOps sem k s ops).clock = s.clock := by
  induction ops with
  | nil => intro s _; exact ⟨rfl, rfl⟩
  | cons o os ih =>
    intro s h
    have ho := h o List.mem_cons_self
    have := ih (stepOp sem k s o) (fun o' ho' => h o' (List.mem_cons_of_mem _ ho'))
    simp only [runOps]
    cases o <;> first | exact this | (simp [Op.isStep] at ho)

/-- the commands of a specification-level history given as a block -/
def cmdBlock (cs : List (StepName × Bool)) : List SOp := cs.map fun c => .cmd c.1 c.2

theorem specRunOps_cmdBlock (sem : Sem β) (k : PredKind) (cs : List (StepName × Bool)) : ∀ s : SpecSt β,
    Spec.runOps sem k s (cmdBlock cs) = { s with spec := s.spec.run cs } := by
  induction cs with
  | nil => intro s; rfl
  | cons c cs ih =>
    intro s
    obtain ⟨n, on⟩ := c
    simp only [cmdBlock, List.map_cons, Spec.runOps, Spec.stepOp, Spec.run]
    exact ih _

/-- every command in the history switches something *on* (or is not understood) -/
def SOp.onOnly : SOp → Prop
  | .cmd _ on => on = true
  | _ => True

theorem apply_on_keeps_skipped (s : Spec) (n : StepName) (hp : s.predSkipped = true) (hc : s.corr = true) :
    (s.apply n true).predSkipped = true ∧ (s.apply n true).corr = true := by
  obtain ⟨h, st, e, c⟩ := s
  cases n <;> cases h <;> cases st <;> cases e <;> cases c <;> first | decide | (revert hp hc; decide)

theorem predBehaviour_skipped (s : Spec) (k : PredKind) (hp : s.predSkipped = true) :
    s.predBehaviour k = .identity := by
  obtain ⟨h, st, e, c⟩ := s
  cases k <;> cases h <;> cases st <;> cases e <;> cases c <;> first | decide | (revert hp; decide)

theorem specRunOps_all_skipped (sem : Sem β) (k : PredKind) (ops : List SOp) : ∀ s : SpecSt β,
    s.spec.predSkipped = true → s.spec.corr = true → (∀ o ∈ ops, o.onOnly) →
    (Spec.runOps sem k s ops).belief = s.belief := by
  induction ops with
  | nil => intro s _ _ _; rfl
  | cons o os ih =>
    intro s hp hc h
    have ho := h o List.mem_cons_self
    have hrest : ∀ o' ∈ os, o'.onOnly := fun o' ho' => h o' (List.mem_cons_of_mem _ ho')
    simp only [Spec.runOps]
    cases o with
    | cmd n on =>
      have hon : on = true := ho
      subst hon
      have hk := apply_on_keeps_skipped s.spec n hp hc
      exact ih _ hk.1 hk.2 hrest
    | predict =>
      have := ih (Spec.stepOp sem k s .predict) hp hc hrest
      rw [this]
      simp only [Spec.stepOp, predBehaviour_skipped s.spec k hp, Obs.act]
    | correct =>
      have := ih (Spec.stepOp sem k s .correct) hp hc hrest
      rw [this]
      simp only [Spec.stepOp, hc, if_true]
    | handOver => exact ih _ hp hc hrest

end BFL.Skip
