import BFL.Proofs.History
import BFL.Proofs.ExtractStats
import BFL.Proofs.ExtractWeights
import BFL.Proofs.ExtractWindow
import BFL.Proofs.HistoryMove
import BFL.Proofs.ExtractMove
import BFL.Proofs.ExtractBot
import BFL.Proofs.HistorySpec
import BFL.Proofs.ExtractSpec
/-
C17 — Estimate extraction and its sliding window return the advertised statistic.

Theorems about the models `BFL.HistBuf` (BFL/Model/History.lean: `HistoryBuffer`) and
`BFL.Extract` (BFL/Model/Extract.lean: `EstimatesExtraction`, `log_sum_exp`, the rows of
`directional_mean` it uses), for every sequence of calls, every window size, every particle set,
log-weights, likelihoods and transition matrix.  Numbers are read over ℝ.

History: with exactly one column (`mean` of a single particle; a windowed estimate when the history
holds a single estimate) `directional_mean` used to return the circular components unwrapped
(7.0 instead of 0.7168); repaired in /repo by e5e0548 (the column is wrapped).  The model follows the
repaired code and the circular clause is proved at full strength (`mean_circular_spec`).
-/
namespace BFL
namespace C17
open Extract

/-! ## The history buffer: window clamped to [2, 30], shrinking keeps the most recent, clear empties -/
section buffer
variable {β : Type}

/-- After any sequence of buffer operations (the initial window 5 included) the window is in [2, 30]. -/
theorem window_clamped (ops : List (HistBuf.Op β)) :
    2 ≤ (HistBuf.run ops).window ∧ (HistBuf.run ops).window ≤ 30 :=
  ⟨(HistBuf.inv_run ops).lo, (HistBuf.inv_run ops).hi⟩

/-- … and the buffer never holds more elements than the window. -/
theorem hist_len_le_window (ops : List (HistBuf.Op β)) :
    (HistBuf.run ops).items.length ≤ (HistBuf.run ops).window :=
  (HistBuf.inv_run ops).len

/-- Adding an element puts it in front and keeps the `window − 1` most recent older ones, in order. -/
theorem add_keeps_recent (ops : List (HistBuf.Op β)) (x : β) :
    ((HistBuf.run ops).add x).items = (x :: (HistBuf.run ops).items).take (HistBuf.run ops).window ∧
    ((HistBuf.run ops).add x).window = (HistBuf.run ops).window := by
  have h := HistBuf.inv_run ops
  exact ⟨HistBuf.add_items _ x (by have := h.lo; omega) h.len, HistBuf.add_window _ x⟩

/-- The new window is the request clamped to [2, 30] (unchanged request: nothing happens). -/
theorem set_window_clamps (ops : List (HistBuf.Op β)) (w : Nat) :
    ((HistBuf.run ops).setWindow w).1.window
      = (if w = (HistBuf.run ops).window then w else if w < 2 then 2 else if 30 ≤ w then 30 else w) ∧
    ((HistBuf.run ops).setWindow w).2 = true := by
  refine ⟨?_, HistBuf.setWindow_flag _ w⟩
  rw [HistBuf.setWindow_window]
  split
  · rename_i h; exact h.symm
  · rfl

/-- Changing the window keeps the `min(stored, new window)` most recent elements, in order
    (in particular nothing is lost when the window grows or the content already fits). -/
theorem shrink_keeps_recent (ops : List (HistBuf.Op β)) (w : Nat) :
    let h := HistBuf.run ops
    (h.setWindow w).1.items = h.items.take (min h.items.length (h.setWindow w).1.window) ∧
    (h.setWindow w).1.items.length = min h.items.length (h.setWindow w).1.window := by
  intro h
  have hi := HistBuf.inv_run ops
  have h1 := HistBuf.setWindow_items h w hi.len
  constructor
  · rw [h1]
    rcases Nat.le_total h.items.length (h.setWindow w).1.window with hle | hle
    · rw [Nat.min_eq_left hle, List.take_of_length_le hle, List.take_of_length_le (le_refl _)]
    · rw [Nat.min_eq_right hle]
  · rw [h1, List.length_take, Nat.min_comm]

/-- Clearing empties the buffer and keeps the window. -/
theorem clear_empties (h : HistBuf β) :
    h.clear.1.items = [] ∧ h.clear.1.window = h.window ∧ h.clear.2 = true := ⟨rfl, rfl, rfl⟩

/-- `window_ − 1` / `window_ + 1` never wrap around in a reachable buffer. -/
theorem decrease_increase_no_wrap (ops : List (HistBuf.Op β)) :
    (HistBuf.run ops).decrease = (HistBuf.run ops).setWindow ((HistBuf.run ops).window - 1) ∧
    (HistBuf.run ops).increase = (HistBuf.run ops).setWindow ((HistBuf.run ops).window + 1) := by
  have h := HistBuf.inv_run ops
  unfold HistBuf.decrease HistBuf.increase
  rw [HistBuf.uintSub1_eq (by have := h.lo; omega), HistBuf.uintAdd1_eq h.hi]
  exact ⟨rfl, rfl⟩

/-- non-vacuity: window 10, four elements, shrink to 3 (the sequence that corrupted the heap before
    fix 382f8e9): the three most recent survive, in order. -/
example : (HistBuf.run [.set 10, .add 1, .add 2, .add 3, .add 4, .set 3] : HistBuf Nat).items = [4, 3, 2] ∧
    (HistBuf.run [.set 10, .add 1, .add 2, .add 3, .add 4, .set 3] : HistBuf Nat).window = 3 := by
  simp [HistBuf.run, HistBuf.step, HistBuf.setWindow, HistBuf.add, HistBuf.init, HistBuf.clampWindow,
    HistBuf.maxWindow, HistBuf.popBackWhile_eq_take]

end buffer

/-! ## The extraction object: window, clear, availability flags -/

/-- After any call sequence on an `EstimatesExtraction` the window is in [2, 30] and bounds the history. -/
theorem ee_window_clamped (eps : ℝ) (lin circ : Nat) (cs : List (Call ℝ)) :
    2 ≤ (run eps lin circ cs).hist.window ∧ (run eps lin circ cs).hist.window ≤ 30 ∧
    (run eps lin circ cs).hist.items.length ≤ (run eps lin circ cs).hist.window :=
  let h := (inv_run eps lin circ cs).hist
  ⟨h.lo, h.hi, h.len⟩

/-- `setMobileAverageWindowSize(n)`: rejected for `n ≤ 0`; otherwise the window becomes the request
    clamped to [2, 30] and the `min(stored, new window)` most recent estimates survive. -/
theorem ee_set_window (eps : ℝ) (lin circ : Nat) (cs : List (Call ℝ)) (n : Int) :
    let s := run eps lin circ cs
    let r := step eps s (.setWindow n)
    (n ≤ 0 → r.2.flag = false ∧ r.1.hist = s.hist) ∧
    (0 < n → r.2.flag = true ∧
      r.1.hist.window = (if n.toNat = s.hist.window then n.toNat else HistBuf.clampWindow n.toNat) ∧
      r.1.hist.items = s.hist.items.take r.1.hist.window) := by
  intro s r
  have hi := (inv_run eps lin circ cs).hist
  constructor
  · intro hn
    simp [r, step, setMobileWindow, not_lt.mpr hn]
  · intro hn
    simp only [r, step, setMobileWindow, if_pos hn]
    refine ⟨HistBuf.setWindow_flag _ _, ?_, HistBuf.setWindow_items _ _ hi.len⟩
    rw [HistBuf.setWindow_window]
    split
    · rename_i h; exact h.symm
    · rfl

/-- `clear()` empties the history and keeps window and method. -/
theorem ee_clear_empties (eps : ℝ) (s : EE ℝ) :
    (step eps s .clear).1.hist.items = [] ∧ (step eps s .clear).1.hist.window = s.hist.window ∧
    (step eps s .clear).1.method = s.method ∧ (step eps s .clear).2.flag = true := ⟨rfl, rfl, rfl, rfl⟩

/-- The two-argument `extract` reports "no estimate" exactly for the four map methods (and then leaves
    the object untouched); the five-argument one always reports an estimate. -/
theorem map_without_args_unavailable (eps : ℝ) (s : EE ℝ) (a : Args ℝ) :
    ((step eps s (.extract2 a)).2.flag = false ↔ s.method ∈ [Method.map, .smap, .wmap, .emap]) ∧
    ((step eps s (.extract2 a)).2.flag = false → (step eps s (.extract2 a)).1 = s ∧ (step eps s (.extract2 a)).2.est = none) ∧
    (step eps s (.extract5 a)).2.flag = true ∧ (step eps s (.extract5 a)).2.est.isSome = true := by
  refine ⟨?_, ?_, ?_, ?_⟩
  · simp only [step, extract2]
    cases hm : s.method <;> simp [Method.stat, Method.fam]
  · simp only [step, extract2]
    cases hm : s.method <;> simp [Method.stat, Method.fam]
  · simp only [step, extract5, extract2]
    cases hm : s.method <;> simp [Method.stat, Method.fam]
  · simp only [step, extract5, extract2]
    cases hm : s.method <;> simp [Method.stat, Method.fam]

/-- The un-windowed methods return the base statistic and leave the history untouched. -/
theorem unwindowed_returns_base (eps : ℝ) (s : EE ℝ) (a : Args ℝ) (hf : s.method.fam = none) :
    (s.method.stat ≠ .map →
      step eps s (.extract2 a) = (s, ⟨true, some (baseEst eps s.lin s.circ s.method.stat a)⟩)) ∧
    step eps s (.extract5 a) = (s, ⟨true, some (baseEst eps s.lin s.circ s.method.stat a)⟩) := by
  constructor
  · intro hs
    rcases extract2_cases eps s a with ⟨h, _⟩ | ⟨_, _, _, he⟩ | ⟨f, _, _, hf', _⟩
    · exact absurd h hs
    · exact he
    · rw [hf] at hf'; cases hf'
  · rcases extract5_cases eps s a with ⟨_, _, he⟩ | ⟨f, _, hf', _⟩
    · exact he
    · rw [hf] at hf'; cases hf'

/-! ## The base statistics -/

/-- `mean`: the estimate has `lin + circ` rows; linear row `r` is `Σ_j x_{rj} e^{w_j}` — the weighted
    arithmetic mean `Σ_j x_{rj} e^{w_j} / Σ_j e^{w_j}` for normalised log-weights; circular row `r` is the
    argument of the weighted resultant `Σ_j e^{w_j} e^{i θ_{rj}}` (one log-weight per particle). -/
theorem mean_is_weighted_mean (lin circ : Nat) (ps : List (List ℝ)) (ws : List ℝ) :
    (meanEst lin circ ps ws).length = lin + circ ∧
    (∀ r, r < lin → (meanEst lin circ ps ws)[r]?
        = some (List.zipWith (fun p w => p.getD r 0 * Real.exp w) ps ws).sum) ∧
    (∀ r, r < lin → (ws.map Real.exp).sum = 1 → (meanEst lin circ ps ws)[r]?
        = some ((List.zipWith (fun p w => p.getD r 0 * Real.exp w) ps ws).sum / (ws.map Real.exp).sum)) ∧
    (∀ r, r < circ → ps.length = ws.length → (meanEst lin circ ps ws)[lin + r]?
        = some (Complex.arg (resultant (rowOf ps (lin + r)) (ws.map Real.exp)))) := by
  refine ⟨meanEst_length lin circ ps ws, ?_, ?_, ?_⟩
  · intro r hr
    rw [meanEst_lin lin circ ps ws r hr, linMean_eq]
  · intro r hr hn
    rw [meanEst_lin lin circ ps ws r hr, linMean_eq, hn, div_one]
  · intro r hr hlen
    rw [meanEst_circ lin circ ps ws r hr, dirMean_eq_arg_of_pos]
    · simpa [rowOf] using hlen
    · intro e he
      obtain ⟨w, _, rfl⟩ := List.mem_map.mp he
      exact Real.exp_pos w

/-- Full-strength circular clause of the property: for every non-empty particle set with normalised
    log-weights, every circular row of `mean` is the weighted circular mean (argument of the resultant). -/
def MeanCircularSpec : Prop :=
  ∀ (lin circ : Nat) (ps : List (List ℝ)) (ws : List ℝ) (r : Nat),
    r < circ → ps ≠ [] → ps.length = ws.length → (ws.map Real.exp).sum = 1 →
    (meanEst lin circ ps ws)[lin + r]? = some (Complex.arg (resultant (rowOf ps (lin + r)) (ws.map Real.exp)))

/-- The circular clause holds at full strength (single particle included, after fix e5e0548), and the
    value lies in `(−π, π]`. -/
theorem mean_circular_spec : MeanCircularSpec := by
  intro lin circ ps ws r hr _ hlen _
  exact (mean_is_weighted_mean lin circ ps ws).2.2.2 r hr hlen

theorem mean_circular_in_range (lin circ : Nat) (ps : List (List ℝ)) (ws : List ℝ) (r : Nat)
    (hr : r < circ) (hlen : ps.length = ws.length) :
    ∃ v, (meanEst lin circ ps ws)[lin + r]? = some v ∧ v ∈ Set.Ioc (-Real.pi) Real.pi :=
  ⟨_, (mean_is_weighted_mean lin circ ps ws).2.2.2 r hr hlen, arg_mem_Ioc _⟩

/-- The former counterexample: one particle at angle 7 with weight 1 now gives `arg e^{7i}` (= 7 − 2π),
    not 7. -/
theorem mean_single_particle_wrapped :
    (meanEst 0 1 [[(7 : ℝ)]] [0])[0]? = some (Complex.arg (Complex.exp ((7 : ℝ) * Complex.I))) ∧
    Complex.arg (Complex.exp ((7 : ℝ) * Complex.I)) ≠ 7 := by
  constructor
  · have h := meanEst_circ 0 1 [[(7 : ℝ)]] [0] 0 (by norm_num)
    simp only [rowOf, List.map_cons, List.map_nil, Nat.zero_add] at h
    rw [h, dirMean_single]
    simp
  · intro h
    have h1 := Complex.arg_le_pi (Complex.exp ((7 : ℝ) * Complex.I))
    have h2 := Real.pi_le_four
    rw [h] at h1
    linarith

/-- `mode` returns the particle at the first index of maximal log-weight (as Eigen's `maxCoeff`). -/
theorem mode_is_argmax (ps : List (List ℝ)) (ws : List ℝ) (hlen : ps.length = ws.length) (hne : ws ≠ []) :
    ∃ i, ps[i]? = some (modeEst ps ws) ∧
      (∃ m, ws[i]? = some m ∧ (∀ (j : Nat) x, ws[j]? = some x → x ≤ m) ∧
        (∀ (j : Nat) x, j < i → ws[j]? = some x → x < m)) := by
  obtain ⟨i, hi, he⟩ := modeEst_spec ps ws hne
  refine ⟨i, ?_, hi⟩
  have hil : i < ps.length := hlen ▸ hi.lt_length
  rw [he, List.getD_eq_getElem?_getD, List.getElem?_eq_getElem hil]
  rfl

/-- `map`: every logarithm the code takes is of a positive number, the log-domain score of particle `i`
    is the logarithm of `(lᵢ + ε)·Σ_j (t_{ij} + ε)·e^{w_j}` (likelihood times the weight-averaged
    transition density, each guarded by `ε = 2.2·10⁻³⁰⁸`), and the particle returned is the one at the
    first index maximising that product. -/
theorem map_is_argmax_lik_times_trans (eps : ℝ) (heps : 0 < eps) (ps : List (List ℝ)) (pw lik : List ℝ)
    (tp : List (List ℝ)) (hN : ps.length = lik.length) (hT : tp.length = lik.length)
    (hpw : pw ≠ []) (hlik : lik ≠ [])
    (hl : ∀ l ∈ lik, 0 ≤ l) (ht : ∀ row ∈ tp, row ≠ [] ∧ ∀ t ∈ row, 0 ≤ t) :
    mapValues eps pw lik tp = (mapProducts eps pw lik tp).map Real.log ∧
    (∀ g ∈ mapProducts eps pw lik tp, 0 < g) ∧
    ∃ i, ps[i]? = some (mapEst eps ps pw lik tp) ∧
      (∃ m, (mapProducts eps pw lik tp)[i]? = some m ∧
        (∀ (j : Nat) x, (mapProducts eps pw lik tp)[j]? = some x → x ≤ m) ∧
        (∀ (j : Nat) x, j < i → (mapProducts eps pw lik tp)[j]? = some x → x < m)) := by
  have htp : tp ≠ [] := by
    intro h; rw [h] at hT; exact hlik (List.length_eq_zero_iff.mp hT.symm)
  obtain ⟨hv, hpos⟩ := mapValues_eq_log eps heps pw hpw lik tp hl ht
  obtain ⟨i, hi, he⟩ := mapEst_spec eps heps ps pw lik tp hpw hlik htp hl ht
  refine ⟨hv, hpos, i, ?_, hi⟩
  have hil : i < ps.length := by
    have := hi.lt_length
    simp only [mapProducts, List.length_zipWith] at this
    omega
  rw [he, List.getD_eq_getElem?_getD, List.getElem?_eq_getElem hil]
  rfl

/-- The guard changes each product by exactly `ε·(Σ_j t_j e^{w_j} + (l + ε) Σ_j e^{w_j})`: with
    `ε = 2.2·10⁻³⁰⁸` the selected particle maximises `l·Σ_j t_j e^{w_j}` up to that amount. -/
theorem map_guard_effect (eps l : ℝ) (row pw : List ℝ) (hlen : row.length = pw.length) :
    (l + eps) * (List.zipWith (fun t w => (t + eps) * Real.exp w) row pw).sum
      - l * (List.zipWith (fun t w => t * Real.exp w) row pw).sum
      = eps * ((List.zipWith (fun t w => t * Real.exp w) row pw).sum + (l + eps) * (pw.map Real.exp).sum) :=
  map_guard_bound eps l row pw hlen

/-- non-vacuity of the `map` hypotheses, with an exactly zero likelihood and a zero transition entry -/
example : ∃ i : Nat, ([[1], [2]] : List (List ℝ))[i]?
    = some (mapEst (1/10 : ℝ) [[1], [2]] [0, 0] [0, 1] [[0, 1], [1, 1]]) := by
  obtain ⟨_, _, i, hi, _⟩ := map_is_argmax_lik_times_trans (1/10) (by norm_num) [[1], [2]] [0, 0] [0, 1]
    [[0, 1], [1, 1]] rfl rfl (by simp) (by simp) (by simp) (by simp)
  exact ⟨i, hi⟩

/-! ## The window weights -/

/-- simple variant: for a history of `k ≥ 1` estimates every weight is `1/k` (positive, summing to one, equal) -/
theorem sm_weights_convex (k : Nat) (hk : 1 ≤ k) :
    ConvexAging ((smWeights k : List ℝ).map Real.exp) ∧
    (smWeights k : List ℝ).map Real.exp = List.replicate k (1 / (k : ℝ)) :=
  ⟨smWeights_convex k hk, smWeights_exp k hk⟩

/-- weighted variant: positive, summing to one, not increasing with age; weight of age `i` is `(k − i)/Σ_j (k − j)` -/
theorem wm_weights_convex (k : Nat) (hk : 1 ≤ k) :
    ConvexAging ((wmWeights k : List ℝ).map Real.exp) ∧
    (wmWeights k : List ℝ).map Real.exp
      = (List.range k).map fun i => ((k - i : Nat) : ℝ) / ((List.range k).map fun j => (((k - j : Nat) : ℝ))).sum :=
  ⟨wmWeights_convex k hk, wmWeights_exp k hk⟩

/-- exponential variant: positive, summing to one, not increasing with age; weight of age `i` is `e^{−i/k}/Σ_j e^{−j/k}` -/
theorem em_weights_convex (k : Nat) (hk : 1 ≤ k) :
    ConvexAging ((emWeights k : List ℝ).map Real.exp) ∧
    (emWeights k : List ℝ).map Real.exp
      = (List.range k).map fun (i : Nat) => Real.exp (-((i : ℝ) / k)) /
          ((List.range k).map fun (j : Nat) => Real.exp (-((j : ℝ) / k))).sum :=
  ⟨emWeights_convex k hk, emWeights_exp k hk⟩

/-- non-vacuity: for `k = 2` the weighted variant has weights `2/3, 1/3` -/
example : (wmWeights 2 : List ℝ).map Real.exp = [2 / 3, 1 / 3] := by
  rw [(wm_weights_convex 2 (by norm_num)).2]
  simp [List.range_succ]
  norm_num

/-- The cached weight vectors are recomputed only when their length differs from the history length;
    after every call sequence (window changes, clears, method switches included) each cached vector is
    exactly what a fresh computation gives for its length — a stale vector of the right length cannot occur. -/
theorem cached_weights_fresh (eps : ℝ) (lin circ : Nat) (cs : List (Call ℝ)) :
    let s := run eps lin circ cs
    s.smW = smWeights s.smW.length ∧ s.wmW = wmWeights s.wmW.length ∧ s.emW = emWeights s.emW.length ∧
    ∀ (f : Fam) (k : Nat), (if (s.cached f).length ≠ k then famWeights f k else s.cached f) = famWeights f k := by
  intro s
  have h := (inv_run eps lin circ cs).cache
  exact ⟨h.sm, h.wm, h.em, fun f k => windowed_weight_fresh h f k⟩

/-! ## The windowed variants -/

/-- state and ghost log (base estimates pushed since the last `clear`, newest first) after a call sequence -/
noncomputable def runLog (eps : ℝ) (lin circ : Nat) (cs : List (Call ℝ)) : EE ℝ × List (List ℝ) :=
  runLogFrom eps (EE.init lin circ) [] cs

theorem runLog_fst (eps : ℝ) (lin circ : Nat) (cs : List (Call ℝ)) :
    (runLog eps lin circ cs).1 = run eps lin circ cs :=
  runLogFrom_fst eps _ _ cs

/-- The history always consists of the most recent pushed base estimates, newest first. -/
theorem hist_is_recent_log (eps : ℝ) (lin circ : Nat) (cs : List (Call ℝ)) :
    (run eps lin circ cs).hist.items
      = (runLog eps lin circ cs).2.take (run eps lin circ cs).hist.items.length := by
  have h := logInv_runLogFrom eps (inv_init lin circ) (List.nil_prefix : LogInv (EE.init lin circ) []) cs
  have h' := List.prefix_iff_eq_take.mp h
  simp only [runLog, runLogFrom_fst] at h' ⊢
  exact h'

/-- After a `clear` (or from construction) and with no window change since, the history holds
    `min(calls, window)` estimates, `calls` counting the windowed `extract` calls that produced one. -/
theorem hist_len_min_calls_window (eps : ℝ) (lin circ : Nat) (pre cs : List (Call ℝ))
    (hcs : ∀ c ∈ cs, Call.keepsWindow c) :
    let s0 := (step eps (run eps lin circ pre) .clear).1
    (runFrom eps s0 cs).hist.items.length = min (pushCount eps s0 cs) s0.hist.window ∧
    (runFrom eps (EE.init lin circ) cs).hist.items.length = min (pushCount eps (EE.init lin circ) cs) 5 := by
  intro s0
  have h0 : EEInv lin circ s0 := inv_step eps (inv_run eps lin circ pre) .clear
  obtain ⟨_, h2⟩ := hist_len_runFrom eps h0 cs hcs
  obtain ⟨_, h4⟩ := hist_len_runFrom eps (inv_init lin circ) cs hcs
  constructor
  · rw [h2]
    have : s0.hist.items.length = 0 := rfl
    rw [this, Nat.zero_add]
  · rw [h4]
    simp [EE.init, HistBuf.init]

/-- **Windowed estimates.**  After any call sequence `pre`, a windowed `extract` call `c` whose base
    estimate is `b` returns `true` and `mean(H, a)`, where `H` is the list of the `k` most recent base
    estimates (`b` first), `k = min(stored + 1, window) ∈ [1, 30]`, and `a` the family's weight vector for
    `k`, which after `exp` is positive, sums to one, does not increase with age and is constant `1/k` for
    the simple variant.  `mean(H, a)` is the very function of `mean_is_weighted_mean`: linear rows
    `Σ_i a_i H_i[r]`, circular rows averaged on the circle (`windowed_rows`, with `H.length = a.length = k`). -/
theorem windowed_is_convex_combination (eps : ℝ) (lin circ : Nat) (pre : List (Call ℝ)) (c : Call ℝ)
    (b : List ℝ) (hp : pushed eps (runLog eps lin circ pre).1 c = some b) :
    let s := (runLog eps lin circ pre).1
    let log := (runLog eps lin circ pre).2
    ∃ f, s.method.fam = some f ∧
      let k := min (s.hist.items.length + 1) s.hist.window
      let H := (b :: log).take k
      let a := (famWeights f k : List ℝ).map Real.exp
      1 ≤ k ∧ k ≤ 30 ∧ H.length = k ∧ a.length = k ∧
      ConvexAging a ∧ (f = .simple → a = List.replicate k (1 / (k : ℝ))) ∧
      (step eps s c).2 = ⟨true, some (meanEst lin circ H (famWeights f k))⟩ ∧
      (step eps s c).1.hist.items = H := by
  intro s log
  have hinv : EEInv lin circ s := by
    simp only [s, runLog, runLogFrom_fst]; exact inv_runFrom eps (inv_init lin circ) pre
  have hlog : LogInv s log :=
    logInv_runLogFrom eps (inv_init lin circ) (List.nil_prefix : LogInv (EE.init lin circ) []) pre
  obtain ⟨f, hf, hk1, hk30, hH, hitems, hout⟩ := windowed_step_spec eps hinv hlog c b hp
  refine ⟨f, hf, hk1, hk30, hH, by simp, famWeights_convex f _ hk1, ?_, hout, hitems⟩
  intro hfs
  subst hfs
  exact smWeights_exp _ hk1

/-- Row-wise reading of `mean(H, a)` for a window of `k = H.length` estimates with log-weights `lw`
    (one per estimate): linear rows are the combination `Σ_i H_i[r]·e^{lw_i}`; circular rows are averaged
    on the circle, `arg Σ_i e^{lw_i} e^{i H_i[r]}` — also for `k = 1`, where this is the single stored
    value wrapped to `(−π, π]`. -/
theorem windowed_rows (lin circ : Nat) (H : List (List ℝ)) (lw : List ℝ) (hlen : H.length = lw.length) :
    (∀ r, r < lin → (meanEst lin circ H lw)[r]?
        = some (List.zipWith (fun h w => h.getD r 0 * Real.exp w) H lw).sum) ∧
    (∀ r, r < circ → (meanEst lin circ H lw)[lin + r]?
        = some (Complex.arg (resultant (rowOf H (lin + r)) (lw.map Real.exp)))) ∧
    (∀ r b, r < circ → H = [b] → (meanEst lin circ H lw)[lin + r]?
        = some (Complex.arg (Complex.exp ((b.getD (lin + r) 0 : ℝ) * Complex.I)))) := by
  obtain ⟨_, h1, _, h3⟩ := mean_is_weighted_mean lin circ H lw
  refine ⟨h1, fun r hr => h3 r hr hlen, ?_⟩
  intro r b hr hH
  subst hH
  rw [meanEst_circ lin circ [b] lw r hr]
  simp only [rowOf, List.map_cons, List.map_nil]
  rw [dirMean_single]

/-- non-vacuity of `windowed_is_convex_combination`: default method `emode`, two calls. -/
example : pushed (1 : ℝ) (runLog 1 1 0 [.extract2 { ps := [[3]], ws := [0] }]).1
    (.extract2 { ps := [[5], [4]], ws := [0, 1] }) = some [4] := by
  simp [runLog, runLogFrom, pushed, step, extract2, EE.init, Method.stat, Method.fam, windowed,
    baseEst, modeEst, argmaxFirst, argmaxAux, EE.setCached]


/-! ## Hand-over: move-constructed and move-assigned objects -/

/-- `HistoryBuffer`: after move construction or move assignment the destination holds exactly what the
    source held; the source is in the documented moved-from state (window 0, empty); a self move-assignment
    changes nothing. -/
theorem buffer_handover {β : Type} (p : HistBuf.Pair β) (i : Bool) :
    ((HistBuf.step2 p (.moveCtor i)).get (!i) = p.get i ∧ (HistBuf.step2 p (.moveCtor i)).get i = HistBuf.movedFrom) ∧
    ((HistBuf.step2 p (.moveAssign i (!i))).get (!i) = p.get i ∧
      (HistBuf.step2 p (.moveAssign i (!i))).get i = HistBuf.movedFrom) ∧
    HistBuf.step2 p (.moveAssign i i) = p :=
  HistBuf.handover_spec p i

/-- In any two-object program (operations, move constructions, move assignments, in any order) every buffer
    is either moved-from (window 0, empty) or regular: window in [2, 30] bounding the content. -/
theorem buffer_regular_or_moved_from {β : Type} (ops : List (HistBuf.Op2 β)) (i : Bool) :
    let h := (HistBuf.run2 ops).get i
    (h.window = 0 ∧ h.items = []) ∨ (2 ≤ h.window ∧ h.window ≤ 30 ∧ h.items.length ≤ h.window) := by
  intro h
  rcases HistBuf.inv'_run2 ops i with hm | hr
  · exact Or.inl hm
  · exact Or.inr ⟨hr.lo, hr.hi, hr.len⟩

/-- What a moved-from buffer does: `window_ − 1` wraps to `2³² − 1` and is clamped to 30, `window_ + 1` is
    clamped to 2, a request of 0 and `addElement` leave it moved-from. -/
theorem moved_from_buffer_ops {β : Type} :
    ((HistBuf.movedFrom : HistBuf β).decrease).1.window = 30 ∧ ((HistBuf.movedFrom : HistBuf β).increase).1.window = 2 ∧
    ((HistBuf.movedFrom : HistBuf β).setWindow 0).1 = HistBuf.movedFrom ∧
    ∀ x, (HistBuf.movedFrom : HistBuf β).add x = HistBuf.movedFrom :=
  HistBuf.movedFrom_window_ops

/-- `EstimatesExtraction`: the destination of a move construction / move assignment is exactly the source as
    it was (method, window, history, cached weights, layout); the source keeps its layout, has method `emode`
    and a moved-from history buffer. -/
theorem ee_handover (eps : ℝ) (p : Pool ℝ) :
    ((poolStep eps p .moveCtor).1.get (!p.cur) = p.get p.cur ∧
      (poolStep eps p .moveCtor).1.get p.cur = (p.get p.cur).afterMoveCtor) ∧
    ((poolStep eps p .moveAssign).1.get (!p.cur) = p.get p.cur ∧
      (poolStep eps p .moveAssign).1.get p.cur = (p.get p.cur).afterMoveAssign (p.get (!p.cur))) :=
  pool_handover_spec eps p

/-- … hence the handed-over object answers every later call sequence as the configured original would. -/
theorem handover_behaves_as_original (eps : ℝ) (p : Pool ℝ) (cs : List (Call ℝ)) :
    outputsFrom eps ((poolStep eps p .moveCtor).1.get (!p.cur)) cs = outputsFrom eps (p.get p.cur) cs ∧
    outputsFrom eps ((poolStep eps p .moveAssign).1.get (!p.cur)) cs = outputsFrom eps (p.get p.cur) cs := by
  obtain ⟨⟨h1, _⟩, ⟨h2, _⟩⟩ := pool_handover_spec eps p
  rw [h1, h2]
  exact ⟨rfl, rfl⟩

/-- In any two-object program every object has a regular or moved-from history buffer and cached weight
    vectors that equal a fresh computation for their length (move assignment swaps the vectors: still fresh). -/
theorem ee_pool_invariant (eps : ℝ) (lin circ : Nat) (cs : List (PoolCall ℝ)) (i : Bool) :
    let s := (poolRun eps lin circ cs).get i
    ((s.hist.window = 0 ∧ s.hist.items = []) ∨
      (2 ≤ s.hist.window ∧ s.hist.window ≤ 30 ∧ s.hist.items.length ≤ s.hist.window)) ∧
    s.smW = smWeights s.smW.length ∧ s.wmW = wmWeights s.wmW.length ∧ s.emW = emWeights s.emW.length ∧
    s.lin = lin ∧ s.circ = circ := by
  intro s
  have h := inv'_poolRun eps lin circ cs i
  refine ⟨?_, h.cache.sm, h.cache.wm, h.cache.em, h.lin_eq, h.circ_eq⟩
  rcases h.hist with hm | hr
  · exact Or.inl hm
  · exact Or.inr ⟨hr.lo, hr.hi, hr.len⟩

/-! ## Log-weights `−∞` (particles of weight exactly zero), over `WithBot ℝ` -/

/-- `mean` with log-weights in `ℝ ∪ {−∞}` (`expB ⊥ = 0`, `expB w = e^w`; `meanEst = meanEstE ∘ exp`):
    linear rows `Σ_j x_j expB(w_j)`; circular rows the argument of the weighted resultant, provided a single
    particle does not have weight zero — which normalisation excludes. -/
theorem mean_with_zero_weights (lin circ : Nat) (ps : List (List ℝ)) (ws : List (WithBot ℝ)) :
    (∀ r, r < lin → (meanEstE lin circ ps (ws.map expB))[r]?
        = some (List.zipWith (fun p w => p.getD r 0 * expB w) ps ws).sum) ∧
    (∀ r, r < circ → ps.length = ws.length → (ps.length = 1 → ∀ w ∈ ws, w ≠ ⊥) →
      (meanEstE lin circ ps (ws.map expB))[lin + r]?
        = some (Complex.arg (resultant (rowOf ps (lin + r)) (ws.map expB)))) ∧
    (∀ ws' : List ℝ, (ws'.map (fun w => ((w : ℝ) : WithBot ℝ))).map expB = ws'.map Real.exp) :=
  ⟨fun r hr => meanEstE_lin_bot lin circ ps ws r hr,
   fun r hr hlen h1 => meanEstE_circ_bot lin circ ps ws r hr hlen h1, map_expB_coe⟩

/-- The side condition is necessary: a single particle of weight zero (not a normalised weight set). -/
theorem mean_single_zero_weight_counterexample :
    (meanEstE 0 1 [[(1 : ℝ)]] ([⊥].map expB))[0]? = some 1 ∧
    Complex.arg (resultant (rowOf [[(1 : ℝ)]] 0) ([⊥].map expB)) = 0 :=
  meanEstE_single_zero_weight_counterexample

/-- `mode` with log-weights in `ℝ ∪ {−∞}`: the particle at the first index of maximal log-weight; it never
    has weight zero unless every particle has. -/
theorem mode_with_zero_weights (ps : List (List ℝ)) (ws : List (WithBot ℝ)) (hlen : ps.length = ws.length)
    (hne : ws ≠ []) :
    ∃ i, ps[i]? = some (modeEst ps ws) ∧
      (∃ m, ws[i]? = some m ∧ (∀ (j : Nat) x, ws[j]? = some x → x ≤ m) ∧
        (∀ (j : Nat) x, j < i → ws[j]? = some x → x < m)) ∧
      ((∃ w ∈ ws, w ≠ ⊥) → ws[i]? ≠ some ⊥) := by
  obtain ⟨i, h1, h2⟩ := modeEst_spec_bot ps ws hlen hne
  exact ⟨i, h1, h2, fun hfin => mode_not_bot ws i h2 hfin⟩

/-! ## Round 4: refinement to a specification; convex hull -/

section refinement
variable {β : Type}

/-- **Refinement.**  Under every operation sequence (add, clear, set / increase / decrease window) the buffer
    shows exactly what the specification `HistSpec` shows: the `keep` most recent elements added since the last
    `clear`, newest first, where `log` is append-only and `keep` is a counter that `add` raises up to the window
    and a window change lowers to the new window; the counter never exceeds the log or the window. -/
theorem buffer_refines_spec (ops : List (HistBuf.Op β)) :
    (HistBuf.run ops).items = (HistSpec.run ops).log.take (HistSpec.run ops).keep ∧
    (HistBuf.run ops).window = (HistSpec.run ops).window ∧
    (HistSpec.run ops).keep ≤ (HistSpec.run ops).log.length ∧
    (HistSpec.run ops).keep ≤ (HistSpec.run ops).window := by
  obtain ⟨h, hi⟩ := HistSpec.abs_run ops
  rw [← h]
  exact ⟨rfl, rfl, hi.le_log, hi.le_win⟩

/-- … also with hand-over: in every two-object program (operations on either object, move constructions, move
    assignments, self-assignments) each object shows what its specification state shows; the moved-from object
    is the specification's moved-from state (nothing retained, window 0), the destination carries on with the
    source's log and counter. -/
theorem buffer_pair_refines_spec (ops : List (HistBuf.Op2 β)) (i : Bool) :
    ((HistBuf.run2 ops).get i).items = ((HistSpec.run2 ops).get i).log.take ((HistSpec.run2 ops).get i).keep ∧
    ((HistBuf.run2 ops).get i).window = ((HistSpec.run2 ops).get i).window ∧
    ((HistSpec.run2 ops).get i).keep ≤ ((HistSpec.run2 ops).get i).log.length ∧
    ((HistSpec.run2 ops).get i).keep ≤ ((HistSpec.run2 ops).get i).window := by
  obtain ⟨h, hi⟩ := HistSpec.absP_run2 ops
  rw [← h, HistSpec.absP_get]
  exact ⟨rfl, rfl, (hi i).le_log, (hi i).le_win⟩

/-- **The last `min(count, window)` estimates, newest first.**  After any operation sequence `pre`, a `clear`
    and `count = xs.length` additions, the buffer holds the last `min(count, window)` of them, newest first;
    likewise from construction (window 5). -/
theorem buffer_last_min_count_window (pre : List (HistBuf.Op β)) (xs : List β) :
    let h := HistBuf.run (pre ++ [.clear] ++ xs.map .add)
    h.window = (HistBuf.run pre).window ∧
    h.items = xs.reverse.take (min xs.length h.window) ∧
    (HistBuf.run (xs.map .add)).items = xs.reverse.take (min xs.length 5) := by
  intro h
  obtain ⟨hp, hpi⟩ := HistSpec.abs_run pre
  have hw : (HistSpec.run pre).window = (HistBuf.run pre).window := by rw [← hp]; rfl
  have e1 : HistSpec.run (pre ++ [.clear] ++ xs.map .add)
      = ⟨xs.reverse ++ [], min (0 + xs.length) (HistSpec.run pre).window, (HistSpec.run pre).window⟩ := by
    simp only [HistSpec.run, List.foldl_append, List.foldl_cons, List.foldl_nil]
    rw [HistSpec.foldl_adds _ (by simp [HistSpec.step])]
    simp [HistSpec.step]
  have e2 : HistSpec.run (xs.map .add) = ⟨xs.reverse ++ [], min (0 + xs.length) 5, 5⟩ := by
    simp only [HistSpec.run]
    rw [HistSpec.foldl_adds _ (by simp [HistSpec.init])]
    simp [HistSpec.init]
  obtain ⟨h1, _⟩ := HistSpec.abs_run (pre ++ [.clear] ++ xs.map .add)
  obtain ⟨h2, _⟩ := HistSpec.abs_run (xs.map (HistBuf.Op.add))
  refine ⟨?_, ?_, ?_⟩
  · show h.window = _
    simp only [h]
    rw [← h1, e1, ← hw]; rfl
  · simp only [h]
    rw [← h1, e1]
    simp [HistSpec.abs, HistSpec.view]
  · rw [← h2, e2]
    simp [HistSpec.abs, HistSpec.view]

/-- non-vacuity: window 3, five additions after a clear: the last three, newest first -/
example : (HistBuf.run ([.set 3, .add 9] ++ [.clear] ++ [1, 2, 3, 4, 5].map .add) : HistBuf Nat).items = [5, 4, 3] := by
  have h := (buffer_last_min_count_window [.set 3, .add 9] [1, 2, 3, 4, 5]).2.1
  have hw := (buffer_last_min_count_window [HistBuf.Op.set 3, .add 9] [1, 2, 3, 4, 5]).1
  rw [hw] at h
  rw [h]
  simp [HistBuf.run, HistBuf.step, HistBuf.setWindow, HistBuf.add, HistBuf.init, HistBuf.clampWindow, HistBuf.maxWindow]

/-- The reading "`min(calls, window)` estimates" needs the window to be unchanged since the last `clear`: window 2,
    three additions, window enlarged to 4, one more addition — four additions, window 4, but only three estimates
    are (and can be) shown, because the first one was dropped while the window was 2.  The general statement is
    `buffer_refines_spec` (the counter `keep`), the special case `buffer_last_min_count_window`. -/
theorem min_count_window_needs_fixed_window_counterexample :
    (HistBuf.run [.set 2, .add 1, .add 2, .add 3, .set 4, .add 4] : HistBuf Nat).items = [4, 3, 2] ∧
    (HistBuf.run [.set 2, .add 1, .add 2, .add 3, .set 4, .add 4] : HistBuf Nat).window = 4 ∧
    (HistBuf.run [.set 2, .add 1, .add 2, .add 3, .set 4, .add 4] : HistBuf Nat).items.length ≠ min 4 4 := by
  simp [HistBuf.run, HistBuf.step, HistBuf.setWindow, HistBuf.add, HistBuf.init, HistBuf.clampWindow,
    HistBuf.maxWindow]

/-- Enlarging the window never brings anything back and never drops anything: when the request is at least the
    number of stored elements the content is unchanged (the property a storage that wraps around must keep
    when its capacity grows). -/
theorem grow_keeps_content (ops : List (HistBuf.Op β)) (w : Nat)
    (hw : (HistBuf.run ops).items.length ≤ HistBuf.clampWindow w) :
    ((HistBuf.run ops).setWindow w).1.items = (HistBuf.run ops).items := by
  have hi := HistBuf.inv_run ops
  rw [HistBuf.setWindow_items _ _ hi.len, HistBuf.setWindow_window]
  apply List.take_of_length_le
  split
  · exact hi.len
  · exact hw

end refinement

/-- **The extraction object's history is a history buffer driven by its calls**: after every call sequence,
    `hist_buffer_` is what a free-standing buffer is after the translated operations `bufOps` (a windowed
    `extract` that produced an estimate ↦ `add` of its base estimate; a positive window request ↦ `set`;
    `clear` ↦ `clear`; everything else ↦ nothing) — hence it shows the `keep` most recent base estimates of the
    specification, newest first. -/
theorem ee_history_refines_spec (eps : ℝ) (lin circ : Nat) (cs : List (Call ℝ)) :
    let ops := bufOps eps (EE.init lin circ) cs
    (run eps lin circ cs).hist = HistBuf.run ops ∧
    (run eps lin circ cs).hist.items = (HistSpec.run ops).log.take (HistSpec.run ops).keep ∧
    (run eps lin circ cs).hist.window = (HistSpec.run ops).window := by
  intro ops
  have h : (run eps lin circ cs).hist = HistBuf.run ops := by
    simp only [run, ops]
    rw [runFrom_hist]
    rfl
  obtain ⟨h1, h2, _⟩ := buffer_refines_spec ops
  exact ⟨h, by rw [h, h1], by rw [h, h2]⟩

/-- … and with hand-over: in every two-object program (calls on the current object, move construction, move
    assignment, switching) the history buffer of each object is what the two-buffer machine gives for the translated
    operations `poolBufOps`, hence what the specification pair shows — the destination of a move carries on with
    the source's base estimates, the source retains nothing. -/
theorem ee_pool_history_refines_spec (eps : ℝ) (lin circ : Nat) (cs : List (PoolCall ℝ)) (i : Bool) :
    let ops := poolBufOps eps (Pool.init lin circ) cs
    ((poolRun eps lin circ cs).get i).hist = (HistBuf.run2 ops).get i ∧
    ((poolRun eps lin circ cs).get i).hist.items
      = ((HistSpec.run2 ops).get i).log.take ((HistSpec.run2 ops).get i).keep ∧
    ((poolRun eps lin circ cs).get i).hist.window = ((HistSpec.run2 ops).get i).window := by
  intro ops
  have h : ((poolRun eps lin circ cs).get i).hist = (HistBuf.run2 ops).get i := by
    rw [← hists_get]
    simp only [poolRun, ops]
    rw [poolRun_hists]
    rfl
  obtain ⟨h1, h2, _⟩ := buffer_pair_refines_spec ops i
  exact ⟨h, by rw [h, h1], by rw [h, h2]⟩

/-- what a call contributes to the buffer -/
theorem ee_buffer_ops (eps : ℝ) (s : EE ℝ) (n : Int) (a : Args ℝ) (m : Method) :
    bufOp eps s (.setWindow n) = (if n > 0 then some (.set n.toNat) else none) ∧
    bufOp eps s .clear = some .clear ∧ bufOp eps s (.setMethod m) = none ∧ bufOp eps s .move = none ∧
    bufOp eps s (.extract2 a) = (pushed eps s (.extract2 a)).map .add ∧
    bufOp eps s (.extract5 a) = (pushed eps s (.extract5 a)).map .add := ⟨rfl, rfl, rfl, rfl, rfl, rfl⟩

/-- **Convex hull (linear part).**  Each linear row of a windowed estimate lies between the smallest and the
    largest value of that row among the `k` most recent base estimates: for any bounds `lo ≤ · ≤ hi` of the
    window, `lo ≤ estimate ≤ hi`. -/
theorem windowed_linear_in_hull (eps : ℝ) (lin circ : Nat) (pre : List (Call ℝ)) (c : Call ℝ)
    (b : List ℝ) (hp : pushed eps (runLog eps lin circ pre).1 c = some b) (r : Nat) (hr : r < lin) (lo hi : ℝ) :
    let s := (runLog eps lin circ pre).1
    let H := (b :: (runLog eps lin circ pre).2).take (min (s.hist.items.length + 1) s.hist.window)
    (∀ h ∈ H, lo ≤ h.getD r 0 ∧ h.getD r 0 ≤ hi) →
    ∃ est v, (step eps s c).2 = ⟨true, some est⟩ ∧ est[r]? = some v ∧ lo ≤ v ∧ v ≤ hi := by
  intro s H hb
  obtain ⟨f, _, _, _, hH, ha, hc, _, hout, _⟩ := windowed_is_convex_combination eps lin circ pre c b hp
  have hlen : H.length = (famWeights f (min (s.hist.items.length + 1) s.hist.window) : List ℝ).length := by
    rw [famWeights_length]; exact hH
  obtain ⟨v, hv, h1, h2⟩ := meanEst_lin_in_hull lin circ H _ hlen hc r hr lo hi hb
  exact ⟨_, v, hout, hv, h1, h2⟩

/-- **Idempotence.**  When the `k` most recent base estimates agree in a row, the windowed estimate returns
    that value: exactly for a linear row, wrapped to `(−π, π]` for a circular row. -/
theorem windowed_constant_window (eps : ℝ) (lin circ : Nat) (pre : List (Call ℝ)) (c : Call ℝ)
    (b : List ℝ) (hp : pushed eps (runLog eps lin circ pre).1 c = some b) (x : ℝ) :
    let s := (runLog eps lin circ pre).1
    let H := (b :: (runLog eps lin circ pre).2).take (min (s.hist.items.length + 1) s.hist.window)
    ∃ est, (step eps s c).2 = ⟨true, some est⟩ ∧
      (∀ r, r < lin → (∀ h ∈ H, h.getD r 0 = x) → est[r]? = some x) ∧
      (∀ r, r < circ → (∀ h ∈ H, h.getD (lin + r) 0 = x) →
        est[lin + r]? = some (Complex.arg (Complex.exp (x * Complex.I)))) := by
  intro s H
  obtain ⟨f, _, _, _, hH, ha, hc, _, hout, _⟩ := windowed_is_convex_combination eps lin circ pre c b hp
  have hlen : H.length = (famWeights f (min (s.hist.items.length + 1) s.hist.window) : List ℝ).length := by
    rw [famWeights_length]; exact hH
  refine ⟨_, hout, ?_, ?_⟩
  · intro r hr hx
    obtain ⟨v, hv, h1, h2⟩ := meanEst_lin_in_hull lin circ H _ hlen hc r hr x x
      (fun h hh => ⟨(hx h hh).ge, (hx h hh).le⟩)
    rw [hv, le_antisymm h2 h1]
  · intro r hr hx
    exact meanEst_circ_const lin circ H _ hlen hc r hr x hx

end C17
end BFL
