import BFL.Proofs.BoundsCorr
/-
C14 — safety lemmas for the containers (GaussianMixture / ParticleSet), resampling, estimate extraction and GPF sampling.
-/
set_option linter.unusedSimpArgs false
namespace BFL.Bounds
open W

/-! ### containers -/

theorem gmResize_wf (g : GMStore) (K dl dc : Nat) (h : g.wf) : (gmResize g K dl dc).wf := by
  obtain ⟨w1, w2, w3, w4, w5⟩ := h
  unfold gmResize
  simp only []
  split
  · exact ⟨w1, w2, w3, w4, w5⟩
  · split
    · rename_i h1 h2
      obtain ⟨e1, e2, _⟩ := h2
      simp [GMStore.wf, w3, w4]
      rw [← e1, ← e2, w1, w2]
      simp
    · simp [GMStore.wf]

theorem storeOf_wf (K : Nat) (L : Layout) : (storeOf K L).wf := by
  simp [storeOf, GMStore.wf, Layout.meanS, Layout.covS]

/-- indexed accessors with indices in range -/
theorem gmAccess_safe (L : Layout) (K : Nat) (which : String) (i j k : Nat) (hi : i < K)
    (hm : which = "mean2" → j < L.dim) (hc : which = "cov3" → j < L.dcov ∧ k < L.dcov) :
    (gmAccess L K which i j k).Safe := by
  have b := mul_block_le L.dcov i K hi
  unfold gmAccess
  split
  · simp [gmMean, Layout.meanS, hi]
  · simp [Layout.meanS, hi, hm rfl]
  · simp [gmCov, Layout.covS]; exact b
  · obtain ⟨h1, h2⟩ := hc rfl
    simp [Layout.covS, h1]; omega
  · simp [hi]
  · simp

theorem psAccess_safe (L : Layout) (K : Nat) (which : String) (i j : Nat) (hi : i < K)
    (hm : which = "state2" → j < L.dim) : (psAccess L K which i j).Safe := by
  unfold psAccess
  split
  · simp [hi]
  · simp [hi, hm rfl]
  · simp

/-- `operator+=` on particle sets of the same layout -/
theorem psAdd_safe (K1 K2 dl dc : Nat) (q : Bool) : (psAdd (psCtor K1 dl dc q) (psCtor K2 dl dc q)).Safe := by
  simp [psAdd, psCtor, gmCtor]
  rw [Nat.mul_add]; omega

theorem psAdd_wf (K1 K2 dl dc : Nat) (q : Bool) :
    (psAdd (psCtor K1 dl dc q) (psCtor K2 dl dc q)).val = psCtor (K1 + K2) dl dc q := by
  simp [psAdd, psCtor, gmCtor]

/-! ### resampling -/

/-- the clamped scan never leaves the particle set, whatever the comparisons say -/
theorem cswScan_ok (N : Nat) (gt : Nat → Bool) (hN : 1 ≤ N) (fuel : Nat) : ∀ idx, idx ≤ N - 1 →
    (cswScan true N gt fuel idx).Safe ∧ (cswScan true N gt fuel idx).val ≤ N - 1 := by
  induction fuel with
  | zero => intro idx h; simp [cswScan]; exact h
  | succ f ih =>
    intro idx h
    simp only [cswScan, safe_bind, val_bind, coeff, safe_mk_cons, safe_mk_nil, Cond.holds, and_true]
    refine ⟨⟨by omega, ?_⟩, ?_⟩
    · split
      · rename_i hc
        have : idx < N - 1 := by simp at hc; exact hc.2
        exact (ih (idx + 1) (by omega)).1
      · simp
    · split
      · rename_i hc
        have : idx < N - 1 := by simp at hc; exact hc.2
        exact (ih (idx + 1) (by omega)).2
      · simpa using h

theorem resampleLoop_safe (I : Layout) (N : Nat) (gt : Nat → Nat → Bool) (hN : 1 ≤ N) (rem : Nat) :
    ∀ j idx, j + rem = N → idx ≤ N - 1 → (resampleLoop true I N I N N gt rem j idx).Safe := by
  induction rem with
  | zero => intro j idx _ _; simp [resampleLoop]
  | succ r ih =>
    intro j idx hj hidx
    obtain ⟨s1, s2⟩ := cswScan_ok N (gt j) hN (N + 1) idx hidx
    have b1 := mul_block_le I.dcov j N (by omega)
    have b2 := mul_block_le I.dcov (cswScan true N (gt j) (N + 1) idx).val N (by omega)
    simp only [resampleLoop, safe_bind, val_bind, s1, true_and]
    refine ⟨?_, ?_, ?_, ?_, ?_, ?_, ?_, ?_, ?_, ?_, ?_, ih (j + 1) _ (by omega) s2⟩ <;>
      simp [gmMean, gmCov, Layout.meanS, Layout.covS] <;> omega

/-- `Resampling::resample` into a set shaped like the input, with one parent slot per particle — for ANY weight
    vector (the comparisons `u_j > csw(idx)` are arbitrary): the clamp `idx_csw < N - 1` keeps every read inside. -/
theorem resample_safe (I : Layout) (N : Nat) (gt : Nat → Nat → Bool) (hN : 1 ≤ N) : (resample I N I N N gt).Safe := by
  unfold resample resampleGen
  simp only [safe_bind, safe_forRange, coeff, safe_mk_cons, safe_mk_nil, Cond.holds, and_true]
  refine ⟨by omega, by omega, ?_, resampleLoop_safe I N gt hN N 0 0 (by omega) (by omega)⟩
  intro i hi
  omega

theorem gridInit_safe (nx ny N rows : Nat) : (gridInit nx ny N rows).Safe := by
  unfold gridInit
  split
  · simp
  · split
    · simp
    · rename_i h1 h2
      simp only [Decidable.not_not] at h1 h2
      simp [h2]
      intro i hi j hj
      rw [h1]
      exact grid_index_lt nx ny i j hi hj

theorem prior_count_lt (N rnum rden : Nat) (hN : 1 ≤ N) (hr : rnum < rden) : N * rnum / rden < N := by
  apply Nat.div_lt_of_lt_mul
  rw [Nat.mul_comm rden N]
  exact Nat.mul_lt_mul_of_pos_left hr (by omega)

/-- `ResamplingWithPrior::resample`: at least one particle, prior ratio in [0, 1), any layout (quaternions included
    after fix afe0735), any initialisation grid (refusals are ignored), one parent slot per particle. -/
theorem resampleWithPrior_safe (I : Layout) (N rnum rden nx ny : Nat) (gt : Nat → Nat → Bool) (hN : 1 ≤ N) (hr : rnum < rden) :
    (resampleWithPrior I N rnum rden nx ny N gt).Safe := by
  have hp := prior_count_lt N rnum rden hN hr
  have hrs := resample_safe I (N - N * rnum / rden) gt (by omega)
  have hg := gridInit_safe nx ny (N * rnum / rden) I.dim
  have ha := psAdd_safe (N * rnum / rden) (N - N * rnum / rden) I.dl I.dc I.quat
  unfold resampleWithPrior
  generalize N * rnum / rden = p at *
  have hb1 : ∀ j, j < N → I.dcov * j + I.dcov ≤ I.dcov * N := fun j hj => mul_block_le _ _ _ hj
  have hb2 : ∀ t, t < N - p → I.dcov * t + I.dcov ≤ I.dcov * (N - p) := fun j hj => mul_block_le _ _ _ hj
  simp only [safe_bind, val_bind, hg, ha, true_and, and_true, safe_pure]
  simp only [tail, hrs, true_and]
  simp [gmMean, gmCov, Layout.meanS, Layout.covS]
  grind

/-! ### EstimatesExtraction -/

theorem eeMean_ok (ls cs : Nat) (P : Shape) (w : Nat) (h1 : ls ≤ P.r) (h2 : cs ≤ P.r) (hw : w = P.c) :
    (eeMean ls cs P w).Safe ∧ (eeMean ls cs P w).val = ls + cs := by
  unfold eeMean directionalMean
  subst hw
  constructor
  · simp
    grind
  · simp

theorem eeMode_ok (P : Shape) (w : Nat) (h1 : 1 ≤ w) (h2 : w ≤ P.c) :
    (eeMode P w).Safe ∧ (eeMode P w).val = P.r := by
  unfold eeMode
  simp; omega

theorem eeMap_ok (P : Shape) (N : Nat) (hN : 1 ≤ N) (hP : P.c = N) :
    (eeMap P N N ⟨N, N⟩).Safe ∧ (eeMap P N N ⟨N, N⟩).val = P.r := by
  subst hP
  unfold eeMap
  simp
  bounds_arith

/-- what the extraction methods preserve: the window holds vectors of `linear + circular` entries and is never empty-sized -/
def EEState.inv (s : EEState) : Prop := s.hist.uniform ∧ s.hist.bounded ∧ s.hist.stateSize = s.ls + s.cs

theorem eeStat_ok (s : EEState) (st : EStat) (full : Bool) (a : EEArgs) (hv : eeValid s.ls s.cs full a)
    (hst : st = .map → full = true) : (eeStat s st a).Safe ∧ (eeStat s st a).val = s.ls + s.cs := by
  obtain ⟨v1, v2, v3, v4⟩ := hv
  cases st with
  | mean => exact eeMean_ok s.ls s.cs a.P a.w (by omega) (by omega) v3
  | mode =>
    have := eeMode_ok a.P a.w (by omega) (by omega)
    simp only [eeStat]; rw [this.2, v1]; exact ⟨this.1, rfl⟩
  | map =>
    obtain ⟨f1, f2, f3⟩ := v4 (hst rfl)
    have := eeMap_ok a.P a.P.c v2 rfl
    simp only [eeStat]
    rw [f1, f2, f3, this.2, v1]
    exact ⟨this.1, rfl⟩

theorem histAdd_bounded (h : Hist) (k : Nat) (hb : h.bounded) :
    (histAdd h k).val.bounded ∧ 1 ≤ (histAdd h k).val.buf.length := by
  have hl := histAdd_len h k
  have hw : (histAdd h k).val.window = h.window := by unfold histAdd; split <;> simp
  obtain ⟨h1, h2, h3⟩ := hb
  simp only [Hist.bounded]
  rw [hl, hw]
  split <;> omega

theorem histGet_val (h : Hist) : (histGet h).val = ⟨h.stateSize, h.buf.length⟩ := by
  simp [histGet]

theorem eeWindowed_ok (s : EEState) (which : Nat) (st : EStat) (full : Bool) (a : EEArgs) (hi : s.inv)
    (hv : eeValid s.ls s.cs full a) (hst : st = .map → full = true) :
    (eeWindowed s which st a).Safe ∧ (eeWindowed s which st a).val.1.inv ∧
    (eeWindowed s which st a).val.1.ls = s.ls ∧ (eeWindowed s which st a).val.1.cs = s.cs ∧
    (eeWindowed s which st a).val.2 = s.ls + s.cs := by
  obtain ⟨i1, i2, i3⟩ := hi
  obtain ⟨e1, e2⟩ := eeStat_ok s st full a hv hst
  have ha := histAdd_ok s.hist (s.ls + s.cs) i1 i3.symm
  have hb := histAdd_bounded s.hist (s.ls + s.cs) i2
  have hg := histGet_ok _ ha.2.1
  have hgv := histGet_val (histAdd s.hist (s.ls + s.cs)).val
  have hm := eeMean_ok s.ls s.cs ⟨s.ls + s.cs, (histAdd s.hist (s.ls + s.cs)).val.buf.length⟩
    (histAdd s.hist (s.ls + s.cs)).val.buf.length (by simp) (by simp) rfl
  have hcache : ∀ n, (eeCache s (histAdd s.hist (s.ls + s.cs)).val which n).inv ∧
      (eeCache s (histAdd s.hist (s.ls + s.cs)).val which n).ls = s.ls ∧ (eeCache s (histAdd s.hist (s.ls + s.cs)).val which n).cs = s.cs := by
    intro n
    unfold eeCache
    split <;> simp [EEState.inv, ha.2.1, hb.1, ha.2.2.1, i3]
  have hss : (histAdd s.hist (s.ls + s.cs)).val.stateSize = s.ls + s.cs := by rw [ha.2.2.1, i3]
  rw [hss] at hgv
  unfold eeWindowed
  simp only [safe_bind, val_bind, e1, e2, ha.1, hg, hgv, true_and, safe_pure, val_pure, and_true, hm.1, hm.2]
  refine ⟨?_, (hcache _).1, (hcache _).2.1, (hcache _).2.2⟩
  split
  · simp; omega
  · simp

theorem eeExtract_ok (s : EEState) (m : EMethod) (full : Bool) (a : EEArgs) (hi : s.inv) (hv : eeValid s.ls s.cs full a) :
    (eeExtract s m full a).Safe ∧ (eeExtract s m full a).val.1.inv ∧
    (eeExtract s m full a).val.1.ls = s.ls ∧ (eeExtract s m full a).val.1.cs = s.cs := by
  have hstat : ∀ st, (st = EStat.map → full = true) →
      (do let n ← eeStat s st a; pure (s, true, n) : W (EEState × Bool × Nat)).Safe := by
    intro st hst
    simp [(eeStat_ok s st full a hv hst).1]
  have hwin : ∀ which st, (st = EStat.map → full = true) →
      (do let (s', n) ← eeWindowed s which st a; pure (s', true, n) : W (EEState × Bool × Nat)).Safe ∧
      (do let (s', n) ← eeWindowed s which st a; pure (s', true, n) : W (EEState × Bool × Nat)).val.1.inv ∧
      (do let (s', n) ← eeWindowed s which st a; pure (s', true, n) : W (EEState × Bool × Nat)).val.1.ls = s.ls ∧
      (do let (s', n) ← eeWindowed s which st a; pure (s', true, n) : W (EEState × Bool × Nat)).val.1.cs = s.cs := by
    intro which st hst
    have := eeWindowed_ok s which st full a hi hv hst
    simp [this.1, this.2.1, this.2.2.1, this.2.2.2.1]
  unfold eeExtract
  cases m <;> cases full <;> simp only [] <;>
    first
      | exact ⟨hstat _ (by simp), hi, rfl, rfl⟩
      | exact hwin _ _ (by simp)
      | exact ⟨by simp, hi, rfl, rfl⟩

theorem eeRun_safe (n : Nat) : ∀ (s : EEState) (m : EMethod) (full : Bool) (a : EEArgs), s.inv → eeValid s.ls s.cs full a →
    (eeRun s m full a n).Safe := by
  induction n with
  | zero => intro s m full a _ _; simp [eeRun]
  | succ n ih =>
    intro s m full a hi hv
    have h := eeExtract_ok s m full a hi hv
    simp only [eeRun, safe_bind, safe_pure, and_true]
    refine ⟨h.1, ih _ m full a h.2.1 ?_⟩
    rw [h.2.2.1, h.2.2.2]; exact hv

/-! ### GPFCorrection -/

theorem gpfSample_safe (n : Nat) : (gpfSample n n).Safe ∧ (gpfSample n n).val = n := by
  simp [gpfSample, ldltSqrt]

end BFL.Bounds
