import BFL.Core.Mat
import BFL.Core.Transc
/-
Model of the quaternion utilities of
  src/BayesFilters/include/BayesFilters/utils.h

  quaternion_to_rotation_vector   (logarithm: sign handling, cut-off 5e-5 on ‖vec‖)      `quatLog`
  rotation_vector_to_quaternion   (exponential: cut-off 1e-4 on ‖r‖)                       `quatExp`
  sum_quaternion_rotation_vector  (exp(r) ⊗ q, left/global-frame convention)               `quatSum`
  diff_quaternion                 (log(q_i ⊗ q*), includes the factor 2)                   `quatDiff`
  mean_quaternion                 (eigenvector of the largest eigenvalue of Σ w_i q_i q_iᵀ) `outerMean`, `quatMean`

Conventions of the code: a quaternion is `(w, x, y, z)` with `w` the real part; the exponential of a
rotation vector `r` is `(cos(‖r‖/2), sin(‖r‖/2) r/‖r‖)` (the halving is inside the conversion), the
logarithm of a unit quaternion is `2 acos(±w) v/‖v‖`.

Polymorphic in the scalar: `Float` in the driver, `ℝ` in the theorems.  The eigen-solver
(`Eigen::EigenSolver`) is a parameter `eig` of `quatMean` with a recorded contract (Props/C18.lean:
`IsDominantEigvec`), checked numerically on every observed call by the correspondence check.
-/
namespace BFL.Quat

/-- a quaternion, real part first (the code's column layout `(a, b, c, d)`) -/
structure Q (α : Type) where
  w : α
  x : α
  y : α
  z : α

/-- a rotation vector (tangent space at the identity) -/
structure V3 (α : Type) where
  x : α
  y : α
  z : α

section
variable {α : Type} [Add α] [Sub α] [Mul α] [Div α] [Neg α] [Zero α] [One α] [OfNat α 2]
  [OfScientific α] [LT α] [DecidableLT α] [Transc α]

/-- Eigen's `.norm()` of a 3-vector: `sqrt(x² + y² + z²)` -/
def V3.norm (r : V3 α) : α := Transc.sqrt (r.x * r.x + r.y * r.y + r.z * r.z)

def Q.vec (q : Q α) : V3 α := ⟨q.x, q.y, q.z⟩

/-- the small-angle cut-off on `‖r‖` written in `rotation_vector_to_quaternion` -/
def cutoff : α := 1e-4

/-- the cut-off on `‖vec‖` (the sine of half the angle) written in `quaternion_to_rotation_vector`
    (since the repair de34974: `5e-5`, matching the `1e-4` rad of the exponential) -/
def cutoffLog : α := 5e-5

/-- `rotation_vector_to_quaternion`, one column. -/
def quatExp (r : V3 α) : Q α :=
  let n := r.norm
  if n > cutoff then
    let s := Transc.sin (n / 2)
    ⟨Transc.cos (n / 2), s * r.x / n, s * r.y / n, s * r.z / n⟩
  else
    ⟨1, 0, 0, 0⟩

/-- `quaternion_to_rotation_vector`, one column. -/
def quatLog (q : Q α) : V3 α :=
  let nn := q.vec.norm
  if nn > cutoffLog then
    if q.w < 0 then
      let c := -(2 : α) * Transc.acos (-q.w)
      ⟨c * q.x / nn, c * q.y / nn, c * q.z / nn⟩
    else
      let c := (2 : α) * Transc.acos q.w
      ⟨c * q.x / nn, c * q.y / nn, c * q.z / nn⟩
  else
    ⟨0, 0, 0⟩

/-- which branch of the logarithm a quaternion takes (coverage histogram) -/
def quatLogBranch (q : Q α) : String :=
  if q.vec.norm > cutoffLog then (if q.w < 0 then "log:w<0" else "log:w>=0") else "log:cut-off"

def quatExpBranch (r : V3 α) : String :=
  if r.norm > cutoff then "exp:regular" else "exp:cut-off"

/-- Hamilton product (`Eigen::Quaternion::operator*`) -/
def Q.mul (a b : Q α) : Q α :=
  ⟨a.w * b.w - a.x * b.x - a.y * b.y - a.z * b.z,
   a.w * b.x + a.x * b.w + a.y * b.z - a.z * b.y,
   a.w * b.y + a.y * b.w + a.z * b.x - a.x * b.z,
   a.w * b.z + a.z * b.w + a.x * b.y - a.y * b.x⟩

/-- `Eigen::Quaternion::conjugate` -/
def Q.conj (q : Q α) : Q α := ⟨q.w, -q.x, -q.y, -q.z⟩

def Q.neg (q : Q α) : Q α := ⟨-q.w, -q.x, -q.y, -q.z⟩

def V3.neg (r : V3 α) : V3 α := ⟨-r.x, -r.y, -r.z⟩

/-- `sum_quaternion_rotation_vector`, one column: `exp(r) ⊗ q` — increment on the left. -/
def quatSum (q : Q α) (r : V3 α) : Q α := (quatExp r).mul q

/-- `diff_quaternion`, one column: `log(q_left ⊗ q_right*)` (the logarithm carries the factor 2). -/
def quatDiff (ql qr : Q α) : V3 α := quatLog (ql.mul qr.conj)

/-! ### histories: an attitude state driven by a list of increments (the filters call
`sum_quaternion_rotation_vector` once per step on the result of the step before) -/

/-- the state after the increments `rs` (first element first): `q ↦ exp(r) ⊗ q` repeatedly -/
def sumChain (q : Q α) : List (V3 α) → Q α
  | [] => q
  | r :: rs => sumChain (quatSum q r) rs

/-- every intermediate state of the same history -/
def sumTrace (q : Q α) : List (V3 α) → List (Q α)
  | [] => []
  | r :: rs => quatSum q r :: sumTrace (quatSum q r) rs

/-! ### batches (matrices whose columns are quaternions / rotation vectors) -/

def Q.ofCol {n : Nat} (m : Mat α 4 n) (j : Fin n) : Q α := ⟨m 0 j, m 1 j, m 2 j, m 3 j⟩
def V3.ofCol {n : Nat} (m : Mat α 3 n) (j : Fin n) : V3 α := ⟨m 0 j, m 1 j, m 2 j⟩

def Q.get (q : Q α) (i : Fin 4) : α :=
  match i with
  | 0 => q.w
  | 1 => q.x
  | 2 => q.y
  | 3 => q.z

def V3.get (r : V3 α) (i : Fin 3) : α :=
  match i with
  | 0 => r.x
  | 1 => r.y
  | 2 => r.z

def qCols {n : Nat} (f : Fin n → Q α) : Mat α 4 n := Mat.of (fun i j => (f j).get i)
def vCols {n : Nat} (f : Fin n → V3 α) : Mat α 3 n := Mat.of (fun i j => (f j).get i)

/-- `quaternion_to_rotation_vector` on a `4 × n` matrix -/
def logBatch {n : Nat} (q : Mat α 4 n) : Mat α 3 n := vCols (fun j => quatLog (Q.ofCol q j))

/-- `rotation_vector_to_quaternion` on a `3 × n` matrix -/
def expBatch {n : Nat} (r : Mat α 3 n) : Mat α 4 n := qCols (fun j => quatExp (V3.ofCol r j))

/-- `sum_quaternion_rotation_vector(quaternion, rotation_vector)`: only column 0 of `quaternion` is read -/
def sumBatch {m n : Nat} (q : Mat α 4 (m + 1)) (r : Mat α 3 n) : Mat α 4 n :=
  qCols (fun j => quatSum (Q.ofCol q 0) (V3.ofCol r j))

/-- `diff_quaternion(quaternion_left, quaternion_right)`: only column 0 of `quaternion_right` is read -/
def diffBatch {m n : Nat} (ql : Mat α 4 n) (qr : Mat α 4 (m + 1)) : Mat α 3 n :=
  vCols (fun j => quatDiff (Q.ofCol ql j) (Q.ofCol qr 0))

/-- `Σ_i w_i q_i q_iᵀ` (the loop runs over the rows of `weight`) -/
def outerMean {n : Nat} (w : Vec α n) (q : Mat α 4 n) : Mat α 4 4 :=
  Mat.of (fun a b => fsum n (fun i => w i * q a i * q b i))

/-- `mean_quaternion`: the eigen-solver is a parameter (contract: a unit eigenvector of the largest
    eigenvalue). -/
def quatMean {n : Nat} (eig : Mat α 4 4 → Q α) (w : Vec α n) (q : Mat α 4 n) : Q α :=
  eig (outerMean w q)

end
end BFL.Quat
