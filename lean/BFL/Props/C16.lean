import BFL.Model.Models
import BFL.Bridge.Mat
import BFL.Bridge.Transc
import BFL.Proofs.ModelsWna
import BFL.Proofs.ModelsSim
import BFL.Proofs.ModelsGrid
/-
C16 — Shipped models and initialisers match their documented closed form.

Theorems about the executable model `BFL/Model/Models.lean` (the code as it is now, branch by
branch), over ℝ, for every `Dim`, every T, q (> 0 where the clause needs it), every square-root
factor S satisfying the contract `S Sᵀ = Q`, every stream of draws, every batch, every shape,
every index list, every trajectory length and call sequence, every grid size ≥ 2 per axis.

Trusted contracts (checked numerically on every observed call by checks/c16.py):
  * Eigen's LDLᵀ yields some S with S Sᵀ = Q;
  * std::mt19937_64 + std::normal_distribution yield i.i.d. standard normal draws that are a
    function of the seed — the distributional clause "covariance of the samples is Q" is reduced
    here to the algebraic identity `wna_sample_cov`.
-/
namespace BFL.Models
open Matrix

/-! ## White-noise acceleration: F and Q -/

/-- The state description reports the size of F and Q. -/
theorem wna_state_dim (dim : Dim) :
    dim.stateDim = dim.n * 2 ∧ (wnaStateDescr dim).lin = dim.n * 2 ∧
    (additiveInputDescr (wnaStateDescr dim) (dim.n * 2)) = { lin := dim.n * 2, circ := 0, noise := dim.n * 2 } := by
  cases dim <;> simp [Dim.stateDim, Dim.n, wnaStateDescr, additiveInputDescr]

/-- `F = blockdiag([1 T; 0 1])`: the tables of the `switch` are the block-diagonal matrix
    (Mathlib's `blockDiagonal`, rows ordered axis by axis) and, entry by entry,
    ones on the diagonal, `T` right of the diagonal in every even row, zero elsewhere. -/
theorem wna_F_blockdiag (dim : Dim) (T : ℝ) :
    toM (wnaF dim T) = Matrix.reindex (blkEquiv dim.n) (blkEquiv dim.n)
        (Matrix.blockDiagonal fun _ : Fin dim.n => !![1, T; 0, 1]) ∧
    ∀ i j : Fin (dim.n * 2), (wnaF dim T) i j =
      if i = j then 1 else if i.val % 2 = 0 ∧ j.val = i.val + 1 then T else 0 :=
  ⟨toM_wnaF dim T, wnaF_entry dim T⟩

/-- `Q = q · blockdiag([T³/3 T²/2; T²/2 T])`, as a matrix and entry by entry. -/
theorem wna_Q_blockdiag (dim : Dim) (T q : ℝ) :
    toM (wnaQ dim T q) = q • Matrix.reindex (blkEquiv dim.n) (blkEquiv dim.n)
        (Matrix.blockDiagonal fun _ : Fin dim.n => !![T ^ 3 / 3, T ^ 2 / 2; T ^ 2 / 2, T]) ∧
    ∀ i j : Fin (dim.n * 2), (wnaQ dim T q) i j =
      q * (if i = j then (if i.val % 2 = 0 then T ^ 3 / 3 else T)
           else if i.val / 2 = j.val / 2 then T ^ 2 / 2 else 0) :=
  ⟨toM_wnaQ dim T q, wnaQ_entry dim T q⟩

/-- The reindexing really is "axis `k` occupies rows `2k, 2k+1`". -/
theorem wna_block_layout (d : Nat) (a : Fin 2) (k : Fin d) :
    ((blkEquiv d) (a, k)).val = a.val + 2 * k.val := blkEquiv_apply_val d a k

/-- Q is a covariance: symmetric positive definite, hence invertible with positive determinant
    (the definedness facts the transition density needs). -/
theorem wna_Q_posDef (dim : Dim) {T q : ℝ} (hT : 0 < T) (hq : 0 < q) :
    (toM (wnaQ dim T q)).PosDef ∧ (toM (wnaQ dim T q))ᵀ = toM (wnaQ dim T q) ∧
    0 < (toM (wnaQ dim T q)).det ∧ IsUnit (toM (wnaQ dim T q)) := by
  have h := wnaQ_posDef dim hT hq
  refine ⟨h, ?_, h.det_pos, h.isUnit⟩
  simpa using h.1.eq

/-- The 2×2 block has positive leading minors. -/
theorem wna_Q_block_minors {T : ℝ} (hT : 0 < T) :
    0 < T ^ 3 / 3 ∧ (!![T ^ 3 / 3, T ^ 2 / 2; T ^ 2 / 2, T] : Matrix (Fin 2) (Fin 2) ℝ).det = T ^ 4 / 12 ∧
    0 < T ^ 4 / 12 := by
  refine ⟨by positivity, Q2_det T, by positivity⟩

/-! ## Noise samples -/

/-- Samples have the state dimension for every `Dim` and every count (the draws matrix has
    `Q.rows()` rows, so the product with `sqrt_Q` is defined), and one call consumes
    `stateDim · num` draws. -/
theorem wna_sample_dim (dim : Dim) (num : Nat) :
    wnaSampleShape dim num = some (dim.stateDim, num) ∧
    wnaDrawCount dim num = dim.stateDim * num := by
  cases dim <;> simp [wnaSampleShape, wnaDrawShape, wnaDrawCount, mulShape, Dim.stateDim, Dim.n]

/-- The identity behind "the covariance of the samples is Q": for a batch `z` of draws
    `(S z)(S z)ᵀ = S (z zᵀ) Sᵀ`; any weighted empirical second moment of the samples is
    `S · (that of the draws) · Sᵀ`; and with the draws' second moment equal to the identity this is
    `S Sᵀ = Q` (contract of the square-root factor). -/
theorem wna_sample_cov {n N : Nat} (S Q : Mat ℝ n n) (z : Mat ℝ n N)
    (hS : toM S * (toM S)ᵀ = toM Q) :
    toM (wnaSample S z) = toM S * toM z ∧
    toM (wnaSample S z) * (toM (wnaSample S z))ᵀ = toM S * (toM z * (toM z)ᵀ) * (toM S)ᵀ ∧
    (∀ {ι : Type} (s : Finset ι) (w : ι → ℝ) (zs : ι → Mat ℝ n 1),
        ∑ k ∈ s, w k • (toM (zs k) * (toM (zs k))ᵀ) = 1 →
        ∑ k ∈ s, w k • (toM (wnaSample S (zs k)) * (toM (wnaSample S (zs k)))ᵀ) = toM Q) := by
  refine ⟨by simp [wnaSample], sample_outer S z, ?_⟩
  intro ι s w zs hE
  rw [sample_second_moment, hE, Matrix.mul_one, hS]

/-- The contract `S Sᵀ = Q` follows for the expression the code uses, `S = Pᵀ L √(max(D, 0))`, from
    the contract of the decomposition it calls (`Q = Pᵀ L D Lᵀ P` with `D ≥ 0`, Eigen's `LDLT` on a
    positive semi-definite matrix — zero pivots, i.e. a singular covariance, included).  Whatever the
    pivots, also rounding-negative ones, `S Sᵀ = Pᵀ L max(D, 0) Lᵀ P`: the square root is always real. -/
theorem wna_sqrt_contract {n : Nat} (P L Q : Mat ℝ n n) (d : Vec ℝ n) :
    toM (ldltSqrt P L d) = (toM P)ᵀ * toM L * Matrix.diagonal (fun i => Real.sqrt (max (d i) 0)) ∧
    toM (ldltSqrt P L d) * (toM (ldltSqrt P L d))ᵀ
      = (toM P)ᵀ * toM L * Matrix.diagonal (fun i => max (d i) 0) * (toM L)ᵀ * toM P ∧
    ((∀ i, 0 ≤ d i) →
      (toM P)ᵀ * toM L * Matrix.diagonal (fun i => d i) * (toM L)ᵀ * toM P = toM Q →
      toM (ldltSqrt P L d) * (toM (ldltSqrt P L d))ᵀ = toM Q) :=
  ⟨toM_ldltSqrt P L d, ldltSqrt_clamped P L d, fun hd hQ => ldltSqrt_contract P L Q d hd hQ⟩

/-- Reproducibility: a sample is a function of the factor and of the window of the stream the call
    reads; consecutive calls read consecutive windows (column-major fill). -/
theorem wna_sample_reproducible {n : Nat} (S : Mat ℝ n n) (r r' : Rng ℝ) (N : Nat)
    (hpos : r.pos = r'.pos) (hwin : ∀ k, r.pos ≤ k → k < r.pos + n * N → r.stream k = r'.stream k) :
    (noiseSample S r N).1 = (noiseSample S r' N).1 ∧
    (noiseSample S r N).2.pos = r.pos + n * N ∧
    (noiseSample S r N).2.stream = r.stream ∧
    ∀ (i : Fin n) (j : Fin N), (r.draw n N).1 i j = r.stream (r.pos + j.val * n + i.val) := by
  refine ⟨?_, rfl, rfl, ?_⟩
  · simp only [noiseSample, Rng.draw]
    congr 1
    ext i j
    simp only [fillCM, Mat.eval_eq, Mat.of_apply, ← hpos]
    apply hwin
    · omega
    · have hi := i.isLt
      have hj := j.isLt
      calc r.pos + j.val * n + i.val < r.pos + j.val * n + n := by omega
        _ = r.pos + (j.val + 1) * n := by rw [Nat.succ_mul]; omega
        _ ≤ r.pos + N * n := by
            have h1 : (j.val + 1) * n ≤ N * n := Nat.mul_le_mul_right n hj
            omega
        _ = r.pos + n * N := by rw [Nat.mul_comm]
  · intro i j
    simp [Rng.draw, fillCM]

/-! ## Motion -/

/-- `motion` moves every state by `F x` plus a noise sample: with nothing skipped and no exogenous
    model `addMotion` is `F x + S z` for the freshly drawn `z`, column by column. -/
theorem wna_motion {n N : Nat} (F S : Mat ℝ n n) (x out : Mat ℝ n N) (r : Rng ℝ) :
    (addMotion F S false none x out r).1 = wnaMotion F S x (r.draw n N).1 ∧
    toM (wnaMotion F S x (r.draw n N).1) = toM F * toM x + toM S * toM (r.draw n N).1 ∧
    (∀ (z : Mat ℝ n N) (j : Fin N),
        (fun i => (wnaMotion F S x z) i j) = toM F *ᵥ (fun i => x i j) + toM S *ᵥ (fun i => z i j)) ∧
    (addMotion F S false none x out r).2.pos = r.pos + n * N := by
  refine ⟨rfl, by simp [wnaMotion, wnaSample], ?_, rfl⟩
  intro z j
  funext i
  simp only [wnaMotion, wnaSample, Mat.add_apply, Mat.mul_apply, Pi.add_apply, Matrix.mulVec,
    dotProduct, toM_apply, fsum_eq_sum]

/-- The five branches of `LinearStateModel::propagate`. -/
theorem lin_propagate_branches {n N : Nat} (F : Mat ℝ n n) (e : Exo ℝ n N) (cur out : Mat ℝ n N) :
    linPropagate F false none cur out = F.mul cur ∧
    linPropagate F true none cur out = out ∧
    linPropagate F false (some { e with skipping := false }) cur out = (F.mul cur).add (e.f cur) ∧
    linPropagate F false (some { e with skipping := true }) cur out = F.mul cur ∧
    linPropagate F true (some { e with skipping := false }) cur out = e.f cur ∧
    linPropagate F true (some { e with skipping := true }) cur out = cur := by
  simp [linPropagate]

/-! ## Transition density -/

/-- `getTransitionProbability(prev, cur)` is, for every column pair `i`, the Gaussian density
    `N(cur_i; F prev_i, Q)` — for the model's F and Q with T, q > 0, for any inverse/determinant
    routine that returns the inverse/determinant of Q.  `det Q > 0` and invertibility are part of
    the statement (no `log 0`, no junk inverse). -/
theorem wna_transition_is_density (dim : Dim) {T q : ℝ} (hT : 0 < T) (hq : 0 < q) {N : Nat}
    (inv : Mat ℝ (dim.n * 2) (dim.n * 2) → Mat ℝ (dim.n * 2) (dim.n * 2))
    (det : Mat ℝ (dim.n * 2) (dim.n * 2) → ℝ)
    (hinv : toM (inv (wnaQ dim T q)) = (toM (wnaQ dim T q))⁻¹)
    (hdet : det (wnaQ dim T q) = (toM (wnaQ dim T q)).det)
    (prev cur : Mat ℝ (dim.n * 2) N) (i : Fin N) :
    0 < (toM (wnaQ dim T q)).det ∧ IsUnit (toM (wnaQ dim T q)) ∧
    (wnaTransition inv det (wnaF dim T) (wnaQ dim T q) prev cur) i
      = mvnPdf (toM (wnaF dim T) *ᵥ (fun r => prev r i)) (toM (wnaQ dim T q)) (fun r => cur r i) := by
  have hpd := wnaQ_posDef dim hT hq
  refine ⟨hpd.det_pos, hpd.isUnit, ?_⟩
  rw [wnaTransition, gaussDensity_eq_mvnPdf inv det _ _ _ hinv hdet hpd.det_pos]
  unfold mvnPdf
  have hres : toV ((cur.sub ((wnaF dim T).mul prev)).col i) - toV (Vec.zero : Vec ℝ (dim.n * 2))
      = (fun r => cur r i) - toM (wnaF dim T) *ᵥ (fun r => prev r i) := by
    funext r
    simp only [Pi.sub_apply, toV_apply, Mat.col, Vec.of_apply, Mat.sub_apply, Vec.zero_apply, sub_zero,
      Mat.mul_apply, Matrix.mulVec, dotProduct, toM_apply, fsum_eq_sum]
  rw [hres]

/-- The same for any F and any covariance with positive determinant (the code path does not depend
    on the closed form). -/
theorem transition_is_density_general {n N : Nat} (inv : Mat ℝ n n → Mat ℝ n n) (det : Mat ℝ n n → ℝ)
    (F Q : Mat ℝ n n) (hinv : toM (inv Q) = (toM Q)⁻¹) (hdet : det Q = (toM Q).det)
    (hpos : 0 < (toM Q).det) (prev cur : Mat ℝ n N) (i : Fin N) :
    (wnaTransition inv det F Q prev cur) i
      = mvnPdf (toM F *ᵥ (fun r => prev r i)) (toM Q) (fun r => cur r i) := by
  rw [wnaTransition, gaussDensity_eq_mvnPdf inv det _ _ _ hinv hdet hpos]
  unfold mvnPdf
  have hres : toV ((cur.sub (F.mul prev)).col i) - toV (Vec.zero : Vec ℝ n)
      = (fun r => cur r i) - toM F *ᵥ (fun r => prev r i) := by
    funext r
    simp only [Pi.sub_apply, toV_apply, Mat.col, Vec.of_apply, Mat.sub_apply, Vec.zero_apply, sub_zero,
      Mat.mul_apply, Matrix.mulVec, dotProduct, toM_apply, fsum_eq_sum]
  rw [hres]

/-- `mvnPdf` is the usual normal density: in one dimension it is
    `(√(2π v))⁻¹ exp(-(x-μ)²/(2v))`. -/
theorem mvnPdf_one_dim (mu v x : ℝ) (hv : 0 < v) :
    mvnPdf (fun _ : Fin 1 => mu) (Matrix.of fun _ _ => v) (fun _ => x)
      = (Real.sqrt (2 * Real.pi * v))⁻¹ * Real.exp (-(x - mu) ^ 2 / (2 * v)) := by
  unfold mvnPdf
  have hdet : (Matrix.of fun (_ _ : Fin 1) => v).det = v := by simp
  have hinv : (Matrix.of fun (_ _ : Fin 1) => v)⁻¹ = Matrix.of fun (_ _ : Fin 1) => v⁻¹ := by
    apply Matrix.inv_eq_right_inv
    ext i j
    have : i = j := Subsingleton.elim _ _
    subst this
    simp [Matrix.mul_apply, hv.ne']
  rw [hdet, hinv]
  simp only [pow_one, dotProduct, Matrix.mulVec, Finset.univ_unique, Fin.default_eq_zero,
    Finset.sum_singleton, Pi.sub_apply, Matrix.of_apply]
  congr 2
  field_simp

/-! ## Constructors -/

/-- `LTIStateModel(F, Q)` is constructed ⇔ F is non-empty and square and Q is square of the same
    size (empty, non-square and mismatched shapes are all rejected).
    `LTIMeasurementModel(H, R)` is constructed ⇔ H is non-empty, R is square and has as many rows as
    H; nothing constrains the number of columns of H. -/
theorem lti_ctor_iff (fr fc qr qc hr hc rr rc : Nat) :
    (ltiStateCtor fr fc qr qc = true ↔ (0 < fr ∧ fr = fc ∧ qr = qc ∧ fr = qr)) ∧
    (ltiMeasCtor hr hc rr rc = true ↔ (0 < hr ∧ 0 < hc ∧ rr = rc ∧ hr = rr)) :=
  ⟨ltiStateCtor_iff fr fc qr qc, ltiMeasCtor_iff hr hc rr rc⟩

/-- Which shape class each check of the two chains rejects, in the order the code runs them. -/
theorem lti_ctor_check_order (fr fc qr qc : Nat) :
    (ltiStateCheck fr fc qr qc = some 1 ↔ (fr = 0 ∨ fc = 0)) ∧
    (ltiStateCheck fr fc qr qc = some 2 ↔ (0 < fr ∧ 0 < fc ∧ (qr = 0 ∨ qc = 0))) ∧
    (ltiStateCheck fr fc qr qc = some 3 ↔ (0 < fr ∧ 0 < fc ∧ 0 < qr ∧ 0 < qc ∧ fr ≠ fc)) ∧
    (ltiStateCheck fr fc qr qc = some 4 ↔ (0 < fr ∧ fr = fc ∧ 0 < qr ∧ 0 < qc ∧ qr ≠ qc)) ∧
    (ltiStateCheck fr fc qr qc = some 5 ↔ (0 < fr ∧ fr = fc ∧ 0 < qr ∧ qr = qc ∧ fr ≠ qr)) ∧
    (ltiMeasCheck fr fc qr qc = some 1 ↔ (fr = 0 ∨ fc = 0)) ∧
    (ltiMeasCheck fr fc qr qc = some 2 ↔ (0 < fr ∧ 0 < fc ∧ (qr = 0 ∨ qc = 0))) ∧
    (ltiMeasCheck fr fc qr qc = some 3 ↔ (0 < fr ∧ 0 < fc ∧ 0 < qr ∧ 0 < qc ∧ qr ≠ qc)) ∧
    (ltiMeasCheck fr fc qr qc = some 4 ↔ (0 < fr ∧ 0 < fc ∧ 0 < qr ∧ qr = qc ∧ fr ≠ qr)) := by
  obtain ⟨a1, a2, a3, a4, a5⟩ := ltiStateCheck_cases fr fc qr qc
  obtain ⟨b1, b2, b3, b4⟩ := ltiMeasCheck_cases fr fc qr qc
  exact ⟨a1, a2, a3, a4, a5, b1, b2, b3, b4⟩

/-- The component-selecting sensor: constructed ⇔ at least one component, non-empty state, R
    square with one row per measured component and every index `< n`; rejected by the index loop
    ⇔ the shapes pass and some index is `≥ n`.  When constructed, H has entries 0/1, the single 1
    of row `i` sits in column `idx[i]`, and `H x` picks the components: `(H x)_i = x_{idx[i]}`. -/
theorem linear_H_selects (n : Nat) (idx : List Nat) (rr rc : Nat) :
    (linearModelCtor n idx rr rc = true ↔
      (idx ≠ [] ∧ 0 < n ∧ rr = rc ∧ idx.length = rr ∧ ∀ c ∈ idx, c < n)) ∧
    (linearModelCheck n idx rr rc = some 5 ↔
      (ltiMeasCtor idx.length n rr rc = true ∧ ∃ c ∈ idx, n ≤ c)) ∧
    (∀ (i : Fin idx.length) (j : Fin n),
      ((linearModelH (α := ℝ) n idx) i j = 0 ∨ (linearModelH (α := ℝ) n idx) i j = 1) ∧
      ((linearModelH (α := ℝ) n idx) i j = 1 ↔ idx[i.val] = j.val)) ∧
    (∀ (x : Fin n → ℝ) (i : Fin idx.length) (h : idx[i.val] < n),
      (toM (linearModelH (α := ℝ) n idx) *ᵥ x) i = x ⟨idx[i.val], h⟩) :=
  ⟨linearModelCtor_iff n idx rr rc, linearModelCheck_index n idx rr rc,
   fun i j => ⟨linearModelH_entry idx i j, linearModelH_one_iff idx i j⟩,
   fun x i h => linearModelH_mulVec idx x i h⟩

/-! ## Simulated trajectory -/

section sim
variable {σ : Type}

/-- The stored trajectory has `L` states, starts at `x0` and obeys `x_{k+1} = motion_k(x_k)`
    (`motion_k` = the k-th call of the state model's `motion`). -/
theorem sim_recurrence (step : Nat → σ → σ) (x0 : σ) (L : Nat) :
    (simCtor step x0 L).target.length = L ∧
    (0 < L → (simCtor step x0 L).target[0]? = some x0) ∧
    (∀ k, k + 1 < L →
      ∃ xk, (simCtor step x0 L).target[k]? = some xk ∧
            (simCtor step x0 L).target[k + 1]? = some (step k xk)) := by
  refine ⟨simCtor_target_length step x0 L, ?_, ?_⟩
  · intro h
    rw [simCtor_target_get step x0 L 0 h]; rfl
  · intro k hk
    refine ⟨simTraj step x0 k, simCtor_target_get step x0 L k (by omega), ?_⟩
    rw [simCtor_target_get step x0 L (k + 1) hk]; rfl

/-- With the shipped additive linear model as the state model, the recurrence reads
    `x_{k+1} = F x_k + S z_k`, `z_k` being draws `k n … k n + n − 1` of the model's generator. -/
theorem sim_wna_recurrence {n : Nat} (F S : Mat ℝ n n) (stream : Nat → ℝ) (x0 : Vec ℝ n) (L : Nat) :
    ∀ k, k + 1 < L →
      ∃ xk xk1, (simCtor (addSimStep F S stream) x0 L).target[k]? = some xk ∧
        (simCtor (addSimStep F S stream) x0 L).target[k + 1]? = some xk1 ∧
        toV xk1 = toM F *ᵥ toV xk + toM S *ᵥ (fun i : Fin n => stream (k * n + i.val)) := by
  intro k hk
  obtain ⟨_, _, h⟩ := sim_recurrence (addSimStep F S stream) x0 L
  obtain ⟨xk, h1, h2⟩ := h k hk
  exact ⟨xk, _, h1, h2, addSimStep_eq F S stream k xk⟩

/-- Served in order: after any sequence of calls, the cursor is `min L c` where `c` counts the
    `bufferData` calls since the last reset; if `c < L` the next `bufferData` succeeds and `getData`
    then returns state number `c` of the trajectory. -/
theorem sim_served_in_order (step : Nat → σ → σ) (x0 : σ) (L : Nat) (ops : List SimOp) :
    ((simCtor step x0 L).run ops).1.cursor = min L (bufCount ops) ∧
    ((simCtor step x0 L).run ops).1.target = (simCtor step x0 L).target ∧
    (bufCount ops < L →
      ∃ s', ((simCtor step x0 L).run ops).1.step .buffer = (s', .flag true) ∧
            s'.cursor = bufCount ops + 1 ∧
            s'.data = some (simTraj step x0 (bufCount ops)) ∧
            s'.step .get = (s', .data (some (simTraj step x0 (bufCount ops))))) := by
  have hc := simCtor_run_cursor step x0 L ops
  have ht := run_target (simCtor step x0 L) ops
  refine ⟨hc, ht, ?_⟩
  intro hlt
  set s := ((simCtor step x0 L).run ops).1 with hs
  have hcur : s.cursor = bufCount ops := by rw [hc]; omega
  have hlen : s.target.length = L := by rw [ht, simCtor_target_length]
  have hlt' : s.cursor < s.target.length := by omega
  refine ⟨_, step_buffer_lt s hlt', ?_, ?_, ?_⟩
  · simp [hcur]
  · have h1 : s.target[s.cursor]? = some (simTraj step x0 (bufCount ops)) := by
      rw [ht, hcur]; exact simCtor_target_get step x0 L _ hlt
    have h2 := List.getElem?_eq_getElem hlt'
    rw [h2] at h1
    simpa using h1
  · have h1 : s.target[s.cursor]? = some (simTraj step x0 (bufCount ops)) := by
      rw [ht, hcur]; exact simCtor_target_get step x0 L _ hlt
    have h2 := List.getElem?_eq_getElem hlt'
    rw [h2] at h1
    simp only [Sim.step]
    have h3 : s.target[s.cursor]'hlt' = simTraj step x0 (bufCount ops) := by simpa using h1
    rw [h3]

/-- Reset restarts: whatever happened before, after `setProperty("reset")` (which reports `true`
    and keeps the last served datum) the next `bufferData` serves `x0` again; any other property
    string reports `false` and changes nothing. -/
theorem sim_reset_restarts (step : Nat → σ → σ) (x0 : σ) (L : Nat) (hL : 0 < L) (ops : List SimOp) :
    bufCount (ops ++ [.reset]) = 0 ∧
    (∀ s : Sim σ, s.step .reset = ({ s with cursor := 0 }, .flag true) ∧ s.step .other = (s, .flag false)) ∧
    ∃ s', ((simCtor step x0 L).run (ops ++ [.reset])).1.step .buffer = (s', .flag true) ∧
          s'.data = some x0 := by
  have h0 : bufCount (ops ++ [.reset]) = 0 := by
    simp [bufCount, List.foldl_append, cursorStep]
  refine ⟨h0, fun s => ⟨rfl, rfl⟩, ?_⟩
  obtain ⟨_, _, h⟩ := sim_served_in_order step x0 L (ops ++ [.reset])
  obtain ⟨s', h1, _, h3, _⟩ := h (by omega)
  exact ⟨s', h1, by rw [h3, h0]; rfl⟩

/-- Exhausted: once `L` states were served since the last reset, `bufferData` reports `false` and
    leaves cursor and data as they are. -/
theorem sim_exhausted_reports_false (step : Nat → σ → σ) (x0 : σ) (L : Nat) (ops : List SimOp)
    (h : L ≤ bufCount ops) :
    ((simCtor step x0 L).run ops).1.step .buffer = (((simCtor step x0 L).run ops).1, .flag false) := by
  apply step_buffer_ge
  rw [run_target, simCtor_target_length, simCtor_run_cursor]
  omega

end sim

/-! ## Simulated linear sensor -/

/-- `freeze` succeeds iff the trajectory still has a state to serve; then the stored measurement is
    `H x_k + S_R z` for the state `x_k` just served and the `m` draws `z` it consumes; when the
    trajectory is exhausted it reports `false`, draws nothing and keeps the old measurement.
    `measure` always reports the stored measurement. -/
theorem sensor_freeze {n m : Nat} (H : Mat ℝ m n) (SR : Mat ℝ m m) (s : Sensor ℝ n m) :
    (∀ h : s.sim.cursor < s.sim.target.length,
      (sensorFreeze H SR s).2 = true ∧
      (sensorFreeze H SR s).1.sim.cursor = s.sim.cursor + 1 ∧
      (sensorFreeze H SR s).1.rng.pos = s.rng.pos + m * 1 ∧
      ∃ y, (sensorFreeze H SR s).1.meas = some y ∧
        toV y = toM H *ᵥ toV (s.sim.target[s.sim.cursor]'h)
                + toM SR *ᵥ (fun i => s.rng.stream (s.rng.pos + i.val))) ∧
    (s.sim.target.length ≤ s.sim.cursor → sensorFreeze H SR s = (s, false)) ∧
    sensorMeasure s = (true, s.meas) := by
  refine ⟨?_, sensorFreeze_ge H SR s, rfl⟩
  intro h
  rw [sensorFreeze_lt H SR s h]
  refine ⟨rfl, rfl, rfl, _, rfl, ?_⟩
  rw [sensorMeasurement_eq]
  congr 2
  funext i
  simp [Mat.col, Rng.draw, fillCM]

/-- Descriptions: the input description is the state description (circular type included) plus
    one noise component per row of R; the measurement description splits the measured components
    into those that select a linear and those that select a circular state entry; together they are
    all of them. -/
theorem sensor_descriptions (state : Descr) (idx : List Nat) (rRows : Nat) :
    sensorInputDescr state rRows = { state with noise := state.noise + rRows } ∧
    (sensorInputDescr state rRows).totalSize = state.totalSize + rRows ∧
    (sensorInputDescr state rRows).dofSize = state.dofSize + rRows ∧
    (sensorMeasDescr state idx).lin + (sensorMeasDescr state idx).circ = idx.length ∧
    ((∀ c ∈ idx, c < state.lin) → sensorMeasDescr state idx = { lin := idx.length, circ := 0, noise := 0 }) := by
  refine ⟨rfl, ?_, ?_, ?_, ?_⟩
  · cases hq : state.quat <;>
      simp [sensorInputDescr, Descr.totalSize, Descr.linearSize, Descr.circularSize, Descr.noiseSize, hq] <;> omega
  · cases hq : state.quat <;>
      simp [sensorInputDescr, Descr.dofSize, Descr.totalSize, Descr.linearSize, Descr.circularSize, Descr.noiseSize, hq] <;> omega
  · simp only [sensorMeasDescr]
    induction idx with
    | nil => rfl
    | cons c idx ih =>
      simp only [List.filter_cons, List.length_cons]
      by_cases hc : c < state.linearSize <;> simp [hc] <;> omega
  · intro hall
    simp only [sensorMeasDescr]
    have h1 : idx.filter (fun c => decide (c < state.linearSize)) = idx := by
      rw [List.filter_eq_self]; intro c hc; exact decide_eq_true (hall c hc)
    have h2 : idx.filter (fun c => !decide (c < state.linearSize)) = [] := by
      rw [List.filter_eq_nil_iff]; intro c hc; simp only [Bool.not_eq_true', Bool.not_eq_false', decide_eq_true (show c < state.linearSize from hall c hc)]; simp
    rw [h1, h2]; rfl

/-- The constructor computes the measurement description from `H` (arg-max column of every row,
    compared with the linear size of the input description).  For the 0/1 matrix of a valid index
    list the arg-max of row `i` is `idx[i]`, so the result is the index-list form above; it is an
    Euler-type description whose total size is the number of measured components — also when the
    state carries quaternions (`circularSize = 4·circ`), where every selected quaternion *entry*
    counts as one circular component (the `FIXME` of the code). -/
theorem sensor_meas_descr_from_H {n : Nat} (state : Descr) (idx : List Nat) (hall : ∀ c ∈ idx, c < n) :
    (∀ (i : Fin idx.length), rowArgmaxAbs (linearModelH (α := ℝ) n idx) i
        = some ⟨idx[i.val], hall _ (List.getElem_mem i.isLt)⟩) ∧
    sensorMeasDescrH state (linearModelH (α := ℝ) n idx) = sensorMeasDescr state idx ∧
    (sensorMeasDescrH state (linearModelH (α := ℝ) n idx)).quat = false ∧
    (sensorMeasDescrH state (linearModelH (α := ℝ) n idx)).totalSize = idx.length := by
  have heq := sensorMeasDescrH_eq state idx hall
  refine ⟨fun i => rowArgmaxAbs_linearModelH idx i _, heq, by rw [heq]; rfl, ?_⟩
  rw [heq]
  have := (sensor_descriptions state idx 0).2.2.2.1
  simp only [Descr.totalSize, Descr.linearSize, Descr.circularSize, Descr.noiseSize]
  have hq : (sensorMeasDescr state idx).quat = false := rfl
  have hn : (sensorMeasDescr state idx).noise = 0 := rfl
  rw [hq, hn]
  simpa using this

/-- Sizes of a description: a quaternion component occupies four entries and has three degrees of
    freedom; an Euler description has as many degrees of freedom as entries. -/
theorem descr_sizes (d : Descr) :
    (d.quat = true → d.totalSize = d.lin + d.circ * 4 + d.noise ∧ d.dofSize = d.lin + d.circ * 3 + d.noise) ∧
    (d.quat = false → d.totalSize = d.lin + d.circ + d.noise ∧ d.dofSize = d.totalSize) := by
  constructor <;> intro h <;>
    simp [Descr.totalSize, Descr.dofSize, Descr.linearSize, Descr.circularSize, Descr.noiseSize, h]

/-- History lift: `k` successive `freeze` calls on a fresh sensor over a trajectory of `L` states
    serve `min k L` states, consume `m · min k L` draws, and leave the measurement of the last state
    served, `H x_j + S_R z_j` with `j = min k L − 1` and `z_j` the j-th window of the stream. -/
theorem sensor_freeze_history {n m : Nat} (H : Mat ℝ m n) (SR : Mat ℝ m m) (s : Sensor ℝ n m)
    (hfresh : s.sim.cursor = 0) (k : Nat) :
    (sensorFreezeN H SR s k).sim.cursor = min k s.sim.target.length ∧
    (sensorFreezeN H SR s k).rng.pos = s.rng.pos + m * min k s.sim.target.length ∧
    (∀ j, j + 1 = min k s.sim.target.length →
      ∃ (h : j < s.sim.target.length) (y : Vec ℝ m), (sensorFreezeN H SR s k).meas = some y ∧
        toV y = toM H *ᵥ toV (s.sim.target[j]'h)
                + toM SR *ᵥ (fun i : Fin m => s.rng.stream (s.rng.pos + m * j + i.val))) ∧
    (k = 0 → (sensorFreezeN H SR s k).meas = s.meas) := by
  obtain ⟨_, h2, _, h4, h5⟩ := sensorFreezeN_spec H SR s s.sim.target.length 0 rfl hfresh (Nat.zero_le _) k
  simp only [Nat.zero_add, Nat.sub_zero] at h2 h4 h5
  refine ⟨h2, h4, fun j hj => ?_, fun hk => by subst hk; rfl⟩
  exact h5 j (Nat.zero_le _) hj

/-- Plumbing: the shipped models refuse every property string (`Agent::setProperty` default,
    `WhiteNoiseAcceleration`, `LTIStateModel`), `setSamplingTime` reports success and leaves the
    configuration alone, and a moved `WhiteNoiseAcceleration` is the source object unchanged
    (configuration and generator state). -/
theorem plumbing_noop (p : String) (cfg : Dim × ℝ × ℝ) (t : ℝ) (a b : WnaObj ℝ) :
    defaultSetProperty p = false ∧ wnaSetSamplingTime cfg t = (true, cfg) ∧
    a.moveFrom = a ∧ WnaObj.moveAssign b a = a := ⟨rfl, rfl, rfl, rfl⟩

/-- A moved `LTIStateModel` is the configured source: besides `F`, `Q` it keeps the skip flag and
    the attached exogenous model, so `propagate` on the target takes the branch it took on the source. -/
theorem lti_move_keeps_configuration {n N : Nat} (a b : LtiObj) (F : Mat ℝ n n) (exo : Option (Exo ℝ n N))
    (cur out : Mat ℝ n N) :
    a.moveFrom = a ∧ LtiObj.moveAssign b a = a ∧
    linPropagate F a.moveFrom.skipping exo cur out = linPropagate F a.skipping exo cur out ∧
    linPropagate F (LtiObj.moveAssign b a).skipping exo cur out = linPropagate F a.skipping exo cur out :=
  ⟨rfl, rfl, rfl, rfl⟩

/-! ## Hypotheses that cannot be dropped -/

/-- `T > 0` is needed: for `T ≤ 0` (and `q > 0`) Q is not positive definite — its entry (1,1) is
    `q T ≤ 0`. -/
theorem wna_Q_posDef_needs_T (dim : Dim) {T q : ℝ} (hT : T ≤ 0) (hq : 0 < q) :
    ¬ (toM (wnaQ dim T q)).PosDef := by
  intro hpd
  have h1 : 1 < dim.n * 2 := by cases dim <;> simp [Dim.n]
  have hpos := hpd.diag_pos (i := (⟨1, h1⟩ : Fin (dim.n * 2)))
  rw [toM_apply, wnaQ_entry] at hpos
  simp at hpos
  nlinarith

/-- Grid sizes ≥ 2 are needed: with a single line per axis the code divides by `nx − 1 = 0`; over ℝ
    (`x / 0 = 0`) the only line sits at `inf` and never reaches `sup`; in floating point the value is
    `0 · ∞ = NaN`. -/
theorem grid_needs_two_lines (inf sup : ℝ) (h : inf ≠ sup) :
    gridCoord inf sup 1 (1 - 1) = inf ∧ gridCoord inf sup 1 (1 - 1) ≠ sup := by
  have : gridCoord inf sup 1 (1 - 1) = inf := by simp [gridCoord]
  exact ⟨this, by rw [this]; exact h⟩

/-! ## Grid initialiser -/

/-- Refuses iff the particle count is not `nx·ny` or the state does not have 4 rows; a refusal
    leaves states and weights untouched. -/
theorem grid_refuses_iff (xinf xsup yinf ysup : ℝ) (nx ny : Nat) {R N : Nat}
    (state : Mat ℝ R N) (weight : Vec ℝ N) :
    ((gridInit xinf xsup yinf ysup nx ny state weight).1 = false ↔ (N ≠ nx * ny ∨ R ≠ 4)) ∧
    ((N ≠ nx * ny ∨ R ≠ 4) → gridInit xinf xsup yinf ysup nx ny state weight = (false, state, weight)) := by
  unfold gridInit
  by_cases h : N = nx * ny <;> by_cases h4 : R = 4 <;> simp [h, h4]

/-- Exactly `nx·ny` particles: `(i, j) ↦ i·ny + j` maps the grid points one-to-one onto the
    columns `0 … nx·ny − 1` of the set (row-major order, `j` fastest). -/
theorem grid_count (nx ny : Nat) :
    (∀ i j, i < nx → j < ny → gridIndex ny i j < nx * ny) ∧
    (∀ i j i' j', j < ny → j' < ny → gridIndex ny i j = gridIndex ny i' j' → i = i' ∧ j = j') ∧
    (∀ c, c < nx * ny → c / ny < nx ∧ c % ny < ny ∧ gridIndex ny (c / ny) (c % ny) = c) ∧
    (gridPairs nx ny).map (fun p => gridIndex ny p.1 p.2) = List.range (nx * ny) :=
  ⟨fun _ _ hi hj => gridIndex_lt hi hj, fun _ _ _ _ hj hj' h => gridIndex_inj hj hj' h,
   fun _ hc => gridIndex_surj hc, gridPairs_keys nx ny⟩

/-- Positions (grid sizes ≥ 2 per axis — the code divides by `nx − 1`, `ny − 1`): when accepted,
    column `i·ny + j` holds `(x_i, 0, y_j, 0)` with `x_i = xinf + i·(xsup − xinf)/(nx − 1)`,
    `y_j = yinf + j·(ysup − yinf)/(ny − 1)`; the first line is `inf`, the last is `sup`, consecutive
    lines are `(sup − inf)/(k − 1)` apart, and all lines lie in `[inf, sup]`. -/
theorem grid_positions (xinf xsup yinf ysup : ℝ) (nx ny : Nat) (hx : 2 ≤ nx) (hy : 2 ≤ ny)
    (state : Mat ℝ 4 (nx * ny)) (weight : Vec ℝ (nx * ny)) :
    (gridInit xinf xsup yinf ysup nx ny state weight).1 = true ∧
    (∀ i j (hi : i < nx) (hj : j < ny),
      let col := fun r => (gridInit xinf xsup yinf ysup nx ny state weight).2.1 r
                    ⟨gridIndex ny i j, gridIndex_lt hi hj⟩
      col 0 = xinf + (i : ℝ) * (xsup - xinf) / ((nx : ℝ) - 1) ∧ col 1 = 0 ∧
      col 2 = yinf + (j : ℝ) * (ysup - yinf) / ((ny : ℝ) - 1) ∧ col 3 = 0) ∧
    (gridCoord xinf xsup nx 0 = xinf ∧ gridCoord xinf xsup nx (nx - 1) = xsup ∧
     gridCoord yinf ysup ny 0 = yinf ∧ gridCoord yinf ysup ny (ny - 1) = ysup) ∧
    (∀ i, gridCoord xinf xsup nx (i + 1) - gridCoord xinf xsup nx i = (xsup - xinf) / ((nx : ℝ) - 1)) ∧
    (∀ j, gridCoord yinf ysup ny (j + 1) - gridCoord yinf ysup ny j = (ysup - yinf) / ((ny : ℝ) - 1)) ∧
    ((nx : ℝ) - 1 ≠ 0 ∧ (ny : ℝ) - 1 ≠ 0) := by
  have hacc : gridInit xinf xsup yinf ysup nx ny state weight
      = (true, gridLoop xinf xsup yinf ysup nx ny state, Vec.of (fun _ => - Transc.log (((nx * ny : Nat) : ℝ)))) := by
    simp [gridInit]
  have hnx : (2 : ℝ) ≤ (nx : ℝ) := by exact_mod_cast hx
  have hny : (2 : ℝ) ≤ (ny : ℝ) := by exact_mod_cast hy
  refine ⟨by rw [hacc], ?_, ⟨gridCoord_first _ _ _, gridCoord_last _ _ _ hx, gridCoord_first _ _ _,
    gridCoord_last _ _ _ hy⟩, gridCoord_spacing _ _ _, gridCoord_spacing _ _ _,
    ⟨by linarith, by linarith⟩⟩
  intro i j hi hj
  simp only [hacc]
  refine ⟨?_, ?_, ?_, ?_⟩
  · rw [gridLoop_apply _ _ _ _ _ _ _ i j hi hj]; simp [gridColumn, gridCoord_closed]
  · rw [gridLoop_apply _ _ _ _ _ _ _ i j hi hj]; simp [gridColumn]
  · rw [gridLoop_apply _ _ _ _ _ _ _ i j hi hj]; simp [gridColumn, gridCoord_closed]
  · rw [gridLoop_apply _ _ _ _ _ _ _ i j hi hj]; simp [gridColumn]

/-- Uniform, normalised weights: every log-weight is `−log N` with `N = nx·ny > 0`, and the
    weights `exp(w_i)` sum to one. -/
theorem grid_uniform (xinf xsup yinf ysup : ℝ) (nx ny : Nat) (hx : 0 < nx) (hy : 0 < ny)
    (state : Mat ℝ 4 (nx * ny)) (weight : Vec ℝ (nx * ny)) :
    (∀ c, (gridInit xinf xsup yinf ysup nx ny state weight).2.2 c = - Real.log ((nx * ny : Nat) : ℝ)) ∧
    0 < nx * ny ∧
    ∑ c, Real.exp ((gridInit xinf xsup yinf ysup nx ny state weight).2.2 c) = 1 := by
  have hacc : gridInit xinf xsup yinf ysup nx ny state weight
      = (true, gridLoop xinf xsup yinf ysup nx ny state, Vec.of (fun _ => - Transc.log (((nx * ny : Nat) : ℝ)))) := by
    simp [gridInit]
  have hN : 0 < nx * ny := Nat.mul_pos hx hy
  refine ⟨fun c => by rw [hacc]; rfl, hN, ?_⟩
  rw [hacc]
  simp only [Vec.of_apply, transc_log]
  exact uniform_logweights_normalised (nx * ny) hN

/-- Grid lines stay inside the surveillance area. -/
theorem grid_inside_area (inf sup : ℝ) (k i : Nat) (hk : 2 ≤ k) (hi : i < k) (hle : inf ≤ sup) :
    inf ≤ gridCoord inf sup k i ∧ gridCoord inf sup k i ≤ sup := gridCoord_mem inf sup k i hk hi hle

/-! ## Non-vacuity -/

/-- The hypotheses `T, q > 0` and the square-root contract are satisfiable on a non-trivial
    instance: `T = 1, q = 10` (the shipped tests' values) and, for `Q = I`, `S = I`. -/
example : (0 : ℝ) < 1 ∧ (0 : ℝ) < 10 ∧
    toM (Mat.one : Mat ℝ 4 4) * (toM (Mat.one : Mat ℝ 4 4))ᵀ = toM (Mat.one : Mat ℝ 4 4) := by
  refine ⟨by norm_num, by norm_num, ?_⟩
  simp

/-- `inv`, `det` as assumed by `wna_transition_is_density` exist (Mathlib's, transported). -/
example (dim : Dim) : ∃ (inv : Mat ℝ (dim.n * 2) (dim.n * 2) → Mat ℝ (dim.n * 2) (dim.n * 2))
    (det : Mat ℝ (dim.n * 2) (dim.n * 2) → ℝ),
    toM (inv (wnaQ dim 1 10)) = (toM (wnaQ dim 1 10))⁻¹ ∧ det (wnaQ dim 1 10) = (toM (wnaQ dim 1 10)).det :=
  ⟨fun A => Mat.of (fun i j => (toM A)⁻¹ i j), fun A => (toM A).det, by ext i j; simp, rfl⟩

/-- a constructor input of each class: accepted, empty, non-square, mismatched; a sensor
    measuring components {0, 2} of a 4-state; an out-of-range index -/
example : ltiStateCtor 4 4 4 4 = true ∧ ltiStateCtor 0 0 4 4 = false ∧ ltiStateCtor 4 3 4 4 = false ∧
    ltiStateCtor 4 4 3 3 = false ∧ ltiMeasCtor 2 7 2 2 = true ∧
    linearModelCtor 4 [0, 2] 2 2 = true ∧ linearModelCtor 4 [0, 4] 2 2 = false := by decide

/-- a call sequence that exhausts a 2-state trajectory and restarts it -/
example : bufCount [.buffer, .buffer, .buffer, .get] = 3 ∧
    bufCount [.buffer, .buffer, .reset, .buffer] = 1 := by decide

/-- a 2 × 3 grid: six distinct columns -/
example : (gridPairs 2 3).map (fun p => gridIndex 3 p.1 p.2) = [0, 1, 2, 3, 4, 5] := by decide

/-! ## Round 4 -/

section simspec
variable {σ : Type}

/-- the simulation relation between the object and the counting specification -/
def SimRel (traj : Nat → σ) (L : Nat) (s : Sim σ) (a : SimSpec) : Prop :=
  s.target = (List.range L).map traj ∧ s.cursor = a.served ∧ s.data = a.last.map traj

theorem simRel_step (traj : Nat → σ) (L : Nat) (s : Sim σ) (a : SimSpec) (h : SimRel traj L s a) (op : SimOp) :
    SimRel traj L (s.step op).1 (a.step L op).1 ∧ (s.step op).2 = SimOut.mapIdx traj (a.step L op).2 := by
  obtain ⟨ht, hc, hd⟩ := h
  have hlen : s.target.length = L := by rw [ht]; simp
  cases op with
  | buffer =>
    by_cases hlt : a.served < L
    · have h1 : ¬ (s.cursor ≥ s.target.length) := by rw [hlen, hc]; omega
      simp only [Sim.step, if_neg h1, SimSpec.step, if_pos hlt]
      refine ⟨⟨ht, by rw [hc], ?_⟩, rfl⟩
      simp only [Option.map_some]
      rw [ht, hc, List.getElem?_map, List.getElem?_range hlt]; rfl
    · have h1 : s.cursor ≥ s.target.length := by rw [hlen, hc]; omega
      simp only [Sim.step, if_pos h1, SimSpec.step, if_neg hlt]
      exact ⟨⟨ht, hc, hd⟩, rfl⟩
  | get => exact ⟨⟨ht, hc, hd⟩, by simp [Sim.step, SimSpec.step, SimOut.mapIdx, hd]⟩
  | reset => exact ⟨⟨ht, rfl, hd⟩, rfl⟩
  | other => exact ⟨⟨ht, hc, hd⟩, rfl⟩

theorem simRel_run (traj : Nat → σ) (L : Nat) (ops : List SimOp) :
    ∀ (s : Sim σ) (a : SimSpec), SimRel traj L s a →
      SimRel traj L (s.run ops).1 (SimSpec.run L a ops).1 ∧
      (s.run ops).2 = (SimSpec.run L a ops).2.map (SimOut.mapIdx traj) := by
  induction ops with
  | nil => intro s a h; exact ⟨h, rfl⟩
  | cons op ops ih =>
    intro s a h
    obtain ⟨h1, h2⟩ := simRel_step traj L s a h op
    obtain ⟨h3, h4⟩ := ih _ _ h1
    refine ⟨by simpa [Sim.run, SimSpec.run] using h3, ?_⟩
    simp only [Sim.run, SimSpec.run, List.map_cons, h2, h4]

/-- **Refinement.**  For every trajectory length, every state model (`step k` = the k-th `motion` call,
    whatever it does — dynamic dispatch included) and every finite sequence of calls, the complete list
    of answers of a `SimulatedStateModel` is the list of answers of the counting specification
    "serve states 0, 1, 2, … in order, refuse after the last, restart on reset", read through
    `k ↦ x_k` with `x_0 = x0`, `x_{k+1} = motion_k(x_k)`. -/
theorem sim_refines_spec (step : Nat → σ → σ) (x0 : σ) (L : Nat) (ops : List SimOp) :
    ((simCtor step x0 L).run ops).2
      = (SimSpec.run L { served := 0, last := none } ops).2.map (SimOut.mapIdx (simTraj step x0)) ∧
    ((simCtor step x0 L).run ops).1.cursor = (SimSpec.run L { served := 0, last := none } ops).1.served ∧
    simTraj step x0 0 = x0 ∧ ∀ k, simTraj step x0 (k + 1) = step k (simTraj step x0 k) := by
  have h0 : SimRel (simTraj step x0) L (simCtor step x0 L) { served := 0, last := none } := ⟨rfl, rfl, rfl⟩
  obtain ⟨⟨_, hc, _⟩, ho⟩ := simRel_run (simTraj step x0) L ops _ _ h0
  exact ⟨ho, hc, rfl, fun _ => rfl⟩

/-- The specification serves in order: it never hands out an index `≥ L`, and what `getData` shows is
    always the index handed out last. -/
theorem simSpec_in_order (L : Nat) (ops : List SimOp) :
    (SimSpec.run L { served := 0, last := none } ops).1.served ≤ L ∧
    (∀ i, (SimSpec.run L { served := 0, last := none } ops).1.last = some i → i < L) := by
  have key : ∀ (ops : List SimOp) (a : SimSpec), (a.served ≤ L ∧ ∀ i, a.last = some i → i < L) →
      ((SimSpec.run L a ops).1.served ≤ L ∧ ∀ i, (SimSpec.run L a ops).1.last = some i → i < L) := by
    intro ops
    induction ops with
    | nil => intro a h; exact h
    | cons op ops ih =>
      intro a h
      have hstep : (a.step L op).1.served ≤ L ∧ ∀ i, (a.step L op).1.last = some i → i < L := by
        cases op with
        | buffer =>
          by_cases hlt : a.served < L
          · simp only [SimSpec.step, if_pos hlt]
            exact ⟨hlt, fun i hi => by cases hi; exact hlt⟩
          · simp only [SimSpec.step, if_neg hlt]; exact h
        | get => exact h
        | reset => exact ⟨Nat.zero_le _, h.2⟩
        | other => exact h
      simpa [SimSpec.run] using ih _ hstep
  exact key ops _ ⟨Nat.zero_le _, fun i hi => by cases hi⟩

end simspec

/-- non-vacuity: a three-state trajectory driven through `b g b r g b g b b b` -/
example : (SimSpec.run 3 { served := 0, last := none }
    [.buffer, .get, .buffer, .reset, .get, .buffer, .get, .buffer, .buffer, .buffer]).2
    = [.flag true, .data (some 0), .flag true, .flag true, .data (some 1), .flag true, .data (some 0),
       .flag true, .flag true, .flag false] := by rfl

/-- One call of `getNoiseSample(a + b)` is the call with `a` columns followed by the call with `b`
    columns on the same generator (column-major fill): long requests at any boundary equal the
    concatenation of shorter ones, and the generator ends at the same position. -/
theorem noise_sample_split {n : Nat} (S : Mat ℝ n n) (r : Rng ℝ) (a b : Nat) :
    (∀ (i : Fin n) (j : Fin (a + b)),
      (noiseSample S r (a + b)).1 i j =
        if h : j.val < a then (noiseSample S r a).1 i ⟨j.val, h⟩
        else (noiseSample S (noiseSample S r a).2 b).1 i ⟨j.val - a, by omega⟩) ∧
    (noiseSample S (noiseSample S r a).2 b).2.pos = (noiseSample S r (a + b)).2.pos := by
  refine ⟨fun i j => ?_, ?_⟩
  · by_cases h : j.val < a
    · simp only [dif_pos h, noiseSample, Rng.draw, wnaSample, Mat.mul_apply, fillCM, Mat.eval_eq, Mat.of_apply]
    · simp only [dif_neg h, noiseSample, Rng.draw, wnaSample, Mat.mul_apply, fillCM, Mat.eval_eq, Mat.of_apply]
      obtain ⟨t, ht⟩ : ∃ t, j.val = a + t := ⟨j.val - a, by omega⟩
      have e : ∀ l : Nat, r.pos + j.val * n + l = r.pos + n * a + (j.val - a) * n + l := by
        intro l; rw [ht, Nat.add_sub_cancel_left]; ring
      simp only [e]
  · simp only [noiseSample, Rng.draw]; ring

/-- The transition density of a batch of pairs is the map of the single-pair density over the pairs:
    value `i` depends on `(previous_i, current_i)` only (batches of any two sizes that hold the same
    pair in positions `i` and `i'` agree there). -/
theorem wna_transition_pairwise {n N N' : Nat} (inv : Mat ℝ n n → Mat ℝ n n) (det : Mat ℝ n n → ℝ)
    (F Q : Mat ℝ n n) (prev cur : Mat ℝ n N) (prev' cur' : Mat ℝ n N') (i : Fin N) (i' : Fin N')
    (hp : ∀ r, prev r i = prev' r i') (hc : ∀ r, cur r i = cur' r i') :
    wnaTransition inv det F Q prev cur i = wnaTransition inv det F Q prev' cur' i' := by
  have hcol : (cur.sub (F.mul prev)).col i = (cur'.sub (F.mul prev')).col i' := by
    ext r; simp [Mat.col, Mat.mul_apply, hp, hc]
  simp only [wnaTransition, gaussDensity, Vec.of_apply, hcol]

/-- Component indices are natural numbers, never narrowed: an index congruent to a valid component
    modulo `2^32` (or any other power of two) is rejected like every index `≥ n`. -/
theorem linear_index_not_narrowed (n : Nat) (idx : List Nat) (rr rc : Nat) (c k w : Nat)
    (hk : 0 < k) (hn : n ≤ 2 ^ w) (hmem : c + k * 2 ^ w ∈ idx) :
    linearModelCtor n idx rr rc = false := by
  cases hctor : linearModelCtor n idx rr rc with
  | false => rfl
  | true =>
    have h := ((linear_H_selects n idx rr rc).1.mp hctor).2.2.2.2 _ hmem
    have : 2 ^ w ≤ k * 2 ^ w := Nat.le_mul_of_pos_left _ hk
    omega

/-- `Q` is a covariance for every `T ≥ 0`, `q ≥ 0` (positive semidefinite, also at the boundary
    `T = 0` or `q = 0` where it is singular). -/
theorem wna_Q_posSemidef (dim : Dim) {T q : ℝ} (hT : 0 ≤ T) (hq : 0 ≤ q) : (toM (wnaQ dim T q)).PosSemidef := by
  rw [toM_wnaQ]
  refine Matrix.PosSemidef.smul ?_ hq
  rw [Matrix.reindex_apply]
  exact (blockDiagonal_posSemidef fun _ => Q2_posSemidef hT).submatrix _

section sensorspec
variable {α : Type} [Add α] [Mul α] [Zero α] [Inhabited α] {n m : Nat}

/-- what the measurement numbered `(k, d)` of the specification is: `H x_k + S_R z_d`, `z_d` the `d`-th
    noise vector (draws `p0 + d m … p0 + d m + m − 1` of the sensor's generator) -/
def sensorMeasAt (H : Mat α m n) (SR : Mat α m m) (traj : Nat → Vec α n) (stream : Nat → α) (p0 : Nat) (kd : Nat × Nat) : Vec α m :=
  sensorMeasurement H SR (traj kd.1) ((Rng.draw ⟨stream, p0 + kd.2 * m⟩ m 1).1.col ⟨0, Nat.one_pos⟩)

/-- simulation relation between the sensor object and the counting specification -/
def SensorRel (H : Mat α m n) (SR : Mat α m m) (traj : Nat → Vec α n) (stream : Nat → α) (p0 L : Nat)
    (s : Sensor α n m) (a : SensorSpec) : Prop :=
  s.sim.target = (List.range L).map traj ∧ s.sim.cursor = a.served ∧ a.served ≤ L ∧
  s.rng.stream = stream ∧ s.rng.pos = p0 + a.draws * m ∧
  s.meas = a.meas.map (sensorMeasAt H SR traj stream p0)

theorem sensorRel_step (H : Mat α m n) (SR : Mat α m m) (traj : Nat → Vec α n) (stream : Nat → α) (p0 L : Nat)
    (s : Sensor α n m) (a : SensorSpec) (h : SensorRel H SR traj stream p0 L s a) (op : SensorOp) :
    SensorRel H SR traj stream p0 L (s.step H SR op).1 (a.step L op).1 ∧
    (s.step H SR op).2 = SensorOut.mapVal (sensorMeasAt H SR traj stream p0) (a.step L op).2 := by
  obtain ⟨ht, hc, hle, hs, hp, hm⟩ := h
  have hlen : s.sim.target.length = L := by rw [ht]; simp
  cases op with
  | freeze =>
    by_cases hlt : a.served < L
    · have h1 : s.sim.cursor < s.sim.target.length := by rw [hlen, hc]; exact hlt
      have hget : s.sim.target[s.sim.cursor]'h1 = traj a.served := by
        have : s.sim.target[s.sim.cursor]? = some (traj a.served) := by
          rw [ht, hc, List.getElem?_map, List.getElem?_range hlt]; rfl
        exact Option.some.inj ((List.getElem?_eq_getElem h1).symm.trans this)
      have hrng : s.rng = ⟨stream, p0 + a.draws * m⟩ := by
        cases hr : s.rng with
        | mk st ps => simp only [hr] at hs hp; subst hs; subst hp; rfl
      simp only [Sensor.step, sensorFreeze_lt H SR s h1, SensorSpec.step, if_pos hlt, SensorOut.mapVal]
      refine ⟨⟨ht, by simp [hc], hlt, ?_, ?_, ?_⟩, trivial⟩
      · simp [Rng.draw, hs]
      · simp only [Rng.draw, hp]; ring
      · simp only [Option.map_some, sensorMeasAt, hget, hrng]
    · have h1 : s.sim.target.length ≤ s.sim.cursor := by rw [hlen, hc]; omega
      simp only [Sensor.step, sensorFreeze_ge H SR s h1, SensorSpec.step, if_neg hlt, SensorOut.mapVal]
      exact ⟨⟨ht, hc, hle, hs, hp, hm⟩, trivial⟩
  | measure =>
    exact ⟨⟨ht, hc, hle, hs, hp, hm⟩, by simp [Sensor.step, SensorSpec.step, SensorOut.mapVal, sensorMeasure, hm]⟩
  | reset =>
    exact ⟨⟨ht, rfl, Nat.zero_le _, hs, hp, hm⟩, rfl⟩
  | buffer =>
    by_cases hlt : a.served < L
    · have h1 : s.sim.cursor < s.sim.target.length := by rw [hlen, hc]; exact hlt
      simp only [Sensor.step, step_buffer_lt s.sim h1, SensorSpec.step, if_pos hlt, SensorOut.mapVal]
      exact ⟨⟨ht, by simp [hc], hlt, hs, hp, hm⟩, trivial⟩
    · have h1 : s.sim.target.length ≤ s.sim.cursor := by rw [hlen, hc]; omega
      simp only [Sensor.step, step_buffer_ge s.sim h1, SensorSpec.step, if_neg hlt, SensorOut.mapVal]
      exact ⟨⟨ht, hc, hle, hs, hp, hm⟩, trivial⟩

theorem sensorRel_run (H : Mat α m n) (SR : Mat α m m) (traj : Nat → Vec α n) (stream : Nat → α) (p0 L : Nat)
    (ops : List SensorOp) :
    ∀ (s : Sensor α n m) (a : SensorSpec), SensorRel H SR traj stream p0 L s a →
      SensorRel H SR traj stream p0 L (Sensor.run H SR s ops).1 (SensorSpec.run L a ops).1 ∧
      (Sensor.run H SR s ops).2 = (SensorSpec.run L a ops).2.map (SensorOut.mapVal (sensorMeasAt H SR traj stream p0)) := by
  induction ops with
  | nil => intro s a h; exact ⟨h, rfl⟩
  | cons op ops ih =>
    intro s a h
    obtain ⟨h1, h2⟩ := sensorRel_step H SR traj stream p0 L s a h op
    obtain ⟨h3, h4⟩ := ih _ _ h1
    exact ⟨by simpa [Sensor.run, SensorSpec.run] using h3, by simp only [Sensor.run, SensorSpec.run, List.map_cons, h2, h4]⟩

/-- **Refinement of the sensor.**  For every state model, trajectory length, measured-component matrix `H`,
    noise factor `S_R`, generator stream and every finite sequence of `freeze` / `measure` / reset /
    direct `bufferData` calls, the complete list of answers of a `SimulatedLinearSensor` is the list of
    answers of the counting specification, a stored measurement numbered `(k, d)` being
    `H x_k + S_R z_d` with `x_k` the `k`-th state of `x_{k+1} = motion_k(x_k)` and `z_d` the `d`-th
    block of `m` draws; the generator has then advanced by `m` draws per successful `freeze`. -/
theorem sensor_refines_spec (H : Mat α m n) (SR : Mat α m m) (step : Nat → Vec α n → Vec α n) (x0 : Vec α n)
    (L : Nat) (stream : Nat → α) (p0 : Nat) (ops : List SensorOp) :
    (Sensor.run H SR { sim := simCtor step x0 L, meas := none, rng := ⟨stream, p0⟩ } ops).2
      = (SensorSpec.run L { served := 0, draws := 0, meas := none } ops).2.map
          (SensorOut.mapVal (sensorMeasAt H SR (simTraj step x0) stream p0)) ∧
    (Sensor.run H SR { sim := simCtor step x0 L, meas := none, rng := ⟨stream, p0⟩ } ops).1.rng.pos
      = p0 + (SensorSpec.run L { served := 0, draws := 0, meas := none } ops).1.draws * m ∧
    (Sensor.run H SR { sim := simCtor step x0 L, meas := none, rng := ⟨stream, p0⟩ } ops).1.sim.cursor
      = (SensorSpec.run L { served := 0, draws := 0, meas := none } ops).1.served := by
  have h0 : SensorRel H SR (simTraj step x0) stream p0 L
      { sim := simCtor step x0 L, meas := none, rng := ⟨stream, p0⟩ } { served := 0, draws := 0, meas := none } :=
    ⟨rfl, rfl, Nat.zero_le _, rfl, by simp, rfl⟩
  obtain ⟨⟨_, hc, _, _, hp, _⟩, ho⟩ := sensorRel_run H SR (simTraj step x0) stream p0 L ops _ _ h0
  exact ⟨ho, hp, hc⟩

end sensorspec

/-- over ℝ: the measurement numbered `(k, d)` is `H x_k + S_R z_d` entry by entry -/
theorem sensorMeasAt_eq {n m : Nat} (H : Mat ℝ m n) (SR : Mat ℝ m m) (traj : Nat → Vec ℝ n) (stream : Nat → ℝ) (p0 : Nat) (kd : Nat × Nat) :
    toV (sensorMeasAt H SR traj stream p0 kd)
      = toM H *ᵥ toV (traj kd.1) + toM SR *ᵥ (fun i : Fin m => stream (p0 + kd.2 * m + i.val)) := by
  rw [sensorMeasAt, sensorMeasurement_eq]
  congr 2
  ext i
  simp [Rng.draw, fillCM, Mat.col]


/-- non-vacuity: two states, `f m f m f m r f m` — the third freeze is refused and keeps measurement (1, 1);
    after the reset state 0 is measured again with the third noise vector -/
example : (SensorSpec.run 2 { served := 0, draws := 0, meas := none }
    [.freeze, .measure, .freeze, .measure, .freeze, .measure, .reset, .freeze, .measure]).2
    = [.flag true, .meas true (some (0, 0)), .flag true, .meas true (some (1, 1)), .flag false, .meas true (some (1, 1)),
       .flag true, .flag true, .meas true (some (0, 2))] := by rfl

end BFL.Models
