// Correspondence harness for C18: calls the bfl::utils quaternion templates of the current tree.
//
//   qexp  n r(3 x n)                  -> "ok" 4n numbers   rotation_vector_to_quaternion
//   qlog  n q(4 x n)                  -> "ok" 3n numbers   quaternion_to_rotation_vector
//   qsum  m n q(4 x m) r(3 x n)       -> "ok" 4n numbers   sum_quaternion_rotation_vector(q, r)
//   qdiff n m ql(4 x n) qr(4 x m)     -> "ok" 3n numbers   diff_quaternion(ql, qr)
//   qmean n w(n) q(4 x n)             -> "ok" 4 numbers    mean_quaternion(w, q)
//   qsumchain n q(4) r(3 x n)         -> "ok" 4n numbers   q_k = sum_quaternion_rotation_vector(q_{k-1}, r_k): the history of an attitude
//                                                          state driven by n increments (every intermediate state is printed)
//
// Matrices are column-major.  Arguments are copied before the call and compared afterwards.
#include "common.hpp"
#include <BayesFilters/utils.h>

using namespace Eigen;
using vh::Toks; using vh::Out;

static std::string shape_err(long r, long c, long rr, long cc) {
    return "shape:" + std::to_string(r) + "x" + std::to_string(c) + "!=" + std::to_string(rr) + "x" + std::to_string(cc);
}

static std::string qexp(Toks& t) {
    long n = t.nat();
    MatrixXd r = t.mat(3, n);
    t.done();
    MatrixXd r0 = r;
    MatrixXd res = bfl::utils::rotation_vector_to_quaternion(r);
    if (res.rows() != 4 || res.cols() != n) return shape_err(res.rows(), res.cols(), 4, n);
    if (!vh::same_bits(r0, r)) return "input-modified";
    Out o; o.s("ok"); o.m(res); return o.str();
}

static std::string qlog(Toks& t) {
    long n = t.nat();
    MatrixXd q = t.mat(4, n);
    t.done();
    MatrixXd q0 = q;
    MatrixXd res = bfl::utils::quaternion_to_rotation_vector(q);
    if (res.rows() != 3 || res.cols() != n) return shape_err(res.rows(), res.cols(), 3, n);
    if (!vh::same_bits(q0, q)) return "input-modified";
    Out o; o.s("ok"); o.m(res); return o.str();
}

static std::string qsum(Toks& t) {
    long m = t.nat(), n = t.nat();
    if (m < 1) throw vh::BadArgs("m");
    MatrixXd q = t.mat(4, m);
    MatrixXd r = t.mat(3, n);
    t.done();
    MatrixXd q0 = q, r0 = r;
    MatrixXd res = bfl::utils::sum_quaternion_rotation_vector(q, r);
    if (res.rows() != 4 || res.cols() != n) return shape_err(res.rows(), res.cols(), 4, n);
    if (!vh::same_bits(q0, q) || !vh::same_bits(r0, r)) return "input-modified";
    Out o; o.s("ok"); o.m(res); return o.str();
}

static std::string qdiff(Toks& t) {
    long n = t.nat(), m = t.nat();
    if (m < 1) throw vh::BadArgs("m");
    MatrixXd ql = t.mat(4, n);
    MatrixXd qr = t.mat(4, m);
    t.done();
    MatrixXd ql0 = ql, qr0 = qr;
    MatrixXd res = bfl::utils::diff_quaternion(ql, qr);
    if (res.rows() != 3 || res.cols() != n) return shape_err(res.rows(), res.cols(), 3, n);
    if (!vh::same_bits(ql0, ql) || !vh::same_bits(qr0, qr)) return "input-modified";
    Out o; o.s("ok"); o.m(res); return o.str();
}

static std::string qsumchain(Toks& t) {
    long n = t.nat();
    MatrixXd q = t.mat(4, 1);
    MatrixXd r = t.mat(3, n);
    t.done();
    MatrixXd res(4, n);
    MatrixXd cur = q;
    for (long k = 0; k < n; ++k) {
        MatrixXd rk = r.col(k);
        MatrixXd nxt = bfl::utils::sum_quaternion_rotation_vector(cur, rk);
        if (nxt.rows() != 4 || nxt.cols() != 1) return shape_err(nxt.rows(), nxt.cols(), 4, 1);
        res.col(k) = nxt.col(0);
        cur = nxt;
    }
    Out o; o.s("ok"); o.m(res); return o.str();
}

static std::string qmean(Toks& t) {
    long n = t.nat();
    VectorXd w = t.vec(n);
    MatrixXd q = t.mat(4, n);
    t.done();
    VectorXd w0 = w; MatrixXd q0 = q;
    MatrixXd res = bfl::utils::mean_quaternion(w, q);
    if (res.rows() != 4 || res.cols() != 1) return shape_err(res.rows(), res.cols(), 4, 1);
    if (!vh::same_bits(w0, w) || !vh::same_bits(q0, q)) return "input-modified";
    Out o; o.s("ok"); o.m(res); return o.str();
}

// ---- the same templates instantiated with DerivedScalar = float (inputs are float-representable doubles)
static std::string f_ops(const std::string& op, Toks& t) {
    Out o; o.s("ok");
    if (op == "qexpf") {
        long n = t.nat(); MatrixXf r = t.mat(3, n).cast<float>(); t.done();
        MatrixXf res = bfl::utils::rotation_vector_to_quaternion(r);
        if (res.rows() != 4 || res.cols() != n) return shape_err(res.rows(), res.cols(), 4, n);
        o.m(res.cast<double>().eval());
    } else if (op == "qlogf") {
        long n = t.nat(); MatrixXf q = t.mat(4, n).cast<float>(); t.done();
        MatrixXf res = bfl::utils::quaternion_to_rotation_vector(q);
        if (res.rows() != 3 || res.cols() != n) return shape_err(res.rows(), res.cols(), 3, n);
        o.m(res.cast<double>().eval());
    } else if (op == "qsumf") {
        long m = t.nat(), n = t.nat(); if (m < 1) throw vh::BadArgs("m");
        MatrixXf q = t.mat(4, m).cast<float>(); MatrixXf r = t.mat(3, n).cast<float>(); t.done();
        MatrixXf res = bfl::utils::sum_quaternion_rotation_vector(q, r);
        if (res.rows() != 4 || res.cols() != n) return shape_err(res.rows(), res.cols(), 4, n);
        o.m(res.cast<double>().eval());
    } else if (op == "qdifff") {
        long n = t.nat(), m = t.nat(); if (m < 1) throw vh::BadArgs("m");
        MatrixXf ql = t.mat(4, n).cast<float>(); MatrixXf qr = t.mat(4, m).cast<float>(); t.done();
        MatrixXf res = bfl::utils::diff_quaternion(ql, qr);
        if (res.rows() != 3 || res.cols() != n) return shape_err(res.rows(), res.cols(), 3, n);
        o.m(res.cast<double>().eval());
    } else {
        long n = t.nat(); VectorXf w = t.vec(n).cast<float>(); MatrixXf q = t.mat(4, n).cast<float>(); t.done();
        MatrixXf res = bfl::utils::mean_quaternion(w, q);
        if (res.rows() != 4 || res.cols() != 1) return shape_err(res.rows(), res.cols(), 4, 1);
        o.m(res.cast<double>().eval());
    }
    return o.str();
}

int main() {
    return vh::run([](const std::string& op, Toks& t, std::string& out) {
        if (op == "qexp") { out = qexp(t); return true; }
        if (op == "qlog") { out = qlog(t); return true; }
        if (op == "qsum") { out = qsum(t); return true; }
        if (op == "qdiff") { out = qdiff(t); return true; }
        if (op == "qmean") { out = qmean(t); return true; }
        if (op == "qsumchain") { out = qsumchain(t); return true; }
        if (op == "qexpf" || op == "qlogf" || op == "qsumf" || op == "qdifff" || op == "qmeanf") { out = f_ops(op, t); return true; }
        return false;
    });
}
