import BFL.Driver.Proto
import BFL.Gen.RaceTable
/-
Driver entries of C10: the decision procedure of BFL/Model/Race.lean executed (compiled) on the
regenerated table, for the check to compare with ThreadSanitizer's reports.

  c10-verdicts            -> "ok" then one token per member touched by both roles:
                             Class::member|kind|ok            or
                             Class::member|kind|bad|<ctl fn>|<line>|<r/w>|<filter fn>|<line>|<r/w>
  c10-reach controller|filter -> "ok" then the names of the functions the role reaches
  c10-undisciplined       -> "ok" then the ids of the undisciplined members (Table.undisciplined)
  c10-claims              -> "ok" roots-ok reach-ok shared-ok undisciplined-ok (claims of the generated file vs definitions)
-/
namespace BFL.DriverRace
open BFL BFL.Proto BFL.Race

def kindStr : FieldKind → String
  | .atomic => "atomic" | .plain => "plain" | .mutex => "mutex" | .condvar => "condvar" | .other => "other"

def accStr : AccKind → String
  | .read => "r" | .write => "w" | .rmw => "rw"

def verdictTok (T : Table) (f : Nat) : String :=
  let k := match T.fields[f]? with | some fd => kindStr fd.kind | none => "?"
  match T.witness f with
  | none => s!"{T.fieldName f}|{k}|ok"
  | some (a, b) =>
    s!"{T.fieldName f}|{k}|bad|{T.methodName a.meth}|{a.line}|{accStr a.kind}|{T.methodName b.meth}|{b.line}|{accStr b.kind}"

def reachNames (T : Table) (r : Role) : List String :=
  let S := T.reach r
  (List.range T.methods.length).filterMap fun i => if S.testBit i then some (T.methodName i) else none

def bstr (b : Bool) : String := if b then "1" else "0"

def handle (op : String) (args : List String) : Option String :=
  let T := RaceTable.table
  match op, args with
  | "c10-verdicts", [] => some (join ("ok" :: T.shared.map (verdictTok T)))
  | "c10-reach", ["controller"] => some (join ("ok" :: reachNames T .controller))
  | "c10-reach", ["filter"] => some (join ("ok" :: reachNames T .filter))
  | "c10-undisciplined", [] => some (join ("ok" :: T.undisciplined.map toString))
  | "c10-claims", [] =>
    some (join ["ok",
      bstr (T.rootIds .controller == RaceTable.rootsClaim .controller && T.rootIds .filter == RaceTable.rootsClaim .filter),
      bstr (T.reach .controller == RaceTable.reachClaim .controller && T.reach .filter == RaceTable.reachClaim .filter),
      bstr (T.shared == RaceTable.sharedClaim),
      bstr (T.undisciplined == RaceTable.claimedUndisciplined),
      bstr (T.rootsPresent .controller && T.rootsPresent .filter),
      bstr (T.wfB)])
  | _, _ => none

end BFL.DriverRace
