import BFL.Core.Mat
import BFL.Core.Transc
import BFL.Model.KF
/-
Model of the Gaussian particle filter steps.

  GPFPrediction::predictStep                 src/BayesFilters/src/GPFPrediction.cpp
  GPFCorrection::correctStep                 src/BayesFilters/src/GPFCorrection.cpp
  GPFCorrection::sampleFromProposal          (mean + sqrt_P * z)
  GPFCorrection::evaluateProposal            (utils::multivariate_gaussian_density)
  GaussianPrediction::predict / GaussianCorrection::correct   (skip dispatch of the wrapped step)
  utils::multivariate_gaussian_(log_)density src/BayesFilters/include/BayesFilters/utils.h
  WhiteNoiseAcceleration::getTransitionProbability            (N(cur − F prev; 0, Q))
  GaussianLikelihood::likelihood             (scale · N(y − H x; 0, R), all model calls valid)

A particle set is a Gaussian mixture (one belief `(mean, cov)` and one log-weight per particle,
`ParticleSet` derives from `GaussianMixture`) plus one position per particle.

Parameters, with the contract the theorems assume (BFL/Props/C08.lean):
  * `gp`, `gc`   the wrapped Gaussian prediction / correction, a function of the input mixture and of
                 the previous content of the output mixture (some steps leave parts of it unwritten);
  * `sq i`       the square-root factor the code obtains from Eigen's LDLᵀ (`Pᵀ L √max(D,0)`, pivots
                 clamped at zero since fix 5d4e99d): `S Sᵀ = P`;
  * `z i`        the standard-normal draws of particle `i` (`mean.size()` draws per particle, in
                 particle order, from `std::normal_distribution`);
  * `inv`        Eigen's `.inverse()`;
  * `lik`        the likelihood model: (valid?, one value per particle), a function of the new positions;
  * `trans`      the transition density `StateModel::getTransitionProbability(previous, new)`;
  * `eps`        `std::numeric_limits<double>::min()`.
The determinant is the Laplace expansion along the first row (`lapDet`), proved equal to `Matrix.det`.
-/
namespace BFL

/-- `ParticleSet`: positions, and the mixture part (`gm.weight` holds the log-weights). -/
structure PSet (α : Type) (n k : Nat) where
  state : Fin k → Vec α n
  gm : GM α n k

/-- A wrapped Gaussian step `step(input, output)`: second argument = what the output object held before. -/
abbrev GStep (α : Type) (n k : Nat) := GM α n k → GM α n k → GM α n k

section
variable {α : Type} {n k : Nat}

/-- `GaussianPrediction::predict` / `GaussianCorrection::correct`: `if (!skip_) step(in, out); else out = in;` -/
def gaussDispatch (skip : Bool) (step : GStep α n k) : GStep α n k :=
  fun inp out => if skip then inp else step inp out

/-- `GPFPrediction::predictStep`: beliefs from the wrapped prediction, then weights and positions copied. -/
def gpfPredict (gp : GStep α n k) (prev out : PSet α n k) : PSet α n k :=
  let g := gp prev.gm out.gm
  { state := prev.state
    gm := { mean := g.mean, cov := g.cov, weight := prev.gm.weight } }

/-- column index of the minor obtained by deleting column `j` -/
def skipCol {n : Nat} (j : Fin (n+1)) (c : Fin n) : Fin (n+1) :=
  if c.val < j.val then c.castSucc else c.succ

/-- Determinant by Laplace expansion along row 0. -/
def lapDet [Add α] [Mul α] [Neg α] [Zero α] [One α] : (n : Nat) → Mat α n n → α
  | 0, _ => 1
  | n+1, A => fsum (n+1) fun j =>
      (if j.val % 2 = 0 then A 0 j else - A 0 j) *
        lapDet n (Mat.of fun r c => A r.succ (skipCol j c))

variable [Add α] [Sub α] [Mul α] [Div α] [Neg α] [Zero α] [One α] [NatCast α] [Inhabited α]

/-- `sampleFromProposal`: `mean + sqrt_P * rand_vectors`. -/
def gpfSample (μ : Vec α n) (S : Mat α n n) (z : Vec α n) : Vec α n :=
  μ.add (S.mulVec z)

/-- Layout of a particle set built as `ParticleSet(k, n − circ, circ)` (non-quaternion): the last `circ`
    of the `n` state rows are angles.  `GPFPrediction` / `GPFCorrection` never read the layout: `gpfSample`,
    `gpfCorrect`, `gpfPredict` act on all rows alike (only the wrapped Gaussian steps — parameters `gp`,
    `gc` — treat angular rows specially: wrapped sigma points, directional means).  `gpfWrapRows` is what
    a reduction of the angular rows (`directional_add(rows, 0)`, `wrap` = reduction to (−π, π]) would do to
    a position; it is *not* applied by the code (theorems `gpf_wrapped_draw_breaks_mahalanobis`,
    `gpf_wrap_rows_fixed` in BFL/Props/C08.lean say what would happen if it were). -/
def gpfWrapRows (wrap : α → α) (circ : Nat) (x : Vec α n) : Vec α n :=
  Vec.of fun j => if n - circ ≤ j.val then wrap (x j) else x j

/-- the quadratic form `(x − μ)ᵀ P⁻¹ (x − μ)` of `multivariate_gaussian_log_density` -/
def gpfQuad (inv : Mat α n n → Mat α n n) (x μ : Vec α n) (P : Mat α n n) : α :=
  let d := x.sub μ
  Vec.dot d ((inv P).mulVec d)

variable [Transc α]

/-- `utils::multivariate_gaussian_log_density` for one input column:
    `- 0.5 * (rows * log(2π) + log(det P) + (x − μ)ᵀ P⁻¹ (x − μ))`. -/
def gpfLogDensity (inv : Mat α n n → Mat α n n) (x μ : Vec α n) (P : Mat α n n) : α :=
  (- ((1 : α) / (1 + 1))) *
    ((n : α) * Transc.log ((1 + 1) * Transc.pi) + Transc.log (lapDet n P) + gpfQuad inv x μ P)

/-- `utils::multivariate_gaussian_density` = `exp` of the log-density; `evaluateProposal`. -/
def gpfDensity (inv : Mat α n n → Mat α n n) (x μ : Vec α n) (P : Mat α n n) : α :=
  Transc.exp (gpfLogDensity inv x μ P)

/-- the log-weight update, exactly as coded:
    `w + log(l + eps) + log(t + eps) - log(q + eps)` -/
def gpfWeight (eps w l t q : α) : α :=
  w + Transc.log (l + eps) + Transc.log (t + eps) - Transc.log (q + eps)

/-- new positions: particle `i` drawn around its *corrected* belief -/
def gpfDraw (g : GM α n k) (sq : Fin k → Mat α n n) (z : Fin k → Vec α n) : Fin k → Vec α n :=
  fun i => gpfSample (g.mean i) (sq i) (z i)

/-- `GPFCorrection::correctStep`. -/
def gpfCorrect (eps : α) (inv : Mat α n n → Mat α n n) (gc : GStep α n k)
    (sq : Fin k → Mat α n n) (z : Fin k → Vec α n)
    (lik : (Fin k → Vec α n) → Bool × Vec α k)
    (trans : (Fin k → Vec α n) → (Fin k → Vec α n) → Vec α k)
    (pred out : PSet α n k) : PSet α n k :=
  let g := gc pred.gm out.gm
  let x := gpfDraw g sq z
  let l := lik x
  if l.1 = false then pred
  else
    let t := trans pred.state x
    { state := x
      gm := { mean := g.mean, cov := g.cov
              weight := Vec.of fun i =>
                gpfWeight eps (pred.gm.weight i) (l.2 i) (t i)
                  (gpfDensity inv (x i) (g.mean i) (g.cov i)) } }

/-- `correctStep(b, b)` — the same object as input and output (fix 5d39dcb: the code copies the
    predicted set first and corrects from the copy).  The model has value semantics, so this branch is
    the ordinary step whose output object initially holds the predicted set; every theorem about
    `gpfCorrect` applies with `out := pred`. -/
def gpfCorrectInPlace (eps : α) (inv : Mat α n n → Mat α n n) (gc : GStep α n k)
    (sq : Fin k → Mat α n n) (z : Fin k → Vec α n)
    (lik : (Fin k → Vec α n) → Bool × Vec α k)
    (trans : (Fin k → Vec α n) → (Fin k → Vec α n) → Vec α k)
    (pred : PSet α n k) : PSet α n k :=
  gpfCorrect eps inv gc sq z lik trans pred pred

/-- `WhiteNoiseAcceleration::getTransitionProbability`:
    `multivariate_gaussian_density(cur − F prev, 0, Q)`, one value per particle. -/
def gpfGaussTrans (inv : Mat α n n → Mat α n n) (F Q : Mat α n n)
    (prev cur : Fin k → Vec α n) : Vec α k :=
  Vec.of fun i => gpfDensity inv ((cur i).sub (F.mulVec (prev i))) Vec.zero Q

/-- `GaussianLikelihood::likelihood` with every model call valid and a linear sensor:
    `scale · multivariate_gaussian_density(y − H x, 0, R)`. -/
def gpfGaussLik {m : Nat} (invR : Mat α m m → Mat α m m) (scale : α) (H : Mat α m n) (R : Mat α m m)
    (y : Vec α m) (x : Fin k → Vec α n) : Bool × Vec α k :=
  (true, Vec.of fun i => scale * gpfDensity invR (y.sub (H.mulVec (x i))) Vec.zero R)

/-- `GaussianLikelihood::likelihood`, branch by branch: the four model calls (`measure`,
    `predictedMeasure`, `innovation`, `getNoiseCovarianceMatrix`) may each report failure, in which
    case the likelihood is invalid (early return); otherwise `gpfGaussLik`. -/
def gpfGaussLikFull {m : Nat} (measOk predOk innovOk covOk : Bool) (invR : Mat α m m → Mat α m m) (scale : α)
    (H : Mat α m n) (R : Mat α m m) (y : Vec α m) (x : Fin k → Vec α n) : Bool × Vec α k :=
  if measOk = false then (false, Vec.zero)
  else if predOk = false then (false, Vec.zero)
  else if innovOk = false then (false, Vec.zero)
  else if covOk = false then (false, Vec.zero)
  else gpfGaussLik invR scale H R y x

/-- `WhiteNoiseAcceleration`: state transition matrix, blocks `[[1, T], [0, 1]]` on the diagonal
    (one block per coordinate: state dimension 2, 4 or 6). -/
def gpfWnaF (T : α) : Mat α n n :=
  Mat.of fun i j =>
    if i.val / 2 = j.val / 2 then
      (if i.val % 2 = 0 then (if j.val % 2 = 0 then 1 else T) else (if j.val % 2 = 0 then 0 else 1))
    else 0

/-- `WhiteNoiseAcceleration`: noise covariance, blocks `q̃ · [[T³/3, T²/2], [T²/2, T]]`. -/
def gpfWnaQ (T q : α) : Mat α n n :=
  Mat.of fun i j =>
    if i.val / 2 = j.val / 2 then
      q * (if i.val % 2 = 0 then (if j.val % 2 = 0 then T * T * T / (1 + 1 + 1) else T * T / (1 + 1))
           else (if j.val % 2 = 0 then T * T / (1 + 1) else T))
    else 0

/-- the shipped model's transition density from its two constructor parameters -/
def gpfWnaTrans (inv : Mat α n n → Mat α n n) (T q : α) (prev cur : Fin k → Vec α n) : Vec α k :=
  gpfGaussTrans inv (gpfWnaF T) (gpfWnaQ T q) prev cur

/-- The collaborators a `GPFCorrection` object owns (likelihood model, wrapped Gaussian correction,
    transition-density model).  The random stream is carried by the events (`z`). -/
structure GpfCorrObj (α : Type) (n k : Nat) where
  lik : (Fin k → Vec α n) → Bool × Vec α k
  gc : GStep α n k
  trans : (Fin k → Vec α n) → (Fin k → Vec α n) → Vec α k

/-- `GPFCorrection(GPFCorrection&&)`: every member is taken from the source. -/
def gpfMoveConstruct (src : GpfCorrObj α n k) : GpfCorrObj α n k := src

/-- `GPFCorrection::operator=(GPFCorrection&&)` (after fix 2d4bf06): likelihood model, Gaussian
    correction, state model and generator are all moved from the source. -/
def gpfMoveAssign (_dst src : GpfCorrObj α n k) : GpfCorrObj α n k :=
  { lik := src.lik, gc := src.gc, trans := src.trans }

/-- the assignment as it was before 2d4bf06 (`likelihood_model_` not moved); kept to state why that
    line is needed (`gpf_move_assign_needs_likelihood_model`) -/
def gpfMoveAssignKeepLik (dst src : GpfCorrObj α n k) : GpfCorrObj α n k :=
  { lik := dst.lik, gc := src.gc, trans := src.trans }

/-- a correction performed by an object -/
def gpfObjCorrect (eps : α) (inv : Mat α n n → Mat α n n) (o : GpfCorrObj α n k)
    (sq : Fin k → Mat α n n) (z : Fin k → Vec α n) (pred out : PSet α n k) : PSet α n k :=
  gpfCorrect eps inv o.gc sq z o.lik o.trans pred out

/-- One event of a filtering history, with everything the step consumes. -/
inductive GpfEvent (α : Type) (n k : Nat) where
  | predict (gp : GStep α n k) (out : PSet α n k)
  | correct (gc : GStep α n k) (sq : Fin k → Mat α n n) (z : Fin k → Vec α n)
      (lik : (Fin k → Vec α n) → Bool × Vec α k)
      (trans : (Fin k → Vec α n) → (Fin k → Vec α n) → Vec α k) (out : PSet α n k)

def gpfStep (eps : α) (inv : Mat α n n → Mat α n n) (p : PSet α n k) : GpfEvent α n k → PSet α n k
  | .predict gp out => gpfPredict gp p out
  | .correct gc sq z lik trans out => gpfCorrect eps inv gc sq z lik trans p out

/-- a whole history of prediction / correction events -/
def gpfRun (eps : α) (inv : Mat α n n → Mat α n n) (p : PSet α n k) (es : List (GpfEvent α n k)) : PSet α n k :=
  es.foldl (gpfStep eps inv) p

/-- does the event change the weights (a correction whose likelihood is valid)? -/
def gpfUpdates (p : PSet α n k) : GpfEvent α n k → Bool
  | .predict _ _ => false
  | .correct gc sq z lik _ out => (lik (gpfDraw (gc p.gm out.gm) sq z)).1

/-- the amount one event adds to the log-weight of particle `i` -/
def gpfIncrement (eps : α) (inv : Mat α n n → Mat α n n) (p : PSet α n k) (e : GpfEvent α n k) (i : Fin k) : α :=
  match e with
  | .predict _ _ => 0
  | .correct gc sq z lik trans out =>
    let g := gc p.gm out.gm
    let x := gpfDraw g sq z
    let l := lik x
    if l.1 = false then 0
    else
      Transc.log (l.2 i + eps) + Transc.log (trans p.state x i + eps)
        - Transc.log (gpfDensity inv (x i) (g.mean i) (g.cov i) + eps)

/-- the increments along a history -/
def gpfIncrements (eps : α) (inv : Mat α n n → Mat α n n) (i : Fin k) :
    PSet α n k → List (GpfEvent α n k) → List α
  | _, [] => []
  | p, e :: es => gpfIncrement eps inv p e i :: gpfIncrements eps inv i (gpfStep eps inv p e) es

end
end BFL
