// Correspondence harness for C05: the real SUKFCorrection against the real (additive) UKFCorrection
// on the same inputs, with a harness-defined additive measurement model y = h(x) + v.
#include "common.hpp"
#include <BayesFilters/SUKFCorrection.h>
#include <BayesFilters/UKFCorrection.h>
#include <BayesFilters/AdditiveMeasurementModel.h>
#include <BayesFilters/GaussianMixture.h>
#include <BayesFilters/sigma_point.h>
#include <cmath>
#include <memory>

using namespace bfl;
using namespace Eigen;
using vh::Toks; using vh::Out;

// y = h(x) + v,  h(x) = f(H x + h0) with f componentwise / coupled:
//   0 affine      f(z) = z
//   1 sine        f(z)_i = sin(z_i) + z_i / 2
//   2 quadratic   f(z)_i = z_i + z_i^2 / 4
//   3 coupled     f(z)_i = z_i * cos(z_{i+1 mod m}) + z_i
struct HModel : public AdditiveMeasurementModel {
    HModel(int kind, long nc, const MatrixXd& H, const VectorXd& h0, const VectorXd& y, const MatrixXd& R, bool failM, bool failP, bool failI)
        : kind_(kind), nc_(nc), H_(H), h0_(h0), y_(y), R_(R), failM_(failM), failP_(failP), failI_(failI) {}
    bool freeze(const Data&) override { return true; }
    std::pair<bool, Data> measure(const Data&) const override { MatrixXd y = y_; return std::make_pair(!failM_, Data(y)); }
    std::pair<bool, Data> predictedMeasure(const Ref<const MatrixXd>& x) const override {
        X_ = x;
        MatrixXd z = (H_ * x).colwise() + h0_;
        MatrixXd out(z.rows(), z.cols());
        const long m = z.rows();
        for (long j = 0; j < z.cols(); ++j)
            for (long i = 0; i < m; ++i) {
                double v = z(i, j);
                switch (kind_) {
                    case 0: out(i, j) = v; break;
                    case 1: out(i, j) = std::sin(v) + 0.5 * v; break;
                    case 2: out(i, j) = v + 0.25 * v * v; break;
                    default: out(i, j) = v * std::cos(z((i + 1) % m, j)) + v; break;
                }
            }
        Y_ = out;
        return std::make_pair(!failP_, Data(out));
    }
    std::pair<bool, Data> innovation(const Data& pred, const Data& meas) const override {
        MatrixXd inn = -(any::any_cast<MatrixXd>(pred).colwise() - any::any_cast<MatrixXd>(meas).col(0));
        return std::make_pair(!failI_, Data(inn));
    }
    std::pair<bool, MatrixXd> getNoiseCovarianceMatrix() const override { return std::make_pair(true, R_); }
    VectorDescription getInputDescription() const override { return VectorDescription(H_.cols() - nc_, nc_, y_.size()); }
    VectorDescription getMeasurementDescription() const override { return VectorDescription(y_.size()); }
    int kind_; long nc_; MatrixXd H_; VectorXd h0_, y_; MatrixXd R_; bool failM_, failP_, failI_;
    mutable MatrixXd X_, Y_;     // what the correction asked for and what it was told
};

static void outLik(Out& o, std::pair<bool, VectorXd> l) {
    o.s(l.first ? "lik" : "nolik"); o.n(l.first ? l.second.size() : 0); if (l.first) o.m(l.second);
}

// One correction object of each kind, driven through one or several successive correct() + getLikelihood()
// calls (component count, measurement, belief and failing calls vary from call to call).
// The state has n rows, the last nc of them circular (Euler angles).
//   sukf  n nc msz bs red k alpha beta kappa hkind failM failP failI H h0 y R means covs outw
//   sukfs n nc msz bs red alpha beta kappa hkind H h0 R ncalls { k failM failP failI rscale y means covs outw }*
// (the noise covariance the model reports in a call is rscale * R: time-varying noise)
struct Call { long k; bool failM, failP, failI; double rscale; VectorXd y; MatrixXd means, covs; VectorXd outw; };

static std::string runCalls(long n, long nc, long msz, long bs, bool red, double alpha, double beta, double kappa, int kind,
                            const MatrixXd& H, const VectorXd& h0, const MatrixXd& R, const std::vector<Call>& calls) {
    const bool divides = (msz % bs) == 0;
    HModel* ms = new HModel(kind, nc, H, h0, VectorXd::Zero(msz), R, false, false, false);
    SUKFCorrection sukfc(std::unique_ptr<AdditiveMeasurementModel>(ms), alpha, beta, kappa, (std::size_t)bs, red);
    // the standard additive correction is given the full covariance the encoding stands for
    HModel* mu = nullptr; std::unique_ptr<UKFCorrection> ukfc;
    MatrixXd Rfull = R;
    if (divides) {
        if (red) { Rfull = MatrixXd::Zero(msz, msz); for (long i = 0; i < msz / bs; ++i) Rfull.block(bs * i, bs * i, bs, bs) = R; }
        mu = new HModel(kind, nc, H, h0, VectorXd::Zero(msz), Rfull, false, false, false);
        ukfc.reset(new UKFCorrection(std::unique_ptr<AdditiveMeasurementModel>(mu), alpha, beta, kappa));
    }
    sigma_point::UTWeight w((std::size_t)n, alpha, beta, kappa);
    Out o; o.s("ok");
    bool firstCall = true;
    for (const Call& c : calls) {
        if (!firstCall) o.s("|");
        GaussianMixture pred(c.k, n - nc, nc), corrS(c.k, n - nc, nc), corrU(c.k, n - nc, nc);
        pred.mean() = c.means; pred.covariance() = c.covs;
        for (GaussianMixture* g : { &corrS, &corrU }) { g->mean().setConstant(12345.0); g->covariance().setConstant(-54321.0); g->weight() = c.outw; }
        MatrixXd m0 = pred.mean(), c0 = pred.covariance(), w0 = pred.weight();
        ms->R_ = c.rscale * R; if (mu) mu->R_ = c.rscale * Rfull;
        for (HModel* m : { ms, mu }) if (m) { m->y_ = c.y; m->failM_ = c.failM; m->failP_ = c.failP; m->failI_ = c.failI; m->X_.resize(0, 0); m->Y_.resize(0, 0); }
        std::pair<bool, VectorXd> likS0 = firstCall ? sukfc.getLikelihood() : std::make_pair(false, VectorXd());
        sukfc.correct(pred, corrS);
        std::pair<bool, VectorXd> likS = sukfc.getLikelihood();
        o.s("S"); o.m(corrS.mean()); o.m(corrS.covariance()); o.m(corrS.weight()); outLik(o, likS);
        o.s(likS0.first ? "prelik" : "noprelik");
        // The standard correction is the oracle for successful steps only: it is not driven through calls
        // with a failing model answer (what it does then is C12's subject, not C05's).
        const bool faulty = c.failM || c.failP || c.failI;
        if (divides && !faulty) {
            ukfc->correct(pred, corrU);
            o.s("U"); o.m(corrU.mean()); o.m(corrU.covariance()); outLik(o, ukfc->getLikelihood());
        } else {
            o.s("Unone");
        }
        bool same = vh::same_bits(m0, pred.mean()) && vh::same_bits(c0, pred.covariance()) && vh::same_bits(w0, pred.weight());
        o.s("W"); o.n(w.mean.size()); o.m(w.mean); o.m(w.covariance); o.d(w.c);
        o.s("X"); o.n(ms->X_.cols()); o.m(ms->X_);
        o.s("Y"); o.n(ms->Y_.cols()); o.m(ms->Y_);
        o.s(same ? "in-same" : "in-modified");
        firstCall = false;
    }
    return o.str();
}

static Call readCall(Toks& t, long n, long msz) {
    Call c; c.k = t.nat(); c.failM = t.flag(); c.failP = t.flag(); c.failI = t.flag(); c.rscale = t.dbl();
    c.y = t.vec(msz); c.means = t.mat(n, c.k); c.covs = t.mat(n, n * c.k); c.outw = t.vec(c.k);
    return c;
}

static std::string sukf(Toks& t) {
    long n = t.nat(), nc = t.nat(), msz = t.nat(), bs = t.nat(); bool red = t.flag(); long k = t.nat();
    double alpha = t.dbl(), beta = t.dbl(), kappa = t.dbl();
    int kind = (int)t.nat(); bool failM = t.flag(), failP = t.flag(), failI = t.flag();
    MatrixXd H = t.mat(msz, n); VectorXd h0 = t.vec(msz), y = t.vec(msz);
    MatrixXd R = red ? t.mat(bs, bs) : t.mat(msz, msz);
    Call c; c.k = k; c.failM = failM; c.failP = failP; c.failI = failI; c.rscale = 1.0; c.y = y;
    c.means = t.mat(n, k); c.covs = t.mat(n, n * k); c.outw = t.vec(k);
    t.done();
    return runCalls(n, nc, msz, bs, red, alpha, beta, kappa, kind, H, h0, R, { c });
}

static std::string sukfs(Toks& t) {
    long n = t.nat(), nc = t.nat(), msz = t.nat(), bs = t.nat(); bool red = t.flag();
    double alpha = t.dbl(), beta = t.dbl(), kappa = t.dbl();
    int kind = (int)t.nat();
    MatrixXd H = t.mat(msz, n); VectorXd h0 = t.vec(msz);
    MatrixXd R = red ? t.mat(bs, bs) : t.mat(msz, msz);
    long ncalls = t.nat();
    std::vector<Call> calls;
    for (long i = 0; i < ncalls; ++i) calls.push_back(readCall(t, n, msz));
    t.done();
    return runCalls(n, nc, msz, bs, red, alpha, beta, kappa, kind, H, h0, R, calls);
}

int main() {
    return vh::run([](const std::string& op, Toks& t, std::string& out) {
        if (op == "sukf") { out = sukf(t); return true; }
        if (op == "sukfs") { out = sukfs(t); return true; }
        return false;
    });
}
