import BFL.Model.UT
import BFL.Bridge.Mat
import BFL.Bridge.Transc
import BFL.Proofs.UTAlg
import BFL.Proofs.UT
import BFL.Proofs.UTCirc
import BFL.Proofs.UTEuler
/-
Affine maps into layouts with linear and Euler-angle rows: the moment computation of the
layout-general model (`utLayoutMean`, `utLayoutOffsets`, `utCov`) on propagated points whose
tangent offsets are `T·[0, B, −B]` yields the mean (angles mod 2π), `T P Tᵀ` and `P Tᵀ`.
Helper lemmas for `BFL/Props/C03.lean`.
-/
namespace BFL
open Real UTProofs Matrix

set_option linter.unusedSectionVars false

/-- `[0, D, −D]` for a rectangular `D` (`r × n`): the tangent offsets `T·[0, B, −B]` with `D = T B` -/
def perturbR {r n : ℕ} (D : Mat ℝ r n) : Mat ℝ r (2 * n + 1) :=
  Mat.of (fun i j =>
    if _h0 : j.val = 0 then 0
    else if h1 : j.val ≤ n then D i ⟨j.val - 1, by omega⟩
    else - D i ⟨j.val - 1 - n, by have := j.isLt; omega⟩)

theorem perturbR_square {n : ℕ} (B : Mat ℝ n n) : perturbR B = perturb B := rfl

namespace UTProofs
variable {r s n : ℕ}

/-- rectangular version of `E` -/
def Er (M : Matrix (Fin r) (Fin n) ℝ) : Matrix (Fin r) (Fin (2 * n + 1)) ℝ :=
  fun i j =>
    if _h0 : j.val = 0 then 0
    else if h1 : j.val ≤ n then M i ⟨j.val - 1, by omega⟩
    else - M i ⟨j.val - 1 - n, by have := j.isLt; omega⟩

@[simp] theorem Er_zero (M : Matrix (Fin r) (Fin n) ℝ) (i : Fin r) : Er M i ⟨0, by omega⟩ = 0 := by simp [Er]
@[simp] theorem Er_plus (M : Matrix (Fin r) (Fin n) ℝ) (i : Fin r) (l : Fin n) :
    Er M i ⟨l.val + 1, by omega⟩ = M i l := by
  simp [Er, show l.val + 1 ≤ n from by omega]
@[simp] theorem Er_minus (M : Matrix (Fin r) (Fin n) ℝ) (i : Fin r) (l : Fin n) :
    Er M i ⟨l.val + 1 + n, by omega⟩ = - M i l := by
  have : ¬ (l.val + 1 + n ≤ n) := by omega
  simp [Er, this]

theorem Er_mulVec_wv (M : Matrix (Fin r) (Fin n) ℝ) (w0 w : ℝ) : Er M *ᵥ wv w0 w = 0 := by
  ext i
  simp only [mulVec, dotProduct, Pi.zero_apply]
  rw [sum_split]
  simp only [Er_zero, Er_plus, Er_minus, wv_zero, wv_plus, wv_minus, zero_mul, zero_add, neg_mul,
    Finset.sum_neg_distrib, add_neg_cancel]

theorem Er_diag_Ert (M : Matrix (Fin r) (Fin n) ℝ) (M' : Matrix (Fin s) (Fin n) ℝ) (w0 w : ℝ) :
    Er M * diagonal (wv w0 w) * (Er M')ᵀ = (2 * w) • (M * M'ᵀ) := by
  ext a b
  rw [Matrix.mul_apply, Matrix.smul_apply, Matrix.mul_apply, smul_eq_mul]
  simp only [Matrix.mul_diagonal, Matrix.transpose_apply]
  rw [sum_split]
  simp only [Er_zero, Er_plus, Er_minus, wv_zero, wv_plus, wv_minus, zero_mul, zero_add, neg_mul, mul_neg, neg_neg]
  rw [← Finset.sum_add_distrib, Finset.mul_sum]
  apply Finset.sum_congr rfl; intro l _; ring

end UTProofs

theorem toM_perturbR {r n : ℕ} (D : Mat ℝ r n) : toM (perturbR D) = Er (toM D) := by
  ext i j
  simp only [perturbR, toM_apply, Mat.of_apply, Er]

theorem perturbR_cases {r n : ℕ} (D : Mat ℝ r n) (i : Fin r) (j : Fin (2 * n + 1)) :
    perturbR D i j = 0 ∨ ∃ l, perturbR D i j = D i l ∨ perturbR D i j = - D i l := by
  simp only [perturbR, Mat.of_apply]
  split
  · exact Or.inl rfl
  · split
    · exact Or.inr ⟨_, Or.inl rfl⟩
    · exact Or.inr ⟨_, Or.inr rfl⟩

theorem perturbR_add_eq_symAngles {r n : ℕ} (D : Mat ℝ r n) (i : Fin r) (c : ℝ) (k : Fin (2 * n + 1)) :
    c + perturbR D i k = symAngles c (fun l => D i l) k := by
  simp only [perturbR, symAngles, Mat.of_apply, Vec.of_apply]
  split
  · ring
  · split
    · ring
    · ring


section out
variable (ly : Layout) (hq : ly.quat = false) (hz : ly.noise = 0) {n : ℕ} (hn : 1 ≤ n)
variable (alpha beta kappa : ℝ) (hc : (n : ℝ) + utLambda n alpha kappa ≠ 0)
variable (D : Mat ℝ ly.dof n) (ybar : Vec ℝ ly.dim) (Y : Mat ℝ ly.dim (2 * n + 1))
variable (hYlin : ∀ (r : Fin ly.dim) (j : Fin (2 * n + 1)) (hr : r.val < ly.lin),
    Y r j = ybar r + perturbR D ⟨r.val, euler_row_lt_dof ly hq hz r⟩ j)
variable (hYcirc : ∀ (r : Fin ly.dim) (j : Fin (2 * n + 1)) (hr : ly.lin ≤ r.val),
    Real.sin (Y r j) = Real.sin (ybar r + perturbR D ⟨r.val, euler_row_lt_dof ly hq hz r⟩ j) ∧
    Real.cos (Y r j) = Real.cos (ybar r + perturbR D ⟨r.val, euler_row_lt_dof ly hq hz r⟩ j))
include hq hz hn hc hYlin hYcirc

theorem affine_mean_lin (qmean : ℕ → Quat ℝ) (r : Fin ly.dim) (hr : r.val < ly.lin) :
    utLayoutMean ly (utWeights n alpha beta kappa).mean Y qmean r = ybar r := by
  simp only [utLayoutMean, Vec.eval_eq, Vec.of_apply, if_pos hr]
  rw [fsum_eq_sum]
  have hX : ∀ k : Fin (2 * n + 1), Y.getN r.val k.val
      = ybar r + perturbR D ⟨r.val, euler_row_lt_dof ly hq hz r⟩ k := by
    intro k; rw [Mat.getN_fin, hYlin r k hr]
  have hw := toV_utWeights_mean n alpha beta kappa
  have hwk : ∀ k, (utWeights n alpha beta kappa).mean k
      = wv (utLambda n alpha kappa / ((n : ℝ) + utLambda n alpha kappa))
          (1 / (2 * ((n : ℝ) + utLambda n alpha kappa))) k := fun k => congrFun hw k
  have hE : ∀ k, perturbR D ⟨r.val, euler_row_lt_dof ly hq hz r⟩ k
      = UTProofs.Er (toM D) ⟨r.val, euler_row_lt_dof ly hq hz r⟩ k := by
    intro k
    have := congrFun (congrFun (toM_perturbR D) ⟨r.val, euler_row_lt_dof ly hq hz r⟩) k
    simpa using this
  simp only [hX, hwk, hE, add_mul]
  rw [Finset.sum_add_distrib, ← Finset.mul_sum, sum_wv, (weights_facts _ hc).1, mul_one]
  have h0 := congrFun (Er_mulVec_wv (toM D)
    (utLambda n alpha kappa / ((n : ℝ) + utLambda n alpha kappa))
    (1 / (2 * ((n : ℝ) + utLambda n alpha kappa)))) ⟨r.val, euler_row_lt_dof ly hq hz r⟩
  simp only [mulVec, dotProduct, Pi.zero_apply] at h0
  rw [h0, add_zero]

theorem affine_mean_circ (qmean : ℕ → Quat ℝ) (r : Fin ly.dim) (hr : ly.lin ≤ r.val)
    (hR : 0 < utLambda n alpha kappa / ((n : ℝ) + utLambda n alpha kappa)
          + 2 * (1 / (2 * ((n : ℝ) + utLambda n alpha kappa)))
            * ∑ l, Real.cos (D ⟨r.val, euler_row_lt_dof ly hq hz r⟩ l)) :
    utLayoutMean ly (utWeights n alpha beta kappa).mean Y qmean r = wrapAngle (ybar r) := by
  have h1 : ¬ r.val < ly.lin := by omega
  simp only [utLayoutMean, Vec.eval_eq, Vec.of_apply, if_neg h1, hq, Bool.false_eq_true, if_false]
  have hN : 2 * n + 1 ≠ 1 := by omega
  rw [dirMean_congr hN _ (symAngles (ybar r) (fun l => D ⟨r.val, euler_row_lt_dof ly hq hz r⟩ l))]
  · exact dirMean_symmetric hn (ybar r) _ _ _ _ (toV_utWeights_mean n alpha beta kappa) hR
  · intro k
    simp only [Vec.of_apply]
    rw [Mat.getN_fin, (hYcirc r k hr).1, perturbR_add_eq_symAngles]
  · intro k
    simp only [Vec.of_apply]
    rw [Mat.getN_fin, (hYcirc r k hr).2, perturbR_add_eq_symAngles]

theorem affine_offsets (qmean : ℕ → Quat ℝ)
    (hsmall : ∀ (r' : Fin ly.dof) (l : Fin n), ly.lin ≤ r'.val → -π < D r' l ∧ D r' l < π)
    (hR : ∀ r' : Fin ly.dof, ly.lin ≤ r'.val →
      0 < utLambda n alpha kappa / ((n : ℝ) + utLambda n alpha kappa)
          + 2 * (1 / (2 * ((n : ℝ) + utLambda n alpha kappa))) * ∑ l, Real.cos (D r' l)) :
    utLayoutOffsets ly ly.dof Y (utLayoutMean ly (utWeights n alpha beta kappa).mean Y qmean) = perturbR D := by
  apply Mat.ext
  intro r' j
  have hdim : r'.val < ly.dim := by
    have h1 := r'.isLt
    have h2 := Layout.dim_eq_dof_of_euler ly hq
    omega
  simp only [utLayoutOffsets, Mat.eval_eq, Mat.of_apply]
  by_cases hr : r'.val < ly.lin
  · rw [if_pos hr, Mat.getN_lt _ hdim j.isLt, Vec.getN_lt _ hdim, hYlin ⟨r'.val, hdim⟩ j hr,
      affine_mean_lin ly hq hz hn alpha beta kappa hc D ybar Y hYlin hYcirc qmean ⟨r'.val, hdim⟩ hr]
    simp
  · have hr' : ly.lin ≤ r'.val := by omega
    rw [if_neg hr]
    simp only [hq, Bool.false_eq_true, if_false]
    rw [Mat.getN_lt _ hdim j.isLt, Vec.getN_lt _ hdim,
      affine_mean_circ ly hq hz hn alpha beta kappa hc D ybar Y hYlin hYcirc qmean ⟨r'.val, hdim⟩ hr' (hR r' hr')]
    obtain ⟨hs, hcs⟩ := hYcirc ⟨r'.val, hdim⟩ j hr'
    unfold dirSub
    rw [wrapAngle_add_neg_wrap]
    have hcong : wrapAngle (Y ⟨r'.val, hdim⟩ j + -ybar ⟨r'.val, hdim⟩)
        = wrapAngle (ybar ⟨r'.val, hdim⟩ + perturbR D r' j + -ybar ⟨r'.val, hdim⟩) := by
      apply wrapAngle_congr
      · rw [Real.sin_add, Real.sin_add (ybar ⟨r'.val, hdim⟩ + perturbR D r' j), hs, hcs]
      · rw [Real.cos_add, Real.cos_add (ybar ⟨r'.val, hdim⟩ + perturbR D r' j), hs, hcs]
    rw [hcong]
    have : ybar ⟨r'.val, hdim⟩ + perturbR D r' j + -ybar ⟨r'.val, hdim⟩ = perturbR D r' j := by ring
    rw [this]
    apply wrapAngle_of_mem
    have hpi := Real.pi_pos
    rcases perturbR_cases D r' j with h0 | ⟨l, h1 | h2⟩
    · rw [h0]; exact ⟨by linarith, by linarith⟩
    · rw [h1]; exact ⟨(hsmall r' l hr').1, (hsmall r' l hr').2.le⟩
    · rw [h2]; exact ⟨by linarith [(hsmall r' l hr').2], by linarith [(hsmall r' l hr').1]⟩

end out
end BFL
