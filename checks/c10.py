"""C10 — the control interface may be used from another thread without data races.

Stages
  0. translator : tools/racetable.py regenerates lean/BFL/Gen/RaceTable.lean from the clang AST of the
                  *current* tree ($BFL_REPO);
  1. proof      : lake build BFL.Props.C10 (the `decide` obligations are re-evaluated by the kernel on
                  the regenerated table) + audit of axioms / statements;
  2. verdicts   : the Lean driver evaluates the decision procedure of BFL/Model/Race.lean on the table
                  (one verdict per member touched by both threads), cross-checked with the translator's
                  own evaluation;
  3. tie        : ThreadSanitizer build of the library + stress harness (harness/h_race.cpp); every
                  report is attributed to a member through the table rows at the reported source lines;
                  both directions are compared: undisciplined member  <->  TSan report;
  4. decision   : an undisciplined member is a violation (key `skip-flag:<Class>::skip_` for the six
                  known flags, `undisciplined:<Class>::<member>` otherwise) with the TSan report as
                  replay when observed; a TSan report on a member the table calls disciplined, or on
                  code the table does not list, is a correspondence failure.
"""
import importlib
import json
import os
import re
import shutil
import subprocess
import sys
import time

import vlib

SKIP_FLAG_CLASSES = ["GaussianPrediction", "GaussianCorrection", "PFPrediction", "PFCorrection", "StateModel", "ExogenousModel"]
KINDS = ["kf", "ukf", "sis", "gpf"]


def load_translator():
    tools = str(vlib.VERIF / "tools")
    if tools not in sys.path:
        sys.path.insert(0, tools)
    return importlib.import_module("racetable")


def regenerate(ctx):
    """stage 0; returns (facts, changed)"""
    rt = load_translator()
    t0 = time.time()
    try:
        facts = rt.gather(str(vlib.REPO), cache_dir=str(vlib.BUILD / "racetable"))
    except Exception as e:            # clang could not parse a translation unit, missing tool …
        raise vlib.BuildError("translator tools/racetable.py failed: %s" % str(e)[-2500:])
    roots = rt.role_roots(vlib.LEAN / "BFL" / "Model" / "Race.lean")
    rt.apply_entry_locks(facts, roots)
    disc = rt.discipline(facts, roots)
    facts["discipline"] = disc
    facts["token_oracle_missing"] = rt.token_oracle(facts, str(vlib.REPO))
    facts["advisory_extended_role"] = rt.advisory_extended_role(facts, roots)
    txt = rt.emit_lean(facts, disc)
    out = vlib.LEAN / "BFL" / "Gen" / "RaceTable.lean"
    changed = (not out.exists()) or out.read_text() != txt
    if changed:
        with vlib.lean_locked():
            tmp = out.with_suffix(".lean.tmp%d" % os.getpid())
            tmp.write_text(txt)
            os.replace(tmp, out)
    ctx.notes.append("translator: %d fields, %d functions, %d accesses, %d call edges from %d translation units in %.1fs (table %s)" % (
        len(facts["fields"]), len(facts["methods"]), len(facts["accesses"]), len(facts["calls"]),
        len(facts.get("translation_units", [])), time.time() - t0, "rewritten" if changed else "unchanged"))
    return facts, changed


# ----------------------------------------------------------------------------- ThreadSanitizer reports

ACC_RE = re.compile(r"^\s+(Previous )?(atomic )?(write|read) of size (\d+) at (0x[0-9a-f]+) by (main thread|thread T\d+)", re.I)
FRAME_RE = re.compile(r"^\s+#(\d+) (.*) \(([^()]*)\)\s*$")


def parse_frame(line):
    m = FRAME_RE.match(line)
    if not m:
        return None
    body = m.group(2)
    func, _, pos = body.rpartition(" ")
    file, line_no = pos, 0
    mm = re.match(r"^(.*?):(\d+)(?::\d+)?$", pos)
    if mm:
        file, line_no = mm.group(1), int(mm.group(2))
    return {"func": func, "file": file, "line": line_no}


def parse_tsan(stderr):
    """-> list of reports {kind, accesses:[{what, size, addr, thread, frames}], text}"""
    reports = []
    blocks = re.split(r"^={18,}\s*$", stderr, flags=re.M)
    for b in blocks:
        m = re.search(r"WARNING: ThreadSanitizer: ([^\n(]+)", b)
        if not m:
            continue
        rep = {"kind": m.group(1).strip(), "accesses": [], "text": b.strip()[:6000]}
        cur = None
        for ln in b.split("\n"):
            a = ACC_RE.match(ln)
            if a:
                cur = {"what": ("previous " if a.group(1) else "") + ("atomic " if a.group(2) else "") + a.group(3).lower(),
                       "size": int(a.group(4)), "addr": a.group(5), "thread": a.group(6), "frames": []}
                rep["accesses"].append(cur)
                continue
            if cur is not None:
                f = parse_frame(ln)
                if f:
                    cur["frames"].append(f)
                elif not ln.strip():
                    cur = None
        reports.append(rep)
    return reports


def attribute(rep, facts, repo):
    """member(s) a data-race report is about: rows of the table at the first repository frame of each
    of the two stacks.  -> (set of field ids, list of (relfile, line, func) used, all_in_repo)"""
    F, A = facts["fields"], facts["accesses"]
    by_pos = {}
    for a in A:
        by_pos.setdefault((a["file"], a["line"]), set()).add(a["field"])
    prefix = str(repo).rstrip("/") + "/"
    cands, used = [], []
    for acc in rep["accesses"][:2]:
        got = None
        for fr in acc["frames"]:
            if fr["file"].startswith(prefix + "src/"):
                rel = fr["file"][len(prefix):]
                got = (rel, fr["line"], fr["func"][:120])
                break
        used.append(got)
        if got is not None:
            cands.append(by_pos.get((got[0], got[1]), set()))
        else:
            cands.append(None)
    sets = [c for c in cands if c]
    if not sets:
        return set(), used
    inter = set.intersection(*sets) if len(sets) > 1 else sets[0]
    # the racing accesses have the same size and address: prefer the intersection
    return (inter if inter else set.union(*sets)), used


def run_tsan_case(binary, line, timeout=120):
    """one harness process per case; a case line ending in the token LOG gets a fresh log directory under the
    build directory (removed afterwards) so that the filter's Logger is enabled"""
    logdir, orig = None, line
    if line.split()[-1] == "LOG":
        logdir = vlib.BUILD / "tsan" / "logs" / ("c10-logs-%d-%d" % (os.getpid(), int(time.time() * 1e6) % 10 ** 9))
        logdir.mkdir(parents=True, exist_ok=True)
        line = " ".join(line.split()[:-1] + [str(logdir)])
    try:
        res = _run_tsan_case(binary, line, timeout)
        res["line"] = orig
        if logdir is not None:
            res["cmd"] = "mkdir -p %s && %s" % (logdir, res["cmd"])
        return res
    finally:
        if logdir is not None:
            shutil.rmtree(logdir, ignore_errors=True)


def _run_tsan_case(binary, line, timeout):
    env = dict(os.environ)
    env["TSAN_OPTIONS"] = "halt_on_error=0 exitcode=0 second_deadlock_stack=1 history_size=4"
    t0 = time.time()
    try:
        p = subprocess.run([str(binary)], input=line + "\n", stdout=subprocess.PIPE, stderr=subprocess.PIPE, text=True, timeout=timeout, env=env)
        out, err, rc = p.stdout.strip(), p.stderr, p.returncode
    except subprocess.TimeoutExpired as e:
        out, err, rc = "timeout", (e.stderr.decode() if isinstance(e.stderr, bytes) else (e.stderr or "")), -1
    return {"line": line, "out": out, "rc": rc, "stderr": err, "wall": time.time() - t0,
            "cmd": "echo '%s' | TSAN_OPTIONS='%s' %s" % (line, env["TSAN_OPTIONS"], binary)}


# ----------------------------------------------------------------------------- the check

def key_of(name):
    cls, _, mem = name.partition("::")
    if mem == "skip_" and cls in SKIP_FLAG_CLASSES:
        return "skip-flag:" + name
    return "undisciplined:" + name


def driver_verdicts(ctx, facts):
    """verdicts from the Lean definitions (compiled driver, table passed on the case line); the summary
    (roots, reach sets, shared and undisciplined members, spawn sites) is compared with the translator's
    own evaluation, i.e. with the claims written into the generated file.
    -> (verdicts{name: dict}, source, problems)"""
    rt = load_translator()
    disc = facts["discipline"]
    mirror = {v["name"]: v for v in disc["verdicts"]}
    rc, log = vlib.lean_build(["bfl_driver"])
    if rc != 0:
        ctx.notes.append("lean driver does not build; verdicts taken from the translator's mirror: " + log[-600:])
        return {n: {"ok": v["ok"], "kind": v["kind"]} for n, v in mirror.items()}, "translator-mirror", ["driver-build-failed"]
    enc = rt.encode_table(facts)
    out = vlib.run_driver(["c10 verdicts " + enc, "c10 summary " + enc])
    verdicts, problems = {}, []
    toks = out[0].split()
    if toks[:1] != ["ok"]:
        raise vlib.BuildError("driver c10 verdicts: " + out[0][:200])
    for t in toks[1:]:
        p = t.split("|")
        v = {"kind": p[1], "ok": p[2] == "ok"}
        if not v["ok"]:
            v["witness"] = {"controller": {"fn": p[3], "line": int(p[4]), "acc": p[5]}, "filter": {"fn": p[6], "line": int(p[7]), "acc": p[8]}}
        verdicts[p[0]] = v
    st = out[1].split()
    if st[:1] != ["ok"]:
        raise vlib.BuildError("driver c10 summary: " + out[1][:200])
    sec, cur = {}, None
    for t in st[3:]:
        if t in ("R", "C", "F", "S", "U", "P", "J", "M", "H"):
            cur = t if t != "R" else ("R2" if "R1" in sec else "R1")
            sec[cur] = []
        else:
            sec[cur].append(t)
    want = {"R1": [str(i) for i in disc["roots"]["controller"]], "R2": [str(i) for i in disc["roots"]["filter"]],
            "C": [str(sum(1 << i for i in disc["reach"]["controller"]))], "F": [str(sum(1 << i for i in disc["reach"]["filter"]))],
            "S": [str(i) for i in disc["shared"]], "U": [str(v["field"]) for v in disc["verdicts"] if not v["ok"]]}
    for k, w in want.items():
        if sec.get(k, []) != w:
            problems.append("Lean definitions and translator's evaluation differ on %s: lean=%s translator=%s" % (
                {"R1": "controller roots", "R2": "filter roots", "C": "controller reach", "F": "filter reach", "S": "shared members", "U": "undisciplined members"}[k],
                " ".join(sec.get(k, []))[:200], " ".join(w)[:200]))
    if st[1] != "1":
        problems.append("an entry point of the role map does not exist in the table")
    if st[2] != "1":
        problems.append("the table refers to ids that do not exist (Table.wfB)")
    if sec.get("P", []) != ["FilteringAlgorithm::boot/FilteringAlgorithm::filtering_recursion"]:
        problems.append("thread creation in the library is not exactly boot() -> filtering_recursion: %s" % sec.get("P"))
    if sec.get("J", []) != ["1" if disc["join_certified"] else "0"]:
        problems.append("Lean definition and translator's evaluation differ on the join certification: lean=%s translator=%s" % (sec.get("J"), disc["join_certified"]))
    # thread confinement of the user's model objects, evaluated independently from the translator's facts
    F_, reachC, reachF = facts["fields"], set(disc["reach"]["controller"]), set(disc["reach"]["filter"])
    mids = [i for i, f in enumerate(F_) if f["cls"] == "user" and f["name"] in ("measurement_model_state", "likelihood_model_state", "initialization_state")]
    rowsC = {a["field"] for a in facts["accesses"] if a["meth"] in reachC}
    rowsF = {a["field"] for a in facts["accesses"] if a["meth"] in reachF}
    confined = len(mids) == 3 and all(i not in rowsC and i in rowsF for i in mids)
    facts["model_confined"] = {"fields": [F_[i]["name"] for i in mids], "confined": confined,
                               "controller_rows": sorted(F_[i]["name"] for i in mids if i in rowsC)}
    hids = [i for i, f in enumerate(F_) if f["cls"] == "user" and f["name"] == "hook_state"]
    hconf = len(hids) == 1 and all(i not in rowsC and i in rowsF for i in hids)
    facts["hooks_confined"] = hconf
    if sec.get("H", []) != ["1" if hconf else "0"]:
        problems.append("Lean definition and translator's evaluation differ on the confinement of the filter's hooks: lean=%s translator=%s" % (sec.get("H"), hconf))
    if sec.get("M", []) != ["1" if confined else "0"]:
        problems.append("Lean definition and translator's evaluation differ on the confinement of the model objects: lean=%s translator=%s" % (sec.get("M"), confined))
    if set(verdicts) != set(mirror) or any(verdicts[n]["ok"] != mirror[n]["ok"] for n in verdicts if n in mirror):
        problems.append("translator's evaluation and Lean's evaluation of the discipline differ: lean=%s mirror=%s" % (
            sorted(n for n, v in verdicts.items() if not v["ok"]), sorted(n for n, v in mirror.items() if not v["ok"])))
    return verdicts, "lean-driver", problems


def confinement_facts(ctx, facts):
    """BFL/Props/C10Confine.lean (table_model_confined, table_hooks_confined on the regenerated table) is built
    separately; with the translator's own evaluation: which command reaches which user interface."""
    rc, log = vlib.lean_build(["BFL.Props.C10Confine"])
    F_, M_, disc = facts["fields"], facts["methods"], facts["discipline"]
    pseudo = {i: f["name"] for i, f in enumerate(F_) if f["cls"] == "user"}
    reachC = set(disc["reach"]["controller"])
    succ = {}
    for c in facts["calls"]:
        if c.get("kind") in ("direct", "virtual", "virt", "ref"):
            succ.setdefault(c["caller"], set()).add(c["callee"])
    def reach_from(root):
        seen, todo = {root}, [root]
        while todo:
            x = todo.pop()
            for y in succ.get(x, ()):
                if y not in seen:
                    seen.add(y); todo.append(y)
        return seen
    per_root = {r: reach_from(r) for r in disc["roots"]["controller"]}
    reached = []
    for a in facts["accesses"]:
        if a["field"] in pseudo and a["meth"] in reachC:
            cmds = sorted(M_[r]["qual"] for r, s_ in per_root.items() if a["meth"] in s_)
            reached.append({"interface": pseudo[a["field"]], "call_in": M_[a["meth"]]["qual"], "line": a["line"],
                            "locks_held": [F_[l]["cls"] + "::" + F_[l]["name"] for l in a["locks"]], "commands": cmds})
    guarded = facts.get("guarded_model_calls", [])
    if guarded:
        ctx.notes.append("guarded model calls (not an alarm; ThreadSanitizer decides): a command calls a user model interface under a mutex of the "
                         "calling object; the table cannot establish that the filtering thread's calls take the same mutex (one pseudo-member per "
                         "interface for all owner classes): %s" % "; ".join("%s in %s:%d under %s" % (g["interface"], g["function"], g["line"], g["locks"]) for g in guarded[:6]))
    gcalls = facts.get("guarded_calls", [])
    if gcalls:
        ctx.notes.append("guarded calls (not an alarm; ThreadSanitizer decides): a command-reachable function calls into another object while holding a mutex "
                         "of its own object; the same-object lockset discipline cannot credit that lock to the callee's members: %s"
                         % "; ".join("%s -> %s under %s" % (g["caller"], g["callee"], g["locks"]) for g in gcalls[:6]))
    lost = bool(reached) or bool(guarded) or bool(gcalls) or rc != 0
    info = {"confinement_lost": lost, "lean_facts_hold": rc == 0, "reached": reached[:20], "guarded_model_calls": guarded[:20], "guarded_calls": gcalls[:30],
            "model": facts.get("model_confined"), "hooks": facts.get("hooks_confined"),
            "note": "confinement of the user's model objects / filter hooks to the filtering thread is stronger than the property; "
                    "recorded only — the lockset discipline over the pseudo-members decides"}
    if lost:
        ctx.notes.append("confinement lost (not an alarm): %s" % ("; ".join("%s reaches %s in %s (line %d, locks %s)" % (
            ",".join(x["commands"]) or "?", x["interface"], x["call_in"], x["line"], x["locks_held"] or "none") for x in reached[:6]) or log[-300:]))
    return info


def tsan_cases(ctx):
    cases = []
    corpus = vlib.VERIF / "corpus" / "C10" / "cases.txt"
    if corpus.exists():
        cases += [ln.strip() for ln in corpus.read_text().split("\n") if ln.strip() and not ln.startswith("#")]
    g = ctx.gen("tsan")
    nseeds = ctx.n(1, 10)
    for i in range(nseeds):
        for kind in KINDS:
            seed = g.r.randint(1, 10 ** 6)
            rounds = ctx.n(3, g.r.choice([2, 3, 5]))
            pause = g.r.choice([0, 50, 100, 300]) if not ctx.quick() else g.r.choice([50, 100])
            cases.append("race %s %d %d %d %s" % (kind, seed, rounds, pause, "LOG" if (ctx.quick() or g.r.random() < 0.7) else "-"))
    # the owner's view after wait(): booted-but-never-run and rebooted filters, read results / destroy at once
    for kind in (("kf", "sis") if ctx.quick() else KINDS):
        for phase in ("neverrun", "rebooted"):
            for action in ("read", "destroy"):
                cases.append("afterwait %s %d %s %s" % (kind, g.r.randint(1, 10 ** 6), phase, action))
    for kind in ("kf", "sis"):
        for _ in range(ctx.n(1, 3)):
            cases.append("initfail %s %d" % (kind, g.r.randint(1, 10 ** 6)))     # failing, slow initialisation vs commands
    # every command while the filtering thread leaves its recursion for good / after it has ended, before the join
    for kind in (("kf", "sis") if ctx.quick() else KINDS):
        for mode in ("teardown", "expire"):
            for _ in range(ctx.n(1, 3)):
                cases.append("exit %s %d %s" % (kind, g.r.randint(1, 10 ** 6), mode))
    if not ctx.quick():
        cases.append("extlog kf %d LOG" % g.r.randint(1, 10 ** 6))      # advisory: logging reconfigured while stepping
        cases.append("extlog sis %d LOG" % g.r.randint(1, 10 ** 6))
    return cases


def replay(ctx, facts, verdicts):
    """python3 check.py C10 --replay <file>: re-run the recorded harness line and look for the recorded
    member in ThreadSanitizer's reports (a data race is schedule dependent: several attempts)."""
    data = json.loads(open(ctx.replay).read())
    key, rp = data.get("key", ""), data.get("replay", {})
    name = key.split(":", 1)[1] if ":" in key else key
    F = facts["fields"]
    line = rp.get("input_line")
    if not line:
        v = verdicts.get(name)
        print("# replay %s: no recorded harness input; table verdict now: %s" % (key, "absent/unshared" if v is None else ("disciplined" if v["ok"] else "undisciplined")))
        if v is not None and not v["ok"]:
            ctx.violation(key, data.get("what", key), {"table_verdict": v}, no_input=True)
        return
    binary = vlib.build_harness("h_race", "tsan")
    for attempt in range(5):
        r = run_tsan_case(binary, line)
        for rep in parse_tsan(r["stderr"]):
            if rep["kind"] != "data race":
                continue
            fields, used = attribute(rep, facts, vlib.REPO)
            names = {F[f]["cls"] + "::" + F[f]["name"] for f in fields}
            where = {"%s:%d" % (u[0], u[1]) for u in used if u}
            if name in names or name in where or not name:
                print("# replay %s: reproduced at attempt %d" % (key, attempt + 1))
                ctx.violation(key, data.get("what", key), {"harness": "h_race (tsan build)", "command": r["cmd"], "input_line": line, "tsan_report": rep["text"][:5000]})
                return
    print("# replay %s: not reproduced in 5 attempts of: %s" % (key, line))


def run(ctx):
    facts, changed = regenerate(ctx)
    F = facts["fields"]
    fname = lambda f: F[f]["cls"] + "::" + F[f]["name"]
    ctx.proof_stage()
    verdicts, vsource, problems = driver_verdicts(ctx, facts)
    # confinement (stronger than the property): evaluated outside the deciding build path, recorded, never an alarm
    confinement = confinement_facts(ctx, facts)
    undisciplined = sorted(n for n, v in verdicts.items() if not v["ok"])
    disciplined_shared = sorted(n for n, v in verdicts.items() if v["ok"])
    if ctx.replay:
        return replay(ctx, facts, verdicts)
    if not ctx.quick():
        bad = vlib.leanchecker(["BFL.Props.C10", "BFL.Gen.RaceTable"])
        for mod, log in bad:
            ctx.violation("leanchecker:" + mod, "leanchecker rejects the compiled module %s: %s" % (mod, log[-300:]), {"module": mod, "log": log}, no_input=True)
        ctx.notes.append("leanchecker re-checked BFL.Props.C10 and BFL.Gen.RaceTable: %s" % ("ok" if not bad else "FAILED"))
    for mo in facts["token_oracle_missing"][:5]:
        ctx.violation("correspondence:translator-missed-access:%s:%s" % (mo["function"], mo["member"]),
                      "the source text of %s (%s:%d) mentions member %s but the table has no access row for it (translator incomplete)" % (
                          mo["function"], mo["file"], mo["line"], mo["member"]), mo, no_input=True)
    missing = facts["discipline"]["missing_roots"]
    if any(missing.values()):
        problems.append("entry points of the role map not found in the source: %s" % missing)

    # ---- tie: ThreadSanitizer
    binary = vlib.build_harness("h_race", "tsan")
    cases = tsan_cases(ctx)
    runs, timeouts = [], 0
    observed = {}          # member name -> list of (case index, report)
    unpredicted = []       # (key, what, case, report)
    other_warnings = {}
    afterwait_reports = []
    foreign_model = []
    foreign_hook = []
    advisory_observed = set()
    for ci, line in enumerate(cases):
        r = run_tsan_case(binary, line, timeout=ctx.n(60, 240))
        reps = parse_tsan(r["stderr"])
        r["reports"] = len(reps)
        runs.append(r)
        if (r["out"] == "timeout" or not r["out"].startswith("ok")) and not line.startswith("extlog"):
            timeouts += 1
            ctx.notes.append("run did not complete: %s -> %s" % (line, r["out"][:80]))
        mfc = re.search(r"foreign_model_calls=(\d+)", r["out"])
        if mfc and int(mfc.group(1)) > 0 and not line.startswith("extlog"):
            # direct observation (no race detector needed): a controller command executed a virtual function of one of the
            # harness's model objects (measurement / likelihood / state / exogenous / initialisation model = user code that
            # belongs to the filtering thread) on the controller thread
            foreign_model.append((r, int(mfc.group(1))))
        hfc = re.search(r"foreign_hook_calls=(\d+)", r["out"])
        if hfc and int(hfc.group(1)) > 0 and not line.startswith("extlog"):
            foreign_hook.append((r, int(hfc.group(1))))
        if line.startswith("extlog"):
            # advisory case (enable_log / disable_log are not commands of the property): compare with the advisory
            # prediction, never a violation
            for rep in reps:
                if rep["kind"] == "data race":
                    fields, used = attribute(rep, facts, vlib.REPO)
                    for f in fields:
                        advisory_observed.add(fname(f))
            continue
        for rep in reps:
            if line.startswith("afterwait") and rep["kind"] in ("data race", "heap-use-after-free"):
                afterwait_reports.append((r, rep))
            if rep["kind"] != "data race":
                other_warnings[rep["kind"]] = other_warnings.get(rep["kind"], 0) + 1
                continue
            if line.startswith("afterwait") and facts["discipline"]["handle_problems"]:
                continue      # consequence of the lost join: reported once, under the thread-handle key
            fields, used = attribute(rep, facts, vlib.REPO)
            in_repo = [u for u in used if u]
            if not fields:
                where = ("%s:%d" % (in_repo[0][0], in_repo[0][1])) if in_repo else "outside-the-repository"
                unpredicted.append(("tsan-unlisted:" + where,
                                    "ThreadSanitizer reports a data race at %s, where the table lists no member access (translator missed an access?)" % where, r, rep))
                continue
            for f in sorted(fields):
                n = fname(f)
                if n in undisciplined:
                    observed.setdefault(n, []).append((ci, rep))
                elif n in verdicts:
                    unpredicted.append(("tsan-unpredicted:" + n, "ThreadSanitizer reports a data race on %s, which the table calls disciplined" % n, r, rep))
                else:
                    unpredicted.append(("tsan-unshared:" + n, "ThreadSanitizer reports a data race on %s, which the table does not list as touched by both threads (role map / call graph incomplete?)" % n, r, rep))

    # ---- decision
    for n in undisciplined:
        v = verdicts[n]
        w = v.get("witness")
        what = "%s (%s) is accessed by both threads without synchronisation" % (n, v["kind"])
        if w:
            what += ": %s by %s (line %d) on the controller thread, %s by %s (line %d) on the filtering thread; not atomic, no common mutex" % (
                {"r": "read", "w": "written", "rw": "read-modified-written"}[w["controller"]["acc"]], w["controller"]["fn"], w["controller"]["line"],
                {"r": "read", "w": "written", "rw": "read-modified-written"}[w["filter"]["acc"]], w["filter"]["fn"], w["filter"]["line"])
        if n in observed:
            ci, rep = observed[n][0]
            ctx.violation(key_of(n), what + " — data race observed by ThreadSanitizer", {
                "harness": "h_race (tsan build)", "command": runs[ci]["cmd"], "input_line": runs[ci]["line"],
                "table_verdict": v, "tsan_report": rep["text"][:5000], "observed_in_runs": len({c for c, _ in observed[n]}), "runs": len(runs)})
        elif n.startswith("user::") and (foreign_hook if n == "user::hook_state" else foreign_model):
            r_, cnt = min((foreign_hook if n == "user::hook_state" else foreign_model), key=lambda x: len(x[0]["line"]))
            ctx.violation(key_of(n), what + " — the controller thread was observed executing such a call (%d call(s)) in `%s`" % (cnt, r_["line"]), {
                "harness": "h_race (tsan build)", "command": r_["cmd"], "input_line": r_["line"], "table_verdict": v,
                "observed": r_["out"][-300:], "observation": "calls of the interface counted on the controller thread by the harness's own model objects / hooks"})
        else:
            ctx.violation(key_of(n), what + " — no ThreadSanitizer replay found in %d runs" % len(runs),
                          {"table_verdict": v, "runs": [r["line"] for r in runs]}, no_input=True)
    for hp in facts["discipline"]["handle_problems"]:
        if afterwait_reports:
            r, rep = afterwait_reports[0]
            ctx.violation("thread-handle:" + hp["key"], hp["what"] + " — after wait() the owner races with the still running filtering thread (ThreadSanitizer)", {
                "harness": "h_race (tsan build)", "command": r["cmd"], "input_line": r["line"], "tsan_report": rep["text"][:5000],
                "observed_in_runs": len({id(x[0]) for x in afterwait_reports})})
        else:
            ctx.violation("thread-handle:" + hp["key"], hp["what"] + " — no ThreadSanitizer replay found", {"problem": hp}, no_input=True)
    seen = set()
    for key, what, r, rep in unpredicted:
        if key in seen:
            continue
        seen.add(key)
        ctx.violation(key, what, {"harness": "h_race (tsan build)", "command": r["cmd"], "input_line": r["line"], "tsan_report": rep["text"][:5000]})
    # Direct observations (a model object's virtual function / a filter hook executed on the controller thread) are
    # NOT alarms by themselves: the harness cannot tell whether the command holds a mutex that the filtering thread
    # also takes around its own calls (that would be race-free).  They are notes; the alarm comes from the lockset
    # discipline over the pseudo-members (above, with the observing run as failing input) and from ThreadSanitizer.
    for kind_, lst in (("model object (measurement / likelihood / state / exogenous / initialisation model)", foreign_model),
                       ("filter hook (initialization_step / filtering_step / run_condition / log)", foreign_hook)):
        if lst:
            r, n = min(lst, key=lambda x: len(x[0]["line"]))
            ctx.notes.append("observation (not an alarm): a command executed a virtual function of a %s on the controller thread: "
                             "%d call(s) in `%s`, %d run(s)" % (kind_, n, r["line"], len(lst)))
    for p in problems:
        ctx.violation("correspondence:translator-vs-lean", p, {"problem": p}, no_input=True)

    # ---- evidence
    hist = {}
    for r in runs:
        if r["line"].startswith("initfail"):
            hist["initfail"] = hist.get("initfail", 0) + 1
            continue
        if r["line"].startswith("exit"):
            hist["exit " + r["line"].split()[3]] = hist.get("exit " + r["line"].split()[3], 0) + 1
            continue
        if r["line"].startswith("extlog"):
            hist["extlog (advisory)"] = hist.get("extlog (advisory)", 0) + 1
            continue
        if r["line"].startswith("afterwait"):
            hist["afterwait " + " ".join(r["line"].split()[3:5])] = hist.get("afterwait " + " ".join(r["line"].split()[3:5]), 0) + 1
            continue
        for tok in r["out"].split()[1:]:
            k, _, v = tok.partition("=")
            if k in ("steps", "cmds", "logging", "kind", "mode"):
                continue
            if "/" in v:
                a, b = v.split("/")
                hist[k + " accepted"] = hist.get(k + " accepted", 0) + int(a)
                hist[k + " rejected"] = hist.get(k + " rejected", 0) + int(b)
            elif v.isdigit():
                hist[k] = hist.get(k, 0) + int(v)
    steps = sum(int(m.group(1)) for r in runs for m in [re.search(r"steps=(\d+)", r["out"])] if m)
    cmds = sum(int(m.group(1)) for r in runs for m in [re.search(r"cmds=(\d+)", r["out"])] if m)
    per_loc = {n: "%d/%d" % (len({c for c, _ in observed.get(n, [])}), len(runs)) for n in undisciplined}
    ctx.coverage.update({
        "evaluations": len(verdicts) + len(runs),
        "distinct_nontrivial": len(verdicts) + len({r["line"] for r in runs if r["out"].startswith("ok")}),
        "rule": "one verdict per data member touched by both roles (decided exhaustively over the regenerated table by the kernel) + "
                "one ThreadSanitizer run per (filter kind, seed): controller command sequence (run, reset, reboot, step_number, is_running, "
                "skip of every name on/off, teardown) against a running kf / ukf / sis / gpf filter; non-trivial = run completed with the filter stepping",
        "samples": [r["line"] + " -> " + r["out"] for r in runs[:2]] + ["%s: %s" % (n, "ok" if v["ok"] else "undisciplined") for n, v in list(verdicts.items())[:3]],
        "exhaustive": True,
        "exhaustive_over": "all %d data members, %d functions, %d access rows, %d call edges of the library; %d members shared between the roles" % (
            len(F), len(facts["methods"]), len(facts["accesses"]), len(facts["calls"]), len(verdicts)),
        "traces_validated_against_impl": len(runs),
        "table": {"fields": len(F), "functions": len(facts["methods"]), "accesses": len(facts["accesses"]), "calls": len(facts["calls"]),
                  "reach_controller": len(facts["discipline"]["reach"]["controller"]), "reach_filter": len(facts["discipline"]["reach"]["filter"]),
                  "field_kinds": {k: sum(1 for f in F if f["kind"] == k) for k in ("atomic", "plain", "mutex", "condvar", "other")}},
        "verdict_source": vsource,
        "advisory_extended_role": {
            "entry_points_not_in_the_role_map": ["Logger::enable_log", "Logger::disable_log", "Logger::get_folder_path", "Logger::get_file_name_prefix"],
            "why": "configuration of the logger, not one of the control / query commands the property names; get_folder_path / get_file_name_prefix are exercised by the harness anyway (read-only after enable_log, must stay silent)",
            "members_that_would_be_undisciplined": facts["advisory_extended_role"],
            "observed_by_tsan_in_extlog_cases": sorted(advisory_observed)},
        "closures_resolved": [m["qual"] for m in facts["methods"] if "$closure" in m["qual"]],
        "functions_handing_out_references": sum(1 for m in facts["methods"] if m.get("escapes")),
        "join_certified": facts["discipline"]["join_certified"],
        "thread_handle_operations": ["%s: %s (line %d)" % (facts["methods"][t["meth"]]["qual"], t["op"], t["line"]) for t in facts.get("thread_ops", [])],
        "confinement": confinement, "confinement_lost": confinement["confinement_lost"],
        "model_objects_confined_to_filtering_thread": facts.get("model_confined"),
        "runs_with_model_calls_on_controller_thread": len(foreign_model),
        "filter_hooks_confined_to_filtering_thread": facts.get("hooks_confined"),
        "runs_with_hook_calls_on_controller_thread": len(foreign_hook),
        "afterwait_runs": sum(1 for r in runs if r["line"].startswith("afterwait")), "afterwait_reports": len(afterwait_reports),
        "translator_cross_check": {"rule": "every identifier naming a data member (…_) inside the source extent of a member function has a table row",
                                   "functions_scanned": sum(1 for m in facts["methods"] if m["body"] and m.get("end_line")),
                                   "missing_rows": len(facts["token_oracle_missing"])},
        "entry_locksets": facts.get("entry_locks", {}),
        "shared_members_disciplined": disciplined_shared, "shared_members_undisciplined": undisciplined,
        "tsan": {"runs": len(runs), "filter_steps": steps, "commands_issued": cmds, "command_histogram": hist, "runs_by_kind": {k: sum(1 for r in runs if (" %s " % k) in r["line"]) for k in KINDS},
                 "reports": sum(r["reports"] for r in runs), "undisciplined_observed_in_runs": per_loc,
                 "unpredicted_reports": len(unpredicted), "other_warnings": other_warnings, "runs_timed_out_or_failed": timeouts,
                 "wall_s": round(sum(r["wall"] for r in runs), 2)},
        "trusted_base": [
            "Lean 4.33.0 kernel; axioms propext / Classical.choice / Quot.sound only (audited per theorem on this run)",
            "reduction of the C++ memory model to SC interleavings with mutex/atomic/create/join synchronisation; data race in adjacency form",
            "the translator tools/racetable.py (clang-14 AST -> table) and the hand-written role map; syntactic lock recognition",
            "ThreadSanitizer (gcc 12 libtsan) as the dynamic oracle of the correspondence; g++/libstdc++"],
    })
    ctx.assumptions += [
        "single controller thread (the property's quantifier); constructors/destructors run outside the concurrent phase",
        "TSan is dynamic: a predicted race not observed in a run is reported as 'no replay found', never as a pass of the location"]
    if timeouts:
        ctx.notes.append("%d ThreadSanitizer run(s) timed out or failed (a hang is C09's subject, not a data race)" % timeouts)
