// Correspondence harness for C01 / C02: the real KFPrediction and KFCorrection.
#include "common.hpp"
#include <BayesFilters/KFPrediction.h>
#include <BayesFilters/KFCorrection.h>
#include <BayesFilters/LTIStateModel.h>
#include <BayesFilters/LTIMeasurementModel.h>
#include <BayesFilters/ExogenousModel.h>
#include <BayesFilters/GaussianMixture.h>
#include <BayesFilters/utils.h>
#include <BayesFilters/GaussianFilter.h>

using namespace bfl;
using namespace Eigen;
using vh::Toks; using vh::Out;

// x' = F x + w with the library's LTI state model; description supplied here.
struct HState : public LTIStateModel {
    HState(const MatrixXd& F, const MatrixXd& Q) : LTIStateModel(F, Q), n_(F.rows()) {}
    VectorDescription getStateDescription() override { return VectorDescription(n_); }
    std::size_t n_;
};

// u(x) = G x + g, column-wise
struct HExo : public ExogenousModel {
    HExo(const MatrixXd& G, const VectorXd& g) : G_(G), g_(g) {}
    void propagate(const Ref<const MatrixXd>& cur, Ref<MatrixXd> prop) override { prop = (G_ * cur).colwise() + g_; }
    bool setProperty(const std::string&) override { return false; }
    VectorDescription getStateDescription() const override { return VectorDescription(g_.size()); }
    MatrixXd G_; VectorXd g_;
};

struct HMeas : public LTIMeasurementModel {
    HMeas(const MatrixXd& H, const MatrixXd& R, const VectorXd& y) : LTIMeasurementModel(H, R), y_(y) {}
    bool freeze(const Data& d) override { if (d.has_value()) y_ = any::any_cast<VectorXd>(d); return true; }
    std::pair<bool, Data> measure(const Data&) const override { MatrixXd y = y_; return std::make_pair(true, Data(y)); }
    VectorDescription getInputDescription() const override { return VectorDescription(H_.cols(), 0, R_.rows()); }
    VectorDescription getMeasurementDescription() const override { return VectorDescription(H_.rows()); }
    VectorXd y_;
};

static void fillGM(Toks& t, GaussianMixture& g, long n, long k) {
    g.mean() = t.mat(n, k);
    g.covariance() = t.mat(n, n * k);
}

// weights of the belief passed in (the properties quantify over every belief: the update of a component
// may not depend on its weight): 0 default (uniform), 1 first exactly 0, 2 last exactly 0, 3 all exactly 0,
// 4 un-normalised 1,2,3,.., 5 tiny (1e-300) except the first, 6 one negative, 7 first one 1 and the rest 0
static void setInW(GaussianMixture& g, long mode) {
    long k = g.components;
    if (mode == 0) return;
    if (mode < 0 || mode > 7) throw vh::BadArgs("wmode");
    for (long i = 0; i < k; ++i) {
        double w = 1.0 / double(k);
        if (mode == 1) w = (i == 0) ? 0.0 : 1.0 / double(k > 1 ? k - 1 : 1);
        if (mode == 2) w = (i == k - 1) ? 0.0 : 1.0 / double(k > 1 ? k - 1 : 1);
        if (mode == 3) w = 0.0;
        if (mode == 4) w = double(i + 1);
        if (mode == 5) w = (i == 0) ? 1.0 : 1e-300;
        if (mode == 6) w = (i == k - 1) ? -0.25 : 1.25 / double(k > 1 ? k - 1 : 1);
        if (mode == 7) w = (i == 0) ? 1.0 : 0.0;
        g.weight()(i) = w;
    }
}

static void outGM(Out& o, const GaussianMixture& g) {
    o.m(g.mean()); o.m(g.covariance()); o.m(g.weight());
}

static std::string kfp(Toks& t) {
    long n = t.nat(), k = t.nat(); bool exo = t.flag();
    MatrixXd F = t.mat(n, n), Q = t.mat(n, n);
    std::unique_ptr<HState> sm(new HState(F, Q));
    if (exo) { MatrixXd G = t.mat(n, n); VectorXd g = t.vec(n); sm->add_exogenous_model(std::unique_ptr<ExogenousModel>(new HExo(G, g))); }
    GaussianMixture prev(k, n), pred(k, n);
    fillGM(t, prev, n, k);
    pred.weight() = t.vec(k);
    t.done();
    // poison the output so that stale entries are visible
    pred.mean().setConstant(12345.0); pred.covariance().setConstant(-54321.0);
    MatrixXd m0 = prev.mean(), c0 = prev.covariance(), w0 = prev.weight();
    KFPrediction p(std::move(sm));
    p.predict(prev, pred);
    bool same = vh::same_bits(m0, prev.mean()) && vh::same_bits(c0, prev.covariance()) && vh::same_bits(w0, prev.weight());
    Out o; o.s("ok"); outGM(o, pred); o.s(same ? "in-same" : "in-modified");
    return o.str();
}

static std::string kfc(Toks& t) {
    long n = t.nat(), m = t.nat(), k = t.nat();
    MatrixXd H = t.mat(m, n), R = t.mat(m, m); VectorXd y = t.vec(m);
    GaussianMixture pred(k, n), corr(k, n);
    fillGM(t, pred, n, k);
    corr.weight() = t.vec(k);
    t.done();
    corr.mean().setConstant(12345.0); corr.covariance().setConstant(-54321.0);
    MatrixXd m0 = pred.mean(), c0 = pred.covariance(), w0 = pred.weight();
    KFCorrection c(std::unique_ptr<LinearMeasurementModel>(new HMeas(H, R, y)));
    c.correct(pred, corr);
    bool same = vh::same_bits(m0, pred.mean()) && vh::same_bits(c0, pred.covariance()) && vh::same_bits(w0, pred.weight());
    bool valid; VectorXd lik;
    std::tie(valid, lik) = c.getLikelihood();
    Out o; o.s("ok"); outGM(o, corr); o.s(same ? "in-same" : "in-modified");
    o.s(valid ? "lik" : "nolik"); if (valid) { o.n(lik.size()); o.m(lik); }
    return o.str();
}

// One KFPrediction object, several predict calls with varying component counts:
//   kfps n exo F Q [G g] ncalls { k means covs outw }*
static std::string kfps(Toks& t) {
    long n = t.nat(); bool exo = t.flag();
    MatrixXd F = t.mat(n, n), Q = t.mat(n, n);
    std::unique_ptr<HState> sm(new HState(F, Q));
    if (exo) { MatrixXd G = t.mat(n, n); VectorXd g = t.vec(n); sm->add_exogenous_model(std::unique_ptr<ExogenousModel>(new HExo(G, g))); }
    KFPrediction p(std::move(sm));
    long calls = t.nat();
    Out o; o.s("ok");
    for (long c = 0; c < calls; ++c) {
        long k = t.nat();
        GaussianMixture prev(k, n), pred(k, n);
        fillGM(t, prev, n, k);
        pred.weight() = t.vec(k);
        pred.mean().setConstant(12345.0); pred.covariance().setConstant(-54321.0);
        MatrixXd m0 = prev.mean(), c0 = prev.covariance(), w0 = prev.weight();
        p.predict(prev, pred);
        bool same = vh::same_bits(m0, prev.mean()) && vh::same_bits(c0, prev.covariance()) && vh::same_bits(w0, prev.weight());
        o.s("call"); outGM(o, pred); o.s(same ? "in-same" : "in-modified");
    }
    t.done();
    return o.str();
}

// One KFCorrection object, several correct calls (new measurement through freeze, varying
// component counts), likelihood queried before the first call and after each call:
//   kfcs n m H R ncalls { k y means covs outw }*
static std::string kfcs(Toks& t) {
    long n = t.nat(), m = t.nat();
    MatrixXd H = t.mat(m, n), R = t.mat(m, m);
    KFCorrection c(std::unique_ptr<LinearMeasurementModel>(new HMeas(H, R, VectorXd::Zero(m))));
    long calls = t.nat();
    Out o; o.s("ok");
    { bool v; VectorXd l; std::tie(v, l) = c.getLikelihood(); o.s(v ? "prelik" : "noprelik"); }
    for (long cc = 0; cc < calls; ++cc) {
        long k = t.nat();
        VectorXd y = t.vec(m);
        GaussianMixture pred(k, n), corr(k, n);
        fillGM(t, pred, n, k);
        corr.weight() = t.vec(k);
        corr.mean().setConstant(12345.0); corr.covariance().setConstant(-54321.0);
        MatrixXd m0 = pred.mean(), c0 = pred.covariance(), w0 = pred.weight();
        c.freeze_measurements(Data(y));
        c.correct(pred, corr);
        bool same = vh::same_bits(m0, pred.mean()) && vh::same_bits(c0, pred.covariance()) && vh::same_bits(w0, pred.weight());
        bool valid; VectorXd lik;
        std::tie(valid, lik) = c.getLikelihood();
        o.s("call"); outGM(o, corr); o.s(same ? "in-same" : "in-modified");
        o.s(valid ? "lik" : "nolik"); if (valid) { o.n(lik.size()); o.m(lik); }
    }
    t.done();
    return o.str();
}

// Time-varying linear models: F, Q (and the exogenous law) resp. H, R may change between calls.
struct VState : public LinearStateModel {
    explicit VState(long n) : n_(n) {}
    MatrixXd getStateTransitionMatrix() override { return F_; }
    MatrixXd getNoiseCovarianceMatrix() override { return Q_; }
    bool setProperty(const std::string&) override { return false; }
    VectorDescription getStateDescription() override { return VectorDescription(n_); }
    long n_; MatrixXd F_, Q_;
};
struct VExo : public ExogenousModel {
    void propagate(const Ref<const MatrixXd>& cur, Ref<MatrixXd> prop) override { prop = (G_ * cur).colwise() + g_; }
    bool setProperty(const std::string&) override { return false; }
    VectorDescription getStateDescription() const override { return VectorDescription(g_.size()); }
    MatrixXd G_; VectorXd g_;
};
struct VMeas : public LinearMeasurementModel {
    bool freeze(const Data&) override { return true; }
    std::pair<bool, Data> measure(const Data&) const override { MatrixXd y = y_; return std::make_pair(available_, Data(y)); }
    bool available_ = true;
    std::pair<bool, MatrixXd> getNoiseCovarianceMatrix() const override { return std::make_pair(true, R_); }
    MatrixXd getMeasurementMatrix() const override { return H_; }
    VectorDescription getInputDescription() const override { return VectorDescription(H_.cols(), 0, R_.rows()); }
    VectorDescription getMeasurementDescription() const override { return VectorDescription(H_.rows()); }
    MatrixXd H_, R_; VectorXd y_;
};

// One KFPrediction over a time-varying model; before each predict() a history of skip commands that
// ends with everything switched off again:
//   kfpv n exo ncalls { hand F Q [G g] nskip {name status}* wmode k means covs outw }*      name: 0 prediction 1 state 2 exogenous
static std::string kfpv(Toks& t) {
    long n = t.nat(); long exo = t.nat();   // 1: exogenous model attached before the KFPrediction is built, 2: afterwards through getStateModel()
    if (exo < 0 || exo > 2) throw vh::BadArgs("exo");
    VState* vs = new VState(n); VExo* ve = nullptr;
    std::unique_ptr<LinearStateModel> sm(vs);
    if (exo) { ve = new VExo; ve->G_ = MatrixXd::Zero(n, n); ve->g_ = VectorXd::Zero(n); }
    if (exo == 1) vs->add_exogenous_model(std::unique_ptr<ExogenousModel>(ve));
    std::unique_ptr<KFPrediction> pp(new KFPrediction(std::move(sm)));
    if (exo == 2) pp->getStateModel().add_exogenous_model(std::unique_ptr<ExogenousModel>(ve));
    long calls = t.nat();
    Out o; o.s("ok");
    static const char* names[3] = {"prediction", "state", "exogenous"};
    for (long c = 0; c < calls; ++c) {
        long hand = t.nat();      // hand the object over before this call: 0 no, 1 move construction, 2 move assignment
        if (hand == 1) { pp.reset(new KFPrediction(std::move(*pp))); }
        if (hand == 2) {
            std::unique_ptr<LinearStateModel> other(new HState(MatrixXd::Identity(n, n) * 7.0, MatrixXd::Identity(n, n) * 9.0));
            std::unique_ptr<KFPrediction> q(new KFPrediction(std::move(other)));
            *q = std::move(*pp);
            pp = std::move(q);
        }
        KFPrediction& p = *pp;
        vs->F_ = t.mat(n, n); vs->Q_ = t.mat(n, n);
        if (exo) { ve->G_ = t.mat(n, n); ve->g_ = t.vec(n); }
        long nskip = t.nat();
        for (long q = 0; q < nskip; ++q) { long nm = t.nat(); bool st = t.flag(); if (nm < 0 || nm > 2) throw vh::BadArgs("skipname"); p.skip(names[nm], st); }
        long wmode = t.nat();
        long k = t.nat();
        GaussianMixture prev(k, n), pred(k, n);
        fillGM(t, prev, n, k);
        setInW(prev, wmode);
        pred.weight() = t.vec(k);
        pred.mean().setConstant(12345.0); pred.covariance().setConstant(-54321.0);
        MatrixXd m0 = prev.mean(), c0 = prev.covariance(), w0 = prev.weight();
        p.predict(prev, pred);
        bool same = vh::same_bits(m0, prev.mean()) && vh::same_bits(c0, prev.covariance()) && vh::same_bits(w0, prev.weight());
        o.s("call"); outGM(o, pred); o.s(same ? "in-same" : "in-modified");
    }
    t.done();
    return o.str();
}

// One KFCorrection over a time-varying model; the likelihood is queried nlik times after each call:
//   kfcv n m ncalls { hand nskip skip* H R y nlik wmode k means covs outw }*
static std::string kfcv(Toks& t) {
    long n = t.nat(), m = t.nat();
    VMeas* vm = new VMeas; vm->H_ = MatrixXd::Zero(m, n); vm->R_ = MatrixXd::Identity(m, m); vm->y_ = VectorXd::Zero(m);
    std::unique_ptr<LinearMeasurementModel> vmp(vm);
    std::unique_ptr<KFCorrection> cp(new KFCorrection(std::move(vmp)));
    long calls = t.nat();
    Out o; o.s("ok");
    { bool v; VectorXd l; std::tie(v, l) = cp->getLikelihood(); o.s(v ? "prelik" : "noprelik"); }
    for (long cc = 0; cc < calls; ++cc) {
        long hand = t.nat();      // 1: the object is move-constructed into a new one before this call
        if (hand == 1) { cp.reset(new KFCorrection(std::move(*cp))); }
        KFCorrection& c = *cp;
        long nskip = t.nat();     // skip(bool) commands; the generator ends every history with skip(false)
        for (long q = 0; q < nskip; ++q) c.skip(t.flag());
        vm->H_ = t.mat(m, n); vm->R_ = t.mat(m, m); vm->y_ = t.vec(m);
        long nlik = t.nat(), wmode = t.nat(), k = t.nat();
        GaussianMixture pred(k, n), corr(k, n);
        fillGM(t, pred, n, k);
        setInW(pred, wmode);
        corr.weight() = t.vec(k);
        corr.mean().setConstant(12345.0); corr.covariance().setConstant(-54321.0);
        MatrixXd m0 = pred.mean(), c0 = pred.covariance(), w0 = pred.weight();
        c.freeze_measurements();
        c.correct(pred, corr);
        bool same = vh::same_bits(m0, pred.mean()) && vh::same_bits(c0, pred.covariance()) && vh::same_bits(w0, pred.weight());
        o.s("call"); outGM(o, corr); o.s(same ? "in-same" : "in-modified");
        // every query must report the same, correct likelihood: the last one is printed in the
        // single-call format, "liksame"/"likdiffer" says whether all queries agreed bit-for-bit
        bool valid = false; VectorXd lik, first; bool agree = true;
        for (long q = 0; q < nlik; ++q) {
            std::tie(valid, lik) = c.getLikelihood();
            if (q == 0) first = lik; else if (!valid || lik.size() != first.size() || !vh::same_bits(lik, first)) agree = false;
        }
        o.s(valid ? "lik" : "nolik"); if (valid) { o.n(lik.size()); o.m(lik); }
        o.s(agree ? "liksame" : "likdiffer");
    }
    t.done();
    return o.str();
}

// ---------------------------------------------------------------------------------------------
// A whole Kalman filter: a real GaussianFilter (KFPrediction + KFCorrection, time-varying models),
// its filtering_step() exactly the one of test/test_KF/main.cpp, driven through a history.
//   kfh|kfht n k exo 0 0 0 0 pred0w corr0(means covs w) nsteps { ncmd {name on}* F Q [G g] hasmeas [m H R y] }*
// exo: 0 none, 1 exogenous model attached to the state model before the KFPrediction is constructed,
// 2 attached afterwards through prediction().getStateModel().add_exogenous_model().
// kfh calls filtering_step() directly, kfht runs boot()/run()/wait() (the library's own recursion).
struct HStepData {
    std::vector<std::pair<long, bool>> cmds;
    MatrixXd F, Q, G; VectorXd g;
    bool hasmeas = false; MatrixXd H, R; VectorXd y;
};

class HFilter : public GaussianFilter {
public:
    HFilter(std::unique_ptr<GaussianPrediction> p, std::unique_ptr<GaussianCorrection> c, const GaussianMixture& pred0, const GaussianMixture& corr0,
            VState* vs, VExo* ve, VMeas* vm, std::vector<HStepData> steps) :
        GaussianFilter(std::move(p), std::move(c)), predicted_state_(pred0), corrected_state_(corr0), vs_(vs), ve_(ve), vm_(vm), steps_(std::move(steps)) {}
    void step_once() { filtering_step(); }
    void attach_late(std::unique_ptr<ExogenousModel> e) { prediction().getStateModel().add_exogenous_model(std::move(e)); }
    Out o;
protected:
    bool run_condition() override { return done_ < steps_.size(); }
    bool initialization_step() override { return true; }
    std::vector<std::string> log_file_names(const std::string&, const std::string&) override { return {}; }
    void filtering_step() override {
        static const char* names[5] = {"prediction", "state", "exogenous", "correction", "all"};
        const HStepData& d = steps_.at(done_);
        for (auto& c : d.cmds) skip(names[c.first], c.second);
        vs_->F_ = d.F; vs_->Q_ = d.Q;
        if (ve_) { ve_->G_ = d.G; ve_->g_ = d.g; }
        vm_->available_ = d.hasmeas;
        if (d.hasmeas) { vm_->H_ = d.H; vm_->R_ = d.R; vm_->y_ = d.y; }
        MatrixXd m0 = corrected_state_.mean(), c0 = corrected_state_.covariance();

        prediction().predict(corrected_state_, predicted_state_);
        correction().freeze_measurements();
        correction().correct(predicted_state_, corrected_state_);

        o.s("step"); outGM(o, predicted_state_); outGM(o, corrected_state_);
        bool valid = false; VectorXd lik;
        std::tie(valid, lik) = correction().getLikelihood();
        o.s(valid ? "lik" : "nolik"); if (valid) { o.n(lik.size()); o.m(lik); }
        ++done_;
    }
private:
    GaussianMixture predicted_state_, corrected_state_;
    VState* vs_; VExo* ve_; VMeas* vm_;
    std::vector<HStepData> steps_;
    std::size_t done_ = 0;
};

static std::string kfh(Toks& t, bool threaded) {
    long n = t.nat(), k = t.nat(), exo = t.nat();
    for (int q = 0; q < 4; ++q) if (t.nat() != 0) throw vh::BadArgs("flags");
    if (exo < 0 || exo > 2) throw vh::BadArgs("exo");
    GaussianMixture pred0(k, n), corr0(k, n);
    pred0.weight() = t.vec(k);
    pred0.mean().setConstant(12345.0); pred0.covariance().setConstant(-54321.0);
    fillGM(t, corr0, n, k);
    corr0.weight() = t.vec(k);
    long nsteps = t.nat();
    std::vector<HStepData> steps;
    for (long s = 0; s < nsteps; ++s) {
        HStepData d;
        long ncmd = t.nat();
        for (long q = 0; q < ncmd; ++q) { long nm = t.nat(); bool on = t.flag(); if (nm < 0 || nm > 4) throw vh::BadArgs("skipname"); d.cmds.push_back({nm, on}); }
        d.F = t.mat(n, n); d.Q = t.mat(n, n);
        if (exo) { d.G = t.mat(n, n); d.g = t.vec(n); }
        d.hasmeas = t.flag();
        if (d.hasmeas) { long m = t.nat(); d.H = t.mat(m, n); d.R = t.mat(m, m); d.y = t.vec(m); }
        steps.push_back(d);
    }
    t.done();
    VState* vs = new VState(n); vs->F_ = MatrixXd::Identity(n, n); vs->Q_ = MatrixXd::Identity(n, n);
    VExo* ve = exo ? new VExo : nullptr;
    if (ve) { ve->G_ = MatrixXd::Zero(n, n); ve->g_ = VectorXd::Zero(n); }
    std::unique_ptr<LinearStateModel> sm(vs);
    if (exo == 1) vs->add_exogenous_model(std::unique_ptr<ExogenousModel>(ve));
    VMeas* vm = new VMeas; vm->H_ = MatrixXd::Zero(1, n); vm->R_ = MatrixXd::Identity(1, 1); vm->y_ = VectorXd::Zero(1);
    std::unique_ptr<GaussianPrediction> pp(new KFPrediction(std::move(sm)));
    std::unique_ptr<GaussianCorrection> cp(new KFCorrection(std::unique_ptr<LinearMeasurementModel>(vm)));
    HFilter f(std::move(pp), std::move(cp), pred0, corr0, vs, ve, vm, steps);
    if (exo == 2) f.attach_late(std::unique_ptr<ExogenousModel>(ve));
    f.o.s("ok");
    if (!threaded) {
        for (long s = 0; s < nsteps; ++s) f.step_once();
    } else {
        if (!f.boot()) return "boot-failed";
        f.run();
        if (!f.wait()) return "wait-failed";
    }
    return f.o.str();
}

// LinearMeasurementModel::predictedMeasure / innovation on a batch (through the base-class interface):
//   lmm n m k H X c Y  -> "ok" predicted innovation
// (MeasurementModelDecorator is not part of the library build and its header does not compile.)
static std::string lmm(Toks& t) {
    long n = t.nat(), m = t.nat(), k = t.nat();
    MatrixXd H = t.mat(m, n), X = t.mat(n, k);
    long c = t.nat();
    MatrixXd Y = t.mat(m, c + 1);
    t.done();
    MatrixXd R = MatrixXd::Identity(m, m);
    HMeas direct(H, R, VectorXd::Zero(m));
    MeasurementModel* mm = &direct;
    bool v1, v2; Data pd, id;
    std::tie(v1, pd) = mm->predictedMeasure(X);
    if (!v1) return "predicted-invalid";
    std::tie(v2, id) = mm->innovation(pd, Data(Y));
    if (!v2) return "innovation-invalid";
    Out o; o.s("ok"); o.m(any::any_cast<MatrixXd>(pd)); o.m(any::any_cast<MatrixXd>(id));
    return o.str();
}

// LTIMeasurementModel constructor checks:  ltictor hr hc rr rc
static std::string ltictor(Toks& t) {
    long hr = t.nat(), hc = t.nat(), rr = t.nat(), rc = t.nat(); t.done();
    MatrixXd H = MatrixXd::Ones(hr, hc), R = MatrixXd::Identity(rr, rc);
    try { HMeas mm(H, R, VectorXd::Zero(hr)); (void)mm; }
    catch (const std::runtime_error& e) {
        std::string w = e.what();
        if (w.find("Measurement matrix dimensions cannot be 0") != std::string::npos) return "throw:meas-empty";
        if (w.find("Noise covariance matrix dimensions cannot be 0") != std::string::npos) return "throw:noise-empty";
        if (w.find("must be a square matrix") != std::string::npos) return "throw:noise-not-square";
        if (w.find("must be the same as the size") != std::string::npos) return "throw:rows-mismatch";
        return "throw:other";
    }
    return "ok";
}

int main() {
    return vh::run([](const std::string& op, Toks& t, std::string& out) {
        if (op == "kfp") { out = kfp(t); return true; }
        if (op == "kfc") { out = kfc(t); return true; }
        if (op == "kfps") { out = kfps(t); return true; }
        if (op == "kfcs") { out = kfcs(t); return true; }
        if (op == "kfpv") { out = kfpv(t); return true; }
        if (op == "kfcv") { out = kfcv(t); return true; }
        if (op == "kfh") { out = kfh(t, false); return true; }
        if (op == "kfht") { out = kfh(t, true); return true; }
        if (op == "lmm") { out = lmm(t); return true; }
        if (op == "ltictor") { out = ltictor(t); return true; }
        return false;
    });
}
