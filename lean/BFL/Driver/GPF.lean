import BFL.Driver.Proto
/- Driver entries of this group (stub: no operation handled yet). -/
namespace BFL.DriverGPF
open BFL BFL.Proto

def handle (op : String) (args : List String) : Option String :=
  match op with
  | _ => none

end BFL.DriverGPF
