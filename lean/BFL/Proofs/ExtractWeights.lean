import BFL.Proofs.ExtractList
import Mathlib.Data.List.Range
import Mathlib.Data.List.Pairwise
/-
The three window weight vectors (`sm_weights_`, `wm_weights_`, `em_weights_`), read over ℝ: after
exponentiation they are positive, sum to one and do not increase with age (index 0 = newest).
-/
namespace BFL
namespace Extract

/-- "convex, not increasing with age": what the property advertises for a window weight vector -/
structure ConvexAging (a : List ℝ) : Prop where
  pos : ∀ x ∈ a, 0 < x
  sum_one : a.sum = 1
  antitone : a.Pairwise (· ≥ ·)

/-- Normalising a non-empty list of log-weights by its log-sum-exp. -/
theorem normalised_exp (raw : List ℝ) (hne : raw ≠ []) :
    let S := (raw.map Real.exp).sum
    (raw.map fun x => x - logSumExp raw).map Real.exp = raw.map (fun x => Real.exp x / S) ∧ 0 < S := by
  intro S
  obtain ⟨hl, hpos⟩ := logSumExp_eq raw hne
  refine ⟨?_, hpos⟩
  rw [List.map_map]
  apply List.map_congr_left
  intro x _
  simp only [Function.comp]
  rw [hl, Real.exp_sub, Real.exp_log hpos]

theorem normalised_convex (raw : List ℝ) (hne : raw ≠ []) (hanti : raw.Pairwise (· ≥ ·)) :
    ConvexAging ((raw.map fun x => x - logSumExp raw).map Real.exp) := by
  obtain ⟨heq, hpos⟩ := normalised_exp raw hne
  rw [heq]
  refine ⟨?_, ?_, ?_⟩
  · intro x hx
    obtain ⟨y, _, rfl⟩ := List.mem_map.mp hx
    exact div_pos (Real.exp_pos y) hpos
  · have : (raw.map fun x => Real.exp x / (raw.map Real.exp).sum)
        = (raw.map Real.exp).map (fun e => e * ((raw.map Real.exp).sum)⁻¹) := by
      rw [List.map_map]; apply List.map_congr_left; intro x _; simp [div_eq_mul_inv]
    rw [this, List.sum_map_mul_right, List.map_id']
    exact mul_inv_cancel₀ hpos.ne'
  · rw [List.pairwise_map]
    exact hanti.imp (fun {a b} hab => by
      have : Real.exp b ≤ Real.exp a := Real.exp_le_exp.mpr hab
      exact div_le_div_of_nonneg_right this hpos.le)

@[simp] theorem smWeights_length (k : Nat) : (smWeights k : List ℝ).length = k := by simp [smWeights]
@[simp] theorem wmWeights_length (k : Nat) : (wmWeights k : List ℝ).length = k := by simp [wmWeights]
@[simp] theorem emWeights_length (k : Nat) : (emWeights k : List ℝ).length = k := by simp [emWeights]

/-- simple variant: every weight is `1/k` -/
theorem smWeights_exp (k : Nat) (hk : 1 ≤ k) :
    (smWeights k : List ℝ).map Real.exp = List.replicate k (1 / (k : ℝ)) := by
  have hk0 : (0 : ℝ) < k := by exact_mod_cast hk
  simp only [smWeights, transc_log, List.map_replicate]
  rw [Real.exp_neg, Real.exp_log hk0, one_div]

theorem smWeights_convex (k : Nat) (hk : 1 ≤ k) :
    ConvexAging ((smWeights k : List ℝ).map Real.exp) := by
  have hk0 : (0 : ℝ) < k := by exact_mod_cast hk
  rw [smWeights_exp k hk]
  refine ⟨?_, ?_, ?_⟩
  · intro x hx
    rw [List.eq_of_mem_replicate hx]
    positivity
  · rw [List.sum_replicate, nsmul_eq_mul]
    field_simp
  · rw [List.pairwise_replicate]
    right; exact le_refl _

/-- the un-normalised weighted-variant log-weights `log(k − i)` -/
noncomputable def wmRaw (k : Nat) : List ℝ := (List.range k).map fun i => Real.log (((k - i : Nat) : ℝ))

/-- the un-normalised exponential-variant log-weights `−i/k` -/
noncomputable def emRaw (k : Nat) : List ℝ := (List.range k).map fun i => -(((i : Nat) : ℝ) / (k : ℝ))

theorem wmWeights_eq (k : Nat) : (wmWeights k : List ℝ) = (wmRaw k).map fun x => x - logSumExp (wmRaw k) := by
  simp [wmWeights, wmRaw]

theorem emWeights_eq (k : Nat) : (emWeights k : List ℝ) = (emRaw k).map fun x => x - logSumExp (emRaw k) := by
  simp [emWeights, emRaw]

theorem wmRaw_ne (k : Nat) (hk : 1 ≤ k) : wmRaw k ≠ [] := by
  intro h
  have := congrArg List.length h
  simp [wmRaw] at this
  omega

theorem emRaw_ne (k : Nat) (hk : 1 ≤ k) : emRaw k ≠ [] := by
  intro h
  have := congrArg List.length h
  simp [emRaw] at this
  omega

theorem wmRaw_antitone (k : Nat) : (wmRaw k).Pairwise (· ≥ ·) := by
  unfold wmRaw
  rw [List.pairwise_map]
  refine (List.pairwise_lt_range (n := k)).imp_of_mem ?_
  intro a b ha hb hab
  have hbk : b < k := List.mem_range.mp hb
  have h1 : (0 : ℝ) < ((k - b : Nat) : ℝ) := by
    have : 0 < k - b := by omega
    exact_mod_cast this
  have h2 : ((k - b : Nat) : ℝ) ≤ ((k - a : Nat) : ℝ) := by
    have : k - b ≤ k - a := by omega
    exact_mod_cast this
  exact Real.log_le_log h1 h2

theorem emRaw_antitone (k : Nat) : (emRaw k).Pairwise (· ≥ ·) := by
  unfold emRaw
  rw [List.pairwise_map]
  refine (List.pairwise_lt_range (n := k)).imp_of_mem ?_
  intro a b _ _ hab
  have h1 : (a : ℝ) ≤ (b : ℝ) := by exact_mod_cast hab.le
  have hk : (0 : ℝ) ≤ (k : ℝ) := by positivity
  have : (a : ℝ) / k ≤ (b : ℝ) / k := div_le_div_of_nonneg_right h1 hk
  simp only [ge_iff_le, neg_le_neg_iff]
  exact this

theorem wmWeights_convex (k : Nat) (hk : 1 ≤ k) :
    ConvexAging ((wmWeights k : List ℝ).map Real.exp) := by
  rw [wmWeights_eq]
  exact normalised_convex _ (wmRaw_ne k hk) (wmRaw_antitone k)

theorem emWeights_convex (k : Nat) (hk : 1 ≤ k) :
    ConvexAging ((emWeights k : List ℝ).map Real.exp) := by
  rw [emWeights_eq]
  exact normalised_convex _ (emRaw_ne k hk) (emRaw_antitone k)

/-- closed form of the weighted variant: weight of age `i` is `(k − i) / Σ_j (k − j)` -/
theorem wmWeights_exp (k : Nat) (hk : 1 ≤ k) :
    (wmWeights k : List ℝ).map Real.exp
      = (List.range k).map fun i => ((k - i : Nat) : ℝ) / ((List.range k).map fun j => (((k - j : Nat) : ℝ))).sum := by
  rw [wmWeights_eq]
  obtain ⟨heq, _⟩ := normalised_exp (wmRaw k) (wmRaw_ne k hk)
  rw [heq]
  have hexp : (wmRaw k).map Real.exp = (List.range k).map fun j => (((k - j : Nat) : ℝ)) := by
    unfold wmRaw
    rw [List.map_map]
    apply List.map_congr_left
    intro j hj
    have hjk : j < k := List.mem_range.mp hj
    have : (0 : ℝ) < ((k - j : Nat) : ℝ) := by
      have : 0 < k - j := by omega
      exact_mod_cast this
    simp only [Function.comp, Real.exp_log this]
  rw [hexp]
  unfold wmRaw
  rw [List.map_map]
  apply List.map_congr_left
  intro i hi
  have hik : i < k := List.mem_range.mp hi
  have : (0 : ℝ) < ((k - i : Nat) : ℝ) := by
    have : 0 < k - i := by omega
    exact_mod_cast this
  simp only [Function.comp, Real.exp_log this]

/-- closed form of the exponential variant: weight of age `i` is `e^{−i/k} / Σ_j e^{−j/k}` -/
theorem emWeights_exp (k : Nat) (hk : 1 ≤ k) :
    (emWeights k : List ℝ).map Real.exp
      = (List.range k).map fun (i : Nat) => Real.exp (-((i : ℝ) / k)) / ((List.range k).map fun (j : Nat) => Real.exp (-((j : ℝ) / k))).sum := by
  rw [emWeights_eq]
  obtain ⟨heq, _⟩ := normalised_exp (emRaw k) (emRaw_ne k hk)
  rw [heq]
  have hexp : (emRaw k).map Real.exp = (List.range k).map fun (j : Nat) => Real.exp (-((j : ℝ) / k)) := by
    unfold emRaw
    rw [List.map_map]
    rfl
  rw [hexp]
  unfold emRaw
  rw [List.map_map]
  rfl

/-- the three families at once -/
theorem famWeights_convex (f : Fam) (k : Nat) (hk : 1 ≤ k) :
    ConvexAging ((famWeights f k : List ℝ).map Real.exp) := by
  cases f with
  | simple => exact smWeights_convex k hk
  | weighted => exact wmWeights_convex k hk
  | exponential => exact emWeights_convex k hk

@[simp] theorem famWeights_length (f : Fam) (k : Nat) : (famWeights f k : List ℝ).length = k := by
  cases f <;> simp [famWeights]

end Extract
end BFL
