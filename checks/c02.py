"""C02 — Kalman prediction is the exact linear-Gaussian time update."""
from fractions import Fraction

import vlib
from vlib import hexd, frac, frac_of_hex, unhex

EPS = 2.0 ** -52


STYLES = ["dyadic", "full", "tinyscale", "singular", "scalar", "zeroF", "nonnormal", "symF", "diagF", "identityF", "orthF", "hugescale", "mixedscale", "neardup", "full", "blockdup", "microscale", "bigdim"]


def scale_of(r, style, which):
    """overall magnitude of a covariance: the property does not constrain scale"""
    if style == "tinyscale":
        return 10 ** r.uniform(-10, -4)
    if style == "microscale":
        return 10 ** r.uniform(-24, -13)       # every entry far below 1e-12 (Eigen's isZero() / isMuchSmallerThan defaults)
    if style == "hugescale":
        return 10 ** r.uniform(4, 10)
    if style == "mixedscale":
        return 10 ** (r.uniform(-9, -4) if (which == "P") == (r.random() < 0.5) else r.uniform(3, 8))
    return None


def gen_FQ(g, style, n):
    r = g.r
    if style == "dyadic":
        Q = g.spd_dyadic(n)
        F = [[g.dyadic(-2, 2, 3) for _ in range(n)] for _ in range(n)]
    else:
        Q = g.spd(n, rank=(r.randint(0, n) if style == "singular" else None), scale=scale_of(r, style, "Q"))
        F = g.mat(n, n)
        if style in ("tinyscale", "hugescale") and r.random() < 0.5:
            fs = 10 ** (r.uniform(-6, -2) if style == "tinyscale" else r.uniform(2, 6))
            F = [[fs * x for x in row] for row in F]
    if style == "neardup":
        Q = g.spd(n, scale=10 ** r.uniform(-12, -9))      # small process noise: tiny directions of P stay visible
    if style == "blockdup":
        # block-diagonal system (leading block of size n1 at scale 1, trailing block at a scale 1e-13 .. 1e-20
        # times smaller): F, Q block diagonal, so the blocks of F P F^T + Q decouple exactly
        n1 = max(1, n // 2)
        blk = lambda i, j: (i < n1) == (j < n1)
        F = [[(F[i][j] if blk(i, j) else 0.0) for j in range(n)] for i in range(n)]
        if r.random() < 0.3:
            F = [[(F[i][j] if i == j else 0.0) for j in range(n)] for i in range(n)]
        Q1, Q2 = g.spd(n1, scale=10 ** r.uniform(-3, 0)), g.spd(n - n1, scale=10 ** r.uniform(-26, -22))
        Q = [[(Q1[i][j] if i < n1 and j < n1 else (Q2[i - n1][j - n1] if i >= n1 and j >= n1 else 0.0)) for j in range(n)] for i in range(n)]
    if style == "zeroF":
        F = [[0.0] * n for _ in range(n)]
    if style == "nonnormal":
        F = [[(F[i][j] if j >= i else 0.0) for j in range(n)] for i in range(n)]
    if style == "symF":
        F = [[F[min(i, j)][max(i, j)] for j in range(n)] for i in range(n)]
    if style == "diagF":
        F = [[(F[i][j] if i == j else 0.0) for j in range(n)] for i in range(n)]
    if style == "identityF":
        F = [[1.0 if i == j else 0.0 for j in range(n)] for i in range(n)]
    if style == "orthF":
        F = g.orth(n)
    return F, Q


def skip_history(r, exo):
    """skip commands on the prediction object that end with everything switched off again
    (name: 0 prediction, 1 state, 2 exogenous - the last only when such a model is attached)"""
    if r.random() < 0.5:
        return []
    names = [0, 1] + ([2] if exo else [])
    cmds = [(r.choice(names), r.choice([0, 1])) for _ in range(r.randint(1, 4))]
    if r.random() < 0.5:
        off = [(0, 0)]                      # 'prediction' off alone switches state and exogenous off too
    else:
        off = [(nm, 0) for nm in names]
        r.shuffle(off)
    return cmds + off


def gen_case(g, tier, idx):
    """one KFPrediction object over a (possibly time-varying) linear model, 1..3 predict() calls, each
    preceded by a skip-command history that ends with nothing skipped
    -> (harness line, [single-call kfp lines], meta)"""
    r = g.r
    big = 6 if tier == "quick" else 9
    style = STYLES[idx % len(STYLES)] if idx < 3 * len(STYLES) else r.choice(STYLES)
    n = 1 if style == "scalar" else (idx % big + 1 if idx < 4 * big else r.randint(1, big))
    if style in ("neardup", "blockdup"):
        n = max(n, 2)
    bigdim = False
    if style == "bigdim":
        # Eigen switches product kernels with the size (coefficient-based lazy product below
        # rows+cols+depth = 20, GEMM above): in-place / aliasing rewrites only show from n = 7..8 on
        n = r.choice([7, 8, 9, 10, 12, 13, 16])
        style = r.choice(["full", "dyadic", "nonnormal", "singular"])
        bigdim = True
    exo = (idx % 3) if idx < 40 else r.choice([0, 1, 2])     # 2: attached after the KFPrediction was constructed
    F, Q = gen_FQ(g, style, n)
    G, gv = (g.mat(n, n), g.vec(n)) if exo else (None, None)
    ncalls = r.choice([1, 1, 2, 3])
    seq = ["kfpv", str(n), str(exo), str(ncalls)]
    singles = []
    varied = nskip = handed = 0
    wmodes = {}
    for c in range(ncalls):
        if c > 0 and r.random() < 0.6:
            F2, Q2 = gen_FQ(g, style, n)
            which = r.choice(["F", "Q", "both", "exo"] if exo else ["F", "Q", "both"])
            if which in ("F", "both"):
                F = F2
            if which in ("Q", "both"):
                Q = Q2
            if which == "exo":
                G, gv = g.mat(n, n), g.vec(n)
            varied += 1
        head = vlib.fmt_mat_cm(F) + vlib.fmt_mat_cm(Q)
        if exo:
            head += vlib.fmt_mat_cm(G) + [hexd(v) for v in gv]
        hand = r.choice([0, 0, 0, 1, 2])           # object handed over by move construction / move assignment
        handed += (hand != 0)
        hist = skip_history(r, exo)
        nskip += len(hist)
        k = r.choice([1, 1, 2, 3, 4, 6]) if n <= 6 else r.choice([1, 2, 3])
        if style == "dyadic":
            Ps = [g.spd_dyadic(n) for _ in range(k)]
            means = [[g.dyadic(-4, 4, 3) for _ in range(n)] for _ in range(k)]
        elif style == "neardup":
            # consecutive components equal in norm to ~1e-13 but different in a tiny-scale direction
            k = r.choice([2, 3, 4])
            U, lam = g.spd_parts(n, 10 ** r.uniform(10, 14), 10 ** r.uniform(3, 6))
            Ps = []
            for c2 in range(k):
                t = 0.0 if c2 == 0 else r.choice([0.0, 1.0, 3.0, 0.5])
                l2 = list(lam)
                l2[-1] = lam[-1] * (1.0 + t)
                Ps.append(g.assemble(U, l2))
            means = [g.vec(n) for _ in range(k)]
        elif style == "blockdup":
            # consecutive components: same leading block (scale 1), trailing blocks that differ by O(1) relative
            # to their own scale - equal for Eigen's isApprox (1e-12 relative to the whole matrix)
            k = r.choice([2, 3, 4])
            n1 = max(1, n // 2)
            A = g.spd(n1, cond=10 ** r.uniform(0, 3), scale=10 ** r.uniform(-1, 1))
            ts = 10 ** r.uniform(-20, -13)
            Ps = []
            for c2 in range(k):
                B = g.spd(n - n1, cond=10 ** r.uniform(0, 3), scale=ts * r.choice([1.0, 2.0, 0.5, 3.0]))
                Ps.append([[(A[i][j] if i < n1 and j < n1 else (B[i - n1][j - n1] if i >= n1 and j >= n1 else 0.0)) for j in range(n)] for i in range(n)])
            means = [g.vec(n) for _ in range(k)]
            if r.random() < 0.5:
                means = [list(means[0][:n1]) + [ts ** 0.5 * v for v in mm_[n1:]] for mm_ in means]
        else:
            Ps = [g.spd(n, rank=(r.randint(0, n) if style == "singular" else None), scale=scale_of(r, style, "P")) for _ in range(k)]
            means = [g.vec(n) for _ in range(k)]
        toks = [hexd(means[c2][i]) for c2 in range(k) for i in range(n)]
        toks += [hexd(Ps[c2][i][j]) for c2 in range(k) for j in range(n) for i in range(n)]
        toks += [hexd(r.uniform(0.01, 1.0)) for _ in range(k)]
        # weights of the belief passed in: default / exact zeros / un-normalised / tiny / negative (the
        # update of a component may not depend on its weight)
        wmode = r.choice([0, 0, 1, 2, 3, 4, 5, 6, 7]) if k > 1 else r.choice([0, 0, 3, 4])
        wmodes[wmode] = wmodes.get(wmode, 0) + 1
        seq += [str(hand)] + head + [str(len(hist))] + [str(x) for cmd in hist for x in cmd] + [str(wmode), str(k)] + toks
        singles.append(" ".join(["kfp", str(n), str(k), "1" if exo else "0"] + head + toks))
    return " ".join(seq), singles, {"style": style + ("@bigdim" if bigdim else ""), "n": n, "exo": exo, "calls": ncalls, "model_changes": varied, "skip_commands": nskip, "hand_overs": handed, "wmodes": wmodes}


def split_seq_output(hout, ncalls):
    if not hout.startswith("ok"):
        return [hout] * ncalls
    outs, cur = [], None
    for x in hout.split()[1:]:
        if x == "call":
            if cur is not None:
                outs.append("ok " + " ".join(cur))
            cur = []
        elif cur is not None:
            cur.append(x)
    if cur is not None:
        outs.append("ok " + " ".join(cur))
    return (outs + ["crash:short-output"] * ncalls)[:ncalls]


def parse_case(line):
    t = line.split()
    n, k, exo = int(t[1]), int(t[2]), t[3] == "1"
    p = 4
    F = vlib.mat_from_cm(t[p:p + n * n], n, n, frac_of_hex); p += n * n
    Q = vlib.mat_from_cm(t[p:p + n * n], n, n, frac_of_hex); p += n * n
    G = gv = None
    if exo:
        G = vlib.mat_from_cm(t[p:p + n * n], n, n, frac_of_hex); p += n * n
        gv = [frac_of_hex(x) for x in t[p:p + n]]; p += n
    means = [[frac_of_hex(t[p + c * n + i]) for i in range(n)] for c in range(k)]; p += n * k
    Ps = [vlib.mat_from_cm(t[p + c * n * n:p + (c + 1) * n * n], n, n, frac_of_hex) for c in range(k)]; p += n * n * k
    outw = t[p:p + k]
    return n, k, exo, F, Q, G, gv, means, Ps, outw


def check_case(line, hout, dout, stats):
    probs = []
    n, k, exo, F, Q, G, gv, means, Ps, outw = parse_case(line)
    if not hout.startswith("ok"):
        return [("prop", "impl-crash", "implementation failed on a valid input: %s" % hout[:80])]
    if not dout.startswith("ok"):
        return [("corr", "model-undefined", "model not defined: %s" % dout[:40])]
    ht, dt = hout.split(), dout.split()
    p = 1
    cm = [[unhex(ht[p + c * n + i]) for i in range(n)] for c in range(k)]; p += n * k
    cP = [vlib.mat_from_cm(ht[p + c * n * n:p + (c + 1) * n * n], n, n, unhex) for c in range(k)]; p += n * n * k
    cw = ht[p:p + k]; p += k
    same = ht[p]
    q = 1
    mm = [[frac(dt[q + c * n + i]) for i in range(n)] for c in range(k)]; q += n * k
    mP = [vlib.mat_from_cm(dt[q + c * n * n:q + (c + 1) * n * n], n, n, frac) for c in range(k)]; q += n * n * k
    if same != "in-same":
        probs.append(("prop", "input-modified", "the belief passed in was modified"))
    if list(cw) != list(outw):
        # not part of C02 (the property does not speak about the weights): recorded, never an alarm
        stats["note_weights_written"] = stats.get("note_weights_written", 0) + 1
    nF = vlib.fnorm(F) * n
    for c in range(k):
        # specification side, computed here independently of the Lean model
        FP = vlib.mmul(F, Ps[c])
        spec = vlib.madd(vlib.mmul(FP, vlib.mT(F)), Q)
        smean = vlib.mvec(F, means[c])
        if exo:
            u = [a + b for a, b in zip(vlib.mvec(G, means[c]), gv)]
            smean = [a + b for a, b in zip(smean, u)]
        if spec != mP[c] or smean != mm[c]:
            probs.append(("corr", "model-vs-spec", "exact model output differs from F P F^T + Q / F m + u computed independently"))
        nP = vlib.fnorm(Ps[c]) * n
        tolP = 32 * EPS * (nF * nF * nP + vlib.fnorm(Q) + 1e-300) * n
        # entrywise bound (a product of matrices is computed entry by entry: |fl((F P) F^T) - F P F^T| <= c n eps |F| |P| |F^T|,
        # and |P_kl| <= d_k d_l for PSD P, d = sqrt(diag P)): keeps the check sensitive at the scale of a small block
        # of a block-diagonal system, where a bound relative to the whole matrix hides O(1) errors of the block
        dP = [abs(float(Ps[c][i][i])) ** 0.5 for i in range(n)]
        fd = [sum(abs(float(F[i][l])) * dP[l] for l in range(n)) for i in range(n)]
        tolE = [[64 * EPS * n * (fd[i] * fd[j] + abs(float(Q[i][j]))) + 1e-300 for j in range(n)] for i in range(n)]
        gm = [sum(abs(float(F[i][l])) * abs(float(means[c][l])) for l in range(n)) for i in range(n)]
        if exo:
            gm = [gm[i] + sum(abs(float(G[i][l])) * abs(float(means[c][l])) for l in range(n)) + abs(float(gv[i])) for i in range(n)]
        tolmE = [64 * EPS * n * gm[i] + 1e-300 for i in range(n)]
        nx = max([abs(float(v)) for v in means[c]] + [0.0])
        nG = (vlib.fnorm(G) * n if exo else 0.0)
        ng = (max(abs(float(v)) for v in gv) if exo else 0.0)
        tolm = 32 * EPS * ((nF + nG) * nx + ng + 1e-300) * n
        errP = max(abs(Fraction(cP[c][i][j]) - spec[i][j]) for i in range(n) for j in range(n))
        errm = max(abs(Fraction(cm[c][i]) - smean[i]) for i in range(n))
        stats["max_relerr_cov"] = max(stats.get("max_relerr_cov", 0.0), float(errP) / tolP)
        stats["max_relerr_mean"] = max(stats.get("max_relerr_mean", 0.0), float(errm) / tolm)
        relE = max(float(abs(Fraction(cP[c][i][j]) - spec[i][j])) / tolE[i][j] for i in range(n) for j in range(n))
        relmE = max(float(abs(Fraction(cm[c][i]) - smean[i])) / tolmE[i] for i in range(n))
        stats["max_relerr_cov_entrywise"] = max(stats.get("max_relerr_cov_entrywise", 0.0), relE)
        stats["max_relerr_mean_entrywise"] = max(stats.get("max_relerr_mean_entrywise", 0.0), relmE)
        if errP > tolP or relE > 1.0:
            probs.append(("prop", "cov-wrong", "component %d: predicted covariance is not F P F^T + Q: err %.3g tol %.3g (entrywise %.3g of the bound)" % (c, float(errP), tolP, relE)))
        if errm > tolm or relmE > 1.0:
            probs.append(("prop", "mean-wrong", "component %d: predicted mean is not F m + u: err %.3g tol %.3g (entrywise %.3g of the bound)" % (c, float(errm), tolm, relmE)))
        asym = max(abs(cP[c][i][j] - cP[c][j][i]) for i in range(n) for j in range(n))
        if asym > 2 * tolP:
            probs.append(("prop", "cov-asymmetric", "component %d: predicted covariance asymmetric by %.3g" % (c, asym)))
        cPf = [[Fraction(x) for x in row] for row in cP[c]]
        if not vlib.is_psd_frac(cPf, Fraction(2 * tolP * n)):
            probs.append(("prop", "cov-not-psd", "component %d: predicted covariance not PSD" % c))
    return probs


def replay_case(path):
    """re-run the input recorded in a replay file (a kfpv / kfps sequence line or a single kfp line)"""
    import json
    line = json.load(open(path))["replay"]["input_line"]
    t = line.split()
    if t[0] == "kfp":
        return (line, [line], {"style": "replay", "calls": 1})
    n, exo = int(t[1]), t[2] != "0"
    hl = 2 * n * n + ((n * n + n) if exo else 0)
    singles = []
    if t[0] == "kfpv":
        ncalls = int(t[3]); p = 4
        for _ in range(ncalls):
            p += 1                                   # hand-over flag
            head = t[p:p + hl]; p += hl
            ns = int(t[p]); p += 1 + 2 * ns
            p += 1                                   # weight mode of the belief passed in
            k = int(t[p]); p += 1
            ln = n * k + n * n * k + k
            singles.append(" ".join(["kfp", str(n), str(k), "1" if exo else "0"] + head + t[p:p + ln])); p += ln
        return (line, singles, {"style": "replay", "n": n, "exo": exo, "calls": ncalls})
    p = 3
    head = t[p:p + hl]; p += hl
    ncalls = int(t[p]); p += 1
    for _ in range(ncalls):
        k = int(t[p]); p += 1
        ln = n * k + n * n * k + k
        singles.append(" ".join(["kfp", str(n), str(k), "1" if exo else "0"] + head + t[p:p + ln])); p += ln
    return (line, singles, {"style": "replay", "n": n, "exo": exo, "calls": ncalls})


def run(ctx):
    ctx.proof_stage()
    binary = vlib.build_harness("h_kf")
    g = ctx.gen("kfp")
    N = ctx.n(130, 3000)
    cases = []
    corpus = vlib.VERIF / "corpus" / "C02" / "cases.txt"
    if corpus.exists():
        cases += [(ln.strip(), [ln.strip()], {"style": "corpus", "calls": 1}) for ln in corpus.read_text().split("\n") if ln.strip()]
    cases += [gen_case(g, ctx.tier, i) for i in range(N)]
    hist_replay = None
    if ctx.replay:
        import json
        rl = json.load(open(ctx.replay))["replay"]["input_line"]
        if rl.split()[0] in ("kfh", "kfht"):
            from checks import kfhist
            hist_replay = kfhist.parse_line(rl)
            cases = []
        else:
            cases = [replay_case(ctx.replay)]
    hout, logs = vlib.run_harness(binary, [c[0] for c in cases])
    singles = [l for c in cases for l in c[1]]
    dout = vlib.run_driver(singles)
    stats, hist, distinct = {}, {}, set()
    corr_bad, prop_bad = [], []
    pos = 0
    for (hline, slines, meta), h in zip(cases, hout):
        key = "%s%s" % (meta.get("style"), "+exo" if meta.get("exo") else "")
        hist[key] = hist.get(key, 0) + 1
        outs = split_seq_output(h, len(slines)) if hline.startswith(("kfps", "kfpv")) else [h]
        for sl, ho in zip(slines, outs):
            distinct.add(sl)
            try:
                res = check_case(sl, ho, dout[pos], stats)
            except Exception as ex:       # malformed / short / non-numeric output of a (mutated) implementation
                res = [("prop", "unreadable-result", "output of the implementation cannot be evaluated (%s: %s): %s" % (type(ex).__name__, ex, ho[:120]))]
            for kind, key2, what in res:
                (corr_bad if kind == "corr" else prop_bad).append((key2, what, hline, h))
            pos += 1
    from checks import kfhist
    hstats = {}
    if not ctx.replay or hist_replay:
        hists = [hist_replay] if hist_replay else [kfhist.gen_history(ctx.gen("kfh2"), i, ctx.tier, want_meas=(i % 2 == 0)) for i in range(ctx.n(20, 60))]
        hp, hc, hstats = kfhist.run_histories(ctx, binary, hists, "C02")
        prop_bad += hp
        corr_bad += hc
    for key2, what, line, h in prop_bad[:20]:
        ctx.violation(key2, "KFPrediction: " + what, {"harness": "h_kf", "input_line": line, "observed": h[:2000]})
    if corr_bad and not prop_bad:
        key2, what, line, h = corr_bad[0]
        ctx.violation("correspondence:" + key2, "model and implementation disagree (%d cases), no property predicate failed: %s" % (len(corr_bad), what),
                      {"harness": "h_kf", "correspondence": "kfPredict vs KFPrediction::predictStep", "input_line": line, "observed": h[:2000]}, no_input=True)
    nontrivial = sum(1 for sl in distinct if int(sl.split()[1]) > 1 or int(sl.split()[2]) > 1)
    wm = {}
    for c_ in cases:
        for k_, v_ in (c_[2].get("wmodes") or {}).items():
            wm[str(k_)] = wm.get(str(k_), 0) + v_
    ctx.coverage.update({
        "evaluations": len(singles), "distinct_nontrivial": nontrivial,
        "rule": "KFPrediction objects over a time-varying linear model (F, Q, exogenous law may change between calls) used for 1..3 successive predict() calls (new component count per call), each preceded by a skip-command history ending with nothing skipped; near-duplicate consecutive components (cond up to 1e14); n in 1..%d, k in {1,2,3,4,6}; arbitrary F incl. zero/"
                "triangular/symmetric/diagonal/identity/orthogonal, PSD P and Q incl. singular, with/without exogenous model u = G x + g; "
                "non-trivial = n > 1 or k > 1; distinct = distinct single-call inputs" % (6 if ctx.quick() else 9),
        "samples": [c_[0][:400] for c_ in (cases[:1] + cases[-1:])] or ["(history replay)"],
        "input_weight_modes (0 default, 1 first zero, 2 last zero, 3 all zero, 4 un-normalised, 5 tiny, 6 one negative, 7 one-hot)": wm, "style_histogram": hist, "numeric": stats, "objects": len(cases),
        "traces_validated_against_impl": len(singles),
        "model_vs_impl_disagreements": len(corr_bad), "property_failures_on_impl": len(prop_bad),
        "sanitizer_crashes": len(logs), "filter_histories": hstats,
    })
    ctx.assumptions += ["floating point: implementation compared with exact rational F P F^T + Q within 32*eps*n*scale"]
