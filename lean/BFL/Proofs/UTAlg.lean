import Mathlib.Data.Matrix.Mul
import Mathlib.Data.Matrix.Diagonal
import Mathlib.Algebra.BigOperators.Fin
import Mathlib.Tactic.Ring
import Mathlib.Tactic.Abel
import Mathlib.Tactic.FieldSimp
/-
Algebra behind the unscented transform, in Mathlib's `Matrix` vocabulary, over any commutative
ring (helper lemmas; the property theorems about the model are in `BFL/Props/C03.lean`).

Sigma points are indexed by `Fin (2n+1)` in the code's column order
`[mean, mean + B_1 … mean + B_n, mean − B_1 … mean − B_n]`.
-/
namespace BFL.UTProofs
open Matrix

variable {α : Type*} {n r s N : ℕ}

/-- split a sum over the `2n+1` columns into centre, plus-block and minus-block -/
theorem sum_split {β : Type*} [AddCommMonoid β] (f : Fin (2 * n + 1) → β) :
    ∑ j, f j = f ⟨0, by omega⟩ + ∑ i : Fin n, f ⟨i.val + 1, by omega⟩
      + ∑ i : Fin n, f ⟨i.val + 1 + n, by omega⟩ := by
  have h : 2 * n + 1 = 1 + (n + n) := by omega
  rw [← Fin.sum_congr' f h.symm, Fin.sum_univ_add, Fin.sum_univ_add]
  simp only [Fin.sum_univ_one]
  rw [← add_assoc]
  congr 1
  · congr 1
    apply Finset.sum_congr rfl; intro i _; congr 1; ext; simp [Fin.natAdd, Fin.castAdd]; omega
  · apply Finset.sum_congr rfl; intro i _; congr 1; ext; simp [Fin.natAdd]; omega

section ring
set_option linter.unusedSectionVars false
variable [CommRing α]

/-- perturbation matrix `[0, B, −B]` -/
def E (B : Matrix (Fin n) (Fin n) α) : Matrix (Fin n) (Fin (2 * n + 1)) α :=
  fun i j =>
    if _h0 : j.val = 0 then 0
    else if h1 : j.val ≤ n then B i ⟨j.val - 1, by omega⟩
    else - B i ⟨j.val - 1 - n, by have := j.isLt; omega⟩

/-- weight vector: `w0` at the centre, `w` elsewhere -/
def wv (w0 w : α) : Fin (2 * n + 1) → α := fun j => if j.val = 0 then w0 else w

/-- matrix with every column equal to `m` -/
def rep (m : Fin r → α) : Matrix (Fin r) (Fin N) α := fun i _ => m i

@[simp] theorem E_zero (B : Matrix (Fin n) (Fin n) α) (i : Fin n) : E B i ⟨0, by omega⟩ = 0 := by
  simp [E]

@[simp] theorem E_plus (B : Matrix (Fin n) (Fin n) α) (i l : Fin n) :
    E B i ⟨l.val + 1, by omega⟩ = B i l := by
  simp [E, show l.val + 1 ≤ n from by omega]

@[simp] theorem E_minus (B : Matrix (Fin n) (Fin n) α) (i l : Fin n) :
    E B i ⟨l.val + 1 + n, by omega⟩ = - B i l := by
  have : ¬ (l.val + 1 + n ≤ n) := by omega
  simp [E, this]

@[simp] theorem wv_zero (w0 w : α) : wv (n := n) w0 w ⟨0, by omega⟩ = w0 := by simp [wv]
@[simp] theorem wv_plus (w0 w : α) (l : Fin n) : wv (n := n) w0 w ⟨l.val + 1, by omega⟩ = w := by simp [wv]
@[simp] theorem wv_minus (w0 w : α) (l : Fin n) : wv (n := n) w0 w ⟨l.val + 1 + n, by omega⟩ = w := by simp [wv]

/-- the weights sum to `w0 + 2 n w` -/
theorem sum_wv (w0 w : α) : ∑ j, wv (n := n) w0 w j = w0 + 2 * n * w := by
  rw [sum_split]
  simp only [wv_zero, wv_plus, wv_minus, Finset.sum_const, Finset.card_univ, Fintype.card_fin, nsmul_eq_mul]
  ring

/-- the perturbations cancel in any weighted sum with symmetric weights -/
theorem E_mulVec_wv (B : Matrix (Fin n) (Fin n) α) (w0 w : α) : E B *ᵥ wv w0 w = 0 := by
  ext i
  simp only [mulVec, dotProduct, Pi.zero_apply]
  rw [sum_split]
  simp only [E_zero, E_plus, E_minus, wv_zero, wv_plus, wv_minus, zero_mul, zero_add, neg_mul,
    Finset.sum_neg_distrib, add_neg_cancel]

/-- weighted outer products of the perturbations: `E diag(w) Eᵀ = 2 w · B Bᵀ` whatever the centre weight -/
theorem E_diag_Et (B : Matrix (Fin n) (Fin n) α) (w0 w : α) :
    E B * diagonal (wv w0 w) * (E B)ᵀ = (2 * w) • (B * Bᵀ) := by
  ext a b
  rw [Matrix.mul_apply, smul_apply, Matrix.mul_apply, smul_eq_mul]
  simp only [mul_diagonal, transpose_apply]
  rw [sum_split]
  simp only [E_zero, E_plus, E_minus, wv_zero, wv_plus, wv_minus, zero_mul, zero_add, neg_mul, mul_neg, neg_neg]
  rw [← Finset.sum_add_distrib, Finset.mul_sum]
  apply Finset.sum_congr rfl; intro l _; ring

theorem mul_rep (A : Matrix (Fin s) (Fin r) α) (m : Fin r → α) :
    A * (rep m : Matrix (Fin r) (Fin N) α) = rep (A *ᵥ m) := by
  ext i j; simp [rep, mul_apply, mulVec, dotProduct]

theorem rep_mulVec (m : Fin r → α) (w : Fin N → α) :
    (rep m : Matrix (Fin r) (Fin N) α) *ᵥ w = (∑ j, w j) • m := by
  ext i; simp [rep, mulVec, dotProduct, Finset.mul_sum, mul_comm]

theorem rep_add (m m' : Fin r → α) : (rep m : Matrix (Fin r) (Fin N) α) + rep m' = rep (m + m') := by
  ext i j; simp [rep]

theorem rep_sub (m m' : Fin r → α) : (rep m : Matrix (Fin r) (Fin N) α) - rep m' = rep (m - m') := by
  ext i j; simp [rep]

theorem rep_submatrix {r' : ℕ} (m : Fin r → α) (f : Fin r' → Fin r) :
    (rep m : Matrix (Fin r) (Fin N) α).submatrix f id = rep (m ∘ f) := by
  ext i j; simp [rep]

/-- propagated points of an affine map: `A (E + m 1ᵀ) + b 1ᵀ = A E + (A m + b) 1ᵀ` -/
theorem affine_points (A : Matrix (Fin s) (Fin n) α) (b : Fin s → α) (m : Fin n → α)
    (Ep : Matrix (Fin n) (Fin N) α) :
    A * (Ep + rep m) + rep b = A * Ep + rep (A *ᵥ m + b) := by
  rw [Matrix.mul_add, mul_rep, add_assoc, rep_add]

/-- weighted mean of the propagated points -/
theorem affine_mean (A : Matrix (Fin s) (Fin n) α) (b : Fin s → α) (m : Fin n → α)
    (B : Matrix (Fin n) (Fin n) α) (w0 w : α) (hsum : w0 + 2 * n * w = 1) :
    (A * (E B + rep m) + rep b) *ᵥ wv w0 w = A *ᵥ m + b := by
  rw [affine_points, Matrix.add_mulVec, ← Matrix.mulVec_mulVec, E_mulVec_wv, Matrix.mulVec_zero, zero_add,
    rep_mulVec, sum_wv, hsum, one_smul]

/-- offsets of the propagated points from their weighted mean -/
theorem affine_offsets (A : Matrix (Fin s) (Fin n) α) (b : Fin s → α) (m : Fin n → α)
    (Ep : Matrix (Fin n) (Fin N) α) :
    (A * (Ep + rep m) + rep b) - rep (A *ᵥ m + b) = A * Ep := by
  rw [affine_points]; abel

/-- covariance of the propagated points -/
theorem affine_cov (A : Matrix (Fin s) (Fin n) α) (B P : Matrix (Fin n) (Fin n) α) (w0 w c : α)
    (hB : B * Bᵀ = c • P) (hw : 2 * w * c = 1) :
    (A * E B) * diagonal (wv w0 w) * (A * E B)ᵀ = A * P * Aᵀ := by
  rw [transpose_mul]
  have : A * E B * diagonal (wv w0 w) * ((E B)ᵀ * Aᵀ) = A * (E B * diagonal (wv w0 w) * (E B)ᵀ) * Aᵀ := by
    simp only [Matrix.mul_assoc]
  rw [this, E_diag_Et, hB, smul_smul, hw, one_smul]

theorem submatrix_rows_mul {p q t : ℕ} (M : Matrix (Fin p) (Fin q) α) (K : Matrix (Fin q) (Fin t) α)
    (f : Fin r → Fin p) : M.submatrix f id * K = (M * K).submatrix f id := by
  ext i j; simp [mul_apply]

/-- cross-covariance between selected input rows and the propagated points -/
theorem affine_cross {nx : ℕ} (f : Fin nx → Fin n) (A : Matrix (Fin s) (Fin n) α)
    (B P : Matrix (Fin n) (Fin n) α) (w0 w c : α) (hB : B * Bᵀ = c • P) (hw : 2 * w * c = 1) :
    ((E B).submatrix f id) * diagonal (wv w0 w) * (A * E B)ᵀ = (P * Aᵀ).submatrix f id := by
  rw [transpose_mul]
  have h1 : ((E B).submatrix f id) * diagonal (wv w0 w) * ((E B)ᵀ * Aᵀ)
      = ((E B) * diagonal (wv w0 w) * (E B)ᵀ * Aᵀ).submatrix f id := by
    rw [submatrix_rows_mul, submatrix_rows_mul]
    simp only [Matrix.mul_assoc]
  rw [h1, E_diag_Et, hB, smul_smul, hw, one_smul]

end ring

section field
variable [Field α] [CharZero α]

/-- The two facts about the weights every moment identity uses: with `c = n + λ ≠ 0`,
    `wm₀ + 2 n w = 1` and `2 w c = 1`. -/
theorem weights_facts (lam : α) (hc : (n : α) + lam ≠ 0) :
    lam / ((n : α) + lam) + 2 * n * (1 / (2 * ((n : α) + lam))) = 1 ∧
    2 * (1 / (2 * ((n : α) + lam))) * ((n : α) + lam) = 1 := by
  constructor <;> field_simp
  ring

end field

end BFL.UTProofs
