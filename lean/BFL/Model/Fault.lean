/-
C12 — model of the correction steps as functions of a *scripted* measurement / likelihood model
(core Lean only, executable).

Every method through which unavailability can be signalled (`freeze`, `measure`,
`predictedMeasure`, `innovation`, `getNoiseCovarianceMatrix`, `LikelihoodModel::likelihood`)
answers from a per-method script of validity bits, consumed call by call (an exhausted script
answers "valid"), so the same method may answer differently at different call sites.  Each
correction returns the corrected belief, the remaining script and the list of calls it made
(`Entry`: which code called which method, what it was told, and whether that code looks at the
validity flag at all).  The numeric part of a successful correction is an abstract parameter
(C01/C04/C05 own the algebra).

Transcribed from KFCorrection::correctStep, UKFCorrection::correctStep (both constructors),
sigma_point::unscented_transform (function-evaluation failure; the MeasurementModel and
AdditiveMeasurementModel overloads), SUKFCorrection::correctStep, GaussianLikelihood::likelihood,
BootstrapCorrection::correctStep, GPFCorrection::correctStep, SIS::filtering_step.
-/
namespace BFL.Fault

inductive Method
  | freeze | measure | predictedMeasure | innovation | noiseCov | likelihood
  deriving DecidableEq, Repr, Inhabited

/-- The library code issuing the call. -/
inductive Site
  | kf | ukf | sukf | gaussLik | boot | gpf | sis
  deriving DecidableEq, Repr, Inhabited

structure Entry where
  site : Site
  method : Method
  valid : Bool        -- what the model answered
  consulted : Bool    -- whether the caller looks at the answer's validity flag
  deriving DecidableEq, Repr, Inhabited

/-- A consulted call that reported "unavailable". -/
def Entry.failed (e : Entry) : Bool := e.consulted && !e.valid

/-- Some consulted call reported "unavailable". -/
def anyFailed (l : List Entry) : Bool := l.any Entry.failed

/-- The last call is a consulted one that reported "unavailable", and no earlier one did:
    nothing was asked of the model after the failure. -/
def endsAtFailure (l : List Entry) : Bool :=
  match l.reverse with
  | [] => false
  | e :: pre => e.failed && !anyFailed pre

/-- Remaining answers per method; an exhausted list answers `true` (available). -/
structure Script where
  freeze : List Bool := []
  measure : List Bool := []
  predicted : List Bool := []
  innovation : List Bool := []
  noise : List Bool := []
  lik : List Bool := []
  deriving DecidableEq, Repr, Inhabited

/-- Value, remaining script, calls made. -/
structure R (α : Type) where
  val : α
  script : Script
  log : List Entry
  deriving Repr

def pop : List Bool → Bool × List Bool
  | [] => (true, [])
  | b :: t => (b, t)

/-- One call into the scripted model. -/
def call (s : Script) (site : Site) (m : Method) (consulted : Bool) : R Bool :=
  match m with
  | .freeze => ⟨(pop s.freeze).1, { s with freeze := (pop s.freeze).2 }, [⟨site, m, (pop s.freeze).1, consulted⟩]⟩
  | .measure => ⟨(pop s.measure).1, { s with measure := (pop s.measure).2 }, [⟨site, m, (pop s.measure).1, consulted⟩]⟩
  | .predictedMeasure => ⟨(pop s.predicted).1, { s with predicted := (pop s.predicted).2 }, [⟨site, m, (pop s.predicted).1, consulted⟩]⟩
  | .innovation => ⟨(pop s.innovation).1, { s with innovation := (pop s.innovation).2 }, [⟨site, m, (pop s.innovation).1, consulted⟩]⟩
  | .noiseCov => ⟨(pop s.noise).1, { s with noise := (pop s.noise).2 }, [⟨site, m, (pop s.noise).1, consulted⟩]⟩
  | .likelihood => ⟨(pop s.lik).1, { s with lik := (pop s.lik).2 }, [⟨site, m, (pop s.lik).1, consulted⟩]⟩

variable {β γ : Type}

/-- `KFCorrection::correctStep`: four consulted calls, each followed by
    `if (!valid) { corr_state = pred_state; return; }`.  `num pred cin` is the Kalman update
    written into the output container whose previous content is `cin`. -/
def kfCorrect (num : β → β → β) (s : Script) (pred cin : β) : R β :=
  let c1 := call s .kf .measure true
  if !c1.val then ⟨pred, c1.script, c1.log⟩ else
  let c2 := call c1.script .kf .predictedMeasure true
  if !c2.val then ⟨pred, c2.script, c1.log ++ c2.log⟩ else
  let c3 := call c2.script .kf .innovation true
  if !c3.val then ⟨pred, c3.script, c1.log ++ c2.log ++ c3.log⟩ else
  let c4 := call c3.script .kf .noiseCov true
  if !c4.val then ⟨pred, c4.script, c1.log ++ c2.log ++ c3.log ++ c4.log⟩ else
  ⟨num pred cin, c4.script, c1.log ++ c2.log ++ c3.log ++ c4.log⟩

/-- `unscented_transform(input, weight, FunctionEvaluation)` as seen from the measurement
    model: the function is evaluated once; on failure the transform stops
    (`return std::make_tuple(false, GaussianMixture(), MatrixXd(0, 0))`). -/
def utFunction (s : Script) (site : Site) : R Bool :=
  call s site .predictedMeasure true

/-- `unscented_transform(state, weight, MeasurementModel&)`: forwards the validity flag. -/
def utMeasurement (s : Script) (site : Site) : R Bool := utFunction s site

/-- `unscented_transform(state, weight, AdditiveMeasurementModel&)`: returns before
    post-processing when the evaluation failed; otherwise fetches the noise covariance with
    `std::tie(std::ignore, noise_cov)`, i.e. without looking at its validity. -/
def utAdditiveMeasurement (s : Script) (site : Site) : R Bool :=
  let u := utFunction s site
  if !u.val then ⟨false, u.script, u.log⟩ else
  let n := call u.script site .noiseCov false
  ⟨true, n.script, u.log ++ n.log⟩

inductive UKFVariant
  | generic        -- UKFCorrection(std::unique_ptr<MeasurementModel>, …): augmented state
  | additive       -- UKFCorrection(std::unique_ptr<AdditiveMeasurementModel>, …)
  | genericOnline  -- generic constructor with `update_weights_online = true`
  deriving DecidableEq, Repr, Inhabited

/-- `UKFCorrection::correctStep`. -/
def ukfCorrect (v : UKFVariant) (num : β → β → β) (s : Script) (pred cin : β) : R β :=
  let c1 := call s .ukf .measure true
  if !c1.val then ⟨pred, c1.script, c1.log⟩ else
  match v with
  | .generic | .genericOnline =>
    -- (`update_weights_online_`: `ut_weight_` is rebuilt from `getInputDescription()` before the
    --  transform — no validity-carrying call, so both generic variants make the same calls)
    -- std::tie(std::ignore, noise_covariance_matrix) = model.getNoiseCovarianceMatrix();
    let n := call c1.script .ukf .noiseCov false
    let u := utMeasurement n.script .ukf
    if !u.val then ⟨pred, u.script, c1.log ++ n.log ++ u.log⟩ else
    let c3 := call u.script .ukf .innovation true
    if !c3.val then ⟨pred, c3.script, c1.log ++ n.log ++ u.log ++ c3.log⟩ else
    ⟨num pred cin, c3.script, c1.log ++ n.log ++ u.log ++ c3.log⟩
  | .additive =>
    let u := utAdditiveMeasurement c1.script .ukf
    if !u.val then ⟨pred, u.script, c1.log ++ u.log⟩ else
    let c3 := call u.script .ukf .innovation true
    if !c3.val then ⟨pred, c3.script, c1.log ++ u.log ++ c3.log⟩ else
    ⟨num pred cin, c3.script, c1.log ++ u.log ++ c3.log⟩

/-- `count` calls of `SUKFCorrection::getNoiseCovarianceMatrix(index)`, each
    `std::tie(std::ignore, R) = measurement_model_->getNoiseCovarianceMatrix()`. -/
def noiseCalls (s : Script) (site : Site) : Nat → R Unit
  | 0 => ⟨(), s, []⟩
  | k + 1 =>
    let n := call s site .noiseCov false
    let r := noiseCalls n.script site k
    ⟨(), r.script, n.log ++ r.log⟩

/-- `SUKFCorrection::correctStep`.  `sizeOk` is `meas_size % measurement_sub_size_ == 0`
    (and-ed into `valid_measurement` *after* `measure()` was called); `noiseCount` =
    components × (meas_size / measurement_sub_size_) fetches of the noise covariance. -/
def sukfCorrect (sizeOk : Bool) (noiseCount : Nat) (num : β → β → β) (s : Script) (pred cin : β) : R β :=
  let c1 := call s .sukf .measure true
  if !(c1.val && sizeOk) then ⟨pred, c1.script, c1.log⟩ else
  let c2 := call c1.script .sukf .predictedMeasure true
  if !c2.val then ⟨pred, c2.script, c1.log ++ c2.log⟩ else
  let c3 := call c2.script .sukf .innovation true
  if !c3.val then ⟨pred, c3.script, c1.log ++ c2.log ++ c3.log⟩ else
  let n := noiseCalls c3.script .sukf noiseCount
  ⟨num pred cin, n.script, c1.log ++ c2.log ++ c3.log ++ n.log⟩

/-- `GaussianLikelihood::likelihood`: four consulted calls; failure is reported as `none`
    (`std::make_pair(false, VectorXd::Zero(1))`), success as the value. -/
def gaussLik (value : γ) (s : Script) : R (Option γ) :=
  let c1 := call s .gaussLik .measure true
  if !c1.val then ⟨none, c1.script, c1.log⟩ else
  let c2 := call c1.script .gaussLik .predictedMeasure true
  if !c2.val then ⟨none, c2.script, c1.log ++ c2.log⟩ else
  let c3 := call c2.script .gaussLik .innovation true
  if !c3.val then ⟨none, c3.script, c1.log ++ c2.log ++ c3.log⟩ else
  let c4 := call c3.script .gaussLik .noiseCov true
  if !c4.val then ⟨none, c4.script, c1.log ++ c2.log ++ c3.log ++ c4.log⟩ else
  ⟨some value, c4.script, c1.log ++ c2.log ++ c3.log ++ c4.log⟩

/-- A user-supplied `LikelihoodModel` that reports availability itself. -/
def scriptedLik (value : γ) (site : Site) (s : Script) : R (Option γ) :=
  let c := call s site .likelihood true
  ⟨if c.val then some value else none, c.script, c.log⟩

/-- `BootstrapCorrection::correctStep`: `cor = pred; if (valid) cor.weight() += log(lik + min)`. -/
def bootCorrect (lik : Script → R (Option γ)) (upd : β → γ → β) (s : Script) (pred : β) : R β :=
  let l := lik s
  match l.val with
  | none => ⟨pred, l.script, l.log⟩
  | some v => ⟨upd pred v, l.script, l.log⟩

/-- `GPFCorrection::correctStep`: wrapped Gaussian correction, then positions redrawn around
    the (possibly uncorrected) Gaussians, then the likelihood; only an invalid *likelihood*
    restores the predicted set. -/
def gpfCorrect (gauss : Script → β → β → R β) (sample : β → β) (lik : Script → R (Option γ))
    (weigh : β → β → γ → β) (s : Script) (pred cin : β) : R β :=
  let g := gauss s pred cin
  let c := sample g.val
  let l := lik g.script
  match l.val with
  | none => ⟨pred, l.script, g.log ++ l.log⟩
  | some v => ⟨weigh pred c v, l.script, g.log ++ l.log⟩

/-! ### In-place calls `correct(b, b)`

The signatures take the predicted belief by const reference and the corrected one by reference, so
the same object may be passed for both.  Then every restore `corr = pred` is a self-assignment and
an early return yields whatever the object holds at that point.  KF / UKF / SUKF write into the
output only after their last validity test, and the bootstrap correction only copies before it, so
for them the object still holds the predicted belief: their in-place behaviour is the ordinary
function with `cin := pred`.  `GPFCorrection::correctStep` writes the wrapped correction's result
and the redrawn positions into the object *before* asking the likelihood; since fix 5d39dcb it
detects `&pred_particles == &corr_particles` and works on a copy of the predicted set. -/

/-- In-place `KFCorrection` / `UKFCorrection` / `SUKFCorrection::correctStep(b, b)`. -/
def gaussInPlace (gauss : Script → β → β → R β) (s : Script) (b : β) : R β := gauss s b b

/-- In-place `GPFCorrection::correctStep(b, b)` as it is now (5d39dcb):
    `const ParticleSet pred_copy = pred_particles; correctStep(pred_copy, corr_particles);` —
    the ordinary step with the copy as predicted set and the object (still holding `b`) as output. -/
def gpfCorrectInPlace (gauss : Script → β → β → R β) (sample : β → β) (lik : Script → R (Option γ))
    (weigh : β → β → γ → β) (s : Script) (b : β) : R β :=
  gpfCorrect gauss sample lik weigh s b b

/-- What the in-place call did *before* 5d39dcb (kept to state what the fix repairs): the wrapped
    correction runs in place, the positions are overwritten, and on an invalid likelihood
    `corr_particles = pred_particles` is a self-assignment that restores nothing. -/
def gpfCorrectInPlaceUnguarded (gauss : Script → β → β → R β) (sample : β → β) (lik : Script → R (Option γ))
    (weigh : β → β → γ → β) (s : Script) (b : β) : R β :=
  let g := gauss s b b
  let c := sample g.val
  let l := lik g.script
  match l.val with
  | none => ⟨c, l.script, g.log ++ l.log⟩
  | some v => ⟨weigh c c v, l.script, g.log ++ l.log⟩

/-- The correction phase of `SIS::filtering_step`:
    `if (correction().freeze_measurements()) { correct; normalise } else cor = pred`. -/
def sisCorrectPhase (correct : Script → β → β → R β) (normalise : β → β) (s : Script) (pred cin : β) : R β :=
  let f := call s .sis .freeze true
  if f.val then
    let c := correct f.script pred cin
    ⟨normalise c.val, c.script, f.log ++ c.log⟩
  else ⟨pred, f.script, f.log⟩

/-! ### Successive calls on one object, forwarding decorators, hand-over of objects -/

/-- Successive `correct` calls on one object: the script (the model's state) is threaded through,
    each call gets its own predicted belief and output container; result per call. -/
def runCalls (f : Script → β → β → R β) : Script → List (β × β) → List (β × R β)
  | _, [] => []
  | s, (pred, cin) :: rest =>
    let r := f s pred cin
    (pred, r) :: runCalls f r.script rest

/-- A measurement model seen through its validity-carrying interface. -/
structure MModel (σ : Type) where
  answer : σ → Method → Bool × σ

/-- A forwarding decorator (in the manner of `MeasurementModelDecorator`, which is not part of
    the library build: every method hands the call to the wrapped model and returns its pair). -/
def decorate {σ : Type} (m : MModel σ) : MModel σ :=
  ⟨fun s meth =>
    match meth with
    | .freeze => m.answer s .freeze
    | .measure => m.answer s .measure
    | .predictedMeasure => m.answer s .predictedMeasure
    | .innovation => m.answer s .innovation
    | .noiseCov => m.answer s .noiseCov
    | .likelihood => m.answer s .likelihood⟩

/-- The members of a `BootstrapCorrection` / `GPFCorrection` that decide what a correction does:
    the models it asks (as the function answering from their state), that state, the wrapped
    Gaussian correction (GPF), the last validity flag, and the base-class skip flag. -/
structure PFCorrObj (β γ : Type) where
  lik : Script → R (Option γ)
  gauss : Script → β → β → R β
  models : Script
  validLikelihood : Bool
  skip : Bool

/-- `BootstrapCorrection::operator=(BootstrapCorrection&&)` (since 186c63d) and
    `GPFCorrection::operator=(GPFCorrection&&)` (since 2d4bf06): the base is move-assigned and
    every member is handed over, member by member.  (Before the fixes `lik` / `models` of the
    bootstrap correction and `lik` of the Gaussian particle correction stayed the target's.) -/
def PFCorrObj.moveAssign (_target source : PFCorrObj β γ) : PFCorrObj β γ :=
  { lik := source.lik, gauss := source.gauss, models := source.models,
    validLikelihood := source.validLikelihood, skip := source.skip }

/-- Move construction: the base and every member come from the source. -/
def PFCorrObj.moveConstruct (source : PFCorrObj β γ) : PFCorrObj β γ :=
  { lik := source.lik, gauss := source.gauss, models := source.models,
    validLikelihood := source.validLikelihood, skip := source.skip }

/-- `correct` of such an object as a bootstrap correction (`skip` ⇒ copy, C13). -/
def PFCorrObj.bootCorrect (o : PFCorrObj β γ) (upd : β → γ → β) (pred : β) : R β :=
  if o.skip then ⟨pred, o.models, []⟩ else Fault.bootCorrect o.lik upd o.models pred

/-- … and as a Gaussian particle correction. -/
def PFCorrObj.gpfCorrect (o : PFCorrObj β γ) (sample : β → β) (weigh : β → β → γ → β) (pred cin : β) : R β :=
  if o.skip then ⟨pred, o.models, []⟩ else Fault.gpfCorrect o.gauss sample o.lik weigh o.models pred cin

/-! ### Executable classification used by the driver -/

/-- Which of the possible outputs a run produced (beliefs instantiated symbolically). -/
inductive Sym
  | pred                 -- the predicted belief, untouched
  | poison               -- previous content of the output container
  | full (a b : Sym)     -- numeric correction of `a` written over `b`
  | sampled (a : Sym)    -- positions redrawn around the Gaussians of `a`
  | weighed (p c : Sym)  -- weights of `p` updated with likelihood / transition / proposal at `c`
  | updated (a : Sym)    -- bootstrap weight update of `a`
  | normalised (a : Sym)
  deriving DecidableEq, Repr, Inhabited

end BFL.Fault
