import BFL.Proofs.Race
/-
C10 — the join.  `phase_adj` / `race_free_program` speak about executions
`set-up ++ [spawn] ++ concurrent phase ++ [join] ++ tear-down` in which the filtering thread has no
event after the join.  That shape is what `std::thread::join` provides — *if* `wait()` really joins,
i.e. if the handle is still joinable when `wait()` is called.  Here: a small state machine of a
thread handle, and the theorem that a table with `joinCertifiedIn` keeps the handle joinable from
`boot()` until the `join()` in `wait()`.
-/
namespace BFL.Race

/-- state of a `std::thread` member as far as ordering is concerned -/
inductive HState
  | running    -- owns the filtering thread, joinable
  | joined     -- the thread has finished and has been joined: everything it did is ordered before
  | lost       -- the thread may still be alive but can no longer be joined (detached, moved away, overwritten)
  deriving DecidableEq, Repr

/-- effect of an operation on a handle that owns a running thread (`join()` on a non-joinable handle
    is skipped by the `joinable()` guard / throws; it never re-orders anything) -/
def hstep : HState → ThreadOpKind → HState
  | .running, .join => .joined
  | .running, .detach => .lost
  | .running, .move => .lost
  | .running, .other => .lost
  | .running, .spawn => .lost      -- assigning to a joinable handle: std::terminate
  | .running, .joinable => .running
  | .running, .query => .running
  | .joined, _ => .joined
  | .lost, _ => .lost

def hrun (s : HState) (ops : List ThreadOpKind) : HState := ops.foldl hstep s

/-- operations that keep a running handle joinable or join it -/
def ThreadOpKind.benign : ThreadOpKind → Bool
  | .join | .joinable | .query => true
  | _ => false

theorem hrun_joined (ops : List ThreadOpKind) : hrun .joined ops = .joined := by
  induction ops with
  | nil => rfl
  | cons o os ih => simpa [hrun, hstep] using ih

/-- With benign operations only, a running handle is never lost, and it is joined as soon as a
    `join` has been executed. -/
theorem hrun_benign (ops : List ThreadOpKind) (h : ∀ o ∈ ops, o.benign = true) :
    hrun .running ops ≠ .lost ∧ (ThreadOpKind.join ∈ ops → hrun .running ops = .joined) := by
  induction ops with
  | nil => simp [hrun]
  | cons o os ih =>
    have ho := h o (List.mem_cons_self ..)
    have hos := ih (fun x hx => h x (List.mem_cons_of_mem _ hx))
    cases o <;> simp [ThreadOpKind.benign] at ho
    · -- join
      have : hrun .running (ThreadOpKind.join :: os) = .joined := by
        show hrun (hstep .running .join) os = .joined
        exact hrun_joined os
      exact ⟨by rw [this]; decide, fun _ => this⟩
    · -- joinable
      have e : hrun .running (ThreadOpKind.joinable :: os) = hrun .running os := rfl
      rw [e]
      exact ⟨hos.1, fun hm => hos.2 (by simpa using hm)⟩
    · -- query
      have e : hrun .running (ThreadOpKind.query :: os) = hrun .running os := rfl
      rw [e]
      exact ⟨hos.1, fun hm => hos.2 (by simpa using hm)⟩

/-- What the certification says about the operations of the two roles: the filtering thread performs
    none, the controller's are `spawn` in `boot()` or benign, and `wait()` contains a `join`. -/
theorem joinCertified_ops (T : Table) (SC SF : Nat) (h : T.joinCertifiedIn SC SF = true) :
    (∀ o ∈ T.threadOps, SF.testBit o.meth = false) ∧
    (∀ o ∈ T.threadOps, SC.testBit o.meth = true →
        (o.kind = .spawn ∧ T.methNameIs o.meth spawnSite.1 = true) ∨ o.kind.benign = true) ∧
    (∃ o ∈ T.threadOps, o.kind = .join ∧ T.methNameIs o.meth joinSite = true ∧ SC.testBit o.meth = true) := by
  unfold Table.joinCertifiedIn at h
  simp only [Bool.and_eq_true, List.all_eq_true, List.any_eq_true, Bool.not_eq_true', Bool.or_eq_true,
    beq_iff_eq] at h
  obtain ⟨⟨⟨⟨h1, _⟩, h3⟩, h4⟩, _⟩ := h
  refine ⟨h1, ?_, ?_⟩
  · intro o ho hc
    have := h3 o ho
    rcases this with hf | hk
    · rw [hc] at hf; exact absurd hf (by decide)
    · cases hkind : o.kind <;> simp [hkind] at hk <;> simp [ThreadOpKind.benign, hk]
  · obtain ⟨o, ho, ⟨hk, hn⟩, hc⟩ := h4
    exact ⟨o, ho, hk, hn, hc⟩

end BFL.Race
