import BFL.Model.UT
/-
Storage-level model of `GaussianMixture::augmentWithNoise` and further plumbing of the unscented transform.

  GaussianMixture::augmentWithNoise               src/BayesFilters/src/GaussianMixture.cpp:190-247
     (the covariances of all components live side by side in ONE matrix `covariance_`,
      `dim_covariance × (dim_covariance · components)`; the augmentation resizes it in place and moves
      the old blocks to their new column offsets by column swaps, last component first, last column first)
  sigma_point::UTWeight constructors               src/BayesFilters/src/sigma_point.cpp:21-50
  histories of augmentations (`dim_noise += …`)    src/BayesFilters/src/GaussianMixture.cpp:205-208

`BFL.augmentWithNoise` (Model/UT.lean) is the value-level specification: `[m; 0]`, `blockdiag(P_i, Q)`.
Here the in-place algorithm is modelled step by step on the shared storage; `BFL/Proofs/UTStore.lean` proves
that it refines the specification (and that the same loop run in ascending component order does not).
-/
namespace BFL

/-- the storage of `covariance_`: entry (row, column).  Total: reads outside the allocated shape never
    happen in the statements below. -/
abbrev Store (α : Type) := Nat → Nat → α

namespace Store
variable {α : Type}

/-- `new_block.col(j).swap(old_block.col(j))` for blocks with `d` rows starting at row 0: rows `0 … d-1`
    of the columns `c1`, `c2` are exchanged. -/
def swapTop (d : Nat) (s : Store α) (c1 c2 : Nat) : Store α :=
  fun r c => if r < d then (if c = c1 then s r c2 else if c = c2 then s r c1 else s r c) else s r c

/-- `covariance_.conservativeResizeLike(MatrixXd::Zero(D, D * k))` on a `d × (d·k)` matrix: the old
    entries keep their (row, column) position, everything appended is zero. -/
def resize [Zero α] (d k : Nat) (s : Store α) : Store α :=
  fun r c => if r < d ∧ c < d * k then s r c else 0

/-- inner loop (GaussianMixture.cpp:231-236): the columns `j-1, …, 0` of block `ii` are swapped from their
    old offset `ii·d` to the new one `ii·D`, right to left. -/
def moveCols (d D ii : Nat) : Nat → Store α → Store α
  | 0, s => s
  | j + 1, s => moveCols d D ii j (swapTop d s (ii * D + j) (ii * d + j))

/-- outer loop (GaussianMixture.cpp:223-237), `i_index = components-1, …, 1`: last component first;
    component 0 is already in place. -/
def moveBlocks (d D : Nat) : Nat → Store α → Store α
  | 0, s => s
  | ii + 1, s => moveBlocks d D ii (moveCols d D (ii + 1) d s)

/-- the same loop body run in ASCENDING component order `i = 1, …, m` (what a "tidied" loop
    `for (i = 1; i < components; i++)` does): not a refinement of the specification from three components on
    (`ut_augment_store_ascending_counterexample`). -/
def moveBlocksAsc (d D : Nat) (m : Nat) (s : Store α) : Store α :=
  (List.range m).foldl (fun s i => moveCols d D (i + 1) d s) s

end Store

section storeAug
variable {α : Type} [Zero α] [Inhabited α]

/-- total read of a matrix entry (`0` outside) -/
def Mat.getZ {r c : Nat} (A : Mat α r c) (i j : Nat) : α :=
  if h : i < r ∧ j < c then A ⟨i, h.1⟩ ⟨j, h.2⟩ else 0

/-- second loop (GaussianMixture.cpp:239-249): for every component the noise covariance goes to the
    bottom-right block and the top-right block is cleaned; the bottom-left block is left as the resize made it. -/
def Store.fillNoise (d z k : Nat) (Q : Mat α z z) (s : Store α) : Store α :=
  fun r c =>
    let D := d + z
    if c / D < k ∧ d ≤ c % D then
      (if r < d then 0 else if r < D then Q.getZ (r - d) (c % D - d) else s r c)
    else s r c

/-- `augmentWithNoise` on the storage: resize, move the blocks (last component first), fill. -/
def augmentStore (d z k : Nat) (Q : Mat α z z) (s : Store α) : Store α :=
  Store.fillNoise d z k Q (Store.moveBlocks d (d + z) (k - 1) (Store.resize d k s))

/-- the "tidied" variant (ascending order), for the counterexample -/
def augmentStoreAsc (d z k : Nat) (Q : Mat α z z) (s : Store α) : Store α :=
  Store.fillNoise d z k Q (Store.moveBlocksAsc d (d + z) (k - 1) (Store.resize d k s))

/-- the storage of a mixture: component `i` occupies the columns `i·d … i·d + d - 1` -/
def storeOf {d k : Nat} (b : GM α d k) : Store α :=
  fun r c => if h : c / d < k then (b.cov ⟨c / d, h⟩).getZ r (c % d) else 0

/-- the covariance of component `i` read back from a storage with blocks of size `D` -/
def covOfStore (D : Nat) {k : Nat} (s : Store α) (i : Fin k) : Mat α D D :=
  Mat.eval (Mat.of (fun r c => s r.val (i.val * D + c.val)))

end storeAug

/-! ### Histories of augmentations -/

section history
variable {α : Type} [Zero α] [Inhabited α] [Add α] [Sub α] [Mul α] [Div α] [NatCast α] {k : Nat}

/-- a mixture of any dimension (the dimension grows with every augmentation) -/
structure AnyGM (α : Type) (k : Nat) where
  n : Nat
  g : GM α n k

/-- a square noise covariance of any size -/
structure AnySq (α : Type) where
  z : Nat
  Q : Mat α z z

instance instInhabitedVecUT {n : Nat} : Inhabited (Vec α n) := ⟨Vec.of (fun _ => default)⟩
instance instInhabitedMatUT {r c : Nat} : Inhabited (Mat α r c) := ⟨Mat.of (fun _ _ => default)⟩

/-- Memoise a mixture (execution only, `GM.evalAll b = b`): means and covariances of all components are computed
    once — what the C++ object holds after the call — instead of being re-derived on every access through the
    closures of the previous augmentations. -/
def GM.evalAll {n : Nat} (b : GM α n k) : GM α n k :=
  let ms : Array (Vec α n) := Array.ofFn (fun i : Fin k => Vec.eval (b.mean i))
  let cs : Array (Mat α n n) := Array.ofFn (fun i : Fin k => Mat.eval (b.cov i))
  { mean := fun i => ms[i.val]!, cov := fun i => cs[i.val]!, weight := b.weight }

omit [Zero α] [Add α] [Sub α] [Mul α] [Div α] [NatCast α] in
theorem GM.evalAll_eq {n : Nat} (b : GM α n k) : GM.evalAll b = b := by
  cases b
  simp [GM.evalAll]

/-- one call `g.augmentWithNoise(Q)` -/
def AnyGM.augment (s : AnyGM α k) (q : AnySq α) : AnyGM α k :=
  ⟨s.n + q.z, GM.evalAll (augmentWithNoise s.g q.Q)⟩

/-- a history of calls on one object -/
def AnyGM.augmentAll (s : AnyGM α k) (qs : List (AnySq α)) : AnyGM α k :=
  qs.foldl AnyGM.augment s

/-- total reads -/
def AnyGM.meanZ (s : AnyGM α k) (i : Fin k) (r : Nat) : α :=
  if h : r < s.n then s.g.mean i ⟨r, h⟩ else 0

def AnyGM.covZ (s : AnyGM α k) (i : Fin k) (r c : Nat) : α :=
  (s.g.cov i).getZ r c

/-- the layout bookkeeping of a history (`dim_noise += dim_added; dim += …; dim_covariance += …`) -/
def Layout.addNoiseAll (ly : Layout) (zs : List Nat) : Layout :=
  zs.foldl Layout.addNoise ly

end history

/-! ### `UTWeight` constructors -/

section ctors
variable {α : Type} [Add α] [Sub α] [Mul α] [Div α] [NatCast α]

/-- `UTWeight(std::size_t dof, alpha, beta, kappa)`: vectors of `2·dof + 1` entries, `unscented_weights` -/
def UTWeight.ofDof (dof : Nat) (alpha beta kappa : α) : UTWeight α dof :=
  utWeights dof alpha beta kappa

/-- `UTWeight(const VectorDescription&, alpha, beta, kappa)`: `dof = vector_description.dof_size()` -/
def UTWeight.ofLayout (ly : Layout) (alpha beta kappa : α) : UTWeight α ly.dof :=
  UTWeight.ofDof ly.dof alpha beta kappa

end ctors

/-! ### Translation of the propagated points; the expanded ("naive") covariance formula -/

section translation
variable {α : Type} [Add α] [Sub α] [Mul α] [Zero α] [Inhabited α] {ny N r : Nat}

/-- `Y.colwise() + t` -/
def translateCols (Y : Mat α ny N) (t : Vec α ny) : Mat α ny N :=
  Mat.of (fun i j => Y i j + t i)

/-- The expanded form `Y diag(w) Yᵀ − (Y w) mᵀ − m (Y w)ᵀ + (Σ w) m mᵀ` of the covariance of the offsets
    `Σ_j w_j (Y_j − m)(Y_j − m)ᵀ`.  NOT what the code computes (it forms the offsets): over a field both agree
    (`ut_naive_eq_offsets`), in floating point the expanded form loses `ε·|m|²` and is not invariant under a
    common translation of the points; the check executes both on `Float` to show that its cases tell them apart. -/
def utCovNaive (wc : Vec α N) (Y : Mat α ny N) (m : Vec α ny) : Mat α ny ny :=
  let YW := Mat.eval (scaleCols Y wc)
  let S := YW.mul Y.transpose
  let yw := Vec.eval (Vec.of (fun i => fsum N (fun j => YW i j)))
  let sw := fsum N (fun j => wc j)
  Mat.of (fun a c => S a c - yw a * m c - m a * yw c + sw * (m a * m c))

/-- cross-covariance, expanded: `dX diag(w) Yᵀ − (dX w) mᵀ` -/
def utCrossNaive (wc : Vec α N) (Din : Mat α r N) (Y : Mat α ny N) (m : Vec α ny) : Mat α r ny :=
  let DW := Mat.eval (scaleCols Din wc)
  let S := DW.mul Y.transpose
  let dw := Vec.eval (Vec.of (fun i => fsum N (fun j => DW i j)))
  Mat.of (fun a c => S a c - dw a * m c)

end translation

end BFL
