"""C13 — Skip commands are safe, reversible and turn the skipped step into the identity.

Proof stage : BFL.Props.C13 (skip_total, skip_inv, skip_reports_commands, skip_identity, skip_restore, ...).
Tie stage   : every history is run through the real filter-level skip() of GaussianFilter / ParticleFilter
              subclasses (harness/h_skip.cpp) and through the Lean model (driver op `skip`).
Oracle stage: the property's clauses are evaluated on the implementation's own observations against an
              independent specification fold written here (SpecState), never against the model:
                * named commands return true and do not throw; unknown names return false and change nothing;
                * the reported flags are the ones the commands given so far imply;
                * while prediction / correction is skipped the step returns its input bit-for-bit;
                * with nothing switched on any more, each step equals (bit-for-bit) the never-skipped twin.
              Whatever else the faithful model fixes (behaviour in partially skipped states, the exception of
              'exogenous' without such a model, return values of step-level calls with names the step does not
              know) is compared too, but a difference there is recorded as a note and never raises an alarm.
"""
import itertools
import json

import vlib

GAUSS_PRED = ["kf", "ukfa", "ukfg"]
GAUSS_CORR = ["kfc", "ukfc"]
PART = [("draw", "boot"), ("gpfkf", "gpfc"), ("gpfkf", "boot")]
CONFIGS = [(p, c) for p in GAUSS_PRED for c in GAUSS_CORR] + PART
NAMES = ["prediction", "state", "exogenous", "correction", "all"]
# DrawParticles(state_model, exogenous_model): a configuration *with* an exogenous model (the caller supplied one)
DRAW2 = ("draw2", "boot")
HANDOVER_KEY = "gaussian-correction-move:skip-flag-lost"      # fixed by 88cf1f5
DRAW2_KEY = "drawparticles-two-arg-ctor:exogenous-model-never-attached"
UNKNOWN = ["~", "Prediction", "predict", "states", "stat", "exo", "ALL", "al", "corrections", "predictionstate", "none"]


class SpecState:
    """Independent specification of what the commands mean (mirrors the property text, not the code)."""

    def __init__(self, exo):
        self.has_exo, self.state, self.exo, self.corr = exo, False, False, False
        self.stale = False      # an exogenous model was attached while the prediction was skipped (see attach())

    def copy(self):
        s = SpecState(self.has_exo)
        s.state, s.exo, s.corr, s.stale = self.state, self.exo, self.corr, self.stale
        return s

    def attach(self):
        """getStateModel().add_exogenous_model(new model): the configuration now has an exogenous model that is not
        skipped.  The property fixes the configuration; what it implies here is only checked where it is unambiguous:
        if the prediction was skipped at that moment, flags and behaviour are compared with the model as notes only
        until the next command that names a part of the prediction (which must bring everything back in step)."""
        if self.pred_skipped():
            self.stale = True
        self.has_exo, self.exo = True, False

    def pred_skipped(self):
        return self.state and (not self.has_exo or self.exo)

    def nothing_skipped(self):
        return not self.state and not (self.has_exo and self.exo) and not self.corr

    def pred_untouched(self):
        return not self.state and not (self.has_exo and self.exo)

    def flags(self):
        b = lambda x: "1" if x else "0"
        return b(self.pred_skipped()) + b(self.state) + (b(self.exo) if self.has_exo else "-")

    def apply(self, level, name, on):
        """returns expected outcome: 'r1' | 'r0' | None (the property promises nothing)"""
        if level == "C":
            self.corr = on
            return "r1"
        known_here = NAMES if level == "F" else ["prediction", "state", "exogenous"]
        if name not in NAMES:
            return "r0"
        if name not in known_here:
            return None          # step-level call with a name only the filter knows: not in the property
        if name != "correction" and not (name == "exogenous" and not self.has_exo):
            self.stale = False   # the aggregate flag is recomputed from the models
        if name == "exogenous":
            if not self.has_exo:
                return None      # 'exogenous' is promised only when such a model exists
            self.exo = on
            return "r1"
        if name in ("prediction", "all"):
            self.state = on
            if self.has_exo:
                self.exo = on
            if name == "all":
                self.corr = on
            return "r1"
        if name == "state":
            self.state = on
            return "r1"
        if name == "correction":
            self.corr = on
            return "r1"
        return None


def labset(lab):
    """`ambiguous=a=b` (two references coincide bit-for-bit on this input) stands for the set {a, b}"""
    base = lab.split("+")[0]
    return set(base.split("=")[1:]) if base.startswith("ambiguous") else {base}


def parse_op(tok):
    if tok in ("p", "c", "H", "A"):
        return (tok,)
    lvl, name, on = tok.split(":")
    return (lvl, "" if name == "~" else name, on == "1")


def check_line(line, hout, dout, stats, notes):
    try:
        return check_line_(line, hout, dout, stats, notes)
    except Exception as e:      # malformed harness output: a violation with the input as replay, never a crash of the check
        return [("malformed-output", "the harness output could not be interpreted (%s): %s" % (type(e).__name__, hout[:120]))]


def check_line_(line, hout, dout, stats, notes):
    """returns list of (key, what) property violations; `notes` gets model/implementation differences
    on observables the property does not constrain."""
    t = line.split()
    pk, exo, ck = t[1], t[2] == "1", t[3]
    ops = [parse_op(x) for x in t[7:]]
    if hout.startswith("crash") or hout.startswith("throw") or hout.startswith("bad"):
        return [("crash", "the implementation crashed or threw outside skip(): %s" % hout[:80])]
    ht, dt = hout.split(), dout.split()
    if len(ht) != len(ops) + 1 or len(dt) != len(ops) + 1:
        return [("harness-output", "unexpected output length (harness %d, model %d, ops %d)" % (len(ht), len(dt), len(ops)))]
    raw = any(o[0] in ("M", "X") for o in ops)
    if raw:
        # state-model-level commands bypass the filter: outside the property, compared as notes only
        br = stats.setdefault("branches", {})
        for i, (a, b) in enumerate(zip(ht, dt)):
            if a != b:
                notes.append((line, i, a, b))
            mp = b.split("/")
            if len(mp) == 4:      # model branches reached only by bypassing the filter (copy / untouched)
                key = "raw:pred:%s:%s" % (pk, "atPredict" if mp[1][0] == "1" else ("atPredictStep" if mp[2] == "id" else "ran-" + mp[2]))
                br[key] = br.get(key, 0) + 1
                key = "raw:cmd:%s" % mp[0]
                br[key] = br.get(key, 0) + 1
        stats["raw_histories"] = stats.get("raw_histories", 0) + 1
        return []
    bad = []
    spec = SpecState(exo)
    never_p = "fxexo" if exo else "fx"
    if pk == "draw2":
        # whether the supplied exogenous input is applied at all is not C13's business: restore = behaviour before any command
        never_p = sorted(labset(ht[0].split("/")[2]))[0]
    prev = None
    br = stats.setdefault("branches", {})

    def hit(key):
        br[key] = br.get(key, 0) + 1

    def behaviour(pl, cl, mpl, where, i):
        if spec.stale and pl is not None:
            if mpl not in labset(pl):
                notes.append((line, i, pl, mpl))
            pl = None
        for lab in (pl, cl):
            if lab is not None:
                stats["observations"] = stats.get("observations", 0) + 1
                if lab.startswith("ambiguous"):
                    stats["uninformative"] = stats.get("uninformative", 0) + 1
        if pl is not None:
            if "input-modified" in pl:
                bad.append(("input-modified", "%s: predict() modified its input belief" % where))
            if spec.pred_skipped():
                if "id" not in labset(pl):
                    bad.append(("skipped-prediction-not-identity:%s" % pk, "%s: the prediction is skipped but predict() did not return its input bit-for-bit (%s)" % (where, pl)))
            elif spec.pred_untouched():
                if never_p not in labset(pl):
                    bad.append(("restore-prediction-differs:%s" % pk, "%s: no part of the prediction is skipped (any more) but predict() differs from the never-skipped twin (observed %s, expected %s)" % (where, pl, never_p)))
            elif mpl not in labset(pl):
                notes.append((line, i, pl, mpl))      # partially skipped state: not constrained by the property
        if cl is not None:
            if "input-modified" in cl:
                bad.append(("input-modified", "%s: correct() modified its input belief" % where))
            if spec.corr:
                if "id" not in labset(cl):
                    bad.append(("skipped-correction-not-identity:%s" % ck, "%s: the correction is skipped but correct() did not return its input bit-for-bit (%s)" % (where, cl)))
            elif "full" not in labset(cl):
                bad.append(("restore-correction-differs:%s" % ck, "%s: the correction is not skipped (any more) but correct() differs from the never-skipped twin (%s)" % (where, cl)))

    for i, tok in enumerate(ht):
        op = ops[i - 1] if i > 0 else None
        where = "after op %d (%s)" % (i, t[6 + i]) if i > 0 else "initially"
        parts, mparts = tok.split("/"), dt[i].split("/")
        if op is not None and op[0] == "p":
            stats["step_ops"] = stats.get("step_ops", 0) + 1
            behaviour(parts[1], None, mparts[1], where, i)
            continue
        if op is not None and op[0] == "c":
            stats["step_ops"] = stats.get("step_ops", 0) + 1
            behaviour(None, parts[1], None, where, i)
            continue
        r, fl, pl, cl = parts
        if op is not None and op[0] == "A":
            stats["attachments"] = stats.get("attachments", 0) + 1
            spec.attach()
            never_p = "fxexo"
            hit("attach:%s" % ("stale" if spec.stale else "in-step"))
            if spec.stale:
                if tok != dt[i]:
                    notes.append((line, i, tok, dt[i]))
            else:
                if fl != spec.flags():
                    bad.append(("attach-exogenous:flags-mismatch", "%s: an exogenous model was attached through getStateModel().add_exogenous_model; reported flags %s, expected %s" % (where, fl, spec.flags())))
                behaviour(pl, cl, mparts[2], where, i)
            prev = (fl, pl, cl)
            continue
        if op is not None and op[0] == "H":
            # hand-over: steps move-constructed into new objects held by a new filter; must behave as the original
            stats["handovers"] = stats.get("handovers", 0) + 1
            nb = len(bad)
            if fl != (mparts[1] if spec.stale else spec.flags()):
                bad.append(("handover-changes-flags", "%s: after the hand-over the reported flags are %s, the commands given imply %s" % (where, fl, spec.flags())))
            behaviour(pl, cl, mparts[2], where, i)
            if spec.corr and "id" not in labset(cl) and ck in ("kfc", "ukfc"):
                bad[nb:] = [(HANDOVER_KEY, "%s: the correction was skipped before the hand-over; the move-constructed %s corrects again (skip flag lost)" % (where, ck))]
            prev = (fl, pl, cl)
            continue
        if op is not None:
            lvl, name, on = op
            want = spec.apply(lvl, name, on)
            stats["cmds"] = stats.get("cmds", 0) + 1
            if want is None:
                if r != mparts[0]:
                    notes.append((line, i, r, mparts[0]))      # outcome the property is silent about
            elif want == "r1" and r != "r1":
                if r in ("rT", "rE"):
                    bad.append(("skip-throws:%s:%s:%s" % (lvl, name, "exo" if exo else "noexo"), "%s: skip(%r, %s) threw" % (where, name, on)))
                else:
                    bad.append(("skip-returns-false:%s:%s" % (lvl, name), "%s: skip(%r, %s) returned false" % (where, name, on)))
            elif want == "r0":
                if r != "r0":
                    bad.append(("unknown-name-accepted", "%s: skip(%r, %s) with an unknown name gave %s instead of false" % (where, name, on, r)))
                if prev is not None and (fl != prev[0] or not (labset(pl) & labset(prev[1])) or not (labset(cl) & labset(prev[2]))):
                    bad.append(("unknown-name-changes-state", "%s: skip(%r, %s) with an unknown name changed flags/behaviour %s -> %s" % (where, name, on, prev, (fl, pl, cl))))
            hit("cmd:%s:%s:%s" % (lvl, name if name in NAMES else "unknown", mparts[0]))
        if spec.stale:
            if fl != mparts[1]:
                notes.append((line, i, fl, mparts[1]))
        elif fl != spec.flags():
            bad.append(("flags-mismatch", "%s: reported skipping flags (prediction,state model,exogenous model)=%s but the commands given imply %s" % (where, fl, spec.flags())))
        behaviour(pl, cl, mparts[2], where, i)
        prev = (fl, pl, cl)
        # coverage of the model's branches, from the model's own output
        hit("pred:%s:%s" % (pk, "atPredict" if mparts[1][0] == "1" else ("atPredictStep" if mparts[2] == "id" else "ran-" + mparts[2])))
        hit("corr:%s:%s" % (ck, mparts[3]))
        stats.setdefault("states", set()).add((pk, exo, mparts[1], mparts[3]))
    if not bad and hout == dout:
        stats["identical"] = stats.get("identical", 0) + 1
    if pk == "draw2":
        if hout != dout:
            notes.append((line, -1, hout[:120], dout[:120]))
        # every deviation on this configuration has one root cause: one stable key
        bad.sort(key=lambda kw: 0 if kw[0].startswith("skip-throws") else 1)
        bad = [(DRAW2_KEY, "DrawParticles(state_model, exogenous_model) — the supplied exogenous model is never attached to the state model: " + w) for (k, w) in bad]
    return bad


def prefix_for(exo, s, e, c):
    ops = []
    if s:
        ops.append("F:state:1")
    if e:
        ops.append("F:exogenous:1")
    if c:
        ops.append("F:correction:1")
    return ops


def exhaustive_cases(seed):
    cases = []
    idx = 0
    for (pk, ck) in CONFIGS + [DRAW2]:
        for exo in ((True,) if pk == "draw2" else (False, True)):
            states = [(s, e, c) for s in (0, 1) for e in ((0, 1) if exo else (0,)) for c in (0, 1)]
            cmds = ["F:%s:%d" % (n, b) for n in NAMES + UNKNOWN for b in (0, 1)]
            cmds += ["P:%s:%d" % (n, b) for n in NAMES + UNKNOWN[:3] for b in (0, 1)]
            cmds += ["C:-:0", "C:-:1"]
            for st in states:
                for cmd in cmds:
                    idx += 1
                    n = 1 + (idx % 4)
                    k = 1 + ((idx // 4) % 4)
                    ops = prefix_for(exo, *st) + [cmd, "p", "c", "F:all:0", "p", "c"]
                    if idx % 3 == 0:
                        # the same with hand-overs in between (commands that net to nothing must still net to nothing)
                        ops = prefix_for(exo, *st) + ["H", cmd, "H", "p", "c", "F:all:0", "H", "p", "c"]
                    cases.append(("skip %s %d %s %d %d %d %s" % (pk, exo, ck, (seed * 7919 + idx) % 100000, n, k, " ".join(ops)),
                                  {"style": "exhaustive", "pk": pk, "exo": exo}))
            # configuration changed after construction: an exogenous model attached in every flag state, then every
            # named command (nothing may be latched at construction / at the first command), then everything off
            if pk != "draw2":
                for st in states:
                    for cmd in ["F:%s:%d" % (n, b) for n in NAMES for b in (0, 1)] + ["P:state:1", "P:exogenous:0"]:
                        idx += 1
                        ops = prefix_for(exo, *st) + (["F:prediction:1", "F:prediction:0"] if idx % 2 else []) + ["A", cmd, "p", "c", "F:all:0", "p", "c"]
                        cases.append(("skip %s %d %s %d %d %d %s" % (pk, exo, ck, (seed * 7919 + idx) % 100000, 1 + idx % 3, 1 + (idx // 3) % 3, " ".join(ops)),
                                      {"style": "attach", "pk": pk, "exo": exo}))
                # the exogenous model addressed directly, every name (notes only)
                for nm in NAMES + UNKNOWN[:2]:
                    idx += 1
                    ops = ["F:state:1", "X:%s:1" % nm, "p", "X:%s:0" % nm, "F:all:0", "p"]
                    cases.append(("skip %s %d %s %d %d %d %s" % (pk, exo, ck, (seed * 7919 + idx) % 100000, 2, 2, " ".join(ops)),
                                  {"style": "raw", "pk": pk, "exo": exo}))
            # every raw flag combination (state-model-level commands bypass the bookkeeping): notes only
            for p in (0, 1):
                for s in (0, 1):
                    for e in ((0, 1) if exo else (0,)):
                        idx += 1
                        ops = ["P:prediction:%d" % p, "M:state:%d" % s] + (["M:exogenous:%d" % e] if exo else []) + ["p", "c", "M:prediction:1", "M:~:1"]
                        cases.append(("skip %s %d %s %d %d %d %s" % (pk, exo, ck, (seed * 7919 + idx) % 100000, 2 + idx % 2, 2 + idx % 3, " ".join(ops)),
                                      {"style": "raw", "pk": pk, "exo": exo}))
    return cases


def random_cases(g, count, maxlen):
    r = g.r
    cases = []
    for i in range(count):
        pk, ck = r.choice(CONFIGS + [DRAW2]) if r.random() < 0.08 else r.choice(CONFIGS)
        exo = True if pk == "draw2" else r.random() < 0.5
        L = r.randint(1, maxlen)
        ops = []
        for _ in range(L):
            x = r.random()
            if x < 0.03:
                ops.append("A" if pk != "draw2" else "H")
            elif x < 0.06:
                ops.append("H")
            elif x < 0.25:
                ops.append("p")
            elif x < 0.45:
                ops.append("c")
            elif x < 0.85:
                nm = r.choice(NAMES + NAMES + [r.choice(UNKNOWN)])
                ops.append("F:%s:%d" % (nm, r.randint(0, 1)))
            elif x < 0.95:
                nm = r.choice(NAMES + [r.choice(UNKNOWN)])
                ops.append("P:%s:%d" % (nm, r.randint(0, 1)))
            else:
                ops.append("C:-:%d" % r.randint(0, 1))
        cases.append(("skip %s %d %s %d %d %d %s" % (pk, exo, ck, r.randint(0, 99999), r.randint(1, 4), r.randint(1, 4), " ".join(ops)),
                      {"style": "random", "pk": pk, "exo": exo}))
    return cases


def run(ctx):
    ctx.proof_stage()
    if not ctx.quick():
        badck = vlib.leanchecker(["BFL.Model.Skip", "BFL.Proofs.Skip", "BFL.Props.C13"])
        ctx.coverage["leanchecker"] = "ok" if not badck else "FAILED: %s" % badck[:2]
        if badck:
            ctx.violation("leanchecker", "leanchecker rejected the compiled modules: %s" % badck[:1], {"modules": [b[0] for b in badck]}, no_input=True)
    binary = vlib.build_harness("h_skip")
    cases = []
    if ctx.replay:
        body = json.loads(open(ctx.replay).read())
        cases.append((body["replay"]["input_line"], {"style": "replay"}))
    else:
        corpus = vlib.VERIF / "corpus" / "C13" / "cases.txt"
        if corpus.exists():
            cases += [(ln.strip(), {"style": "corpus"}) for ln in corpus.read_text().split("\n") if ln.strip() and not ln.startswith("#")]
        cases += exhaustive_cases(ctx.seed)
        cases += random_cases(ctx.gen("skip"), ctx.n(1500, 40000), 12)
    lines = [c[0] for c in cases]
    hout, logs = vlib.run_harness(binary, lines)
    dout = vlib.run_driver(lines)
    stats, notes, hist = {}, [], {}
    prop_bad = []
    for (line, meta), h, d in zip(cases, hout, dout):
        hist[meta["style"]] = hist.get(meta["style"], 0) + 1
        if d.startswith("bad"):
            prop_bad.append(("driver-rejected-case", "the model driver rejected the case", line, h))
            continue
        for key, what in check_line(line, h, d, stats, notes):
            prop_bad.append((key, what, line, h))
    seen = set()
    for key, what, line, h in prop_bad:
        if key in seen:
            continue
        seen.add(key)
        # prefer the shortest history showing this key
        best = min((x for x in prop_bad if x[0] == key), key=lambda x: len(x[2].split()))
        ctx.violation(best[0], "skip machinery: " + best[1], {"harness": "h_skip", "input_line": best[2], "observed": best[3][:2000]})
    branches = stats.get("branches", {})
    ctx.coverage.update({
        "evaluations": len(cases),
        "distinct_nontrivial": len(set(lines)),
        "rule": "one evaluation = one history (skip commands at filter / step / state-model level interleaved with predict and correct) on one "
                "filter configuration; exhaustive part: every reachable flag state x every command (5 names + %d unknown names at filter level, "
                "8 names at prediction level, correction level) x on/off x %d prediction/correction pairings x with/without exogenous model (+ the two-argument DrawParticles constructor), "
                "each followed by predict, correct, skip('all', false), predict, correct; plus every raw flag combination through state-model-level "
                "commands (notes only); plus random histories up to length 12; distinct = distinct input lines (all are non-trivial: every line "
                "contains at least one command or step)" % (len(UNKNOWN), len(CONFIGS)),
        "samples": [lines[0][:300], lines[len(lines) // 2][:300], lines[-1][:300]],
        "exhaustive": True,
        "exhaustive_scope": "reachable flag states x commands x on/off x configurations (complete); random histories up to length 12 are sampled on top",
        "states": len(stats.get("states", ())), "transitions": stats.get("cmds", 0),
        "style_histogram": hist,
        "traces_validated_against_impl": len(cases),
        "commands_checked": stats.get("cmds", 0), "handovers_checked": stats.get("handovers", 0), "attachments_checked": stats.get("attachments", 0), "step_ops_checked": stats.get("step_ops", 0),
        "histories_identical_to_model": stats.get("identical", 0),
        "model_branch_hits": dict(sorted(branches.items())),
        "distinct_model_states_visited": len(stats.get("states", ())),
        "property_failures_on_impl": len(prop_bad),
        "property_failures_by_key": {k: sum(1 for x in prop_bad if x[0] == k) for k in sorted(set(x[0] for x in prop_bad))},
        "model_vs_impl_differences_outside_property": len(notes),
        "sanitizer_crashes": len(logs),
        "step_observations": stats.get("observations", 0),
        "uninformative_observations_references_coincide": stats.get("uninformative", 0),
    })
    if notes:
        ln, i, tok, mtok = notes[0]
        ctx.notes.append("model and implementation differ on %d observation(s) the property does not constrain (partially skipped state, "
                         "'exogenous' without such a model, state-model-level commands); first: line %r op %d implementation %s model %s"
                         % (len(notes), ln[:200], i, tok, mtok))
    ctx.assumptions += ["bit-for-bit comparison with never-skipped twin objects built from the same data (same process noise per step index, same seed)",
                        "the inner GaussianPrediction of GPFPrediction is never given skip commands by the filter (its own flag stays false)"]
