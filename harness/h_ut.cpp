// Correspondence harness for C03 / C04: the real unscented_weights, sigma_point, unscented_transform
// (generic overload and the four model overloads), GaussianMixture::augmentWithNoise,
// UKFPrediction / UKFCorrection next to KFPrediction / KFCorrection on the same inputs.
#include "common.hpp"
#include <BayesFilters/sigma_point.h>
#include <BayesFilters/UKFPrediction.h>
#include <BayesFilters/UKFCorrection.h>
#include <BayesFilters/KFPrediction.h>
#include <BayesFilters/KFCorrection.h>
#include <BayesFilters/LTIStateModel.h>
#include <BayesFilters/LTIMeasurementModel.h>
#include <BayesFilters/AdditiveStateModel.h>
#include <BayesFilters/AdditiveMeasurementModel.h>
#include <BayesFilters/ExogenousModel.h>
#include <BayesFilters/GaussianMixture.h>
#include <BayesFilters/VectorDescription.h>
#include <BayesFilters/utils.h>
#include <memory>

using namespace bfl;
using namespace Eigen;
using vh::Toks; using vh::Out;

static VectorDescription::CircularType ctype(bool quat) {
    return quat ? VectorDescription::CircularType::Quaternion : VectorDescription::CircularType::Euler;
}

// ---------------------------------------------------------------------------------- models

// x' = A [x; w] + b  : generic (non additive) state model reading the noise rows of its input
struct HGenState : public StateModel {
    HGenState(const MatrixXd& A, const VectorXd& b, const MatrixXd& Q, const VectorDescription& in, const VectorDescription& out)
        : A_(A), b_(b), Q_(Q), in_(in), out_(out) {}
    void propagate(const Ref<const MatrixXd>& cur, Ref<MatrixXd> prop) override { prop = (A_.leftCols(cur.rows()) * cur).colwise() + b_; }
    void motion(const Ref<const MatrixXd>& cur, Ref<MatrixXd> mot) override { mot = (A_ * cur).colwise() + b_; }
    bool setProperty(const std::string&) override { return false; }
    MatrixXd getNoiseCovarianceMatrix() override { return Q_; }
    VectorDescription getInputDescription() override { return in_; }
    VectorDescription getStateDescription() override { return out_; }
    MatrixXd A_; VectorXd b_; MatrixXd Q_; VectorDescription in_, out_;
};

// x' = A x + b + w : additive state model (propagate only is used by the transform)
struct HAddState : public AdditiveStateModel {
    HAddState(const MatrixXd& A, const VectorXd& b, const MatrixXd& Q, const VectorDescription& out) : A_(A), b_(b), Q_(Q), out_(out) {}
    void propagate(const Ref<const MatrixXd>& cur, Ref<MatrixXd> prop) override { prop = (A_ * cur).colwise() + b_; }
    bool setProperty(const std::string&) override { return false; }
    MatrixXd getNoiseCovarianceMatrix() override { return Q_; }
    VectorDescription getStateDescription() override { return out_; }
    MatrixXd A_; VectorXd b_; MatrixXd Q_; VectorDescription out_;
};

// y = A [x; v] + b : generic measurement model; fail: 1 measure, 2 predictedMeasure, 3 innovation
struct HGenMeas : public MeasurementModel {
    HGenMeas(const MatrixXd& A, const VectorXd& b, const MatrixXd& R, const VectorXd& y, const VectorDescription& in, const VectorDescription& out, int fail)
        : A_(A), b_(b), R_(R), y_(y), in_(in), out_(out), fail_(fail) {}
    bool freeze(const Data&) override { return true; }
    std::pair<bool, Data> measure(const Data&) const override { MatrixXd y = y_; return std::make_pair(fail_ != 1, Data(y)); }
    std::pair<bool, Data> predictedMeasure(const Ref<const MatrixXd>& cur) const override {
        ++calls_;
        if (fail_ == 2) return std::make_pair(false, Data());
        MatrixXd p = (A_ * cur).colwise() + b_;
        if (fail_ == 4) return std::make_pair(false, Data(std::move(p)));   // failed, but a (stale / partial) matrix is handed back
        return std::make_pair(true, Data(std::move(p)));
    }
    std::pair<bool, Data> innovation(const Data& pred, const Data& meas) const override {
        if (fail_ == 3) return std::make_pair(false, Data());
        MatrixXd inn = -(any::any_cast<MatrixXd>(pred).colwise() - any::any_cast<MatrixXd>(meas).col(0));
        return std::make_pair(true, Data(std::move(inn)));
    }
    std::pair<bool, MatrixXd> getNoiseCovarianceMatrix() const override { return std::make_pair(true, R_); }
    VectorDescription getInputDescription() const override { return in_; }
    VectorDescription getMeasurementDescription() const override { return out_; }
    MatrixXd A_; VectorXd b_; MatrixXd R_; VectorXd y_; VectorDescription in_, out_; int fail_; mutable long calls_ = 0;
};

// y = A x + b + v : additive measurement model
struct HAddMeas : public AdditiveMeasurementModel {
    HAddMeas(const MatrixXd& A, const VectorXd& b, const MatrixXd& R, const VectorXd& y, const VectorDescription& in, const VectorDescription& out, int fail)
        : A_(A), b_(b), R_(R), y_(y), in_(in), out_(out), fail_(fail) {}
    bool freeze(const Data&) override { return true; }
    std::pair<bool, Data> measure(const Data&) const override { MatrixXd y = y_; return std::make_pair(fail_ != 1, Data(y)); }
    std::pair<bool, Data> predictedMeasure(const Ref<const MatrixXd>& cur) const override {
        if (fail_ == 2) return std::make_pair(false, Data());
        MatrixXd p = (A_ * cur).colwise() + b_;
        if (fail_ == 4) return std::make_pair(false, Data(std::move(p)));
        return std::make_pair(true, Data(std::move(p)));
    }
    std::pair<bool, Data> innovation(const Data& pred, const Data& meas) const override {
        if (fail_ == 3) return std::make_pair(false, Data());
        MatrixXd inn = -(any::any_cast<MatrixXd>(pred).colwise() - any::any_cast<MatrixXd>(meas).col(0));
        return std::make_pair(true, Data(std::move(inn)));
    }
    std::pair<bool, MatrixXd> getNoiseCovarianceMatrix() const override { return std::make_pair(true, R_); }
    VectorDescription getInputDescription() const override { VectorDescription d = in_; d.add_noise_components(R_.rows()); return d; }
    VectorDescription getMeasurementDescription() const override { return out_; }
    MatrixXd A_; VectorXd b_; MatrixXd R_; VectorXd y_; VectorDescription in_, out_; int fail_;
};

// the library's LTI models, for the Kalman side and for the additive unscented side (as in h_kf.cpp)
struct HLtiState : public LTIStateModel {
    HLtiState(const MatrixXd& F, const MatrixXd& Q) : LTIStateModel(F, Q), n_(F.rows()) {}
    VectorDescription getStateDescription() override { return VectorDescription(n_); }
    std::size_t n_;
};

// x' = F_k x (+ u_k) + w, w ~ N(0, Q_k): a linear state model whose matrices may change between steps
// (variable sampling time and the like); the library's LinearStateModel does the propagation.
struct HTvState : public LinearStateModel {
    HTvState(const MatrixXd& F, const MatrixXd& Q) : F_(F), Q_(Q) {}
    bool setProperty(const std::string&) override { return false; }
    MatrixXd getStateTransitionMatrix() override { return F_; }
    MatrixXd getNoiseCovarianceMatrix() override { return Q_; }
    MatrixXd getJacobian() override { return F_; }
    VectorDescription getStateDescription() override { return VectorDescription(F_.rows()); }
    MatrixXd F_, Q_;
};

struct HConstExo : public ExogenousModel {
    explicit HConstExo(const VectorXd& u) : u_(u) {}
    void propagate(const Ref<const MatrixXd>& cur, Ref<MatrixXd> prop) override { prop = MatrixXd::Zero(cur.rows(), cur.cols()).colwise() + u_; }
    bool setProperty(const std::string&) override { return false; }
    VectorDescription getStateDescription() const override { return VectorDescription(u_.size()); }
    VectorXd u_;
};

struct HLtiMeas : public LTIMeasurementModel {
    HLtiMeas(const MatrixXd& H, const MatrixXd& R, const VectorXd& y, int fail) : LTIMeasurementModel(H, R), y_(y), fail_(fail) {}
    bool freeze(const Data&) override { return true; }
    std::pair<bool, Data> measure(const Data&) const override { MatrixXd y = y_; return std::make_pair(fail_ != 1, Data(y)); }
    std::pair<bool, Data> predictedMeasure(const Ref<const MatrixXd>& cur) const override {
        if (fail_ == 2) return std::make_pair(false, Data());
        if (fail_ == 4) return std::make_pair(false, LTIMeasurementModel::predictedMeasure(cur).second);
        return LTIMeasurementModel::predictedMeasure(cur);
    }
    std::pair<bool, Data> innovation(const Data& pred, const Data& meas) const override {
        if (fail_ == 3) return std::make_pair(false, Data());
        return LTIMeasurementModel::innovation(pred, meas);
    }
    VectorDescription getInputDescription() const override { return VectorDescription(H_.cols(), 0, R_.rows()); }
    VectorDescription getMeasurementDescription() const override { return VectorDescription(H_.rows()); }
    void setNoise(const MatrixXd& R) { R_ = R; }
    void setH(const MatrixXd& H) { H_ = H; }
    VectorXd y_; int fail_;
};

// ---------------------------------------------------------------------------------- helpers

static void outGM(Out& o, const GaussianMixture& g) { o.m(g.mean()); o.m(g.covariance()); o.m(g.weight()); }
// with the shape in front (components, rows of the mean, rows and columns of the covariance storage, weights)
static void outGMs(Out& o, const GaussianMixture& g) {
    o.n((long)g.components); o.n((long)g.mean().rows()); o.n((long)g.mean().cols()); o.n((long)g.covariance().rows()); o.n((long)g.covariance().cols()); o.n((long)g.weight().size());
    o.m(g.mean()); o.m(g.covariance()); o.m(g.weight());
}

struct Snapshot {
    MatrixXd m, c, w; std::size_t comp, dim, dl, dc, dn, dcov; bool q;
    explicit Snapshot(const GaussianMixture& g) : m(g.mean()), c(g.covariance()), w(g.weight()), comp(g.components), dim(g.dim),
        dl(g.dim_linear), dc(g.dim_circular), dn(g.dim_noise), dcov(g.dim_covariance), q(g.use_quaternion) {}
    bool same(const GaussianMixture& g) const {
        return vh::same_bits(m, g.mean()) && vh::same_bits(c, g.covariance()) && vh::same_bits(w, g.weight()) && comp == g.components &&
               dim == g.dim && dl == g.dim_linear && dc == g.dim_circular && dn == g.dim_noise && dcov == g.dim_covariance && q == g.use_quaternion;
    }
};

// ---------------------------------------------------------------------------------- weights

static std::string utw(Toks& t) {
    long n = t.nat(); double a = t.dbl(), b = t.dbl(), k = t.dbl(); t.done();
    sigma_point::UTWeight w((std::size_t)n, a, b, k);
    Out o; o.s("ok"); o.m(w.mean); o.m(w.covariance); o.d(w.c);
    return o.str();
}

static std::string utwd(Toks& t) {
    long lin = t.nat(), circ = t.nat(), noise = t.nat(); bool quat = t.flag(); double a = t.dbl(), b = t.dbl(), k = t.dbl(); t.done();
    VectorDescription d(lin, circ, noise, ctype(quat));
    sigma_point::UTWeight w(d, a, b, k);
    Out o; o.s("ok"); o.n((long)d.dof_size()); o.m(w.mean); o.m(w.covariance); o.d(w.c);
    return o.str();
}

// ---------------------------------------------------------------------------------- sigma points

// sp lin circ quat k naug nz_1..nz_naug c | means (dim0 x k) | covs (dc0 x dc0*k) | Q_1 .. Q_naug
static std::string sp(Toks& t) {
    long lin = t.nat(), circ = t.nat(); bool quat = t.flag(); long k = t.nat(), naug = t.nat();
    std::vector<long> nz; for (long i = 0; i < naug; ++i) nz.push_back(t.nat());
    double c = t.dbl();
    GaussianMixture g(k, lin, circ, quat);
    g.mean() = t.mat(g.dim, k);
    g.covariance() = t.mat(g.dim_covariance, g.dim_covariance * k);
    std::vector<MatrixXd> Qs; for (long i = 0; i < naug; ++i) Qs.push_back(t.mat(nz[i], nz[i]));
    t.done();
    bool okaug = true;
    for (long i = 0; i < naug; ++i) okaug = g.augmentWithNoise(Qs[i]) && okaug;
    Snapshot s0(g);
    MatrixXd X = sigma_point::sigma_point(g, c);
    Out o; o.s("ok"); o.n(okaug ? 1 : 0); o.n((long)g.dim); o.n((long)g.dim_covariance); o.n((long)g.dim_noise);
    o.n((long)X.rows()); o.n((long)X.cols());
    o.m(g.mean()); o.m(g.covariance()); o.m(X); o.s(s0.same(g) ? "in-same" : "in-modified");
    return o.str();
}


// augal lin k comp | means | covs  -- g.augmentWithNoise(g.covariance(comp)): the argument refers to the mixture's own storage
static std::string augal(Toks& t) {
    long lin = t.nat(), k = t.nat(), comp = t.nat();
    GaussianMixture g(k, lin);
    g.mean() = t.mat(lin, k); g.covariance() = t.mat(lin, lin * k);
    t.done();
    bool ret = g.augmentWithNoise(g.covariance(comp));
    Out o; o.s("ok"); o.n(ret ? 1 : 0); o.n((long)g.dim); o.n((long)g.dim_covariance); o.n((long)g.dim_noise);
    o.m(g.mean()); o.m(g.covariance());
    return o.str();
}

// augns lin k r c | means (lin x k) | covs (lin x lin*k) | Q (r x c)   -- augmentWithNoise with any (also non-square) matrix
static std::string augns(Toks& t) {
    long lin = t.nat(), k = t.nat(), r = t.nat(), c = t.nat();
    GaussianMixture g(k, lin);
    g.mean() = t.mat(lin, k); g.covariance() = t.mat(lin, lin * k);
    MatrixXd Q = t.mat(r, c);
    t.done();
    Snapshot s0(g);
    bool ret = g.augmentWithNoise(Q);
    Out o; o.s("ok"); o.n(ret ? 1 : 0); o.n((long)g.dim); o.n((long)g.dim_covariance); o.n((long)g.dim_noise); o.s(s0.same(g) ? "same" : "changed");
    return o.str();
}

// ---------------------------------------------------------------------------------- unscented transform, linear / noise layouts

// ut mode[:z1+z2+..] nx nz ny k a b kap valid | A (ny x (nx+nz)) | bvec (ny) | means (nx x k) | covs (nx x nx*k) | Qin (nz x nz) | [Nadd (ny x ny)]
static std::string ut(Toks& t) {
    std::string mode = t.tok();
    // "mode:z1+z2+...": the noise rows are appended by one augmentWithNoise call per block (diagonal blocks of Qin)
    std::vector<long> blocks;
    {
        std::size_t c = mode.find(':');
        if (c != std::string::npos) {
            std::string rest = mode.substr(c + 1); mode = mode.substr(0, c);
            std::size_t p = 0;
            while (p <= rest.size()) {
                std::size_t q = rest.find('+', p); if (q == std::string::npos) q = rest.size();
                if (q == p) throw vh::BadArgs("noise blocks");
                blocks.push_back(std::stol(rest.substr(p, q - p))); p = q + 1;
            }
        }
    }
    long nx = t.nat(), nz = t.nat(), ny = t.nat(), k = t.nat();
    double a = t.dbl(), b = t.dbl(), kap = t.dbl(); long vcode = t.nat(); bool valid = (vcode == 1);
    const int mfail = valid ? 0 : (vcode == 2 ? 4 : 2);
    MatrixXd A = t.mat(ny, nx + nz); VectorXd bv = t.vec(ny);
    GaussianMixture g(k, nx);
    g.mean() = t.mat(nx, k); g.covariance() = t.mat(nx, nx * k);
    MatrixXd Qin = t.mat(nz, nz);
    bool additive = (mode == "asm" || mode == "amm");
    MatrixXd Nadd; if (additive) Nadd = t.mat(ny, ny);
    t.done();
    if (blocks.empty()) { if (nz > 0) g.augmentWithNoise(Qin); }
    else {
        long sum = 0; for (long z : blocks) { if (z <= 0) throw vh::BadArgs("noise block"); sum += z; }
        if (sum != nz) throw vh::BadArgs("noise blocks do not add up");
        long off = 0;
        for (long z : blocks) { MatrixXd Qb = Qin.block(off, off, z, z); g.augmentWithNoise(Qb); off += z; }
    }
    VectorDescription in(nx, 0, nz), out(ny);
    sigma_point::UTWeight w(in, a, b, kap);
    Snapshot s0(g);
    MatrixXd X = sigma_point::sigma_point(g, w.c);
    bool flag = true; GaussianMixture res; MatrixXd cross; long calls = -1;
    if (mode == "gen") {
        long ncalls = 0;
        sigma_point::FunctionEvaluation f = [&](const Ref<const MatrixXd>& x) -> std::tuple<bool, Data, VectorDescription> {
            ++ncalls;
            if (vcode == 0) return std::make_tuple(false, Data(), VectorDescription(ny));
            MatrixXd y = (A * x).colwise() + bv;
            return std::make_tuple(valid, Data(std::move(y)), VectorDescription(ny));
        };
        std::tie(flag, res, cross) = sigma_point::unscented_transform(g, w, f);
        calls = ncalls;
    } else if (mode == "sm") {
        HGenState m(A, bv, Qin, in, out);
        std::tie(res, cross) = sigma_point::unscented_transform(g, w, static_cast<StateModel&>(m));
    } else if (mode == "asm") {
        HAddState m(A, bv, Nadd, out);
        std::tie(res, cross) = sigma_point::unscented_transform(g, w, static_cast<AdditiveStateModel&>(m));
    } else if (mode == "mm") {
        HGenMeas m(A, bv, Qin, VectorXd::Zero(ny), in, out, mfail);
        std::tie(flag, res, cross) = sigma_point::unscented_transform(g, w, static_cast<MeasurementModel&>(m));
        calls = m.calls_;
    } else if (mode == "amm") {
        HAddMeas m(A, bv, Nadd, VectorXd::Zero(ny), VectorDescription(nx), out, mfail);
        std::tie(flag, res, cross) = sigma_point::unscented_transform(g, w, static_cast<AdditiveMeasurementModel&>(m));
    } else throw vh::BadArgs("mode");
    Out o; o.s("ok"); o.n(flag ? 1 : 0);
    o.n((long)res.components); o.n((long)res.dim); o.n((long)res.dim_covariance); o.n((long)cross.rows()); o.n((long)cross.cols());
    o.n((long)X.rows()); o.n((long)X.cols()); o.n(calls);
    o.m(X);
    if (flag) { outGM(o, res); o.m(cross); }
    o.s(s0.same(g) ? "in-same" : "in-modified");
    return o.str();
}


// ---------------------------------------------------------------------------------- unscented transform, circular / quaternion layouts

static Vector4d qmul(const Vector4d& a, const Vector4d& b) {
    Vector4d r;
    r(0) = a(0) * b(0) - a(1) * b(1) - a(2) * b(2) - a(3) * b(3);
    r(1) = a(0) * b(1) + a(1) * b(0) + a(2) * b(3) - a(3) * b(2);
    r(2) = a(0) * b(2) + a(2) * b(0) + a(3) * b(1) - a(1) * b(3);
    r(3) = a(0) * b(3) + a(3) * b(0) + a(1) * b(2) - a(2) * b(1);
    return r;
}

// utc linI circI quatI nz linO circO k a b kap valid | A (linO x (linI+nz)) | bl (linO) | Cl (circO x linI) | sgn (circO) | perm (circO)
//     | bc (circO) | pq (4 x circO) | side (circO) | means (dim0 x k) | covs (dof0 x dof0*k) | Qin (nz x nz)
// The map: linear outputs affine in the linear and noise inputs; Euler outputs  sgn * angle[perm] + Cl x_lin + bc;
// quaternion outputs  p (x) q[perm]  (side 0)  or  q[perm] (x) p  (side 1).
static std::string utc(Toks& t) {
    long linI = t.nat(), circI = t.nat(); bool quat = t.flag(); long nz = t.nat(), linO = t.nat(), circO = t.nat(), k = t.nat();
    double a = t.dbl(), b = t.dbl(), kap = t.dbl(); long vcode = t.nat(); bool valid = (vcode == 1);
    MatrixXd A = t.mat(linO, linI + nz); VectorXd bl = t.vec(linO);
    MatrixXd Cl = t.mat(circO, linI); VectorXd sgn = t.vec(circO);
    std::vector<long> perm; for (long i = 0; i < circO; ++i) perm.push_back(t.nat());
    VectorXd bc = t.vec(circO); MatrixXd pq = t.mat(4, circO);
    std::vector<long> side; for (long i = 0; i < circO; ++i) side.push_back(t.nat());
    GaussianMixture g(k, linI, circI, quat);
    g.mean() = t.mat(g.dim, k); g.covariance() = t.mat(g.dim_covariance, g.dim_covariance * k);
    MatrixXd Qin = t.mat(nz, nz);
    t.done();
    for (long i = 0; i < circO; ++i) if (perm[i] < 0 || perm[i] >= circI) throw vh::BadArgs("perm");
    if (nz > 0) g.augmentWithNoise(Qin);
    const long cs = quat ? 4 : 1;
    // an output without circular components carries the quaternion flag only for even component counts: its content is
    // the same either way, but dim_circular_component of the output (4 vs 1) then differs from the input's
    const bool quatO = quat && (circO > 0 || k % 2 == 0);
    VectorDescription in(linI, circI, nz, ctype(quat)), out(linO, circO, 0, ctype(quatO));
    sigma_point::UTWeight w(in, a, b, kap);
    Snapshot s0(g);
    MatrixXd X = sigma_point::sigma_point(g, w.c);
    MatrixXd Ykeep; long ncalls = 0;
    sigma_point::FunctionEvaluation f = [&](const Ref<const MatrixXd>& x) -> std::tuple<bool, Data, VectorDescription> {
        ++ncalls;
        if (vcode == 0) return std::make_tuple(false, Data(), out);
        MatrixXd y(linO + circO * cs, x.cols());
        MatrixXd xin(linI + nz, x.cols());
        xin.topRows(linI) = x.topRows(linI);
        if (nz > 0) xin.bottomRows(nz) = x.bottomRows(nz);
        if (linO > 0) y.topRows(linO) = (A * xin).colwise() + bl;
        for (long r = 0; r < circO; ++r) {
            for (long j = 0; j < x.cols(); ++j) {
                if (quat) {
                    Vector4d q = x.block(linI + 4 * perm[r], j, 4, 1), p = pq.col(r);
                    y.block(linO + 4 * r, j, 4, 1) = side[r] == 0 ? qmul(p, q) : qmul(q, p);
                } else {
                    double v = sgn(r) * x(linI + perm[r], j) + bc(r);
                    for (long l = 0; l < linI; ++l) v += Cl(r, l) * x(l, j);
                    y(linO + r, j) = v;
                }
            }
        }
        Ykeep = y;
        return std::make_tuple(valid, Data(std::move(y)), out);
    };
    bool flag; GaussianMixture res; MatrixXd cross;
    std::tie(flag, res, cross) = sigma_point::unscented_transform(g, w, f);
    Out o; o.s("ok"); o.n(flag ? 1 : 0);
    o.n((long)res.components); o.n((long)res.dim); o.n((long)res.dim_covariance); o.n((long)cross.rows()); o.n((long)cross.cols());
    o.n((long)X.rows()); o.n((long)X.cols()); o.n(ncalls);
    o.m(w.mean); o.m(w.covariance); o.d(w.c);
    o.m(X);
    if (flag) { o.m(Ykeep); outGM(o, res); o.m(cross); }
    o.s(s0.same(g) ? "in-same" : "in-modified");
    return o.str();
}

// ---------------------------------------------------------------------------------- UKF vs KF

// ukfp variant n nz k a b kap skip exo | F | [G (n x nz)] | Q (variant 0: n x n; 1: nz x nz) | [Qeff (n x n)] | u | means | covs | outw
static std::string ukfp(Toks& t) {
    long variant = t.nat(), n = t.nat(), nz = t.nat(), k = t.nat();
    double a = t.dbl(), b = t.dbl(), kap = t.dbl(); bool skip = t.flag(), exo = t.flag();
    MatrixXd F = t.mat(n, n), G, Q, Qeff;
    if (variant == 1) { G = t.mat(n, nz); Q = t.mat(nz, nz); Qeff = t.mat(n, n); } else { Q = t.mat(n, n); Qeff = Q; }
    VectorXd u = t.vec(n);
    GaussianMixture prev(k, n), predU(k, n), predK(k, n);
    prev.mean() = t.mat(n, k); prev.covariance() = t.mat(n, n * k);
    VectorXd outw = t.vec(k);
    t.done();
    predU.weight() = outw; predK.weight() = outw;
    predU.mean().setConstant(12345.0); predU.covariance().setConstant(-54321.0);
    predK.mean().setConstant(12345.0); predK.covariance().setConstant(-54321.0);
    Snapshot s0(prev);
    // sigma points the unscented step will use
    GaussianMixture inp = prev; if (variant == 1) inp.augmentWithNoise(Q);
    sigma_point::UTWeight w(VectorDescription(n, 0, variant == 1 ? nz : 0), a, b, kap);
    MatrixXd X = sigma_point::sigma_point(inp, w.c);
    std::unique_ptr<UKFPrediction> up;
    if (variant == 0) {
        std::unique_ptr<HLtiState> sm(new HLtiState(F, Q));
        if (exo) sm->add_exogenous_model(std::unique_ptr<ExogenousModel>(new HConstExo(u)));
        up.reset(new UKFPrediction(std::unique_ptr<AdditiveStateModel>(std::move(sm)), a, b, kap));
    } else {
        MatrixXd A(n, n + nz); A << F, G;
        std::unique_ptr<StateModel> sm(new HGenState(A, exo ? u : VectorXd::Zero(n).eval(), Q, VectorDescription(n, 0, nz), VectorDescription(n)));
        up.reset(new UKFPrediction(std::move(sm), a, b, kap));
    }
    if (skip) up->getStateModel().skip("state", true);
    up->predict(prev, predU);
    bool same1 = s0.same(prev);
    std::unique_ptr<HLtiState> km(new HLtiState(F, Qeff));
    if (exo) km->add_exogenous_model(std::unique_ptr<ExogenousModel>(new HConstExo(u)));
    KFPrediction kp(std::move(km));
    if (skip) kp.getStateModel().skip("state", true);
    kp.predict(prev, predK);
    Out o; o.s("ok"); o.n((long)X.rows()); o.n((long)X.cols());
    outGMs(o, predU); outGMs(o, predK); o.m(X); o.s(same1 && s0.same(prev) ? "in-same" : "in-modified");
    return o.str();
}

static void outLik(Out& o, std::pair<bool, VectorXd> l) {
    o.s(l.first ? "lik" : "nolik"); if (l.first) { o.n(l.second.size()); o.m(l.second); }
}

// ukfc variant n nz m k a b kap fail online | H | [D (m x nz)] | R (variant 0: m x m; 1: nz x nz) | [Reff (m x m)] | y | means | covs | outw
static std::string ukfc(Toks& t) {
    long variant = t.nat(), n = t.nat(), nz = t.nat(), m = t.nat(), k = t.nat();
    double a = t.dbl(), b = t.dbl(), kap = t.dbl(); long fail = t.nat(); bool online = t.flag();
    MatrixXd H = t.mat(m, n), D, R, Reff;
    if (variant == 1) { D = t.mat(m, nz); R = t.mat(nz, nz); Reff = t.mat(m, m); } else { R = t.mat(m, m); Reff = R; }
    VectorXd y = t.vec(m);
    GaussianMixture pred(k, n), corrU(k, n), corrK(k, n);
    pred.mean() = t.mat(n, k); pred.covariance() = t.mat(n, n * k);
    VectorXd outw = t.vec(k);
    t.done();
    corrU.weight() = outw; corrK.weight() = outw;
    corrU.mean().setConstant(12345.0); corrU.covariance().setConstant(-54321.0);
    corrK.mean().setConstant(12345.0); corrK.covariance().setConstant(-54321.0);
    Snapshot s0(pred);
    GaussianMixture inp = pred; if (variant == 1) inp.augmentWithNoise(R);
    sigma_point::UTWeight w(VectorDescription(n, 0, variant == 1 ? nz : 0), a, b, kap);
    MatrixXd X = sigma_point::sigma_point(inp, w.c);
    std::unique_ptr<UKFCorrection> uc;
    if (variant == 0) {
        uc.reset(new UKFCorrection(std::unique_ptr<AdditiveMeasurementModel>(new HLtiMeas(H, R, y, (int)fail)), a, b, kap));
    } else {
        MatrixXd A(m, n + nz); A << H, D;
        uc.reset(new UKFCorrection(std::unique_ptr<MeasurementModel>(new HGenMeas(A, VectorXd::Zero(m), R, y, VectorDescription(n, 0, nz), VectorDescription(m), (int)fail)), a, b, kap, online));
    }
    uc->correct(pred, corrU);
    bool same1 = s0.same(pred);
    auto likU = uc->getLikelihood();
    KFCorrection kc(std::unique_ptr<LinearMeasurementModel>(new HLtiMeas(H, Reff, y, (int)fail)));
    kc.correct(pred, corrK);
    auto likK = kc.getLikelihood();
    Out o; o.s("ok"); o.n((long)X.rows()); o.n((long)X.cols());
    outGMs(o, corrU); outLik(o, likU); outGMs(o, corrK); outLik(o, likK); o.m(X);
    o.s(same1 && s0.same(pred) ? "in-same" : "in-modified");
    return o.str();
}


// ---------------------------------------------------------------------------------- UKF vs KF, several steps on the same objects

// ukfps variant n nz a b kap exo | F | [G | Q (nz x nz) | Qeff (n x n)] or [Q (n x n)] | u | steps | (skip k means covs outw) x steps
static std::string ukfps(Toks& t) {
    long variant = t.nat(), n = t.nat(), nz = t.nat();
    double a = t.dbl(), b = t.dbl(), kap = t.dbl(); bool exo = t.flag();
    MatrixXd F = t.mat(n, n), G, Q, Qeff;
    if (variant == 1) { G = t.mat(n, nz); Q = t.mat(nz, nz); Qeff = t.mat(n, n); } else { Q = t.mat(n, n); Qeff = Q; }
    VectorXd u = t.vec(n);
    long steps = t.nat();
    // object hand-over: 0 none; 1 move-constructed before the first step; 2 move-constructed after the first step;
    // 3 move-assigned (into an object built with other parameters over another model) after the first step
    long hand = t.nat();
    std::unique_ptr<UKFPrediction> up;
    HTvState* usm0 = nullptr; HGenState* usm1 = nullptr; HConstExo* uexo = nullptr; HConstExo* kexo = nullptr;
    if (variant == 0) {
        usm0 = new HTvState(F, Q);
        std::unique_ptr<HTvState> sm(usm0);
        if (exo) { uexo = new HConstExo(u); sm->add_exogenous_model(std::unique_ptr<ExogenousModel>(uexo)); }
        up.reset(new UKFPrediction(std::unique_ptr<AdditiveStateModel>(std::move(sm)), a, b, kap));
    } else {
        MatrixXd A(n, n + nz); A << F, G;
        usm1 = new HGenState(A, exo ? u : VectorXd::Zero(n).eval(), Q, VectorDescription(n, 0, nz), VectorDescription(n));
        up.reset(new UKFPrediction(std::unique_ptr<StateModel>(usm1), a, b, kap));
    }
    HTvState* ksm = new HTvState(F, Qeff);
    std::unique_ptr<HTvState> km(ksm);
    if (exo) { kexo = new HConstExo(u); km->add_exogenous_model(std::unique_ptr<ExogenousModel>(kexo)); }
    KFPrediction kp{std::unique_ptr<LinearStateModel>(std::move(km))};
    sigma_point::UTWeight w(VectorDescription(n, 0, variant == 1 ? nz : 0), a, b, kap);
    Out o; o.s("ok");
    for (long s = 0; s < steps; ++s) {
        if ((hand == 1 && s == 0) || (hand == 2 && s == 1)) {
            std::unique_ptr<UKFPrediction> moved(new UKFPrediction(std::move(*up)));
            up = std::move(moved);
        } else if (hand == 3 && s == 1) {
            std::unique_ptr<UKFPrediction> other(new UKFPrediction(std::unique_ptr<AdditiveStateModel>(new HTvState(MatrixXd::Identity(n + 1, n + 1), MatrixXd::Identity(n + 1, n + 1))), 0.7, 1.0, 0.5));
            *other = std::move(*up);
            up = std::move(other);
        }
        bool skip = t.flag(); long k = t.nat(); bool alias = t.flag();
        // optional new content of the model from this step on (same sizes): F, noise input G, Q, exogenous input
        if (t.nat()) {
            F = t.mat(n, n);
            if (variant == 1) { G = t.mat(n, nz); Q = t.mat(nz, nz); Qeff = t.mat(n, n); } else { Q = t.mat(n, n); Qeff = Q; }
            u = t.vec(n);
            if (usm0) { usm0->F_ = F; usm0->Q_ = Q; if (uexo) uexo->u_ = u; }
            else { MatrixXd A(n, n + nz); A << F, G; usm1->A_ = A; usm1->Q_ = Q; if (exo) usm1->b_ = u; }
            ksm->F_ = F; ksm->Q_ = Qeff; if (kexo) kexo->u_ = u;
        }
        GaussianMixture prev(k, n), predU(k, n), predK(k, n);
        prev.mean() = t.mat(n, k); prev.covariance() = t.mat(n, n * k);
        VectorXd outw = t.vec(k);
        predU.weight() = outw; predK.weight() = outw;
        predU.mean().setConstant(12345.0); predU.covariance().setConstant(-54321.0);
        predK.mean().setConstant(12345.0); predK.covariance().setConstant(-54321.0);
        Snapshot s0(prev);
        GaussianMixture inp = prev; if (variant == 1) inp.augmentWithNoise(Q);
        MatrixXd X = sigma_point::sigma_point(inp, w.c);
        up->getStateModel().skip("state", skip);
        kp.getStateModel().skip("state", skip);
        if (alias) { predU = prev; up->predict(predU, predU); }   // the same mixture as input and output
        else up->predict(prev, predU);
        kp.predict(prev, predK);
        if (s > 0) o.s(";;");
        o.n((long)X.rows()); o.n((long)X.cols());
        outGMs(o, predU); outGMs(o, predK); o.m(X); o.s(s0.same(prev) ? "in-same" : "in-modified");
    }
    t.done();
    return o.str();
}

// ukfcs variant n nz m a b kap online | H | [D | R (nz x nz) | Reff (m x m)] or [R (m x m)] | steps | (fail k y means covs outw) x steps
static std::string ukfcs(Toks& t) {
    long variant = t.nat(), n = t.nat(), nz = t.nat(), m = t.nat();
    double a = t.dbl(), b = t.dbl(), kap = t.dbl(); bool online = t.flag();
    MatrixXd H = t.mat(m, n), D, R, Reff;
    if (variant == 1) { D = t.mat(m, nz); R = t.mat(nz, nz); Reff = t.mat(m, m); } else { R = t.mat(m, m); Reff = R; }
    long steps = t.nat();
    long hand = t.nat();   // 0 none; 1 move-constructed before the first step; 2 move-constructed after the first step
    bool cskipping = false;
    VectorXd y0 = VectorXd::Zero(m);
    HLtiMeas* um0 = nullptr; HGenMeas* um1 = nullptr;
    std::unique_ptr<UKFCorrection> uc;
    if (variant == 0) {
        um0 = new HLtiMeas(H, R, y0, 0);
        uc.reset(new UKFCorrection(std::unique_ptr<AdditiveMeasurementModel>(um0), a, b, kap));
    } else {
        MatrixXd A(m, n + nz); A << H, D;
        um1 = new HGenMeas(A, VectorXd::Zero(m), R, y0, VectorDescription(n, 0, nz), VectorDescription(m), 0);
        uc.reset(new UKFCorrection(std::unique_ptr<MeasurementModel>(um1), a, b, kap, online));
    }
    HLtiMeas* km = new HLtiMeas(H, Reff, y0, 0);
    KFCorrection kc{std::unique_ptr<LinearMeasurementModel>(km)};
    sigma_point::UTWeight w(VectorDescription(n, 0, variant == 1 ? nz : 0), a, b, kap);
    Out o; o.s("ok");
    for (long s = 0; s < steps; ++s) {
        if ((hand == 1 && s == 0) || (hand == 2 && s == 1)) {
            std::unique_ptr<UKFCorrection> moved(new UKFCorrection(std::move(*uc)));
            uc = std::move(moved);
        }
        long fail = t.nat(), k = t.nat(); bool alias = t.flag(); long cskip = t.nat();
        // cskip: 0 leave, 1 skip(true), 2 skip(false) — set on both corrections BEFORE a possible hand-over of the next step
        if (cskip == 1) { uc->skip(true); kc.skip(true); cskipping = true; } else if (cskip == 2) { uc->skip(false); kc.skip(false); cskipping = false; }
        // optional new noise dimension / noise input matrix / noise covariance from this step on (generic constructor with
        // update_weights_online: "the noise size might depend on the number of measurements available")
        long chg = t.nat();
        if (chg) {
            // 1: new noise dimension (generic constructor with update_weights_online); 2: new content of the same sizes;
            // both carry the complete new model: H | [nz D R Reff] or [R]
            H = t.mat(m, n);
            if (variant == 1) { nz = t.nat(); D = t.mat(m, nz); R = t.mat(nz, nz); Reff = t.mat(m, m); } else { R = t.mat(m, m); Reff = R; }
            if (um1) {
                MatrixXd A(m, n + nz); A << H, D;
                um1->A_ = A; um1->R_ = R; um1->in_ = VectorDescription(n, 0, nz);
            } else { um0->setH(H); um0->setNoise(R); }
            km->setH(H); km->setNoise(Reff);
            w = sigma_point::UTWeight(VectorDescription(n, 0, variant == 1 ? nz : 0), a, b, kap);
        }
        VectorXd y = t.vec(m);
        GaussianMixture pred(k, n), corrU(k, n), corrK(k, n);
        pred.mean() = t.mat(n, k); pred.covariance() = t.mat(n, n * k);
        VectorXd outw = t.vec(k);
        corrU.weight() = outw; corrK.weight() = outw;
        corrU.mean().setConstant(12345.0); corrU.covariance().setConstant(-54321.0);
        corrK.mean().setConstant(12345.0); corrK.covariance().setConstant(-54321.0);
        if (um0) { um0->y_ = y; um0->fail_ = (int)fail; } else { um1->y_ = y; um1->fail_ = (int)fail; }
        km->y_ = y; km->fail_ = (int)fail;
        Snapshot s0(pred);
        GaussianMixture inp = pred; if (variant == 1) inp.augmentWithNoise(R);
        MatrixXd X = sigma_point::sigma_point(inp, w.c);
        if (alias) { GaussianMixture keepw = corrU; corrU = pred; corrU.weight() = keepw.weight(); uc->correct(corrU, corrU); }
        else uc->correct(pred, corrU);
        // After a failing model call the likelihood is not asked for: what getLikelihood() reports then is C12's
        // subject (before fix 5117f2c it paired the previous step's innovations_ with a predicted_meas_ overwritten
        // by the failed transform); C04 speaks of successful steps only.
        std::pair<bool, VectorXd> likU(false, VectorXd()), likK(false, VectorXd());
        bool lik_stable = true;
        if (fail == 0 && !cskipping) {
            likU = uc->getLikelihood();
            auto again = uc->getLikelihood();   // a query must not change what the next query answers
            lik_stable = (again.first == likU.first) && (again.second.size() == likU.second.size()) &&
                         (likU.second.size() == 0 || std::memcmp(again.second.data(), likU.second.data(), sizeof(double) * likU.second.size()) == 0);
        }
        kc.correct(pred, corrK);
        if (fail == 0 && !cskipping) likK = kc.getLikelihood();
        if (s > 0) o.s(";;");
        o.n((long)X.rows()); o.n((long)X.cols());
        outGMs(o, corrU); outLik(o, likU); outGMs(o, corrK); outLik(o, likK); o.m(X);
        o.s(s0.same(pred) ? "in-same" : "in-modified"); o.s(lik_stable ? "lik2-same" : "lik2-differs");
    }
    t.done();
    return o.str();
}

// Two whole filters through the same linear-Gaussian history, each on its own trajectory, composed exactly as a
// GaussianFilter's filtering_step() composes them (predict(corrected, predicted); freeze; correct(predicted, corrected)):
// UKFPrediction + UKFCorrection (additive or generic constructors) and KFPrediction + KFCorrection.
//   ukfh variant n nz m nzm k a b kap exo | means covs | steps |
//        { skipP skipS skipC hasmeas F [G Q(nz)] | [Q(n)] u  H [D R(nzm)] | [R(m)] y }*
// prints per step: predU corrU likU predK corrK likK
static std::string ukfh(Toks& t) {
    long variant = t.nat(), n = t.nat(), nz = t.nat(), m = t.nat(), nzm = t.nat(), k = t.nat();
    double a = t.dbl(), b = t.dbl(), kap = t.dbl(); bool exo = t.flag();
    GaussianMixture corrU(k, n), predU(k, n), corrK(k, n), predK(k, n);
    corrU.mean() = t.mat(n, k); corrU.covariance() = t.mat(n, n * k);
    corrK = corrU;
    long steps = t.nat();
    MatrixXd I = MatrixXd::Identity(n, n);
    std::unique_ptr<UKFPrediction> up; std::unique_ptr<UKFCorrection> uc;
    HTvState* usm0 = nullptr; HGenState* usm1 = nullptr; HConstExo* uexo = nullptr; HConstExo* kexo = nullptr;
    HLtiMeas* um0 = nullptr; HGenMeas* um1 = nullptr;
    VectorXd z0 = VectorXd::Zero(n), y0 = VectorXd::Zero(m);
    if (variant == 0) {
        usm0 = new HTvState(I, I);
        std::unique_ptr<HTvState> sm(usm0);
        if (exo) { uexo = new HConstExo(z0); sm->add_exogenous_model(std::unique_ptr<ExogenousModel>(uexo)); }
        up.reset(new UKFPrediction(std::unique_ptr<AdditiveStateModel>(std::move(sm)), a, b, kap));
        um0 = new HLtiMeas(MatrixXd::Zero(m, n), MatrixXd::Identity(m, m), y0, 0);
        uc.reset(new UKFCorrection(std::unique_ptr<AdditiveMeasurementModel>(um0), a, b, kap));
    } else {
        MatrixXd A = MatrixXd::Zero(n, n + nz);
        usm1 = new HGenState(A, z0, MatrixXd::Identity(nz, nz), VectorDescription(n, 0, nz), VectorDescription(n));
        up.reset(new UKFPrediction(std::unique_ptr<StateModel>(usm1), a, b, kap));
        MatrixXd Am = MatrixXd::Zero(m, n + nzm);
        um1 = new HGenMeas(Am, VectorXd::Zero(m), MatrixXd::Identity(nzm, nzm), y0, VectorDescription(n, 0, nzm), VectorDescription(m), 0);
        uc.reset(new UKFCorrection(std::unique_ptr<MeasurementModel>(um1), a, b, kap));
    }
    HTvState* ksm = new HTvState(I, I);
    std::unique_ptr<HTvState> km(ksm);
    if (exo) { kexo = new HConstExo(z0); km->add_exogenous_model(std::unique_ptr<ExogenousModel>(kexo)); }
    KFPrediction kp{std::unique_ptr<LinearStateModel>(std::move(km))};
    HLtiMeas* kmm = new HLtiMeas(MatrixXd::Zero(m, n), MatrixXd::Identity(m, m), y0, 0);
    KFCorrection kc{std::unique_ptr<LinearMeasurementModel>(kmm)};
    Out o; o.s("ok");
    for (long s = 0; s < steps; ++s) {
        bool skipP = t.flag(), skipS = t.flag(), skipC = t.flag(), hasmeas = t.flag();
        MatrixXd F = t.mat(n, n), G, Q, Qeff;
        if (variant == 1) { G = t.mat(n, nz); Q = t.mat(nz, nz); Qeff = G * Q * G.transpose(); Qeff = (0.5 * (Qeff + Qeff.transpose())).eval(); }
        else { Q = t.mat(n, n); Qeff = Q; }
        VectorXd u = t.vec(n);
        MatrixXd H = t.mat(m, n), D, R, Reff;
        if (variant == 1) { D = t.mat(m, nzm); R = t.mat(nzm, nzm); Reff = D * R * D.transpose(); Reff = (0.5 * (Reff + Reff.transpose())).eval(); }
        else { R = t.mat(m, m); Reff = R; }
        VectorXd y = t.vec(m);
        if (usm0) { usm0->F_ = F; usm0->Q_ = Q; if (uexo) uexo->u_ = u; um0->setH(H); um0->setNoise(R); um0->y_ = y; um0->fail_ = hasmeas ? 0 : 1; }
        else {
            MatrixXd A(n, n + nz); A << F, G; usm1->A_ = A; usm1->Q_ = Q; usm1->b_ = exo ? u : z0;
            MatrixXd Am(m, n + nzm); Am << H, D; um1->A_ = Am; um1->R_ = R; um1->y_ = y; um1->fail_ = hasmeas ? 0 : 1;
        }
        ksm->F_ = F; ksm->Q_ = Qeff; if (kexo) kexo->u_ = u;
        kmm->setH(H); kmm->setNoise(Reff); kmm->y_ = y; kmm->fail_ = hasmeas ? 0 : 1;
        up->skip("prediction", false); kp.skip("prediction", false);
        if (skipP) { up->skip("prediction", true); kp.skip("prediction", true); }
        else if (skipS) { up->skip("state", true); kp.skip("state", true); }
        uc->skip(skipC); kc.skip(skipC);

        up->predict(corrU, predU);
        uc->freeze_measurements();
        uc->correct(predU, corrU);
        kp.predict(corrK, predK);
        kc.freeze_measurements();
        kc.correct(predK, corrK);

        bool done = hasmeas && !skipC;
        std::pair<bool, VectorXd> likU(false, VectorXd()), likK(false, VectorXd());
        if (done) { likU = uc->getLikelihood(); likK = kc.getLikelihood(); }
        o.s("step"); outGMs(o, predU); outGMs(o, corrU); outLik(o, likU); outGMs(o, predK); outGMs(o, corrK); outLik(o, likK);
    }
    t.done();
    return o.str();
}

int main() {
    return vh::run([](const std::string& op, Toks& t, std::string& out) {
        if (op == "utw") { out = utw(t); return true; }
        if (op == "utwd") { out = utwd(t); return true; }
        if (op == "sp") { out = sp(t); return true; }
        if (op == "augns") { out = augns(t); return true; }
        if (op == "augal") { out = augal(t); return true; }
        if (op == "ut") { out = ut(t); return true; }
        if (op == "utc") { out = utc(t); return true; }
        if (op == "ukfp") { out = ukfp(t); return true; }
        if (op == "ukfc") { out = ukfc(t); return true; }
        if (op == "ukfps") { out = ukfps(t); return true; }
        if (op == "ukfcs") { out = ukfcs(t); return true; }
        if (op == "ukfh") { out = ukfh(t); return true; }
        return false;
    });
}
