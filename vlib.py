"""Common machinery of the checks (python3 stdlib only).

Stages of a check run (DESIGN.md section 5):
  1. proof stage   : lake build of the property's theorem module, audit of axioms/sorry,
                     statement lock;
  2. tie stage     : library + harness rebuilt from /repo's working tree, the same case lines
                     run through the C++ harness and the Lean driver, outputs compared;
  3. oracle stage  : the property's own predicates evaluated on the implementation's outputs;
  4. decision      : VIOLATION / KNOWN-FINDING / exit code;
  5. evidence      : /verif/evidence/<id>.json rewritten.
"""
import fcntl
import hashlib
import json
import os
import random
import re
import struct
import subprocess
import sys
import time
from contextlib import contextmanager
from fractions import Fraction
from pathlib import Path

VERIF = Path(__file__).resolve().parent
REPO = Path(os.environ.get("BFL_REPO", "/repo"))
BUILD = Path(os.environ.get("BFL_BUILD_DIR", str(VERIF / "build")))
LEAN = VERIF / "lean"
EIGEN_INC = "/usr/include/eigen3"
NPROC = os.cpu_count() or 4

STD_AXIOMS = {"propext", "Classical.choice", "Quot.sound"}

LIB_FLAGS = {
    # every UBSan check is fatal except `null` / `nonnull-attribute`, which are fatal through UBSAN_OPTIONS
    # halt_on_error=1 (run_harness) so that a report raised *inside Eigen's headers* on an empty matrix
    # (`&m.coeffRef(0,0)` of a 0-column operand: a reference bound to null, never accessed) can be re-examined
    # with halt_on_error=0: see benign_ubsan()
    "dbg": "-O1 -g1 -UNDEBUG -DBFL_VERIF -fsanitize=address,undefined -fno-sanitize-recover=all -fsanitize-recover=null,nonnull-attribute -fno-omit-frame-pointer",
    "tsan": "-O1 -g1 -DBFL_VERIF -fsanitize=thread -fno-omit-frame-pointer",
    # a release-like build without sanitizers (address reuse, optimisation-dependent paths: DEEPEN.md class j)
    "opt": "-O2 -g0 -DNDEBUG -DBFL_VERIF",
    # line/branch coverage of the library under the correspondence runs (tools/tiecov.py): which source
    # lines the tie actually drives.  Selected with BFL_TIECOV=1, which maps every "dbg" harness to it.
    "cov": "-O0 -g1 -UNDEBUG -DBFL_VERIF --coverage -fprofile-update=atomic",
}
TIECOV = os.environ.get("BFL_TIECOV", "") == "1"


class BuildError(Exception):
    pass


def sh(cmd, cwd=None, env=None, timeout=None, inp=None):
    p = subprocess.run(cmd, cwd=cwd, env=env, timeout=timeout, input=inp,
                       stdout=subprocess.PIPE, stderr=subprocess.PIPE, text=True)
    return p.returncode, p.stdout, p.stderr


@contextmanager
def locked(name):
    BUILD.mkdir(parents=True, exist_ok=True)
    f = open(BUILD / (name + ".lock"), "w")
    try:
        fcntl.flock(f, fcntl.LOCK_EX)
        yield
    finally:
        fcntl.flock(f, fcntl.LOCK_UN)
        f.close()


# --------------------------------------------------------------------------- builds

def build_lib(kind="dbg"):
    """Bring the out-of-tree build of the library up to date with /repo's working tree."""
    d = BUILD / kind
    with locked("lib-" + kind):
        stamp = d / "verif-flags.txt"
        if (d / "build.ninja").exists() and (not stamp.exists() or stamp.read_text() != LIB_FLAGS[kind]):
            # configured with other compiler flags (an older version of this file): configure again
            for f in ("build.ninja", "CMakeCache.txt"):
                try:
                    (d / f).unlink()
                except FileNotFoundError:
                    pass
        if not (d / "build.ninja").exists():
            d.mkdir(parents=True, exist_ok=True)
            rc, o, e = sh(["cmake", "-S", str(REPO), "-B", str(d), "-G", "Ninja",
                           "-DCMAKE_BUILD_TYPE=None", "-DBUILD_SHARED_LIBS=OFF", "-DBUILD_TESTING=OFF",
                           "-DCMAKE_CXX_FLAGS=" + LIB_FLAGS[kind]])
            if rc != 0:
                raise BuildError("cmake configure failed:\n" + o[-3000:] + e[-3000:])
            stamp.write_text(LIB_FLAGS[kind])
        rc, o, e = sh(["ninja", "-C", str(d), "BayesFilters"])
        if rc != 0:
            raise BuildError("library build failed (%s):\n%s%s" % (kind, o[-6000:], e[-3000:]))
    lib = d / "lib" / "libBayesFilters.a"
    if not lib.exists():
        raise BuildError("library not found: %s" % lib)
    return lib


def _deps_stale(binary, depfile, extra):
    if not binary.exists() or not depfile.exists():
        return True
    bt = binary.stat().st_mtime
    txt = depfile.read_text().replace("\\\n", " ")
    deps = txt.split(":", 1)[1].split() if ":" in txt else []
    for p in list(deps) + [str(x) for x in extra]:
        try:
            if os.stat(p).st_mtime > bt:
                return True
        except FileNotFoundError:
            return True
    return False


def build_harness(name, kind="dbg", extra_flags=(), libs=()):
    """Compile harness/<name>.cpp against the freshly built library; returns the binary path."""
    if TIECOV and kind == "dbg":
        kind = "cov"
    lib = build_lib(kind)
    src = VERIF / "harness" / (name + ".cpp")
    # one directory of harness binaries per verif tree: several trees (worktrees of contributors) may
    # share one library build directory through BFL_BUILD_DIR but have different harness sources
    outdir = BUILD / kind / ("h-" + hashlib.sha256((str(VERIF) + "|" + LIB_FLAGS[kind]).encode()).hexdigest()[:8])
    outdir.mkdir(parents=True, exist_ok=True)
    binary = outdir / name
    dep = outdir / (name + ".d")
    with locked("h-%s-%s" % (kind, name)):
        if _deps_stale(binary, dep, [lib, src]):
            cmd = ["g++", "-std=c++11"] + LIB_FLAGS[kind].split() + list(extra_flags) + [
                "-DEIGEN_INITIALIZE_MATRICES_BY_ZERO",
                "-I", str(REPO / "src/BayesFilters/include"), "-I", EIGEN_INC, "-I", str(VERIF / "harness"),
                "-MMD", "-MF", str(dep), str(src), str(lib), "-lpthread"] + list(libs) + ["-o", str(binary)]
            rc, o, e = sh(cmd)
            if rc != 0:
                raise BuildError("harness %s failed to compile:\n%s" % (name, e[-6000:]))
    return binary


@contextmanager
def lean_locked():
    (LEAN / ".lake").mkdir(parents=True, exist_ok=True)
    f = open(LEAN / ".lake" / "verif.lock", "w")
    try:
        fcntl.flock(f, fcntl.LOCK_EX)
        yield
    finally:
        fcntl.flock(f, fcntl.LOCK_UN)
        f.close()


def lean_build(targets):
    with lean_locked():
        rc, o, e = sh(["lake", "build"] + list(targets), cwd=str(LEAN))
    return rc, o + e


def driver_path():
    return LEAN / ".lake" / "build" / "bin" / "bfl_driver"


# --------------------------------------------------------------------------- running

def run_driver(lines, timeout=3600):
    if not lines:
        return []
    rc, o, e = sh([str(driver_path())], inp="\n".join(lines) + "\n", timeout=timeout)
    out = o.split("\n")
    if out and out[-1] == "":
        out.pop()
    if rc != 0 or len(out) != len(lines):
        raise BuildError("lean driver failed rc=%s produced %d/%d lines\n%s" % (rc, len(out), len(lines), e[-2000:]))
    return out


BENIGN_UBSAN_CASES = []   # cases whose only sanitizer report was Eigen's own null reference on an empty operand


def classify_crash(stderr, rc):
    if "AddressSanitizer" in stderr:
        m = re.search(r"AddressSanitizer: ([\w-]+)", stderr)
        return "crash:asan:" + (m.group(1) if m else "?")
    if "runtime error:" in stderr:
        return "crash:ubsan"
    if "Assertion" in stderr and "failed" in stderr:
        return "crash:assert"
    if "LeakSanitizer" in stderr:
        return "crash:lsan"
    if "terminate called" in stderr:
        return "crash:terminate"
    return "crash:rc%d" % rc


_BENIGN_UB = re.compile(r"^/usr/include/eigen3/\S+: runtime error: (reference binding to null pointer of type '(const )?(Scalar|double)'|null pointer passed as argument \d+, which is declared to never be null)")


def benign_ubsan(stderr):
    """True when every UBSan report in `stderr` is raised at a location inside Eigen's own headers and is of
    the kind Eigen produces for zero-size operands (a reference / memcpy argument formed from the null data
    pointer of an empty matrix and never accessed).  An access through such a pointer is a SEGV that
    AddressSanitizer reports; a report located in the library's or the harness's own source is never benign."""
    reps = [l for l in stderr.split("\n") if "runtime error:" in l]
    return bool(reps) and all(_BENIGN_UB.match(l.strip()) for l in reps)


def _rerun_tolerating_eigen_null(binary, line, timeout, e0):
    """the single case `line` again, with the two recoverable UBSan checks not halting: returns its output
    if the process completes and all that UBSan said was benign_ubsan, else None"""
    e1 = dict(e0)
    e1["UBSAN_OPTIONS"] = "print_stacktrace=0:halt_on_error=0"
    try:
        rc, o, e = sh([str(binary)], inp=line + "\n", timeout=timeout, env=e1)
    except subprocess.TimeoutExpired:
        return None
    got = [x for x in o.split("\n") if x != ""]
    if rc == 0 and len(got) == 1 and "AddressSanitizer" not in e and "LeakSanitizer" not in e and benign_ubsan(e):
        return got[0]
    return None


def run_harness(binary, lines, timeout=900, env=None):
    """Feed the case lines to the harness.  A crash (sanitizer report, Eigen assertion, abort)
    ends the process: the case that crashed gets the output `crash:<kind>` and the remaining
    cases are run in a fresh process.  Returns (outputs, crash_logs)."""
    outs, logs = [], {}
    i = 0
    e0 = dict(os.environ)
    e0.setdefault("ASAN_OPTIONS", "detect_leaks=1:abort_on_error=0:halt_on_error=1")
    e0.setdefault("UBSAN_OPTIONS", "print_stacktrace=1:halt_on_error=1")
    if env:
        e0.update(env)
    while i < len(lines):
        chunk = lines[i:]
        try:
            rc, o, e = sh([str(binary)], inp="\n".join(chunk) + "\n", timeout=timeout, env=e0)
        except subprocess.TimeoutExpired:
            outs.append("crash:timeout")
            logs[len(outs) - 1] = "timeout"
            i = len(outs)
            continue
        got = o.split("\n")
        if got and got[-1] == "":
            got.pop()
        if rc == 0 and len(got) == len(chunk):
            outs.extend(got)
            break
        if rc == 0 and len(got) != len(chunk):
            raise BuildError("harness produced %d lines for %d cases" % (len(got), len(chunk)))
        # crash: `got` holds the complete outputs before the crashing case (the last line may be partial)
        ncomplete = min(len(got), len(chunk) - 1)
        # a leak report at exit arrives after all outputs were printed
        if len(got) == len(chunk) and "LeakSanitizer" in e:
            outs.extend(got[:-1])
            outs.append(got[-1] + " crash:lsan")
            logs[len(outs) - 1] = e[-4000:]
            break
        outs.extend(got[:ncomplete])
        kind = classify_crash(e, rc)
        again = None
        if kind == "crash:ubsan" and benign_ubsan(e):
            again = _rerun_tolerating_eigen_null(binary, chunk[ncomplete], timeout, e0)
        if again is not None:
            outs.append(again)
            BENIGN_UBSAN_CASES.append(chunk[ncomplete][:200])
        else:
            outs.append(kind)
            logs[len(outs) - 1] = e[-4000:]
        i = len(outs)
    return outs, logs


# --------------------------------------------------------------------------- numbers

def hexd(x):
    return "%016x" % struct.unpack("<Q", struct.pack("<d", float(x)))[0]


def unhex(s):
    return struct.unpack("<d", struct.pack("<Q", int(s, 16)))[0]


def frac_of_hex(s):
    return Fraction(unhex(s))


def frac(s):
    """parse the driver's exact rational `num/den`"""
    a, b = s.split("/")
    return Fraction(int(a), int(b))


def fmt_mat_cm(M):
    """row-list matrix -> column-major hex tokens"""
    r = len(M)
    c = len(M[0]) if r else 0
    return [hexd(M[i][j]) for j in range(c) for i in range(r)]


def mat_from_cm(tokens, r, c, conv):
    return [[conv(tokens[j * r + i]) for j in range(c)] for i in range(r)]


# small dense linear algebra on lists (floats or Fractions)

def mzeros(r, c, z=0.0):
    return [[z for _ in range(c)] for _ in range(r)]


def meye(n, one=1.0, z=0.0):
    return [[one if i == j else z for j in range(n)] for i in range(n)]


def mmul(A, B):
    r, k, c = len(A), len(B), len(B[0]) if B else 0
    return [[sum(A[i][l] * B[l][j] for l in range(k)) for j in range(c)] for i in range(r)]


def mT(A):
    return [list(x) for x in zip(*A)] if A else []


def madd(A, B):
    return [[a + b for a, b in zip(ra, rb)] for ra, rb in zip(A, B)]


def msub(A, B):
    return [[a - b for a, b in zip(ra, rb)] for ra, rb in zip(A, B)]


def mscale(s, A):
    return [[s * a for a in ra] for ra in A]


def mvec(A, v):
    return [sum(a * x for a, x in zip(ra, v)) for ra in A]


def minv_frac(A):
    """exact inverse over Fractions (None if singular)"""
    n = len(A)
    M = [[Fraction(x) for x in row] + [Fraction(int(i == j)) for j in range(n)] for i, row in enumerate(A)]
    for c in range(n):
        p = next((r for r in range(c, n) if M[r][c] != 0), None)
        if p is None:
            return None
        M[c], M[p] = M[p], M[c]
        pv = M[c][c]
        M[c] = [x / pv for x in M[c]]
        for r in range(n):
            if r != c and M[r][c] != 0:
                f = M[r][c]
                M[r] = [a - f * b for a, b in zip(M[r], M[c])]
    return [row[n:] for row in M]


def ldl_pivots_frac(A):
    """exact LDL^T pivots of a symmetric matrix without pivoting; returns list of pivots d_i
    (processing stops at a zero pivot with non-zero remainder -> returns None for 'indefinite/unknown')."""
    n = len(A)
    M = [[Fraction(x) for x in row] for row in A]
    piv = []
    for c in range(n):
        d = M[c][c]
        piv.append(d)
        if d == 0:
            if any(M[r][c] != 0 for r in range(c + 1, n)):
                return None
            continue
        for r in range(c + 1, n):
            f = M[r][c] / d
            if f != 0:
                for j in range(c, n):
                    M[r][j] -= f * M[c][j]
    return piv


def is_psd_frac(A, tol=Fraction(0)):
    """exact PSD test (symmetric part) with slack `tol` added to the diagonal"""
    n = len(A)
    S = [[(Fraction(A[i][j]) + Fraction(A[j][i])) / 2 + (tol if i == j else 0) for j in range(n)] for i in range(n)]
    piv = ldl_pivots_frac(S)
    return piv is not None and all(p >= 0 for p in piv)


def fnorm(A):
    return max((abs(float(x)) for row in A for x in row), default=0.0)


# --------------------------------------------------------------------------- generators

class Gen:
    """All random choices derive from one PRNG state (VERIF_SEED)."""

    def __init__(self, seed, stream=""):
        self.r = random.Random("%s/%s" % (seed, stream))

    def dyadic(self, lo=-4.0, hi=4.0, bits=6):
        """short-mantissa value (products stay exactly representable more often)"""
        q = 1 << bits
        return self.r.randint(int(lo * q), int(hi * q)) / q

    def full(self, lo=-4.0, hi=4.0):
        return self.r.uniform(lo, hi)

    def num(self, lo=-4.0, hi=4.0):
        return self.dyadic(lo, hi) if self.r.random() < 0.5 else self.full(lo, hi)

    def mat(self, r, c, lo=-2.0, hi=2.0):
        f = self.dyadic if self.r.random() < 0.5 else self.full
        return [[f(lo, hi) for _ in range(c)] for _ in range(r)]

    def vec(self, n, lo=-4.0, hi=4.0):
        return [self.num(lo, hi) for _ in range(n)]

    def orth(self, n):
        """random orthogonal matrix by Gram-Schmidt on a Gaussian matrix (floats)"""
        while True:
            A = [[self.r.gauss(0, 1) for _ in range(n)] for _ in range(n)]
            Q = []
            ok = True
            for v in A:
                w = list(v)
                for q in Q:
                    d = sum(a * b for a, b in zip(w, q))
                    w = [a - d * b for a, b in zip(w, q)]
                nrm = sum(a * a for a in w) ** 0.5
                if nrm < 1e-3:
                    ok = False
                    break
                Q.append([a / nrm for a in w])
            if ok:
                return Q

    def spd(self, n, cond=None, scale=None, rank=None):
        """symmetric PSD matrix U diag(l) U^T with prescribed spectrum, made exactly symmetric.
        cond: ratio lmax/lmin (log-uniform up to 1e6 by default); rank<n gives a singular PSD."""
        if n == 0:
            return []
        if cond is None:
            cond = 10 ** self.r.uniform(0, 6) if self.r.random() < 0.7 else 10 ** self.r.uniform(0, 2)
        if scale is None:
            scale = 10 ** self.r.uniform(-2, 2)
        lam = [scale * cond ** (-(i / (n - 1)) if n > 1 else 0) for i in range(n)]
        if rank is not None:
            lam = [l if i < rank else 0.0 for i, l in enumerate(lam)]
        U = self.orth(n)
        A = [[sum(U[k][i] * lam[k] * U[k][j] for k in range(n)) for j in range(n)] for i in range(n)]
        for i in range(n):
            for j in range(i):
                A[i][j] = A[j][i]
        return A

    def spd_parts(self, n, cond, scale):
        """(U, lam): orthogonal rows U[k] and eigenvalues lam[k] (decreasing) of U^T diag(lam) U"""
        lam = [scale * cond ** (-(i / (n - 1)) if n > 1 else 0) for i in range(n)]
        return self.orth(n), lam

    @staticmethod
    def assemble(U, lam):
        n = len(lam)
        A = [[sum(U[k][i] * lam[k] * U[k][j] for k in range(n)) for j in range(n)] for i in range(n)]
        for i in range(n):
            for j in range(i):
                A[i][j] = A[j][i]
        return A

    def spd_dyadic(self, n, bits=4):
        """exactly representable SPD: B B^T + D with small dyadic entries"""
        B = [[self.dyadic(-2, 2, bits) for _ in range(n)] for _ in range(n)]
        A = mmul(B, mT(B))
        for i in range(n):
            A[i][i] += self.r.randint(1, 8) / 8.0
        return A


# --------------------------------------------------------------------------- audit

FORBIDDEN = re.compile(r"\bsorry\b|\badmit\b|^\s*axiom\s|native_decide|bv_decide|implemented_by|\bunsafe\s|maxHeartbeats\s+0\b|\bopaque\b|@\[extern|@\[csimp")


def strip_lean_comments(text):
    out, i, depth, n = [], 0, 0, len(text)
    while i < n:
        if text.startswith("/-", i):
            depth += 1
            i += 2
            continue
        if depth > 0:
            if text.startswith("-/", i):
                depth -= 1
                i += 2
            else:
                if text[i] == "\n":
                    out.append("\n")
                i += 1
            continue
        if text.startswith("--", i):
            while i < n and text[i] != "\n":
                i += 1
            continue
        out.append(text[i])
        i += 1
    return "".join(out)


def grep_forbidden():
    hits = []
    for p in sorted(LEAN.rglob("*.lean")):
        if ".lake" in p.parts:
            continue
        body = strip_lean_comments(p.read_text())
        for ln, line in enumerate(body.split("\n"), 1):
            if FORBIDDEN.search(line):
                hits.append("%s:%d: %s" % (p.relative_to(LEAN), ln, line.strip()[:120]))
    return hits


def audit(prop):
    """Build the theorem module, print axioms and statements of every obligation of `prop`.
    Returns dict(ok, obligations=[{name, axioms, statement, ok, why}], log)."""
    res = {"ok": True, "obligations": [], "log": "", "forbidden": []}
    rc, log = lean_build(["bfl_driver", "BFL.Props.%s" % prop])
    res["log"] = log[-4000:]
    res["build_ok"] = (rc == 0)
    if rc != 0:
        res["ok"] = False
    res["forbidden"] = grep_forbidden()
    if res["forbidden"]:
        res["ok"] = False
    obl_file = VERIF / "obligations" / (prop + ".json")
    names = json.loads(obl_file.read_text()) if obl_file.exists() else []
    lock_file = VERIF / "locks" / (prop + ".json")
    lock = json.loads(lock_file.read_text()) if lock_file.exists() else {}
    if not names:
        res["ok"] = False
        return res
    # generated audit file
    auddir = LEAN / ".lake" / "audit"
    auddir.mkdir(parents=True, exist_ok=True)
    af = auddir / ("Audit%s.lean" % prop)
    body = ["import BFL.Props.%s" % prop, "open BFL", "set_option pp.fieldNotation.generalized false", "set_option linter.all false"]
    for nm in names:
        body.append('#eval IO.println "@@BEGIN %s"' % nm)
        body.append("#check @%s" % nm)
        body.append('#eval IO.println "@@AXIOMS %s"' % nm)
        body.append("#print axioms %s" % nm)
        body.append('#eval IO.println "@@END %s"' % nm)
    af.write_text("\n".join(body) + "\n")
    with lean_locked():
        rc, o, e = sh(["lake", "env", "lean", str(af)], cwd=str(LEAN))
    txt = o + e
    res["audit_log"] = txt[-3000:] if rc != 0 else ""
    for nm in names:
        ob = {"name": nm, "ok": False, "axioms": None, "statement": None, "why": ""}
        m = re.search(r"@@BEGIN %s\n(.*?)@@AXIOMS %s\n(.*?)@@END %s\n" % (re.escape(nm), re.escape(nm), re.escape(nm)), txt, re.S)
        if not m:
            ob["why"] = "theorem missing or audit file failed to elaborate"
        else:
            stmt = " ".join(m.group(1).split())
            ax_txt = m.group(2)
            ob["statement"] = stmt
            if "does not depend on any axioms" in ax_txt:
                axioms = []
            else:
                mm = re.search(r"depends on axioms: \[(.*?)\]", ax_txt, re.S)
                axioms = [a.strip() for a in mm.group(1).replace("\n", " ").split(",")] if mm else None
            ob["axioms"] = axioms
            bad_elab = re.search(r"(^|\n)\S*:\d+:\d+: error|unknown (constant|identifier)", m.group(1)) is not None
            if axioms is None or bad_elab:
                ob["why"] = "could not read axioms / statement"
            elif not set(axioms) <= STD_AXIOMS:
                ob["why"] = "non-standard axioms: %s" % sorted(set(axioms) - STD_AXIOMS)
            elif "sorryAx" in ax_txt:
                ob["why"] = "depends on sorry"
            else:
                h = hashlib.sha256(stmt.encode()).hexdigest()[:16]
                ob["stmt_hash"] = h
                want = lock.get(nm)
                if want is None:
                    ob["why"] = "statement not in locks/<id>.json"
                elif want["hash"] != h:
                    ob["why"] = "statement differs from locks/<id>.json"
                else:
                    ob["ok"] = True
        if not ob["ok"]:
            res["ok"] = False
        res["obligations"].append(ob)
    return res


def leanchecker(modules):
    """independent re-check of compiled oleans (thorough tier)"""
    bad = []
    for m in modules:
        with lean_locked():
            rc, o, e = sh(["lake", "env", "leanchecker", m], cwd=str(LEAN), timeout=3600)
        if rc != 0:
            bad.append((m, (o + e)[-500:]))
    return bad


# --------------------------------------------------------------------------- reporting

def load_known():
    known, fixed = [], []
    p = VERIF / "known_findings.txt"
    if p.exists():
        for line in p.read_text().split("\n"):
            line = line.strip()
            if line.startswith("known:"):
                m = re.match(r"known:\s+property=(\S+)\s+key=(\S+)\s+(.*)", line)
                if m:
                    known.append({"property": m.group(1), "key": m.group(2), "what": m.group(3)})
            elif line.startswith("fixed:"):
                fixed.append(line)
    return known, fixed


class Ctx:
    def __init__(self, prop, tier, seed, replay=None):
        self.prop, self.tier, self.seed, self.replay = prop, tier, seed, replay
        self.t0 = time.time()
        self.violations = []      # dict(key, what, replay_data, no_input)
        self.known_hits = []
        self.coverage = {}
        self.assumptions = []
        self.level = "proof"
        self.notes = []
        self.known, self.fixed = load_known()

    def quick(self):
        return self.tier == "quick"

    def n(self, quick, thorough):
        return quick if self.tier == "quick" else thorough

    def gen(self, stream=""):
        return Gen(self.seed, "%s/%s" % (self.prop, stream))

    # ---- results
    def violation(self, key, what, data, no_input=False):
        """key identifies the failing input / call site / history class (matched against
        known_findings.txt); data is what the replay file records."""
        for k in self.known:
            if k["property"] == self.prop and k["key"] == key:
                if key not in [h["key"] for h in self.known_hits]:
                    self.known_hits.append({"key": key, "what": k["what"], "example": data})
                return
        self.violations.append({"key": key, "what": what, "data": data, "no_input": no_input})

    def proof_stage(self, extra_obligations=0):
        a = audit(self.prop)
        self.audit = a
        n_ob = len(a["obligations"])
        n_ok = sum(1 for o in a["obligations"] if o["ok"])
        self.coverage.update({
            "obligations": n_ob, "discharged": n_ok,
            "checker_cmd": "lake build BFL.Props.%s && lake env lean <generated #print axioms / #check file> (vlib.audit)" % self.prop,
            "theorems": [{"name": o["name"], "axioms": o["axioms"], "ok": o["ok"]} for o in a["obligations"]],
        })
        if self.tier == "thorough":
            # independent re-check of the compiled files of the property's own modules
            mods = ["BFL.Props.%s" % self.prop]
            bad = leanchecker(mods)
            self.coverage["leanchecker"] = {"modules": mods, "failed": [b[0] for b in bad]}
            if bad:
                a["ok"] = False
                a.setdefault("leanchecker_bad", bad)
        if not a["ok"]:
            why = []
            if not a.get("build_ok", True):
                why.append("lake build failed: " + a["log"][-1500:])
            if a["forbidden"]:
                why.append("forbidden tokens: " + "; ".join(a["forbidden"][:5]))
            for o in a["obligations"]:
                if not o["ok"]:
                    why.append("%s: %s" % (o["name"], o["why"]))
            if n_ob == 0:
                why.append("no obligations registered")
            for m, log in a.get("leanchecker_bad", []):
                why.append("leanchecker rejected %s: %s" % (m, log))
            self.proof_failure = why
        else:
            self.proof_failure = None
        return a["ok"]

    def finish(self):
        # a broken proof obligation with no failing input found
        if getattr(self, "proof_failure", None) and not self.violations:
            self.violations.append({"key": "proof-obligation", "what": "; ".join(self.proof_failure)[:1500],
                                    "data": {"theorems_not_checking": self.proof_failure}, "no_input": True})
        wall = time.time() - self.t0
        cov = dict(self.coverage)
        if BENIGN_UBSAN_CASES:
            cov["eigen_null_reference_reports_tolerated"] = {"cases": len(BENIGN_UBSAN_CASES), "first": BENIGN_UBSAN_CASES[0],
                "note": "UBSan 'reference binding to null pointer' raised inside Eigen's headers on an empty operand, case re-run to completion; see vlib.benign_ubsan"}
        cov.setdefault("trusted_base", [
            "Lean 4.33.0 kernel", "Mathlib v4.33.0", "axioms: propext, Classical.choice, Quot.sound only (audited per theorem on this run)",
            "correspondence harness + generators + tolerances (differential testing of model vs implementation)",
            "g++/Eigen/libstdc++/libm, sanitizers", "Lean compiler/runtime executing the model (Rat / Float)"])
        ev = {
            "property_id": self.prop, "tier": self.tier, "seed": self.seed, "level": self.level,
            "coverage": cov, "assumptions": self.assumptions, "wall_s": round(wall, 2),
            "violations": len(self.violations),
            "known_findings_hit": [h["key"] for h in self.known_hits],
            "notes": self.notes,
        }
        # a coverage-instrumented run (tools/tiecov.py) is a measurement of the tie, not a check: its
        # evidence goes next to the coverage build, never over the evidence of the sanitizer run
        # likewise a run against a scratch copy of the repository (BFL_REPO: seeded changes, harmless rewrites)
        # never overwrites the evidence of the run against /repo itself
        evdir = (BUILD / "cov" / "evidence") if TIECOV else ((VERIF / "evidence") if str(REPO) == "/repo" else (BUILD / "evidence"))
        evdir.mkdir(parents=True, exist_ok=True)
        (evdir / (self.prop + ".json")).write_text(json.dumps(ev, indent=1, default=str) + "\n")
        for h in self.known_hits:
            print("KNOWN-FINDING: property=%s %s" % (self.prop, h["what"]))
        rc = 0
        if self.violations:
            (VERIF / "replays").mkdir(exist_ok=True)
            seen = set()
            for v in self.violations:
                if v["key"] in seen:
                    continue
                seen.add(v["key"])
                body = {"property": self.prop, "key": v["key"], "what": v["what"], "seed": self.seed, "tier": self.tier,
                        "replay": v["data"]}
                h = hashlib.sha256(json.dumps(body, sort_keys=True, default=str).encode()).hexdigest()[:10]
                path = VERIF / "replays" / ("%s-%s.json" % (self.prop, h))
                path.write_text(json.dumps(body, indent=1, default=str) + "\n")
                print("# %s" % v["what"][:600])
                print("VIOLATION property=%s replay=%s%s" % (self.prop, path, " no-failing-input-found" if v["no_input"] else ""))
            rc = 1
        print("%s %s tier=%s seed=%s wall=%.1fs obligations=%s/%s violations=%d known=%d" % (
            "PASS" if rc == 0 else "FAIL", self.prop, self.tier, self.seed, wall,
            cov.get("discharged"), cov.get("obligations"), len(self.violations), len(self.known_hits)))
        return rc


def close(d, q, tol):
    """|d - q| <= tol, d float/Fraction, q Fraction"""
    return abs(Fraction(d) - q) <= tol
